import RrModel.Go.Strings
import RrModel.Go.Strconv
/-
  `time.Parse(time.RFC1123, s)` and `time.Parse(time.RFC1123Z, s)` followed by `.Unix()`,
  re-implemented from the Go 1.23.5 source (`time/format.go`: `parse`, `skip`, `lookup`,
  `match`, `getnum`, `parseTimeZone`, `parseGMT`, `parseSignedOffset`; `time.Date`).

      RFC1123  = "Mon, 02 Jan 2006 15:04:05 MST"
      RFC1123Z = "Mon, 02 Jan 2006 15:04:05 -0700"

  Result: epoch seconds, `none` for every parse error.  Declared domain (DESIGN Appendix D):
  the harness runs with `time.Local = UTC`, so a zone abbreviation other than `UTC` is a
  "fabricated location with zero offset" — the instant is the wall-clock fields read as UTC
  (also for `GMT+3`, whose offset Go records in the Location but does not apply).
  Quirks of `time.Parse` that are reproduced because rrrouter's behaviour runs through them:
  names are matched case-insensitively; a blank in the layout matches any run of blanks
  (also none at the end of the input); the hour may have one digit; a fractional second
  `.ddd` / `,ddd` after the seconds is accepted and ignored; the weekday is not checked
  against the date.
-/
namespace Go.Time

def isLeap (y : Nat) : Bool := y % 4 == 0 && (y % 100 != 0 || y % 400 == 0)

/-- `time.daysIn` -/
def daysIn (m y : Nat) : Nat :=
  if m = 2 then (if isLeap y then 29 else 28)
  else if m = 4 ∨ m = 6 ∨ m = 9 ∨ m = 11 then 30
  else 31

/-- days from 1970-01-01 to the proleptic Gregorian date `y-m-d` (days-from-civil), for
    `y ≥ 0`, `1 ≤ m ≤ 12`, `1 ≤ d`; computed in `Nat` after shifting by one 400-year era -/
def daysFromCivil (y m d : Nat) : Int :=
  let yy := y + 400 - (if m ≤ 2 then 1 else 0)
  let era := yy / 400
  let yoe := yy % 400
  let mp := (m + 9) % 12
  let doy := (153 * mp + 2) / 5 + d - 1
  let doe := yoe * 365 + yoe / 4 - yoe / 100 + doy
  ((era * 146097 + doe : Nat) : Int) - 719468 - 146097

/-- `time.Date(y, m, d, hh, mm, ss, 0, time.UTC).Unix()` for in-range fields -/
def unixOf (y m d hh mm ss : Nat) : Int :=
  daysFromCivil y m d * 86400 + ((hh * 3600 + mm * 60 + ss : Nat) : Int)

/-- `time.Time{}.Unix()`: what `time.Parse` returns next to an error -/
def zeroTimeUnix : Int := -62135596800

def isDig (c : Nat) : Bool := 48 ≤ c && c ≤ 57

/-- one byte of `time.match`: equal, or equal after `|= 0x20` and then a lower-case letter -/
def matchByte (c1 c2 : Nat) : Bool :=
  c1 == c2 || ((c1 ||| 32) == (c2 ||| 32) && 97 ≤ (c1 ||| 32) && (c1 ||| 32) ≤ 122)

/-- `time.match` on two strings of equal length -/
def matchFold : Bytes → Bytes → Bool
  | [], [] => true
  | a :: s, b :: t => matchByte a b && matchFold s t
  | _, _ => false

/-- `time.lookup`: index of the first table entry that `val` starts with (case-folded) -/
def lookup : List Bytes → Bytes → Nat → Option (Nat × Bytes)
  | [], _, _ => none
  | v :: tab, val, i =>
    if v.length ≤ val.length && matchFold (val.take v.length) v then some (i, val.drop v.length)
    else lookup tab val (i + 1)

def shortDayNames : List Bytes := [b!"Sun", b!"Mon", b!"Tue", b!"Wed", b!"Thu", b!"Fri", b!"Sat"]
def shortMonthNames : List Bytes :=
  [b!"Jan", b!"Feb", b!"Mar", b!"Apr", b!"May", b!"Jun", b!"Jul", b!"Aug", b!"Sep", b!"Oct", b!"Nov", b!"Dec"]

/-- `time.skip value " "`: error if the value goes on with a non-blank, else drop all blanks -/
def skipBlank (v : Bytes) : Option Bytes :=
  match v with
  | [] => some []
  | c :: _ => if c ≠ 32 then none else some (v.dropWhile (· == 32))

/-- `time.skip value "<c>"` for a non-blank literal byte -/
def skipLit (c : Nat) (v : Bytes) : Option Bytes :=
  match v with
  | [] => none
  | d :: t => if d = c then some t else none

/-- `time.getnum` -/
def getnum (s : Bytes) (fixed : Bool) : Option (Nat × Bytes) :=
  match s with
  | [] => none
  | a :: t =>
    if !isDig a then none
    else match t with
      | [] => if fixed then none else some (a - 48, [])
      | b :: u =>
        if !isDig b then (if fixed then none else some (a - 48, b :: u))
        else some ((a - 48) * 10 + (b - 48), u)

/-- the `stdLongYear` case: four bytes, all digits -/
def getYear (v : Bytes) : Option (Nat × Bytes) :=
  if v.length < 4 then none
  else
    let p := v.take 4
    if p.all isDig then (digitsVal p 0).map (fun y => (y, v.drop 4)) else none

/-- the fractional-second special case after `stdZeroSecond` (layout has no fraction) -/
def skipFraction (v : Bytes) : Bytes :=
  match v with
  | c :: d :: t => if (c == 46 || c == 44) && isDig d then t.dropWhile isDig else v
  | _ => v

def guardO (b : Bool) : Option Unit := if b then some () else none

structure Fields where
  year : Nat
  month : Nat
  day : Nat
  hour : Nat
  min : Nat
  sec : Nat
  deriving Repr, DecidableEq

/-- the part both layouts share: `Mon, 02 Jan 2006 15:04:05 ` ; returns the fields and the
    rest of the value (the zone) -/
def parseCommon (v : Bytes) : Option (Fields × Bytes) := do
  let (_, v) ← lookup shortDayNames v 0
  let v ← skipLit 44 v
  let v ← skipBlank v
  let (day, v) ← getnum v true
  let v ← skipBlank v
  let (mi, v) ← lookup shortMonthNames v 0
  let v ← skipBlank v
  let (year, v) ← getYear v
  let v ← skipBlank v
  let (hour, v) ← getnum v false
  guardO (decide (hour < 24))
  let v ← skipLit 58 v
  let (mn, v) ← getnum v true
  guardO (decide (mn < 60))
  let v ← skipLit 58 v
  let (sec, v) ← getnum v true
  guardO (decide (sec < 60))
  let v := skipFraction v
  let v ← skipBlank v
  pure ({ year := year, month := mi + 1, day := day, hour := hour, min := mn, sec := sec }, v)

/-- "Validate the day of the month" at the end of `time.parse` -/
def dayOk (f : Fields) : Bool := 1 ≤ f.day && f.day ≤ daysIn f.month f.year

def Fields.unix (f : Fields) : Int := unixOf f.year f.month f.day f.hour f.min f.sec

/-- `time.parseSignedOffset`: length of `±digits` with value ≤ 23, else 0 -/
def parseSignedOffset (v : Bytes) : Nat :=
  match v with
  | [] => 0
  | s :: t =>
    if s ≠ 45 ∧ s ≠ 43 then 0
    else
      let ds := t.takeWhile isDig
      if ds.isEmpty then 0
      else match digitsVal ds 0 with
        | some x => if x > 23 then 0 else 1 + ds.length
        | none => 0

/-- number of leading upper-case letters, counted up to 6 -/
def countUpper : Bytes → Nat → Nat
  | _, 0 => 0
  | [], _ => 0
  | c :: t, n + 1 => if 65 ≤ c ∧ c ≤ 90 then 1 + countUpper t n else 0

/-- `time.parseTimeZone`: length of the zone abbreviation at the start of `v` -/
def parseTimeZone (v : Bytes) : Option Nat :=
  if v.length < 3 then none
  else if v.take 4 = b!"ChST" ∨ v.take 4 = b!"MeST" then some 4
  else if v.take 3 = b!"GMT" then
    (let r := v.drop 3
     if r.isEmpty then some 3 else some (3 + parseSignedOffset r))
  else if v.head? = some 43 ∨ v.head? = some 45 then
    (let n := parseSignedOffset v
     if n > 0 then some n else none)
  else
    match countUpper v 6 with
    | 3 => some 3
    | 4 => if v[3]? = some 84 ∨ v.take 4 = b!"WITA" then some 4 else none
    | 5 => if v[4]? = some 84 then some 5 else none
    | _ => none

/-- `time.Parse(time.RFC1123, s)` then `.Unix()` -/
def parseRFC1123 (s : Bytes) : Option Int := do
  let (f, v) ← parseCommon s
  let rest ←
    (if v.take 3 = b!"UTC" then some (v.drop 3)
     else (parseTimeZone v).map (fun n => v.drop n))
  if !rest.isEmpty then none
  else if !dayOk f then none
  else pure f.unix

/-- `time.Parse(time.RFC1123Z, s)` then `.Unix()` -/
def parseRFC1123Z (s : Bytes) : Option Int := do
  let (f, v) ← parseCommon s
  match v with
  | sg :: h1 :: h2 :: m1 :: m2 :: rest =>
    if !(isDig h1 && isDig h2 && isDig m1 && isDig m2) then none
    else
      let hr := (h1 - 48) * 10 + (h2 - 48)
      let mm := (m1 - 48) * 10 + (m2 - 48)
      if hr > 24 ∨ mm > 60 then none
      else if sg ≠ 43 ∧ sg ≠ 45 then none
      else if !rest.isEmpty then none
      else if !dayOk f then none
      else
        let off : Int := (((hr * 60 + mm) * 60 : Nat) : Int)
        pure (if sg = 45 then f.unix + off else f.unix - off)
  | _ => none

/-- the loop of caching.go:227-234 followed by `.Unix()`: RFC1123, then RFC1123Z; after two
    failures the variable holds the zero `Time` of the last failed `time.Parse` -/
def expiresUnix (s : Bytes) : Int :=
  match parseRFC1123 s with
  | some t => t
  | none =>
    match parseRFC1123Z s with
    | some t => t
    | none => zeroTimeUnix

end Go.Time
