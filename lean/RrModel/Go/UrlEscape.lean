import RrModel.Go.Url
/-
  `net/url` below the split level, path mode only: `shouldEscape`, `unescape`, `escape`,
  `validEncoded` (all for `encodePath`), `URL.setPath` + `URL.EscapedPath`, and
  `URL.RequestURI` of a URL produced by `url.Parse`.  Go 1.23 text (url.go:102-177, 200-270,
  691-755, 1165-1181).  Under L1 correspondence through the stream `override`.
  Declared domain: the authority is well-formed (host without %-escapes, numeric port, no
  userinfo errors) — `parseAuthority`'s validation is not modelled, only its `@` cut.
-/
namespace Go.UrlEsc
open Go.Url

def isAlnum (c : Nat) : Bool := isAlpha c || (48 ≤ c && c ≤ 57)

/-- `shouldEscape(c, encodePath)` -/
def shouldEscapePath (c : Nat) : Bool :=
  if isAlnum c then false
  else if [45, 95, 46, 126].contains c then false                       -- - _ . ~
  else if [36, 38, 43, 44, 47, 58, 59, 61, 64].contains c then false    -- $ & + , / : ; = @
  else true                                                             -- `?` and everything else

def unhex (c : Nat) : Nat :=
  if 48 ≤ c ∧ c ≤ 57 then c - 48 else if 97 ≤ c ∧ c ≤ 102 then c - 87
  else if 65 ≤ c ∧ c ≤ 70 then c - 55 else 0

/-- `unescape(s, encodePath)`; `none` = `EscapeError` -/
def unescapePath : Bytes → Option Bytes
  | [] => some []
  | 37 :: a :: b :: t =>
    if isHex a && isHex b then (unescapePath t).map ((unhex a * 16 + unhex b) :: ·) else none
  | 37 :: _ => none
  | c :: t => (unescapePath t).map (c :: ·)

def upperHexDigit (n : Nat) : Nat := if n < 10 then 48 + n else 55 + n

/-- `escape(s, encodePath)` -/
def escapePath (s : Bytes) : Bytes :=
  s.flatMap fun c =>
    if shouldEscapePath c then [37, upperHexDigit (c / 16 % 16), upperHexDigit (c % 16)] else [c]

/-- `validEncoded(s, encodePath)` -/
def validEncodedPath (s : Bytes) : Bool :=
  s.all fun c =>
    [33, 36, 38, 39, 40, 41, 42, 43, 44, 59, 61, 58, 64, 91, 93, 37].contains c || !shouldEscapePath c

/-- `u.setPath(p)` followed by `u.EscapedPath()`: the path as written when it is a valid
    encoding, else the default escaping of its decoded form; `none` = `setPath` error -/
def escapedPath (p : Bytes) : Option Bytes :=
  match unescapePath p with
  | none => none
  | some path =>
    let escp := escapePath path
    if p = escp then some p                     -- RawPath = "": EscapedPath = escape(Path) = p
    else if validEncodedPath p then some p      -- RawPath = p, a valid encoding of Path
    else if path = b!"*" then some b!"*"
    else some escp

/-- the `?query` suffix of `RequestURI` / `String` -/
def querySuffix (u : Split) : Bytes :=
  if u.forceQuery ∨ u.rawQuery ≠ [] then 63 :: u.rawQuery else []

/-- the path part of `RequestURI`: an empty path goes on the wire as `/` -/
def wirePath (p : Bytes) : Bytes := if p = [] then b!"/" else p

/-- `u.RequestURI()` for `u` = result of `url.Parse`; `none` = `url.Parse` failed below the
    split level: `setPath` (malformed `%` escape in the path) or `setFragment` (in the fragment) -/
def requestURI (u : Split) : Option Bytes :=
  if ¬ escapesOk u.fragment then none
  else if u.opaq ≠ [] then some (u.opaq ++ querySuffix u)      -- an opaque part never starts with `//`
  else
    match escapedPath u.path with
    | none => none
    | some p => some (wirePath p ++ querySuffix u)

/-- `u.Host` at split level: the authority after the last `@` (userinfo cut of `parseAuthority`) -/
def hostOfAuthority (a : Bytes) : Bytes :=
  match lastIndex b!"@" a with
  | none => a
  | some i => a.drop (i + 1)

end Go.UrlEsc
