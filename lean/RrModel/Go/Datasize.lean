import RrModel.Go.Strings
import RrModel.Go.Strconv
/-
  `github.com/c2h5oh/datasize` `(*ByteSize).UnmarshalText` (datasize.go:118-217), the only
  function of that package rrrouter calls (caching.ParseStorageConfigs): a decimal uint64,
  optional white space, optional unit.  `none` = any error (syntax, range, "bits").
  Declared domain: ASCII (the unit is passed through strings.TrimSpace / strings.ToLower).
-/
namespace Go

def maxUint64 : Nat := 18446744073709551615

/-- the `ParseLoop`: leading digits; `none` = Overflow. `val > cutoff` before the multiplication
    and the wrap-around test after it together are exactly `val*10+c > maxUint64`. -/
def dsDigits : Bytes → Nat → Option (Nat × Bytes)
  | [], val => some (val, [])
  | c :: t, val =>
    if isDigit c then
      if val * 10 + (c - 48) > maxUint64 then none else dsDigits t (val * 10 + (c - 48))
    else some (val, c :: t)

/-- the unit switch after `strings.ToLower`: the binary exponent of the multiplier -/
def dsUnitShift (u : Bytes) : Option Nat :=
  if u = b!"" ∨ u = b!"b" ∨ u = b!"byte" then some 0
  else if u = b!"k" ∨ u = b!"kb" ∨ u = b!"kilo" ∨ u = b!"kilobyte" ∨ u = b!"kilobytes" then some 10
  else if u = b!"m" ∨ u = b!"mb" ∨ u = b!"mega" ∨ u = b!"megabyte" ∨ u = b!"megabytes" then some 20
  else if u = b!"g" ∨ u = b!"gb" ∨ u = b!"giga" ∨ u = b!"gigabyte" ∨ u = b!"gigabytes" then some 30
  else if u = b!"t" ∨ u = b!"tb" ∨ u = b!"tera" ∨ u = b!"terabyte" ∨ u = b!"terabytes" then some 40
  else if u = b!"p" ∨ u = b!"pb" ∨ u = b!"peta" ∨ u = b!"petabyte" ∨ u = b!"petabytes" then some 50
  else if u = b!"e" ∨ u = b!"eb" then some 60
  else none

/-- units spelled with a capital prefix and a lower-case `b` are bits: `ErrBits` -/
def dsBitsUnits : List Bytes := [b!"Kb", b!"Mb", b!"Gb", b!"Tb", b!"Pb", b!"Eb"]

/-- `ByteSize.UnmarshalText`: the number of bytes, `none` on any error. A text that starts
    with a non-digit is a syntax error; the EMPTY text is `0` bytes (no error). -/
def datasizeParse (t : Bytes) : Option Nat :=
  match t with
  | c :: _ => if isDigit c then datasizeRest t else none
  | [] => datasizeRest t
where
  datasizeRest (t : Bytes) : Option Nat :=
    match dsDigits t 0 with
    | none => none
    | some (val, rest) =>
      let unit := trimSpace rest
      if dsBitsUnits.contains unit then none
      else match dsUnitShift (toLower unit) with
        | none => none
        | some sh => if val > maxUint64 / 2 ^ sh then none else some (val * 2 ^ sh)

end Go
