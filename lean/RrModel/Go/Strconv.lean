import RrModel.Go.Strings
/-
  `strconv.Atoi` / `strconv.ParseInt(s, 10, 64)` / `strconv.Itoa` / `FormatInt(·, 10)`.
  Optional single sign, at least one digit, digits only, range error outside int64.
-/
namespace Go

def isDigit (c : Nat) : Bool := 48 ≤ c && c ≤ 57

/-- value of a digit string, `none` if a non-digit occurs; accumulates left to right -/
def digitsVal : Bytes → Nat → Option Nat
  | [], acc => some acc
  | c :: t, acc => if isDigit c then digitsVal t (acc * 10 + (c - 48)) else none

def maxInt64 : Int := 9223372036854775807
def minInt64 : Int := -9223372036854775808

/-- `strconv.ParseInt(s, 10, 64)`; `none` = any error (syntax or range) -/
def parseInt (s : Bytes) : Option Int :=
  match s with
  | [] => none
  | 45 :: t =>   -- '-'
    if t.isEmpty then none else
    match digitsVal t 0 with
    | some v => if -(v : Int) < minInt64 then none else some (-(v : Int))
    | none => none
  | 43 :: t =>   -- '+'
    if t.isEmpty then none else
    match digitsVal t 0 with
    | some v => if (v : Int) > maxInt64 then none else some (v : Int)
    | none => none
  | _ =>
    match digitsVal s 0 with
    | some v => if (v : Int) > maxInt64 then none else some (v : Int)
    | none => none

/-- `strconv.Atoi` on a 64-bit platform -/
def atoi (s : Bytes) : Option Int := parseInt s

def natDigits (n : Nat) : Bytes := (Nat.toDigits 10 n).map (·.toNat)

/-- `strconv.Itoa` / `strconv.FormatInt(·, 10)` -/
def itoa (i : Int) : Bytes :=
  if i < 0 then 45 :: natDigits i.natAbs else natDigits i.natAbs

end Go
