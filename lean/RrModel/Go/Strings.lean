import RrModel.Go.Bytes
/-
  The subset of Go's `strings` package that rrrouter calls, with Go's semantics, written by
  structural recursion so that the functions are both executable (driver) and provable.
  Every function here is under L1 correspondence (stream `str`).
-/
namespace Go

/-- `strings.HasPrefix s p` -/
def hasPrefix (s p : Bytes) : Bool := p.isPrefixOf s

/-- `strings.HasSuffix s p` -/
def hasSuffix (s p : Bytes) : Bool := p.reverse.isPrefixOf s.reverse

/-- `strings.Index s sep` (`none` = -1) -/
def index (sep : Bytes) : Bytes → Option Nat
  | [] => if sep.isEmpty then some 0 else none
  | c :: t => if sep.isPrefixOf (c :: t) then some 0 else (index sep t).map (· + 1)

/-- `strings.Contains s sub` -/
def contains (s sub : Bytes) : Bool := (index sub s).isSome

/-- `strings.LastIndex s sep` for a non-empty `sep` (`none` = -1) -/
def lastIndex (sep : Bytes) : Bytes → Option Nat
  | [] => none
  | c :: t =>
    match lastIndex sep t with
    | some i => some (i + 1)
    | none => if sep.isPrefixOf (c :: t) then some 0 else none

/-- `strings.IndexByte` -/
def indexByte (c : Nat) : Bytes → Option Nat
  | [] => none
  | d :: t => if d = c then some 0 else (indexByte c t).map (· + 1)

/-- worker of `split`: `skip` = bytes of an already matched separator still to be passed,
    `cur` = current part, reversed -/
def splitGo (sep : Bytes) : Bytes → Nat → Bytes → List Bytes
  | [], _, cur => [cur.reverse]
  | _ :: t, skip + 1, cur => splitGo sep t skip cur
  | c :: t, 0, cur =>
    if sep.isPrefixOf (c :: t) then cur.reverse :: splitGo sep t (sep.length - 1) []
    else splitGo sep t 0 (c :: cur)

/-- `strings.Split s sep` for a non-empty `sep` -/
def split (s sep : Bytes) : List Bytes := splitGo sep s 0 []

/-- split on a single byte (the common case, with a simpler recursion for proofs) -/
def split1 (c : Nat) : Bytes → List Bytes
  | [] => [[]]
  | d :: t =>
    if d = c then [] :: split1 c t
    else match split1 c t with
      | [] => [[d]]            -- unreachable: split1 never returns []
      | p :: ps => (d :: p) :: ps

/-- `strings.SplitN s sep 2` for a non-empty `sep`: cut at the first occurrence -/
def splitN2 (s sep : Bytes) : List Bytes :=
  match index sep s with
  | none => [s]
  | some i => [s.take i, s.drop (i + sep.length)]

/-- `strings.Join` -/
def join (sep : Bytes) : List Bytes → Bytes
  | [] => []
  | [p] => p
  | p :: q :: ps => p ++ sep ++ join sep (q :: ps)

/-- `strings.Replace s old new 1` for a non-empty `old` -/
def replaceFirst (s old new : Bytes) : Bytes :=
  match index old s with
  | none => s
  | some i => s.take i ++ new ++ s.drop (i + old.length)

/-- `strings.TrimLeft s cutset` -/
def trimLeft (cutset : Bytes) : Bytes → Bytes
  | [] => []
  | c :: t => if cutset.contains c then trimLeft cutset t else c :: t

/-- `strings.TrimRight s cutset` -/
def trimRight (cutset : Bytes) (s : Bytes) : Bytes := (trimLeft cutset s.reverse).reverse

/-- `strings.Trim s cutset` -/
def trim (cutset : Bytes) (s : Bytes) : Bytes := trimRight cutset (trimLeft cutset s)

/-- ASCII white space as in `strings.TrimSpace` (for ASCII input): \t \n \v \f \r space -/
def asciiSpace : Bytes := [9, 10, 11, 12, 13, 32]

/-- `strings.TrimSpace` on the declared domain (bytes < 0x80, plus 0x85/0xA0 never trimmed) -/
def trimSpace (s : Bytes) : Bytes := trim asciiSpace s

/-- `strings.TrimPrefix` -/
def trimPrefix (s p : Bytes) : Bytes := if hasPrefix s p then s.drop p.length else s

/-- `strings.TrimSuffix` -/
def trimSuffix (s p : Bytes) : Bytes := if hasSuffix s p then s.take (s.length - p.length) else s

def lowerByte (c : Nat) : Nat := if 65 ≤ c ∧ c ≤ 90 then c + 32 else c
def upperByte (c : Nat) : Nat := if 97 ≤ c ∧ c ≤ 122 then c - 32 else c

/-- `strings.ToLower` on ASCII (declared domain: no bytes ≥ 0x80 where the result matters) -/
def toLower (s : Bytes) : Bytes := s.map lowerByte

/-- `strings.FieldsFunc s (· == c)` : non-empty maximal runs without `c` -/
def fieldsBy (c : Nat) (s : Bytes) : List Bytes := (split1 c s).filter (· ≠ [])

/-- Go slice expression `s[i:]`, `none` when `i > len(s)` (run-time panic) -/
def sliceFrom (s : Bytes) (i : Nat) : Option Bytes := if i ≤ s.length then some (s.drop i) else none

/-- Go slice expression `s[:j]`, `none` when `j > len(s)` (run-time panic) -/
def sliceTo (s : Bytes) (j : Nat) : Option Bytes := if j ≤ s.length then some (s.take j) else none

end Go
