import RrModel.Go.Strings
import RrModel.Go.Strconv
import RrModel.Go.Res
import RrModel.Generated.Facts
/-
  caching/disk.go — the size limiter as a state machine, written branch for branch:
  `runSizeLimiter` (524-629), `purgeableItemNames` (641-679), `readFiles` (484-522),
  `readStorableAccessTimes` (696-745), `flushStorableAccessTimes` (751-897),
  `setAccessTime` (899-904), `closeFinisher` in `GetWriter` (328-337).

  Go maps are total functions with point update (`get`) — that is what the proofs use — plus a
  duplicate-free list of every key ever written (`keys`) so that the driver can enumerate.
  Where Go's random map iteration order decides the result (which unknown-atime items are
  purged, the order of equal access times after `sort.Slice`, the order of the lines a flush
  appends) the model function takes the order as an extra argument (`Hints`); `validPurge` /
  `validFlushOrder` say which orders a Go run may produce.  The theorems quantify over every
  valid order; the driver feeds the order the implementation chose.
-/
namespace Model.Limiter
open Go

abbrev Name := Bytes

/-! ### maps -/

def upd {V : Type} (f : Name → Option V) (n : Name) (v : Option V) : Name → Option V :=
  fun m => if m = n then v else f m

structure KMap (V : Type) where
  get : Name → Option V
  keys : List Name

namespace KMap
variable {V : Type}
def empty : KMap V := { get := fun _ => none, keys := [] }
def set (m : KMap V) (n : Name) (v : V) : KMap V :=
  { get := upd m.get n (some v), keys := if n ∈ m.keys then m.keys else m.keys ++ [n] }
def del (m : KMap V) (n : Name) : KMap V :=
  { get := upd m.get n none, keys := m.keys }
/-- the keys currently present -/
def dom (m : KMap V) : List Name := m.keys.filter fun n => (m.get n).isSome
def has (m : KMap V) (n : Name) : Bool := (m.get n).isSome
/-- present bindings in key-list order -/
def toList (m : KMap V) : List (Name × V) :=
  m.keys.filterMap fun n => (m.get n).map fun v => (n, v)
end KMap

/-! ### uint32 arithmetic (the truncations C16 is about) -/

def two32 : Nat := 4294967296

/-- `uint32(i)` for an `int64`/`int` value -/
def u32 (i : Int) : Nat := (i % (two32 : Int)).toNat

/-- `uint32(size / 1024)` (disk.go:334, 513, 901) -/
def kbOfSize (size : Nat) : Nat := (size / Facts.kbDivisor) % two32

/-- `int64(sizeKilobytes * 1024)`: the multiplication is a `uint32` multiplication -/
def kbBytes (kb : Nat) : Int := ((kb * 1024) % two32 : Nat)

/-- `accessTime(time.Now().Unix() - s.startedAt)` -/
def atimeOf (now startedAt : Int) : Nat := u32 (now - startedAt)

/-! ### state -/

structure Accessed where
  atime : Nat
  kb : Nat
  deriving DecidableEq, Repr

structure Storable where
  unix : Int
  kb : Nat
  deriving DecidableEq, Repr

structure LState where
  sizeBytes : Int := 0
  withA : KMap Accessed := KMap.empty
  without : KMap Nat := KMap.empty
  storable : KMap Storable := KMap.empty
  startedAt : Int
  max : Int
  lastRun : Int

/-- `VerifNewLimiter` / `NewDiskStorage` + `lastRun := time.Now().Add(-sleepTime)` -/
def newState (max startedAt : Int) : LState :=
  { startedAt := startedAt, max := max, lastRun := startedAt - Facts.purgeIntervalSec }

/-- the directory: relative path ↦ size in bytes (regular files only), and the content of the
    access-time log `atimes` (kept separately because its bytes matter) -/
structure FS where
  files : KMap Nat := KMap.empty
  atimes : Option Bytes := none

/-! ### prefixWithItemName (caching.go:474-481) -/

/-- `s[:3]` panics for strings shorter than 3 bytes (ASCII domain: one rune per byte) -/
def prefixWithItemName (s : Bytes) : Res Bytes :=
  match s with
  | a :: b :: c :: _ => .ok [a, 47, b, 47, c, 47]
  | _ => .panic "prefixWithItemName: slice bounds out of range [:3]"

/-- `fi.Name()`: the part after the last `/` -/
def baseName (p : Bytes) : Bytes :=
  match lastIndex [47] p with
  | some i => p.drop (i + 1)
  | none => p

/-- the item name `readFiles` gives a regular file: `prefixWithItemName(name)+name` -/
def itemNameOfPath (p : Bytes) : Res Bytes :=
  (prefixWithItemName (baseName p)).map (· ++ baseName p)

def atimesName : Bytes := b!"atimes"

/-- every regular file under the directory with its size; the log is one of them -/
def allFiles (fs : FS) : List (Name × Nat) :=
  fs.files.toList ++ (match fs.atimes with | some c => [(atimesName, c.length)] | none => [])

/-! ### readFiles (484-522) -/

/-- one file: exact size into `sizeBytes`, truncated KB into `withoutAccessTime` -/
def readFile (st : LState) (p : Name) (size : Nat) : Res LState :=
  match itemNameOfPath p with
  | .panic s => .panic s
  | .ok item => .ok { st with sizeBytes := st.sizeBytes + size,
                              without := st.without.set item (kbOfSize size) }

def readFilesL (st : LState) : List (Name × Nat) → Res LState
  | [] => .ok st
  | (p, size) :: t =>
    match readFile st p size with
    | .panic s => .panic s
    | .ok st' => readFilesL st' t

def readFiles (st : LState) (fs : FS) : Res LState := readFilesL st (allFiles fs)

/-! ### readStorableAccessTimes (696-745) -/

/-- `reader.ReadString('\n')` until error: the complete lines, delimiter stripped; a final
    piece without `\n` is dropped (the loop breaks on `io.EOF` before using it) -/
def completeLines (c : Bytes) : List Bytes := (split1 10 c).dropLast

/-- one line `name|unix|kb`; `none` = `continue` -/
def parseLine (startedAt : Int) (l : Bytes) : Option (Name × Accessed) :=
  match split1 124 l with
  | [name, satime, ssize] =>
    match parseInt satime with
    | none => none
    | some i64 =>
      match atoi ssize with
      | none => none
      | some v => some (name, { atime := u32 (startedAt - i64), kb := u32 v })
  | _ => none

/-- the bindings in line order (a later line overrides an earlier one in the Go map) -/
def readStorable (startedAt : Int) (c : Bytes) : List (Name × Accessed) :=
  (completeLines c).filterMap (parseLine startedAt)

/-- the start-up merge of `runSizeLimiter` (536-539) -/
def installAccessTimes (st : LState) : List (Name × Accessed) → LState
  | [] => st
  | (n, a) :: t => installAccessTimes { st with withA := st.withA.set n a, without := st.without.del n } t

/-- start-up of a process on a directory: `readFiles`, `readStorableAccessTimes`, merge -/
def startUp (max startedAt : Int) (fs : FS) : Res LState :=
  match readFiles (newState max startedAt) fs with
  | .panic s => .panic s
  | .ok st =>
    match fs.atimes with
    | none => .ok st
    | some c => .ok (installAccessTimes st (readStorable startedAt c))

/-! ### purgeableItemNames (641-679) -/

structure PurgeSel where
  withA : List Name := []
  without : List Name := []
  size : Int := 0
  deriving DecidableEq, Repr

/-- both loops of `purgeableItemNames`: append the name, add its accounted bytes, stop as soon
    as `bytesFound >= purgeBytes`.  Result: names taken, `bytesFound`, satisfied? -/
def walk (kbOf : Name → Nat) (purgeBytes : Int) : List Name → Int → List Name × Int × Bool
  | [], found => ([], found, false)
  | n :: t, found =>
    let found' := found + kbBytes (kbOf n)
    if found' ≥ purgeBytes then ([n], found', true)
    else
      let r := walk kbOf purgeBytes t found'
      (n :: r.1, r.2.1, r.2.2)

def kbWithout (st : LState) (n : Name) : Nat := (st.without.get n).getD 0
def kbWithA (st : LState) (n : Name) : Nat := ((st.withA.get n).map (·.kb)).getD 0
def atimeWithA (st : LState) (n : Name) : Nat := ((st.withA.get n).map (·.atime)).getD 0

/-- the orders Go's map iteration / `sort.Slice` chose: a full enumeration of the unknown-atime
    items and a full enumeration of the known ones -/
structure Hints where
  uorder : List Name := []
  korder : List Name := []
  /-- order in which a flush writes the storable items -/
  forder : List Name := []

def purgeableItemNames (st : LState) (purgeBytes : Int) (h : Hints) : PurgeSel :=
  let pb := if purgeBytes > (Facts.maxPurgeBytes : Int) then (Facts.maxPurgeBytes : Int) else purgeBytes
  let r1 := walk (kbWithout st) pb h.uorder 0
  if r1.2.2 then { without := r1.1, size := r1.2.1 }
  else
    let r2 := walk (kbWithA st) pb h.korder r1.2.1
    { withA := r2.1, without := r1.1, size := r2.2.1 }

/-- `l` enumerates exactly the members of `d` once each -/
def nodupB : List Name → Bool
  | [] => true
  | a :: t => !t.contains a && nodupB t

def isEnumOf (l d : List Name) : Bool :=
  nodupB l && d.all (fun n => l.contains n) && l.all (fun n => d.contains n)

def sortedBy (f : Name → Nat) : List Name → Bool
  | [] => true
  | [_] => true
  | a :: b :: t => decide (f a ≤ f b) && sortedBy f (b :: t)

/-- which orders a Go run may produce for the state: any enumeration of the unknown items, any
    enumeration of the known items that is ascending in access time (ties in any order) -/
def validHints (st : LState) (h : Hints) : Bool :=
  isEnumOf h.uorder st.without.dom && isEnumOf h.korder st.withA.dom && sortedBy (atimeWithA st) h.korder
    && isEnumOf h.forder st.storable.dom

/-- a scheduler resolves Go's map-order choices for every state it is asked about -/
abbrev Sched := LState → Hints

def Sched.Valid (sc : Sched) : Prop := ∀ st, validHints st (sc st) = true

/-- the model's own choice of a known order: stable insertion sort by access time -/
def insertBy (f : Name → Nat) (n : Name) : List Name → List Name
  | [] => [n]
  | a :: t => if f n < f a then n :: a :: t else a :: insertBy f n t

def sortBy (f : Name → Nat) : List Name → List Name
  | [] => []
  | a :: t => insertBy f a (sortBy f t)

def dedup : List Name → List Name
  | [] => []
  | a :: t => if t.contains a then dedup t else a :: dedup t

def canonicalHints : Sched := fun st =>
  { uorder := dedup st.without.dom, korder := sortBy (atimeWithA st) (dedup st.withA.dom),
    forder := dedup st.storable.dom }

/-! ### the purge pass: the tail of the `runSizeLimiter` loop (576-627) -/

/-- `rmFiles`: a missing file counts as removed; other errors are outside the modelled domain -/
def rmFiles (fs : FS) : List Name → FS
  | [] => fs
  | n :: t => rmFiles { fs with files := fs.files.del n } t

def subtractWith (st : LState) : List Name → LState
  | [] => st
  | n :: t => subtractWith { st with sizeBytes := st.sizeBytes - kbBytes (kbWithA st n), withA := st.withA.del n } t

def subtractWithout (st : LState) : List Name → LState
  | [] => st
  | n :: t => subtractWithout { st with sizeBytes := st.sizeBytes - kbBytes (kbWithout st n), without := st.without.del n } t

/-- what a pass did, as far as an observer of the directory can tell -/
structure PassOut where
  ran : Bool := false
  sel : PurgeSel := {}
  deriving DecidableEq, Repr

/-- the selection of a pass that runs -/
def passSel (st : LState) (h : Hints) : PurgeSel :=
  if st.sizeBytes > st.max then purgeableItemNames st (st.sizeBytes - st.max) h else {}

/-- the part of the loop body after the `switch`: nothing unless 5 s have passed since `lastRun` -/
def pass (st : LState) (fs : FS) (now : Int) (h : Hints) : LState × FS × PassOut :=
  if now - st.lastRun < (Facts.purgeIntervalSec : Int) then (st, fs, {})
  else
    let sel := passSel st h
    if sel.withA.length = 0 ∧ sel.without.length = 0 then
      ({ st with lastRun := now }, fs, { ran := true })
    else
      let fs' := rmFiles (rmFiles fs sel.without) sel.withA
      let st1 := subtractWith st sel.withA
      let st2 := subtractWithout st1 sel.without
      ({ st2 with lastRun := now }, fs', { ran := true, sel := sel })

/-! ### the three ops (554-569) -/

def opAdd (st : LState) (n : Name) (a : Accessed) : LState :=
  { st with withA := st.withA.set n a, sizeBytes := st.sizeBytes + kbBytes a.kb }

def opAccessTime (st : LState) (n : Name) (a : Accessed) (s : Storable) : LState :=
  { st with withA := st.withA.set n a, storable := st.storable.set n s }

/-! ### flushStorableAccessTimes (751-897) -/

/-- `string(name) + "|" + FormatInt(accessTime, 10) + "|" + Itoa(int(kb))` + delimiter -/
def logLine (n : Name) (s : Storable) : Bytes := n ++ [124] ++ itoa s.unix ++ [124] ++ itoa (s.kb : Int) ++ [10]

def logLines (m : KMap Storable) : List Name → Bytes
  | [] => []
  | n :: t => (match m.get n with | some s => logLine n s | none => []) ++ logLines m t

/-- the trim (827-896) on the file content after the append; `length` = size before the append.
    Seek to `bytesToTrim`, read at most 4096 bytes, cut after the first `\n` found there; no
    delimiter (or a failing seek) ⇒ early return (`none`): the file keeps the appended content. -/
def trimLog (content : Bytes) (length maxLength : Int) : Option Bytes :=
  if length > maxLength then
    let bytesToTrim := length - maxLength + Int.tdiv maxLength 10
    if bytesToTrim < 0 then none else   -- `f.Seek` fails
    let window := (content.drop bytesToTrim.toNat).take 4096
    match indexByte 10 window with
    | none => none
    | some delimPos => some (content.drop (bytesToTrim.toNat + delimPos + 1))
  else none

def truncatedName : Bytes := b!"atimes-truncated"

/-- `flushStorableAccessTimes`: no-op on an empty storable map; append one line per item in the
    map's iteration order `forder`; when the size BEFORE the append exceeded `maxLength`, rewrite
    the log through `atimes-truncated` (create, copy, remove old, rename — a stray file of that
    name is consumed); always reset the storable map. -/
def flush (st : LState) (fs : FS) (maxLength : Int) (forder : List Name) : LState × FS :=
  if st.storable.dom.length = 0 then ({ st with storable := KMap.empty }, fs)
  else
    let old := fs.atimes.getD []
    let content := old ++ logLines st.storable forder
    match trimLog content old.length maxLength with
    | none => ({ st with storable := KMap.empty }, { fs with atimes := some content })
    | some c => ({ st with storable := KMap.empty },
                 { files := fs.files.del truncatedName, atimes := some c })

/-! ### the combined machine: limiter × directory -/

/-- ops of the combined machine; every op carries the wall clock `now` (unix seconds) -/
inductive Op where
  /-- `GetWriter(key, revalidate = false)` … `Close`: nothing if the file exists; else the file
      is created and `closeFinisher` sends `opAdd` -/
  | fill (n : Name) (size : Nat) (now : Int)
  /-- `storage.Get` on an existing entry: `setAccessTime(key, size)` sends `opAccessTime` -/
  | hit (n : Name) (now : Int)
  /-- the flush ticker: `opFlushStorable` -/
  | flush (now : Int) (maxLength : Int)
  /-- a 200-revalidation rewrites the entry with a new size; `closeFinisher` returns early -/
  | regrow (n : Name) (size : Nat)
  /-- `storage.Get` self-heal, `errCleanup`, an operator: the file disappears -/
  | delete (n : Name)
  /-- process restart on the same directory at wall time `now` -/
  | restart (now : Int)
  deriving DecidableEq, Repr

structure Sys where
  st : LState
  fs : FS

/-- the op's own effect on limiter and directory (the `switch` of the loop for the ops that
    reach the limiter).  `some now` = the limiter received an op at wall time `now`, so the
    loop tail follows. -/
def applyOp (s : Sys) (op : Op) (sc : Sched) : Res (Sys × Option Int) :=
  match op with
  | .fill n size now =>
    if s.fs.files.has n then .ok (s, none)
    else
      .ok ({ st := opAdd s.st n { atime := atimeOf now s.st.startedAt, kb := kbOfSize size },
             fs := { s.fs with files := s.fs.files.set n size } }, some now)
  | .hit n now =>
    match s.fs.files.get n with
    | none => .ok (s, none)
    | some size =>
      .ok ({ s with st := opAccessTime s.st n { atime := atimeOf now s.st.startedAt, kb := kbOfSize size }
                         { unix := now, kb := kbOfSize size } }, some now)
  | .flush now maxLength =>
    let r0 := flush s.st s.fs maxLength (sc s.st).forder
    .ok ({ st := r0.1, fs := r0.2 }, some now)
  | .regrow n size =>
    if s.fs.files.has n then .ok ({ s with fs := { s.fs with files := s.fs.files.set n size } }, none)
    else .ok (s, none)
  | .delete n => .ok ({ s with fs := { s.fs with files := s.fs.files.del n } }, none)
  | .restart now =>
    match startUp s.st.max now s.fs with
    | .panic site => .panic site
    | .ok st => .ok ({ st := st, fs := s.fs }, none)

/-- the loop tail on a system -/
def passSys (s : Sys) (now : Int) (sc : Sched) : Sys × PassOut :=
  let r := pass s.st s.fs now (sc s.st)
  ({ st := r.1, fs := r.2.1 }, r.2.2)

/-- one op of the combined machine followed by the loop tail where the limiter is involved -/
def step (s : Sys) (op : Op) (sc : Sched) : Res (Sys × PassOut) :=
  match applyOp s op sc with
  | .panic site => .panic site
  | .ok (s1, none) => .ok (s1, {})
  | .ok (s1, some now) => .ok (passSys s1 now sc)

/-- a purge pass as a relation (Go's map order is not part of the state) -/
def validPurge (st : LState) (fs : FS) (now : Int) (res : LState × FS × PassOut) : Prop :=
  ∃ h : Hints, validHints st h = true ∧ res = pass st fs now h

/-- a run of the combined machine; a panic (start-up on a directory with a short file name)
    ends it.  Result: final system (if no panic) and the pass outputs per op. -/
def run (s : Sys) : List (Op × Sched) → Res Sys
  | [] => .ok s
  | (op, sc) :: t =>
    match step s op sc with
    | .panic site => .panic site
    | .ok r => run r.1 t

end Model.Limiter
