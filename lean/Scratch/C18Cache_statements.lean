import RrModel.RedirectCache
import RrModel.Generated.Facts
/-
  STATEMENT to be proved in RrProofs/Props/C18Cache.lean (namespace Props.C18Cache): warm = cold
  over a whole redirect chain on the cached model (Model.RedirectCache.run).

  Proved there already: `fill_then_hit` (the one-hop case, no side conditions beyond freshness),
  `hit_replays_entry`, `fill_stores_entry`, `found_reentry` (the Found site is a re-entry that only
  counts the redirect), `uncacheable_redirect_not_followed`, and termination (`cached_terminates`,
  `found_loop_508`: since the repair of findings C18-a / C18-c every re-entry is a counted redirect).

  What makes the many-hop case more than an induction over `fill_then_hit`:

  * the warm run is NOT the cold run with hits in place of fetches.  The writer site re-enters
    with `frf` = the FINAL routing flavors (the rule that matched the hop's URL, also when it has
    no cache), the Found site with `frf` = the EFFECTIVE flavors (the parent's, when the matched
    rule has no cache), and the restart decision is taken on the final flavors by the writer but on
    the effective ones by Found.  So behind a hop that matched an uncached rule the cold run
    continues on the uncached branch (nothing stored, `overrideURL` dropped after one hop) while
    the warm run continues on the cached branch (fills, `overrideURL` kept).  Status and body of
    the final answer agree only because the origin answers by URL path (hypothesis `PathKeyed`),
    and only when every rule restarts (`AllRestart`) and no redirect carries a do-not-cache
    directive (`NoUncacheableRedirect`: finding C18-d otherwise — the cold run may have followed
    it on the uncached branch and the warm run meets it on the cached one).
  * the stored RedirectedURL is a STRING: the warm hop is `parseURL (urlString u)`, the cold one
    `u` (hypothesis `RoundTrips`, true on the declared URL domain of Go/Url.lean).
  * an entry must still be fresh at the instant it was stored (`FreshWhenStored`: a negative
    max-age is not "do not cache" for the code, but stale at age 0).

  Suggested route: an invariant `Agrees cfg store` ("every entry of the store is what the origin
  answers for the path its key names, with RedirectedURL = urlString of the resolved Location"),
  preserved by `run`; then by induction on the fuel: from a store that `Agrees`, the sent status
  and body of a `done` run that ends in a non-redirect answer are a function of the chain of
  request paths alone.
-/
namespace Props.C18Cache
open Go Model Model.Redirect Model.RedirectCache

/-- the origin answers by URL path alone (as the scripted origin of stream sysrc does for the
    hosts it knows) -/
def PathKeyed (cfg : RedirectCache.Cfg) : Prop :=
  ∃ f : Bytes → OResp, ∀ c : Contact, cfg.origin c = some (f c.url.path)

def AllRestart (cfg : RedirectCache.Cfg) : Prop := ∀ r ∈ cfg.rules, r.restartOnRedirect = true

/-- no redirect answer forbids storing it (outside finding C18-d) -/
def NoUncacheableRedirect (cfg : RedirectCache.Cfg) : Prop :=
  ∀ c r, cfg.origin c = some r → cfg.isRedirect r.status = true → (getCacheControlDirectives r.header).doNotCache = false

/-- what is stored is fresh at the instant it is stored -/
def FreshWhenStored (cfg : RedirectCache.Cfg) : Prop :=
  ∀ c r (now : Int) (reval : Bool) (force : Nat), cfg.origin c = some r →
    ∃ age, Freshness.get false { header := (entryOf r [] now reval).header, created := now, revalidated := if reval then now else 0 }
             now force false [] [] none = .ok (.foundFresh age)

/-- the URLs the run resolves survive `String()` + `url.Parse` -/
def RoundTrips (u : RUrl) : Prop := parseURL (urlString u) = some u

/-- every answer the origin gives is inside the slice (status gate, non-empty 200 bodies) and
    every Location resolves to a URL that round-trips, from whatever request it is seen -/
def InDomain (cfg : RedirectCache.Cfg) : Prop :=
  (∀ c r, cfg.origin c = some r → inGate cfg r.status = true ∧ ¬ (r.status = 200 ∧ r.body = [])) ∧
  (∀ c r loc (orig : RUrl) (host : Bytes), cfg.origin c = some r → parseURL r.location = some loc →
      RoundTrips { redirectedURL orig host c.url loc with scheme := c.url.scheme })

def finalAnswer : Sent → Option (Nat × Bytes)
  | .response st body _ _ => some (st, body)
  | _ => none

/-- **warm_equals_cold**: for every rule set whose rules all restart, every path-keyed origin in
    the domain, every client request and fuel: if the request, run on the EMPTY cache, is answered
    by a non-redirect response, then run again on the cache it left behind, at the same instant,
    it is answered with the same status and body -/
def WarmEqualsCold : Prop :=
  ∀ (cfg : RedirectCache.Cfg) (now : Int) (n : Nat) (target host : Bytes) (a : Act) (d : Done) (st : Nat) (body : Bytes),
    PathKeyed cfg → AllRestart cfg → NoUncacheableRedirect cfg → FreshWhenStored cfg → InDomain cfg →
    (∀ s, cfg.isRedirect s = Facts.redirectStatuses.contains s) →
    clientAct target host = some a →
    run cfg now n [] [] a = .done d →
    finalAnswer d.sent = some (st, body) → cfg.isRedirect st = false →
    ∃ m d', run cfg now m [] d.store a = .done d' ∧ finalAnswer d'.sent = some (st, body)

/-- … and when every rule has a cache the repeat contacts nobody whose answer was stored: all of
    its contacts are for answers with a do-not-cache directive -/
def WarmContactsOnlyUncacheable : Prop :=
  ∀ (cfg : RedirectCache.Cfg) (now : Int) (n : Nat) (target host : Bytes) (a : Act) (d : Done) (st : Nat) (body : Bytes),
    PathKeyed cfg → AllRestart cfg → NoUncacheableRedirect cfg → FreshWhenStored cfg → InDomain cfg →
    (∀ r ∈ cfg.rules, r.cacheId ≠ [] ∧ cfg.hasStorage r.cacheId = true) →
    clientAct target host = some a →
    run cfg now n [] [] a = .done d →
    finalAnswer d.sent = some (st, body) → cfg.isRedirect st = false →
    ∀ m d', run cfg now m [] d.store a = .done d' →
      ∀ c ∈ d'.contacts, ∀ r, cfg.origin c = some r → (getCacheControlDirectives r.header).doNotCache = true

end Props.C18Cache
