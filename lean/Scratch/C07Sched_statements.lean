import RrModel.Conc
/-
  C07 in schedules: the client view pairs headers and body of ONE stored response.
  A thread that fetched version `ver` itself (the writer) sends ITS status line and headers before the
  body and later streams the body from the re-opened path (`Pc.sendBody`); every other way of being
  served (hit, woken waiter) reads metadata and body through one descriptor. So the only torn views
  are those of a writer whose `view` names another version than its own `ver`.

  To prove (new file RrProofs/Props/C07Sched.lean, namespace Props.C07Sched; helper lemmas may go to
  RrProofs/Lemmas/ConcTorn.lean; existing invariants about the lock are in RrProofs/Props/C12.lean
  and RrProofs/Lemmas/*.lean — reuse them):
-/
namespace Scratch.C07Sched
open Model.Conc

/-- the client of thread t holds headers of version `t.ver` and was streamed bytes of another version -/
def Torn (t : Thread) : Prop :=
  match t.view with
  | .complete v _ => t.ver ≠ 0 ∧ t.ver ≠ v
  | .truncated v => t.ver ≠ 0 ∧ t.ver ≠ v
  | _ => False

instance (t : Thread) : Decidable (Torn t) := by unfold Torn; split <;> infer_instance

/-- full strength: no schedule, fault assignment or thread count ever produces a torn view -/
def NoTornStatement : Prop :=
  ∀ (n : Nat) (faults : Nat → Fault) (sched : List Actor) (i : Nat), i < n → ¬ Torn ((run (init n faults) sched).threads i)

/-- FALSE of the code and of the model (finding C07-b): t0 fills and releases, the entry expires, t1
    refreshes it with the next origin version, then t0 streams its body. Prove by `decide` on: -/
def witnessSched : List Actor :=
  [.thread 0, .thread 0, .thread 0, .thread 0, .thread 0, .thread 0, .thread 0, .notifier, .expire, .originChange,
   .thread 1, .thread 1, .thread 1, .thread 1, .thread 1, .thread 1, .thread 0]
-- theorem torn_witness : Torn ((run (init 2 (fun _ => .none)) witnessSched).threads 0)
-- theorem NoTornStatement_false : ¬ NoTornStatement

/-- the partial statement: without entry expiry in the schedule and without a stale release
    (finding C12-b: two writers at once) no view is torn — whatever the faults, the thread count,
    origin changes, self-healing removals (C12-a) and late writers (C12-c) -/
def NoTornPartial : Prop :=
  ∀ (n : Nat) (faults : Nat → Fault) (sched : List Actor) (i : Nat), i < n →
    (∀ a ∈ sched, a ≠ Actor.expire) → (run (init n faults) sched).staleReleases = 0 →
    ¬ Torn ((run (init n faults) sched).threads i)

/- If NoTornPartial turns out FALSE, do not weaken it silently: find the smallest counterexample
   schedule with `decide`/`#eval`, report it, and prove the strongest true variant you can find
   (adding a hypothesis such as liveRemovals = 0), keeping the name `no_torn_partial` and listing the
   hypotheses in the doc comment. Also prove a non-vacuity example: a schedule with ≥ 2 threads, an
   origin change and a waiter that satisfies the hypotheses and ends with all threads served `complete`. -/

end Scratch.C07Sched
