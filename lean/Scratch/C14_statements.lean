import RrModel.Spec.C14
/-
  STATEMENTS to be proved in RrProofs/Props/C14.lean (namespace Props.C14).
  `body r` = complete body of origin response r.
-/
namespace Props.C14
open Model.Crash Spec.C14

/-- hypotheses on the response being stored for key k -/
structure Storing (body : Nat → Bytes) (k : Nat) (chunks : List Bytes) (m : Meta) : Prop where
  key : m.key = k
  whole : chunks.flatten = body m.resp          -- the chunks (any tearing) make up the whole body
  size : m.size = (body m.resp).length

/-- crash_safe, fresh fill: at every prefix of the protocol (every crash point, writes torn
    arbitrarily), every key k' probes fine after restart -/
def CrashSafeFresh : Prop :=
  ∀ (body : Nat → Bytes) (fs₀ : FS) (k : Nat) (chunks : List Bytes) (m : Meta) (P' : List Effect) (k' : Nat),
    Consistent body fs₀ → fs₀ (.final k) = none → Storing body k chunks m →
    P' <+: freshFill k chunks m → probeOk body (applyAll fs₀ P') k'

/-- crash_safe, revalidating 200 fill (.tmp + rename): the old entry or the new one, never a mix -/
def CrashSafeReval : Prop :=
  ∀ (body : Nat → Bytes) (fs₀ : FS) (k : Nat) (chunks : List Bytes) (m : Meta) (P' : List Effect) (k' : Nat),
    Consistent body fs₀ → Storing body k chunks m →
    P' <+: revalFill k chunks m → probeOk body (applyAll fs₀ P') k'

/-- crash_safe, 304 revalidation: metadata rewritten in place for the same response -/
def CrashSafe304 : Prop :=
  ∀ (body : Nat → Bytes) (fs₀ : FS) (k : Nat) (f : File) (mOld m : Meta) (P' : List Effect) (k' : Nat),
    Consistent body fs₀ → fs₀ (.final k) = some f → f.xattr = some mOld →
    m.key = k → m.resp = mOld.resp → m.size = mOld.size →
    P' <+: reval304 k m → probeOk body (applyAll fs₀ P') k'

/-- crash_safe, eviction / Delete of an entry -/
def CrashSafeEvict : Prop :=
  ∀ (body : Nat → Bytes) (fs₀ : FS) (k : Nat) (P' : List Effect) (k' : Nat),
    Consistent body fs₀ → P' <+: evict k → probeOk body (applyAll fs₀ P') k'

/-- consistent_preserved: a COMPLETED fresh fill / revalidating fill / 304 re-establishes Consistent -/
def ConsistentPreservedFresh : Prop :=
  ∀ (body : Nat → Bytes) (fs₀ : FS) (k : Nat) (chunks : List Bytes) (m : Meta),
    Consistent body fs₀ → fs₀ (.final k) = none → Storing body k chunks m →
    Consistent body (applyAll fs₀ (freshFill k chunks m))

def ConsistentPreservedReval : Prop :=
  ∀ (body : Nat → Bytes) (fs₀ : FS) (k : Nat) (chunks : List Bytes) (m : Meta),
    Consistent body fs₀ → Storing body k chunks m →
    Consistent body (applyAll fs₀ (revalFill k chunks m))

/-- … and so does a crashed-then-healed one: after `get` has run for key k at any crash point of
    a fresh fill, the FS is Consistent again -/
def HealedConsistent : Prop :=
  ∀ (body : Nat → Bytes) (fs₀ : FS) (k : Nat) (chunks : List Bytes) (m : Meta) (P' : List Effect),
    Consistent body fs₀ → fs₀ (.final k) = none → Storing body k chunks m →
    P' <+: freshFill k chunks m → Consistent body (get (applyAll fs₀ P') k).1

/-- publish_is_last: in each filling protocol `setxattr` comes after every `append`, and (reval)
    `rename` after `setxattr` -/
def PublishIsLast : Prop :=
  ∀ (k : Nat) (chunks : List Bytes) (m : Meta),
    (∃ pre post, freshFill k chunks m = pre ++ [.setxattr (.final k) m] ++ post ∧
        (∀ e ∈ post, ∀ p b, e ≠ .append p b) ∧ appends (.final k) chunks <:+: pre) ∧
    (∃ pre post, revalFill k chunks m = pre ++ [.setxattr (.tmp k) m] ++ post ∧
        (∀ e ∈ post, ∀ p b, e ≠ .append p b) ∧ .rename (.tmp k) (.final k) ∈ post)

/-- the Vary-Origin key change of a revalidating writer moves a complete, correctly… NOT
    correctly labelled entry: state what holds — after `changeKey kOld kNew false` applied to a
    Consistent FS with an entry at kOld, the file at `final kNew` is complete (data = body of its
    response) but its xattr still says key kOld.  (Used to decide whether this is a finding.) -/
def ChangeKeyMovesEntry : Prop :=
  ∀ (body : Nat → Bytes) (fs₀ : FS) (kOld kNew : Nat) (f : File) (m : Meta),
    Consistent body fs₀ → kOld ≠ kNew → fs₀ (.final kOld) = some f → f.xattr = some m → fs₀ (.final kNew) = none →
    applyAll fs₀ (changeKey kOld kNew false) (.final kNew) = some f ∧
    applyAll fs₀ (changeKey kOld kNew false) (.final kOld) = none

end Props.C14
