import RrModel.Exec
/-
  STATEMENTS to be proved in RrProofs/Props/C20Exec.lean (namespace Props.C20Exec): the client-
  invisibility clause of C20 on the executor model.
-/
namespace Props.C20Exec
open Go Model

/-- hypotheses under which the copy rule must be invisible: its destination host `hc` (its target
    parses) is not also a destination of the proxied request (main rule or a retry_rule fallback) —
    otherwise the scripted origin's per-host connection-failure counter is shared, which is an
    artefact of the fault model, not of rrrouter.  After the repair of finding C20-a nothing is
    assumed about whether the copy request can be built; `noPanic` excludes only the Go run-time
    panic `secrets[0]` on an empty, non-nil secret list. -/
structure Separate (cfg : ExecCfg) (q : Query) (m : Bytes) (chain : List Rule)
    (main : Option (Rule × Bytes × Option Nat)) (copy : Rule × Bytes) (hc : Bytes) : Prop where
  parses : destHost copy.2 = some hc
  noPanic : cfg.build copy.1.internal ≠ some .panicNoSecrets
  notMain : ∀ x, main = some x → destHost x.2.1 ≠ some hc
  notFallback : ∀ rr ∈ chain, ∀ x, fallbackMatch q m rr = some x → destHost x.2.1 ≠ some hc

/-- **copy_invisible**: whatever the copy destination does (any status, any number of refused
    connections, any body), the routing result handed to the response stage is exactly what it
    would have been without the copy rule — for every fault script, retry count, retry chain. -/
def CopyInvisible : Prop :=
  ∀ (cfg : ExecCfg) (q : Query) (m b : Bytes) (chain : List Rule)
    (main : Option (Rule × Bytes × Option Nat)) (copy : Rule × Bytes) (hc : Bytes),
    Separate cfg q m chain main copy hc →
    (routeRequest cfg q m chain main (some copy) { remaining := b }).2
      = (routeRequest cfg q m chain main none { remaining := b }).2

/-- … and the proxied contacts are the same: removing the copy destination's contacts from the
    trace with the copy rule gives the trace without it -/
def CopyInvisibleContacts : Prop :=
  ∀ (cfg : ExecCfg) (q : Query) (m b : Bytes) (chain : List Rule)
    (main : Option (Rule × Bytes × Option Nat)) (copy : Rule × Bytes) (hc : Bytes),
    Separate cfg q m chain main copy hc →
    ((routeRequest cfg q m chain main (some copy) { remaining := b }).1.contacts.filter (·.host ≠ hc))
      = (routeRequest cfg q m chain main none { remaining := b }).1.contacts

end Props.C20Exec
