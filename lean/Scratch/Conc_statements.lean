import RrModel.Conc
/-
  STATEMENTS to be proved in RrProofs/Props/C12.lean (namespace Props.C12) and
  RrProofs/Props/C13.lean (namespace Props.C13).  `run (init n faults) sched` ranges over every
  reachable state: every number of threads, every fault assignment, every schedule.
-/
namespace Props.C12
open Model.Conc

def noFaults : Nat → Fault := fun _ => .none

/-- lock_holder: the ghost holder tracks the lock entry exactly -/
def LockHolder : Prop :=
  ∀ (n : Nat) (f : Nat → Fault) (sched : List Actor),
    (run (init n f) sched).lock.isSome = (run (init n f) sched).holder.isSome

/-- lock_mutex: whoever is between taking the lock and its first release is the holder; so at
    most one thread is in the writer section per lock generation, unless a stale release happened -/
def LockMutex : Prop :=
  ∀ (n : Nat) (f : Nat → Fault) (sched : List Actor) (i : Nat),
    let s := run (init n f) sched
    s.staleReleases = 0 → i < n →
    (match (s.threads i).pc with | .route _ | .whCreate _ | .write _ | .close _ _ => True | _ => False) →
    s.holder = some i

/-- single_flight, full statement: at most one origin fetch in flight at any moment -/
def SingleFlight : Prop :=
  ∀ (n : Nat) (f : Nat → Fault) (sched : List Actor), (run (init n f) sched).maxInFlight ≤ 1

/-- proved part: in every schedule without a stale release (class of finding C12-b) -/
def SingleFlightPartial : Prop :=
  ∀ (n : Nat) (f : Nat → Fault) (sched : List Actor),
    (run (init n f) sched).staleReleases = 0 → (run (init n f) sched).maxInFlight ≤ 1

/-- all served fully, full statement: without origin faults every finished request has the complete response -/
def AllServedComplete : Prop :=
  ∀ (n : Nat) (sched : List Actor) (i : Nat), i < n →
    ((run (init n noFaults) sched).threads i).pc = .done →
    ∃ v st, ((run (init n noFaults) sched).threads i).view = .complete v st

/-- proved part: schedules in which no request's Get removes a live writer's file (C12-a), no
    request takes the lock after a publication it missed (C12-c), and no stale release lets two
    writers run at once (C12-b: the second revalidating writer loses the shared `.tmp` file) -/
def AllServedCompletePartial : Prop :=
  ∀ (n : Nat) (sched : List Actor) (i : Nat), i < n →
    (run (init n noFaults) sched).liveRemovals = 0 → (run (init n noFaults) sched).lateWriters = 0 →
    (run (init n noFaults) sched).staleReleases = 0 →
    ((run (init n noFaults) sched).threads i).pc = .done →
    ∃ v st, ((run (init n noFaults) sched).threads i).view = .complete v st

end Props.C12

namespace Props.C13
open Model.Conc

/-- no_wedge: once every request has finished and the notifier is idle, the key is unlocked —
    for every fault assignment and schedule -/
def NoWedge : Prop :=
  ∀ (n : Nat) (f : Nat → Fault) (sched : List Actor),
    let s := run (init n f) sched
    (∀ i, i < n → (s.threads i).pc = .done) → s.notifier = .idle → s.lock = none

/-- waiters are always registered with the lock they wait on (so a release wakes them):
    nobody can be left waiting after the writer is gone -/
def WaitersRegistered : Prop :=
  ∀ (n : Nat) (f : Nat → Fault) (sched : List Actor) (j : Nat),
    let s := run (init n f) sched
    j < n → (s.threads j).pc = .waiting → (s.threads j).woken = false →
    ∃ ws, s.lock = some ws ∧ j ∈ ws

/-- lock_always_released: a lock entry is only present while its taker is still on its way or its
    release is pending in the notifier -/
def LockAlwaysReleased : Prop :=
  ∀ (n : Nat) (f : Nat → Fault) (sched : List Actor) (i : Nat),
    let s := run (init n f) sched
    s.holder = some i → i < n ∧ ((s.threads i).pc ≠ .done ∨ s.notifier ≠ .idle)

/-- partial_never_served, full statement: nobody is ever served a strict prefix of an origin body -/
def PartialNeverServed : Prop :=
  ∀ (n : Nat) (f : Nat → Fault) (sched : List Actor) (i : Nat) (v : Nat), i < n →
    ((run (init n f) sched).threads i).view ≠ .truncated v

/-- proved part: without an origin body read error (class of finding C13-a) -/
def PartialNeverServedPartial : Prop :=
  ∀ (n : Nat) (f : Nat → Fault) (sched : List Actor) (i : Nat) (v : Nat), i < n →
    (∀ j, f j ≠ .readErr) →
    ((run (init n f) sched).threads i).view ≠ .truncated v

end Props.C13
