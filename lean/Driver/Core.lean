import Driver.Proto
/-
  Shared types of the driver: what a stream handler returns for one case.
-/
open Go Model Proto

structure Verdict where
  model : String            -- model result, same token syntax as the implementation side
  oracle : String := "na"   -- ok | bad:… | na
  cls : String := "-"
  label : String := "-"

abbrev Handler := List String → P Verdict   -- argument: the implementation's tokens

