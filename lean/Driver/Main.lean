import Driver.Proto
import RrModel.Spec.C01
/-
  rrdrv: reads case lines on stdin, runs the model's executable definitions and the
  property oracle on the implementation's observation, prints one verdict line per case:

    <id> <agree|DIFF> <verdict> <class> <label> <model result tokens…>

  verdict: `ok` | `bad:<property>:<reason>` | `na`   (oracle applied to what the IMPLEMENTATION did)
  class:   known-finding class the input falls in, or `-`
  label:   branch label of the model (for distribution counts)
-/
open Go Model Proto

structure Verdict where
  model : String            -- model result, same token syntax as the implementation side
  oracle : String := "na"   -- ok | bad:… | na
  cls : String := "-"
  label : String := "-"

abbrev Handler := List String → P Verdict   -- argument: the implementation's tokens

def hMatch : Handler := fun impl => do
  let rcs ← pList pRuleC
  let _s ← pBytes
  let parsed ← pBool
  let scheme ← pBytes
  let host ← pBytes
  let uri ← pBytes
  let method ← pBytes
  if ¬ rcs.all (·.valid) then return { model := "err:rules", label := "rules-rejected" }
  if ¬ parsed then return { model := "err:match", label := "unparsable" }
  let rs := rcs.map (·.rule)
  let q : Query := ⟨scheme, host, uri, method⟩
  let res := matchRules rs q
  let model := s!"{showOptIdx res.proxy} {showOptIdx res.copy}"
  -- oracle C01 on the implementation's choice: impl = [pi, pt, ci, ct]
  let oracle :=
    match impl with
    | [pi, _, _, _] =>
      let obs : Spec.C01.Obs :=
        match pi.toInt? with
        | some (.ofNat i) => { proxyRule := some i, status := 0 }
        | _ => { proxyRule := none, status := 404 }
      if Spec.C01.holds rs q obs then "ok" else "bad:C01:not-first-matching-rule"
    | _ => "na"
  let label :=
    match res.proxy, res.copy with
    | none, none => "nomatch"
    | none, some _ => "copy-only"
    | some (i, _), c =>
      let shadowed := ((rs.drop (i + 1)).any fun r => Spec.C01.applies r q)
      (if c.isSome then "proxy+copy" else "proxy") ++ (if shadowed then ":shadowing" else "") ++
        (if (rs.take i).any (fun r => !r.enabled || methodExcluded r q.method) then ":skipped-before" else "")
  return { model := model, oracle := oracle, label := label }

def hDropPort : Handler := fun _ => do
  let s ← pBytes
  match dropPort s with
  | .ok r => return { model := s!"ok {toHex r}", label := if s.head? = some 91 then "bracket" else "plain" }
  | .panic _ => return { model := "panic", label := "panic" }

def hScheme : Handler := fun _ => do
  let tls ← pBool
  let xfp ← pBytes
  return { model := toHex (scheme tls xfp) }

def handlers : List (String × Handler) := [
  ("match", hMatch), ("dropport", hDropPort), ("scheme", hScheme) ]

def splitTokens (line : String) : List String × List String :=
  let toks := (line.splitOn " ").filter (· ≠ "")
  let pre := toks.takeWhile (· ≠ "|")
  let post := (toks.dropWhile (· ≠ "|")).drop 1
  (pre, post)

def processLine (line : String) : String :=
  let (pre, impl) := splitTokens line
  match pre with
  | stream :: id :: args =>
    match handlers.lookup stream with
    | none => s!"{id} ERROR - - unknown-stream:{stream}"
    | some h =>
      match run (h impl) args with
      | .error e => s!"{id} ERROR - - parse:{e}"
      | .ok v =>
        let implS := " ".intercalate impl
        let agree := if v.model = implS then "agree" else "DIFF"
        s!"{id} {agree} {v.oracle} {v.cls} {v.label} {v.model}"
  | _ => "? ERROR - - malformed-line"

partial def loop (h : IO.FS.Stream) (out : IO.FS.Stream) : IO Unit := do
  let line ← h.getLine
  if line.isEmpty then return ()
  let l := line.trimAsciiEnd.toString
  if l ≠ "" then out.putStrLn (processLine l)
  loop h out

def main : IO Unit := do
  let stdin ← IO.getStdin
  let stdout ← IO.getStdout
  loop stdin stdout
