import RrModel.Routing
/-
  Line protocol: one case per line, `stream id tok* | impltok*`.
  Tokens: decimal integers, or `x` + hex for byte strings. Lists are length-prefixed.
-/
namespace Proto
open Go Model

abbrev P := StateT (List String) (Except String)

def tok : P String := do
  match (← get) with
  | [] => throw "unexpected end of tokens"
  | t :: ts => set ts; pure t

def pNat : P Nat := do
  let t ← tok
  match t.toNat? with
  | some n => pure n
  | none => throw s!"expected nat, got {t}"

def pInt : P Int := do
  let t ← tok
  match t.toInt? with
  | some n => pure n
  | none => throw s!"expected int, got {t}"

def pBool : P Bool := do
  let n ← pNat
  pure (n != 0)

def pBytes : P Bytes := do
  let t ← tok
  match fromHex t with
  | some b => pure b
  | none => throw s!"expected hex bytes, got {t}"

def pTimes {α} (p : P α) : Nat → P (List α)
  | 0 => pure []
  | n + 1 => do
    let a ← p
    let r ← pTimes p n
    pure (a :: r)

def pList {α} (p : P α) : P (List α) := do
  let n ← pNat
  pTimes p n

def pOptBytes : P (Option Bytes) := do
  let has ← pBool
  let v ← pBytes
  pure (if has then some v else none)

/-- a rule with its chain of retry rules (retry_rule, its retry_rule, …) -/
structure RuleC where
  rule : Rule
  retry : List Rule
  /-- outcome of the `NewRule`/`NewRules` validation as far as the matching streams need it -/
  valid : Bool
  deriving Repr

def ruleTypeOf (t : Bytes) : Option RuleType :=
  if t = b!"proxy" then some .proxy else if t = b!"copy_traffic" then some .copy else none

def hostHeaderOf (h : Bytes) : HostHeaderBehavior × Bytes :=
  if h = [] then (.default, [])
  else if h = b!"original" then (.original, [])
  else if h = b!"destination" then (.destination, [])
  else (.override, h)

partial def pRuleC : P RuleC := do
  let enabled ← pBool
  let scheme ← pBytes
  let host ← pBytes
  let path ← pBytes
  let dest ← pBytes
  let internal ← pBool
  let ty ← pBytes
  let methods ← pList pBytes
  let recomp ← pBool
  let hh ← pBytes
  let cache ← pBytes
  let force ← pNat
  let reqH ← pList (do let k ← pBytes; let v ← pOptBytes; pure (k, v))
  let respH ← pList (do let k ← pBytes; let v ← pBytes; pure (k, v))
  let restart ← pBool
  let hasRetry ← pBool
  let retry ← if hasRetry then (do let r ← pRuleC; pure (some r)) else pure none
  let wci := wildcardIndex path dest
  let (hb, ho) := hostHeaderOf hh
  let rule : Rule := {
    enabled := enabled, scheme := scheme, host := host, path := path, dest := dest,
    wci := match wci with | .ok w => w | .error _ => none,
    internal := internal, methods := methods,
    type := (ruleTypeOf ty).getD .proxy,
    recompression := recomp, hostBehavior := hb, hostOverride := ho, cacheId := cache,
    forceRevalidate := force, requestHeaders := reqH, responseHeaders := respH,
    restartOnRedirect := restart }
  let okSelf := (match wci with | .ok _ => true | .error _ => false) && (ruleTypeOf ty).isSome
  match retry with
  | none => pure { rule := rule, retry := [], valid := okSelf }
  | some r => pure { rule := rule, retry := r.rule :: r.retry, valid := okSelf && r.valid }

def run {α} (p : P α) (toks : List String) : Except String α :=
  match p.run toks with
  | .ok (a, _) => .ok a
  | .error e => .error e

def showOptIdx : Option (Nat × Bytes) → String
  | none => "-1 x"
  | some (i, t) => s!"{i} {toHex t}"

end Proto
