import Driver.Core
import RrModel.Forward
import RrModel.Spec.C03
import RrModel.Spec.C04
/- streams: ensure, reqip, filter, preprocess, proxyreq  (C04, C03 header half) -/
open Go Model Proto

namespace H.Forward

/-- the text both sides print for a minted request id -/
def uuidText : Bytes := b!"UUID"

def pHeader : P Header := pList (do let k ← pBytes; let vs ← pList pBytes; pure (k, vs))

def pOverrides : P (List (Bytes × Option Bytes)) :=
  pList (do let k ← pBytes; let v ← pOptBytes; pure (k, v))

def pRes : P (Res Bytes) := do
  let ok ← pBool
  let v ← pBytes
  pure (if ok then .ok v else .panic "readIP")

def pOpt : P (Option Bytes) := do
  let ok ← pBool
  let v ← pBytes
  pure (if ok then some v else none)

/-- sorted keys (with at least one value), each with its values: the Go side's `headerTokens` -/
def showHeader (h : Header) : String :=
  let n := h.normal
  " ".intercalate (toString n.length :: n.flatMap fun (k, vs) =>
    toHex k :: toString vs.length :: vs.map toHex)

def hostBehaviorOf : Nat → HostHeaderBehavior
  | 0 => .default
  | 1 => .original
  | 2 => .override
  | _ => .destination

def showBehavior : HostHeaderBehavior → String
  | .default => "default" | .original => "original" | .override => "override" | .destination => "destination"

/-- the implementation's tokens of `ensure`: panic | err:usererror:N | ok header -/
def obsOfEnsure (impl : List String) : Option Spec.C04.Obs :=
  match impl with
  | ["panic"] => some .crashed
  | "ok" :: rest =>
    match run pHeader rest with
    | .ok h => some (.sent h)
    | .error _ => none
  | [e] =>
    if e.startsWith "err:usererror:" then (e.drop 14).toString.toNat?.map .rejected else none
  | _ => none

def verdict (prop : String) (reasons : List String) : List String :=
  reasons.map fun r => s!"bad:{prop}:{r}"

/-- `Spec.C04.holds` on an observation of the implementation; the reasons only name the clause -/
def verdict4 (inp : Spec.C04.Input) (o : Spec.C04.Obs) : List String :=
  if Spec.C04.holds inp o then []
  else match Spec.C04.why inp o with
    | [] => ["bad:C04:oracle"]
    | rs => verdict "C04" rs

/-- `Spec.C03.holdsHeaders` on an observation of the implementation -/
def verdict3 (rv : Spec.C03.RuleView) (client : Header) (clientHost : Bytes) (o : Spec.C03.Obs)
    (extra : List Bytes) (tag : String) : List String :=
  if Spec.C03.holdsHeaders rv client clientHost o extra then []
  else match Spec.C03.whyHeaders rv client clientHost o extra with
    | [] => [s!"bad:C03:oracle{tag}"]
    | rs => verdict "C03" (rs.map (· ++ tag))

def joinVerdict (bads : List String) : String := if bads.isEmpty then "ok" else ",".intercalate bads

def ensureLabel (h : Header) (pass : Bool) (r : Res (Except Reject Header)) : String :=
  let multi := if (h.values hdrRoutingSecret).length > 1 then ":multi-secret" else ""
  match r with
  | .panic s => if s = panicSecrets0 then "panic-secrets0" else "panic-readip"
  | .ok (.error .badSecret) => (if pass then "int" else "ext") ++ "-407-bad-secret" ++ multi
  | .ok (.error .idOrIpWithoutSecret) => "int-407-id-or-ip-without-secret"
  | .ok (.ok _) =>
    if !pass then "ext-strip" ++ multi
    else if h.get hdrRoutingSecret ≠ [] then
      "int-pass" ++ (if h.get hdrRequestID = [] then "+id-minted" else "") ++
        (if h.get hdrOriginatingIP = [] then "+ip-set" else "") ++ multi
    else "int-mint-all"

def hEnsure : Handler := fun impl => do
  let h ← pHeader
  let pass ← pBool
  let _nonnil ← pBool
  let secrets ← pList pBytes
  let readIP ← pRes
  let r := ensureInternalHeaders h pass secrets uuidText readIP
  let model :=
    match r with
    | .panic _ => "panic"
    | .ok (.error rej) => s!"err:usererror:{rej.status}"
    | .ok (.ok h') => "ok " ++ showHeader h'
  -- at this level `passHeaders` is the effective destination class
  let inp : Spec.C04.Input :=
    { client := h, internal := pass, secrets := some secrets,
      peerIP := match readIP with | .ok ip => ip | .panic _ => [] }
  let oracle :=
    match obsOfEnsure impl with
    | some o => joinVerdict (verdict4 inp o)
    | none => "na"
  return { model := model, oracle := oracle, label := ensureLabel h pass r }

def hReqIP : Handler := fun _ => do
  let h ← pHeader
  let remote ← pOpt
  match requestIP h remote with
  | .ok ip =>
    let label :=
      if h.get b!"cf-connecting-ip" ≠ [] then "cf"
      else if trimSpace (h.get b!"X-Real-Ip") ≠ [] then "x-real-ip"
      else if ip = [] then "none"
      else if remote.isSome ∧ (h.get b!"X-Forwarded-For") = [] then "remote-addr" else "xff-or-remote"
    return { model := s!"ok {toHex ip}", label := label }
  | .panic _ => return { model := "panic", label := "panic" }

def hFilter : Handler := fun impl => do
  let h ← pHeader
  let names ← pList pBytes
  let out := filterHeader h names
  let oracle :=
    match run pHeader impl with
    | .ok io => if Spec.C03.holdsFilter h names io then "ok" else "bad:C03:filter-changed-or-kept-values"
    | .error _ => "na"
  let label :=
    (if h.any (fun e => canon e.1 ≠ e.1) then "noncanonical-keys" else "canonical-keys") ++
    (if names.any (fun n => (h.any fun e => canon e.1 = canon n ∧ ¬ e.2.isEmpty)) then ":deletes" else ":no-deletion")
  return { model := showHeader out, oracle := oracle, label := label }

def hPreprocess : Handler := fun impl => do
  let h ← pHeader
  let ovs ← pOverrides
  let out := preprocessHeaders h ovs
  -- the override clause is stated for a header as net/http hands it over (canonical keys) and
  -- header-name (token) override keys
  let inDomain := h.all (fun e => canon e.1 = e.1) && ovs.all (fun o => Spec.tokenName o.1)
  let oracle :=
    match run pHeader impl with
    | .ok io =>
      if !inDomain then "na"
      else if Spec.C03.holdsOverrides h ovs io then "ok" else "bad:C03:overrides-not-applied"
    | .error _ => "na"
  let label :=
    if ovs.isEmpty then "no-overrides"
    else (if ovs.any (·.2.isSome) then "set" else "") ++ (if ovs.any (·.2.isNone) then "del" else "") ++
      (if inDomain then "" else ":hand-built-map")
  return { model := showHeader out, oracle := oracle, label := label }

/-- the implementation's tokens of `proxyreq` -/
inductive PObs where
  | out (method host urlHost : Bytes) (h : Header)
  | rejected (status : Nat)
  | crashed
  | other

def pobsOf (impl : List String) : PObs :=
  match impl with
  | ["panic"] => .crashed
  | "ok" :: rest =>
    match run (do let m ← pBytes; let ho ← pBytes; let uh ← pBytes; let h ← pHeader; pure (PObs.out m ho uh h)) rest with
    | .ok o => o
    | .error _ => .other
  | [e] =>
    if e.startsWith "err:usererror:" then
      match (e.drop 14).toString.toNat? with
      | some n => .rejected n
      | none => .other
    else .other
  | _ => .other

def hProxyReq : Handler := fun impl => do
  let wire ← pList (do let k ← pBytes; let v ← pBytes; pure (k, [v]))
  let parsed ← pBool
  if ¬ parsed then return { model := "err:parse", label := "unparsable" }
  let method ← pBytes
  let hdr ← pHeader
  let host ← pBytes
  let remote ← pOpt
  let ovs ← pOverrides
  let internal ← pBool
  let behavior := hostBehaviorOf (← pNat)
  let hostOverride ← pBytes
  let nonnil ← pBool
  let secretList ← pList pBytes
  let urlHost ← pOpt
  let peer ← pRes
  let secrets : Option (List Bytes) := if nonnil then some secretList else none
  let h1 := preprocessHeaders hdr ovs
  let req : ClientReq := { method := method, header := h1, host := host, remoteIP := remote }
  let r := createProxyRequest secrets req internal behavior hostOverride urlHost uuidText
  let model :=
    match r with
    | .panic _ => "panic"
    | .ok (.error .newRequest) => "err:newrequest"
    | .ok (.error (.reject rej)) => s!"err:usererror:{rej.status}"
    | .ok (.ok o) => s!"ok {toHex o.method} {toHex o.host} {toHex o.urlHost} {showHeader o.header}"
  -- oracles, on what the implementation did; the client's headers are taken as sent on the wire
  let peerIP := match peer with | .ok ip => ip | .panic _ => []
  let inp4 : Spec.C04.Input := { client := wire, internal := internal, secrets := secrets, peerIP := peerIP }
  let rv : Spec.C03.RuleView := { overrides := ovs, hostBehavior := behavior, hostOverride := hostOverride }
  let oracle :=
    match pobsOf impl with
    | .crashed => joinVerdict (verdict4 inp4 .crashed)
    | .rejected st => joinVerdict (verdict4 inp4 (.rejected st))
    | .out _ ho uh h =>
      let o3 : Spec.C03.Obs := { header := h, host := ho, urlHost := uh }
      joinVerdict (verdict4 inp4 (.sent h) ++ verdict3 rv wire host o3 Spec.C03.framing "(wire)" ++
        verdict3 rv hdr host o3 [] "(parsed)")
    | .other => "na"
  let cls4 := if Spec.C04.internalDest inp4 then "int" else "ext"
  let label :=
    match r with
    | .panic _ => "panic"
    | .ok (.error .newRequest) => "newrequest-error"
    | .ok (.error (.reject _)) => s!"407:{cls4}"
    | .ok (.ok _) =>
      s!"sent:{cls4}:{showBehavior behavior}" ++ (if ovs.isEmpty then "" else ":overrides") ++
        (if wire.any (fun e => Spec.C03.isManaged [] e.1) then ":managed-present" else "")
  return { model := model, oracle := oracle, label := label }

def handlers : List (String × Handler) := [
  ("ensure", hEnsure), ("reqip", hReqIP), ("filter", hFilter), ("preprocess", hPreprocess),
  ("proxyreq", hProxyReq) ]

end H.Forward
