import Driver.Core
import RrModel.Spec.C12
/- stream: sched (C12, C13) — schedules chosen by the interleaving model, replayed on the real
   goroutines through the verifhook controller; `rrdrv gen sched <seed> <n>` generates them. -/
open Go Proto Model.Conc

namespace H.Sched

def faultOf : Nat → Fault
  | 1 => .connectErr
  | 2 => .readErr
  | 3 => .uncacheable
  | _ => .none

def faultTok : Fault → Nat
  | .none => 0 | .connectErr => 1 | .readErr => 2 | .uncacheable => 3

/-- where a request goroutine is parked when its model thread is at `pc` (DESIGN Appendix B) -/
def pointOf : Pc → String
  | .start => "srv.after-flavors"
  | .lookedUp _ => "grw.before-lock"
  | .route _ => "srv.before-route"
  | .whCreate _ => "wh.before-create"
  | .write _ => "write.before"
  | .close _ _ => "close.enter"
  | .notify 0 => "notify.before-send"
  | .notify 1 => "notify.before-send"
  | .notify _ => "finish.before-send"
  | .sendBody => "srv.before-sendbody"
  | .cleanup => "delete.before-remove"
  | .waiting => "srv.wait"
  | .done => "fin"

def viewTok : View → String
  | .nothing => "N"
  | .headers v => s!"H{v}"
  | .complete v st => s!"C{v}" ++ (if st then "s" else "")
  | .truncated v => s!"T{v}"
  | .error c => s!"E{c}"

/-- a thread that fetched version `ver` itself sent ITS status line and headers before the body;
    the body it streams afterwards is whatever the re-opened path holds (`.sendBody`): when that is
    another version the client sees body bytes of version v under the headers of version `ver` -/
def torn (t : Thread) : Option (Nat × Nat) :=
  match t.view with
  | .complete v _ => if t.ver ≠ 0 ∧ t.ver ≠ v then some (v, t.ver) else none
  | .truncated v => if t.ver ≠ 0 ∧ t.ver ≠ v then some (v, t.ver) else none
  | _ => none

/-- length of the harness origin's body of version v (harness/streams/sched.go schedBody) -/
def bodyLen (v : Nat) : Nat := 33 + (toString v).length + (9 - v % 10)

/-- the token of a thread's client view. Torn case: the client holds the status line and
    `Content-Length: bodyLen e` of ITS version e; net/http refuses a body that exceeds the declared
    length (nothing more is sent: the view stays "headers only"), a shorter or equal one goes out -/
def threadViewTok (t : Thread) : String :=
  match torn t with
  | some (b, e) =>
    let avail := match t.view with | .truncated _ => bodyLen b / 2 | _ => bodyLen b
    if avail > bodyLen e then s!"H{e}" else s!"M{b}/{e}"
  | none => viewTok t.view

/-- a woken waiter whose re-Get goes on to take the lock passes `grw.before-lock` on the way:
    two controller steps for one model step -/
def doubleStep (s : Sys) (i : Nat) : Bool :=
  let t := s.threads i
  t.pc == .waiting && t.woken &&
  (match s.file with
   | .absent => true
   | .published _ _ fresh => !(fresh || t.wokenStale)
   | .unpublished => false)

def actorTok (s : Sys) : Actor → String
  | .thread i => (if doubleStep s i then "T" else "t") ++ toString i
  | .notifier => "nf"
  | .expire => "ex"
  | .originChange => "oc"

def parseActor (t : String) : Option Actor :=
  if t = "nf" then some .notifier
  else if t = "ex" then some .expire
  else if t = "oc" then some .originChange
  else if t.startsWith "t" ∨ t.startsWith "T" then (t.drop 1).toNat?.map .thread
  else none

def allDone (s : Sys) : Bool := (List.range s.n).all (fun i => (s.threads i).pc == .done) && s.notifier == .idle

/-- splitmix-style step of the generator's PRNG -/
def nextRand (x : Nat) : Nat := (x * 6364136223846793005 + 1442695040888963407) % 18446744073709551616

/-- a random walk over ENABLED actors until everything has finished (or fuel runs out) -/
def walk : Nat → Nat → Sys → List String → Option (List String)
  | 0, _, s, acc => if allDone s then some acc.reverse else none
  | fuel + 1, r, s, acc =>
    if allDone s then some acc.reverse else
    -- declared domain of the replay: at most one writer is between file creation and Close at a
    -- time (two at once — possible only after a stale release — share `<name>.tmp` and replace each
    -- other's inodes; the model abstracts file identity, the proved witnesses cover that regime)
    let busy (i : Nat) : Bool := (List.range s.n).any fun j => j != i &&
      (match (s.threads j).pc with | .write _ => true | .close _ _ => true | _ => false)
    let allowed (a : Actor) : Bool :=
      match a with
      | .thread i => !(match (s.threads i).pc with | .whCreate _ => busy i | _ => false)
      | _ => true
    let cands : List Actor :=
      ((List.range s.n).map Actor.thread ++ [Actor.notifier]).filter (fun a => (step s a).isSome && allowed a)
    -- clock and origin move rarely, and only while something is still going on
    let r1 := nextRand r
    let extra : List Actor :=
      -- (entry expiry is not combined with an origin body read error: the clean-up Delete of a failed
      --  fill racing a revalidation of the same name is outside the replayed domain)
      (if r1 % 11 = 0 ∧ (step s Actor.expire).isSome ∧
          ¬ ((List.range s.n).any fun i => (s.threads i).fault == Fault.readErr) then [Actor.expire] else []) ++
      (if r1 % 17 = 0 then [Actor.originChange] else [])
    let cs := cands ++ extra
    match cs with
    | [] => none
    | _ =>
      let r2 := nextRand r1
      let a := cs.getD ((r2 / 65536) % cs.length) Actor.notifier
      match step s a with
      | some s' => walk fuel r2 s' (actorTok s a :: acc)
      | none => none

def witnesses : List (Nat × List Nat × List String) := [
  (2, [0, 0], ["t0","t0","t0","t0","t1","t1","t0","t0","t0","nf"]),
  (3, [0, 0, 0], ["t0","t0","t0","t0","t0","t0","t0","nf","ex","t1","t1","t1","t0","t0","nf","t2","t2","t2"]),
  (2, [2, 0], ["t0","t0","t0","t1","t1","t0","t0","t0","t0","nf","t1","t0","t0","nf"]),
  (2, [0, 0], ["t1","t0","t0","t0","t0","t0","t0","t0","nf","t1","t1","nf"]),
  -- C07-b: t0 fills and releases, the entry expires, t1 refreshes it with the next origin version, then t0 streams its body
  (2, [0, 0], ["t0","t0","t0","t0","t0","t0","t0","nf","ex","oc","t1","t1","t1","t1","t1","t1","t0"]) ]

/-- known-finding witness streams: index into `witnesses` -/
def witnessOf (stream : String) : Option Nat :=
  if stream = "kf.C12-a" then some 0 else if stream = "kf.C12-b" then some 1
  else if stream = "kf.C13-a" then some 2 else if stream = "kf.C12-c" then some 3
  else if stream = "kf.C07-b" then some 4 else none

/-- complete a schedule prefix deterministically (lowest enabled actor first) -/
def complete : Nat → Sys → List String → List String
  | 0, _, acc => acc.reverse
  | fuel + 1, s, acc =>
    if allDone s then acc.reverse else
    match (((List.range s.n).map Actor.thread ++ [Actor.notifier]).filter fun a => (step s a).isSome) with
    | [] => acc.reverse
    | a :: _ => match step s a with
      | some s' => complete fuel s' (actorTok s a :: acc)
      | none => acc.reverse

def runToks (s : Sys) : List String → Sys
  | [] => s
  | t :: ts => match parseActor t with
    | some a => runToks ((step s a).getD s) ts
    | none => runToks s ts

def caseLineS (stream : String) (id n : Nat) (faults : List Nat) (toks : List String) : String :=
  s!"{stream} {id} {n} " ++ " ".intercalate (faults.map toString) ++ s!" {toks.length} " ++ " ".intercalate toks

def caseLine (id n : Nat) (faults : List Nat) (toks : List String) : String :=
  s!"sched {id} {n} " ++ " ".intercalate (faults.map toString) ++ s!" {toks.length} " ++ " ".intercalate toks

/-- `rrdrv gen sched <seed> <first> <n>` -/
def gen (seed first count : Nat) : List String :=
  (List.range count).filterMap fun k =>
    let id := first + k
    if h : id < witnesses.length then
      let (n, fs, pre) := witnesses[id]
      let s0 := init n (fun i => faultOf (fs.getD i 0))
      let s1 := runToks s0 pre
      some (caseLine id n fs (pre ++ complete 200 s1 []))
    else
      let r0 := nextRand (seed * 1000003 + id * 7919 + 12345)
      let n := 2 + (r0 / 1024) % 2
      let r1 := nextRand r0
      let fs : List Nat := (List.range n).map fun i =>
        let x := (nextRand (r1 + i * 31) / 4096) % 12
        if x = 0 then 1 else if x = 1 then 2 else if x = 2 then 3 else 0
      match walk 200 r1 (init n (fun i => faultOf (fs.getD i 0))) [] with
      | some toks => some (caseLine id n fs toks)
      | none => none

/-- `rrdrv gen kf.C12-a …`: the fixed witness schedule, completed by the model -/
def genWitness (stream : String) (first count : Nat) : List String :=
  match witnessOf stream with
  | none => []
  | some w =>
    match witnesses[w]? with
    | none => []
    | some (n, fs, pre) =>
      let s0 := init n (fun i => faultOf (fs.getD i 0))
      let s1 := runToks s0 pre
      let toks := pre ++ complete 200 s1 []
      (List.range count).map fun k => caseLineS stream (first + k) n fs toks

def hSched : Handler := fun impl => do
  let n ← pNat
  let fs ← pTimes pNat n
  let toks ← pList tok
  let faults := fs.map faultOf
  let s0 := init n (fun i => faultOf (fs.getD i 0))
  -- replay the schedule on the model, recording where each actor parks after its step
  let (sEnd, parks) := toks.foldl (fun (acc : Sys × List String) t =>
      let (s, ps) := acc
      match parseActor t with
      | none => (s, ps ++ ["bad-token"])
      | some a =>
        match step s a with
        | none =>
          let gone : Bool := match a with | .thread i => (s.threads i).pc == Pc.done | _ => false
          (s, ps ++ [if gone = true then "gone" else "not-enabled"])
        | some s' =>
          let p := match a with
            | .thread i => pointOf (s'.threads i).pc
            | .notifier => "notifier.done"
            | _ => "ok"
          (s', ps ++ [p])) (s0, [])
  let views := (List.range n).map fun i => threadViewTok (sEnd.threads i)
  let model := " ".intercalate (parks ++ ["|views"] ++ views ++ [toString sEnd.fetches, toString sEnd.maxInFlight])
  let cls := ",".intercalate (
    (if sEnd.liveRemovals > 0 then ["C12-a"] else []) ++ (if sEnd.staleReleases > 0 then ["C12-b"] else []) ++
    (if sEnd.lateWriters > 0 then ["C12-c"] else []) ++
    (if (List.range n).any (fun i => (torn (sEnd.threads i)).isSome) then ["C07-b"] else []) ++
    (if faults.contains .readErr ∧ ((List.range n).any fun i => (faults.getD i Fault.none != Fault.readErr) &&
        (match (sEnd.threads i).view with | .truncated _ => true | _ => false)) then ["C13-a"] else []))
  -- oracles on the implementation's observation
  let iviews := ((impl.dropWhile (· ≠ "|views")).drop 1)
  let ivs := iviews.take n
  let imax := ((iviews.drop (n + 1)).head?.bind String.toNat?).getD 0
  let noFault := faults.all (· == .none)
  let bad :=
    (if noFault ∧ ivs.length = n then
      (if imax ≤ 1 then [] else ["bad:C12:more-than-one-origin-fetch-in-flight"]) ++
      (if ivs.all Spec.C12.viewComplete then [] else ["bad:C12:a-client-was-not-served-the-complete-response"])
     else []) ++
    (if ivs.length = n ∧ ¬ Spec.C12.holds13 faults ivs then ["bad:C13:partial-data-served-or-request-stuck"] else []) ++
    -- C08 in schedules: the scripted origin grants no stale-if-error / stale-while-revalidate, so
    -- nobody may be handed an expired entry (view token C<v>s = served with richie-edge-cache: stale)
    (if ivs.any (fun v => v.startsWith "C" && v.endsWith "s") then ["bad:C08:expired-entry-served-without-revalidation-or-allowance"] else []) ++
    -- C07 in schedules: a view M<b>/<e> pairs the body of one stored response with the validator of another
    (if ivs.any (fun v => v.startsWith "M") then ["bad:C07:body-of-one-response-under-the-headers-of-another"] else [])
  let oracle := if ivs.length ≠ n then "na" else if bad.isEmpty then "ok" else ",".intercalate bad
  let label := s!"n{n}:" ++ (if noFault then "nofault" else "fault") ++
    (if sEnd.fetches > 1 then ":refetch" else "") ++ (if (List.range n).any (fun i => toks.contains s!"T{i}") then ":rewait" else "")
  return { model := model, oracle := oracle, cls := if cls = "" then "-" else cls, label := label }

def handlers : List (String × Handler) := [
  ("sched", hSched), ("kf.C12-a", hSched), ("kf.C12-b", hSched), ("kf.C12-c", hSched), ("kf.C13-a", hSched), ("kf.C07-b", hSched) ]

end H.Sched
