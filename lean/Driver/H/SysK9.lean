import Driver.Core
import RrModel.CacheControl
/- streams: condpair, kf.C09-f (C09) — conditional and unconditional clients coalesced on one
   fetch (world and overlap of stream sysk). The resource carries ETag "e1".

   Model (server.go: after the coalescing wait the request continues with
   `cache.Get(…, []Key{waitedKeyInfo.Key})`, and cache.Get's client-validator comparison reads
   `k.originalHeaders` — the headers of the request that FILLED the entry, caching.go:238-265):
   the waiter is answered by the WRITER's If-None-Match; a sequential request by its own. -/
open Go Model Proto

namespace H.SysK9

def stored : Bytes := b!"\"e1\""

/-- the code's comparison: whole header value against the stored tag, both without one `W/` -/
def matchCode (inm : Bytes) : Bool := inm ≠ [] && normalizeEtag inm == normalizeEtag stored

/-- the property's reading (RFC 9110 13.1.2, weak comparison): `*`, or one of the listed tags -/
def matchSpec (inm : Bytes) : Bool :=
  trim b!" \t" inm == b!"*" ||
  (split inm b!",").any fun e => trimPrefix (trim b!" \t" e) b!"W/" == stored

def viewOf (hit304 : Bool) (edge : String) (contacts : Nat) : String :=
  if hit304 then s!"304 complete 0 {edge} {contacts}" else s!"200 complete 51 {edge} {contacts}"

def hCondPair : Handler := fun impl => do
  let v0 ← pBytes
  let v1 ← pBytes
  let v2 ← pBytes
  let v3 ← pBytes
  -- r1 fills (the origin ignores validators and answers 200); r2 is parked behind it and woken with r1's key
  let model := " ".intercalate ["parked", viewOf false "miss" 1, viewOf (matchCode v0) "hit" 0,
                                viewOf (matchCode v2) "hit" 0, viewOf (matchCode v3) "hit" 0]
  -- oracle on the implementation: impl = outcome, then 4 × (status framing len edge contacts)
  let statuses : List String := match impl with
    | [_, s1, _, _, _, _, s2, _, _, _, _, s3, _, _, _, _, s4, _, _, _, _] => [s1, s2, s3, s4]
    | _ => []
  let sent := [v0, v1, v2, v3]
  let bad := (statuses.zip sent).any fun (s, inm) => s == "304" && !matchSpec inm
  let oracle := if statuses.length ≠ 4 then "na" else if bad then "bad:C09:304-for-a-client-without-matching-validator" else "ok"
  let cls := if matchCode v0 ∧ ¬ matchSpec v1 then "C09-f" else "-"
  let label := (if v0 = [] then "writer-plain" else "writer-conditional") ++ "/" ++ (if v1 = [] then "waiter-plain" else "waiter-conditional")
  return { model := model, oracle := oracle, cls := cls, label := label }

def handlers : List (String × Handler) := [ ("condpair", hCondPair), ("kf.C09-f", hCondPair) ]

end H.SysK9
