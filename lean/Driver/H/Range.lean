import Driver.Core
import RrModel.Spec.C15
/- streams: range, rangemal, rangecl, rangeresp, kf.C15-*  (C15); kf.C15-a and kf.C15-b are the
   regression streams of the repaired findings C15-a / C15-b (suffix arithmetic; no class label any
   more: a failure there is a violation) -/
open Go Proto Model.Range

namespace H.Range

def showOptInt : Option Int → String
  | none => "0 0"
  | some v => s!"1 {v}"

def showOptBytes : Option Bytes → String
  | none => "0 x"
  | some v => s!"1 {toHex v}"

def showView (v : ClientView) : String :=
  s!"{v.status} {showOptBytes v.contentLength} {showOptBytes v.contentRange} {toHex v.body}"

def formLabel (r : Spec.C15.RangeSpec) : String :=
  match r with
  | .absent => "norange"
  | .invalid => "invalid"
  | .fromTo _ _ => "a-b"
  | .from_ _ => "a-"
  | .suffix _ => "-k"

def joinBad (bad : List String) : String := if bad.isEmpty then "ok" else ",".intercalate bad
def joinCls (c : List String) : String := if c.isEmpty then "-" else ",".intercalate c.eraseDups

/-- the last four tokens of a function-level case: what `setRangedHeaders` did -/
def implHeaderView (impl : List String) : Option ClientView :=
  match impl.reverse with
  | cr :: cl :: nset :: st :: _ =>
    match st.toNat?, nset.toNat?, fromHex cl, fromHex cr with
    | some s, some k, some clv, some crv =>
      some ⟨s, if k = 0 ∨ clv.isEmpty then none else some clv, if k = 0 ∨ crv.isEmpty then none else some crv, []⟩
    | _, _, _, _ => none
  | _ => none

/-- `range` / `rangemal`: getRange, start/end/size/contentRangeValue, setRangedHeaders -/
def hRangeFn : Handler := fun impl => do
  let status ← pNat
  let cl ← pInt
  let has ← pBool
  let rng ← pBytes
  let rh : Option Bytes := if has then some rng else none
  let rr := getRange (rangeOnlyHeader rh)
  let (st, set) := setRangedHeaders rr cl status
  let setS := match set with
    | none => s!"{st} 0 x x"
    | some (a, b) => s!"{st} 2 {toHex a} {toHex b}"
  let model := match rr with
    | none => s!"nil {setS}"
    | some r => s!"rr {showOptInt r.s} {showOptInt r.e} {r.start cl} {r.end cl} {r.size cl} {toHex (r.contentRangeValue cl)} {setS}"
  let spec := Spec.C15.parseRange rh
  -- header-level oracle on what the IMPLEMENTATION's setRangedHeaders decided, for a 200 resource
  -- whose length is the content length handed in
  let (oracle, cls) :=
    if status = 200 ∧ cl ≥ 0 then
      match implHeaderView impl with
      | some v =>
        let clsL := (match spec with
                      | .invalid => if rr.isSome then ["C15-g"] else []
                      | _ => [])
        (if Spec.C15.allowedHeaders 200 cl.toNat rh v then "ok" else "bad:C15:status-or-range-headers-not-allowed", joinCls clsL)
      | none => ("na", "-")
    else ("na", "-")
  let label := formLabel spec ++ ":" ++ (match rr with | none => "nil" | some _ => toString st)
  return { model := model, oracle := oracle, cls := cls, label := label }

/-- `rangecl`: contentLengthFromRange -/
def hRangeCl : Handler := fun _ => do
  let s ← pBytes
  let r := contentLengthFromRange s
  return { model := toHex r, label := if r.isEmpty then "empty" else "total" }

def pView : P ClientView := do
  let st ← pNat
  let hasCl ← pBool
  let cl ← pBytes
  let hasCr ← pBool
  let cr ← pBytes
  let body ← pBytes
  pure ⟨st, if hasCl then some cl else none, if hasCr then some cr else none, body⟩

/-- the implementation's tokens of a `rangeresp` case: fill view, `hit` + view | `nohit`, origin flag -/
def pImplResp : P (ClientView × Option ClientView × Bool) := do
  let first ← pView
  let t ← tok
  let second ← if t = "hit" then (do let v ← pView; pure (some v)) else pure none
  let saw ← pBool
  pure (first, second, saw)

/-- `rangeresp` and the witness streams: the composed response, fill then hit -/
def hRangeResp : Handler := fun impl => do
  let status ← pNat
  let chunked ← pBool
  let body ← pBytes
  let has ← pBool
  let rng ← pBytes
  let rh : Option Bytes := if has then some rng else none
  let clh : Option Int := if chunked then none else some body.length
  let (first, second) := fillThenHit status clh body rh
  let fwd := forwardsRange rh
  let model := showView first ++ (match second with | some v => " hit " ++ showView v | none => " nohit") ++
    (if fwd then " 1" else " 0")
  let xFill : Spec.C15.Input := ⟨.fill, status, clh, body, rh⟩
  -- the resource as the hit path finds it (what the model says was stored)
  let (stSt, stCl) := storedAfterFill first
  let xHit : Spec.C15.Input := ⟨.hit, stSt, stCl, body, rh⟩
  let (oracle, cls) :=
    match run pImplResp impl with
    | .ok (iFirst, iSecond, saw) =>
      let bad :=
        (if Spec.C15.holds xFill iFirst then [] else ["bad:C15:fill-response-not-allowed"]) ++
        (match iSecond with
          | some v => if Spec.C15.holds { xHit with status := status } v then [] else ["bad:C15:hit-response-not-allowed"]
          | none => []) ++
        (if Spec.C15.originOk saw then [] else ["bad:C15:origin-saw-range"])
      (joinBad bad, joinCls (Spec.C15.classes xFill ++ (if iSecond.isSome then Spec.C15.classes xHit else [])))
    | .error _ => ("na", "-")
  let label := formLabel (Spec.C15.parseRange rh) ++ ":" ++ toString first.status ++ "/" ++
    (match second with | some v => toString v.status | none => "nohit")
  return { model := model, oracle := oracle, cls := cls, label := label }

def handlers : List (String × Handler) := [
  ("range", hRangeFn), ("rangemal", hRangeFn), ("rangecl", hRangeCl), ("rangeresp", hRangeResp),
  ("kf.C15-a", hRangeResp), ("kf.C15-b", hRangeResp), ("kf.C15-c", hRangeResp), ("kf.C15-d", hRangeResp),
  ("kf.C15-f", hRangeResp), ("kf.C15-g", hRangeResp), ("kf.C15-h", hRangeResp) ]

end H.Range
