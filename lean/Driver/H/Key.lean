import Driver.Core
import RrModel.Spec.C11
/- streams: selftest, key, override, keypair, kf.C11-a, kf.C11-b, kf.C11-c  (C11) -/
open Go Model Proto

namespace H.Key

def pHeader : P Header := pList (do let k ← pBytes; let vs ← pList pBytes; pure (k, vs))

def pReq : P Req := do
  let method ← pBytes
  let host ← pBytes
  let us ← pBytes
  let uh ← pBytes
  let uri ← pBytes
  let h ← pHeader
  pure { method := method, host := host, urlScheme := us, urlHost := uh, uri := uri, header := h }

def showBool (b : Bool) : String := if b then "1" else "0"

def showEntries (es : List (Bytes × List Bytes)) : String :=
  " ".intercalate (toString es.length :: es.map fun (k, vs) =>
    " ".intercalate (toHex k :: toString vs.length :: vs.map toHex))

def showName : Res Bytes → String
  | .ok n => toHex n
  | .panic _ => "panic"

/-- SHA-1 test vectors and random strings against `crypto/sha1` -/
def hSelftest : Handler := fun _ => do
  let s ← pBytes
  let label := if s.length < 56 then "one-block" else if s.length < 120 then "two-blocks" else "more-blocks"
  return { model := toHex (Sha1.sha1Hex s), label := label }

def showKey (k : Key) : String :=
  " ".intercalate [showName (fsName k), toHex k.method, toHex k.host, toHex k.path, showBool k.opaqueOrigin,
    showEntries (storedNormal k.storedHeaders), showBool k.hasFullOrigin, showBool k.hasOpaqueOrigin]

/-- what the oracle reads of the implementation's answer in the `key` stream: opaque flags of
    the keys and the preferred index -/
def pImplKeys : P (List Bool × Int) := do
  let n ← pNat
  let os ← pTimes (do
    let _ ← pBytes; let _ ← pBytes; let _ ← pBytes; let _ ← pBytes
    let o ← pBool
    let _ ← pHeader
    let _ ← pBool; let _ ← pBool
    pure o) n
  let pi ← pInt
  pure (os, pi)

def hKey : Handler := fun impl => do
  let _raw ← pBytes
  let parsed ← pBool
  if ¬ parsed then return { model := "rejected", label := "rejected" }
  let r ← pReq
  let keys := keysFromRequest r
  let pref : Int := match preferredIndex keys with | some i => i | none => -1
  let model := " ".intercalate (toString keys.length :: keys.map showKey ++ [toString pref])
  let oracle :=
    match run pImplKeys impl with
    | .ok (os, pi) =>
      if pi ≥ 0 ∧ Spec.C11.holdsKeys r.header os pi.toNat then "ok" else "bad:C11:wrong-keys-for-origin"
    | .error _ => "na"
  let stored := (keys.headD (newKey [] [] [] false [] [])).storedHeaders
  let label :=
    (if Spec.C11.originPresent r.header then "origin" else "plain") ++
    (match Spec.C11.methodClass r.method with | .get => ":get" | .head => ":head" | .other => ":other") ++
    (if (storedNormal stored).isEmpty then "" else ":hdrs") ++
    (if (storedNormal stored).any (fun e => e.2.length > 1) then ":repeated" else "")
  return { model := model, oracle := oracle, label := label }

def hOverride : Handler := fun _ => do
  let _raw ← pBytes
  let rc ← pRuleC
  let parsed ← pBool
  if ¬ parsed then return { model := "rejected", label := "rejected" }
  let r ← pReq
  if ¬ rc.valid then return { model := "err:rules", label := "rules-rejected" }
  let r2 := overrideOnRequest rc.rule r
  let model := " ".intercalate [toHex r2.urlScheme, toHex r2.urlHost, toHex r2.uri, toHex r2.host, toHex r2.method]
  let form := if r.urlHost.isEmpty then "origin-form" else "absolute-form"
  let cons := if rc.rule.host.isEmpty ∧ rc.rule.scheme.isEmpty then "" else ":constrained"
  let label :=
    match attemptMatch rc.rule r.urlScheme r.urlHost r.uri with
    | none => s!"unchanged:no-rematch:{form}{cons}"
    | some t => if (parseDest t).isSome then s!"rewritten:{form}{cons}" else s!"unchanged:dest-unparsable:{form}"
  return { model := model, oracle := "ok", label := label }

/-- one side of a pair as the model sees it -/
inductive Side where
  | word (w : String)
  | routed (x : Spec.C11.Routed) (idx : Nat) (d : Spec.C11.Dest) (names : List String)

def pRoute : P (Nat × Bytes × Bytes × Bytes) := do
  let f ← pNat; let s ← pBytes; let h ← pBytes; let u ← pBytes
  pure (f, s, h, u)

def modelSide (rs : List Rule) (r : Req) (route : Nat × Bytes × Bytes × Bytes) : Side :=
  let (flag, s, h, u) := route
  if flag ≠ 1 then .word "err:outurl"
  else
    match (matchRules rs ⟨s, h, u, r.method⟩).proxy with
    | none => .word "nomatch"
    | some (i, _) =>
      match rs[i]? with
      | none => .word "nomatch"
      | some rule =>
        let x : Spec.C11.Routed := { req := r, rule := rule, rScheme := s, rHost := h, rUri := u }
        match Spec.C11.dest x with
        | none => .word "err:outurl"
        | some d => .routed x i d ((Spec.C11.modelKeys x).map fun k => showName (fsName k))

def showSide : Side → List String
  | .word w => [w]
  | .routed _ i d names => [toString i, toHex d.authority, toHex d.path, toHex d.query, toString names.length] ++ names

/-- one side of the IMPLEMENTATION's answer: rule index and entry names -/
def pImplSide : P (Option (Nat × List Bytes)) := do
  let t ← tok
  match t.toNat? with
  | none => pure none
  | some i =>
    let _ ← pBytes; let _ ← pBytes; let _ ← pBytes
    let names ← pList pBytes
    pure (some (i, names))

def hKeyPair : Handler := fun impl => do
  let _rawA ← pBytes
  let _rawB ← pBytes
  let rcs ← pList pRuleC
  let parsed ← pBool
  if ¬ parsed then return { model := "rejected", label := "rejected" }
  let ra ← pReq
  let routeA ← pRoute
  let rb ← pReq
  let routeB ← pRoute
  if ¬ rcs.all (·.valid) then return { model := "err:rules", label := "rules-rejected" }
  if routeA.1 = 3 ∨ routeB.1 = 3 then return { model := "panic", label := "panic" }
  let rs := rcs.map (·.rule)
  let sa := modelSide rs ra routeA
  let sb := modelSide rs rb routeB
  let shared :=
    match sa, sb with
    | .routed _ _ _ na, .routed _ _ _ nb => na.any fun x => nb.contains x
    | _, _ => false
  let model := " ".intercalate (showSide sa ++ showSide sb ++ [showBool shared])
  -- the oracle: the implementation's rule choice and the implementation's entry names
  let mk (r : Req) (route : Nat × Bytes × Bytes × Bytes) (i : Nat) : Option Spec.C11.Routed :=
    (rs[i]?).map fun rule => { req := r, rule := rule, rScheme := route.2.1, rHost := route.2.2.1, rUri := route.2.2.2 }
  let implSides := run (do let a ← pImplSide; let b ← pImplSide; pure (a, b)) impl
  let (oracle, clash) :=
    match implSides with
    | .ok (some (ia, na), some (ib, nb)) =>
      match mk ra routeA ia, mk rb routeB ib with
      | some xa, some xb =>
        if Spec.C11.holds xa xb na nb then ("ok", false)
        else
          let reason :=
            match Spec.C11.clashes xa xb na nb with
            | (r, s) :: _ => "shared-entry-differs-in-" ++ Spec.C11.diffReason r s
            | [] => "wrong-number-of-keys"
          (s!"bad:C11:{reason}", true)
      | _, _ => ("na", false)
    | _ => ("na", false)
  let (cls, label) :=
    match sa, sb with
    | .routed xa _ _ _, .routed xb _ _ _ =>
      let cs := (if Spec.C11.inClass_C11_a xa xb then ["C11-a"] else []) ++
                (if Spec.C11.inClass_C11_b xa xb then ["C11-b"] else []) ++
                (if Spec.C11.inClass_C11_c xa xb then ["C11-c"] else [])
      let org := if Spec.C11.originPresent ra.header ∨ Spec.C11.originPresent rb.header then ":origin" else ""
      let lab :=
        if shared then (if clash then "shared:distinct-resources" else "shared:same-resource") ++ org
        else "separate" ++ org
      (if cs.isEmpty then "-" else ",".intercalate cs, lab)
    | _, _ => ("-", "unrouted")
  return { model := model, oracle := oracle, cls := cls, label := label }

def handlers : List (String × Handler) := [
  ("selftest", hSelftest), ("key", hKey), ("override", hOverride), ("keypair", hKeyPair),
  ("kf.C11-a", hKeyPair), ("kf.C11-b", hKeyPair), ("kf.C11-c", hKeyPair) ]

end H.Key
