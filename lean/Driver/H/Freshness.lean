import Driver.Core
import RrModel.Freshness
import RrModel.Spec.C08
import RrModel.Spec.C10
import RrModel.Spec.C09Get
/- streams: ccparse, fresh, httpdate, skipcache, kf.C10-a (regression stream since the fix for
   finding C10-a), kf.C10-b, kf.C08-a, kf.C08-b, kf.C09-a
   (C08, C10, the client-304 clause of C09) -/
open Go Model Proto

namespace H.Freshness

/-- `n {key nv {val}}` -/
def pHeader : P Header := pList (do
  let k ← pBytes
  let vs ← pList pBytes
  pure (k, vs))

def sB (b : Bool) : String := if b then "1" else "0"
def sOptInt : Option Int → String
  | none => "nil"
  | some n => toString n

def joinCls (l : List String) : String := if l.isEmpty then "-" else ",".intercalate l
def joinBad (l : List String) : String := if l.isEmpty then "ok" else ",".intercalate l

def hCcparse : Handler := fun impl => do
  let h ← pHeader
  let age ← pInt
  let d := getCacheControlDirectives h
  let model := " ".intercalate (
    [sB d.noCache, sB d.noStore, sB d.priv, sOptInt d.maxAge, sOptInt d.sMaxAge, sOptInt d.staleIfError,
     sOptInt d.staleWhileRevalidate, toString d.vary.length] ++ d.vary.map toHex ++
    [sB d.doNotCache, sB d.varyByOrigin, sB (d.canStaleIfError age), sB (d.canStaleWhileRevalidate age)])
  -- the implementation's DoNotCache is the 4th token from the end
  let oracle :=
    match impl.reverse with
    | _ :: _ :: _ :: dnc :: _ =>
      if Spec.C10.holds h (dnc == "1") then "ok" else "bad:C10:carried-directive-not-honoured"
    | _ => "na"
  -- HTAB in the optional white space of a carried directive: a label only (finding C10-a is repaired,
  -- there is no class for it any more: a missed directive there is an ordinary violation)
  let htab := Spec.C10.htabAroundDirective h
  let inB := Spec.C10.inClass_C10_b h
  let cls := joinCls (if inB then ["C10-b"] else [])
  let label :=
    if Spec.C10.carriesAny h then
      "carries" ++ (if htab then ":htab" else "") ++ (if inB then ":dup" else "") ++ (if d.doNotCache then "" else ":missed")
    else if d.doNotCache then "lenient-dnc"
    else if (h.values b!"cache-control").isEmpty then "no-cc"
    else if d.maxAge.isSome || d.sMaxAge.isSome then "cacheable:lifetime"
    else "cacheable"
  return { model := model, oracle := oracle, cls := cls, label := label }

def sOutcome : Freshness.Outcome → String
  | .foundFresh a => s!"fresh {a} 0"
  | .found304 a => s!"n304 {a} 0"
  | .foundStale a => s!"stale {a} 1"
  | .foundNoReader a => s!"noreader {a} 0"
  | .revalidatingWriter a => s!"revalw {a} 0"
  | .revalidatingReader a => s!"revalr {a} 0"

def hFresh : Handler := fun impl => do
  let decoded ← pBool
  let h ← pHeader
  let created ← pInt
  let revalidated ← pInt
  let now ← pInt
  let force ← pNat
  let skip ← pBool
  let lock ← pBool
  let inm ← pBytes
  let ims ← pBytes
  let suf ← pBytes
  if !decoded then
    return { model := if lock then "notfoundr 0 0" else "notfoundw 0 0", label := "undecodable" }
  let m : Freshness.Entry := { header := h, created := created, revalidated := revalidated }
  let suffix := Freshness.currentEtagSuffix suf
  let res := Freshness.get lock m now force skip inm ims suffix
  let model := match res with
    | .panic _ => "panic"
    | .ok o => sOutcome o
  let st := Spec.C08.storedOf h created revalidated
  let kind := impl.headD ""
  let obs : Option Spec.C08.Obs :=
    if kind == "fresh" || kind == "n304" || kind == "stale" || kind == "noreader" then some .served
    else if kind == "revalw" then some .contact
    else if kind == "revalr" then some .wait
    else none
  let bad08 :=
    match obs with
    | none => []
    | some o =>
      if Spec.C08.holds st now force skip lock o then []
      else [if o == .served then "bad:C08:served-past-lifetime" else "bad:C08:origin-contact-while-fresh"]
  let bad09 :=
    -- outside the configuration domain of the clause (suffix containing a quote) nothing is judged
    if kind == "panic" || kind == "" || !Spec.C09Get.suffixOk suffix then []
    else if Spec.C09Get.holds suffix inm ims h (kind == "n304") then []
    else ["bad:C09:304-without-matching-validator"]
  let oracle := if obs.isNone && kind != "panic" then "na" else joinBad (bad08 ++ bad09)
  -- no C09 class any more: finding C09-a (cutset trim in normalizeEtag) is repaired, kf.C09-a runs as a
  -- regression stream, a 304 without a matching validator is an ordinary violation
  let cls := joinCls (
    (if Spec.C08.inClass_C08_a st now then ["C08-a"] else []) ++
    (if Spec.C08.inClass_C08_b st now then ["C08-b"] else []))
  let src :=
    if st.sMaxAge.isSome then "smaxage" else if st.maxAge.isSome then "maxage"
    else match st.expires with
      | none => "nolifetime"
      | some none => "expires-invalid"
      | some (some _) => "expires"
  let label := (model.splitOn " ").headD "?" ++ ":" ++ src ++ (if force != 0 then ":force" else "") ++
    (if revalidated != 0 then ":revalidated" else "")
  return { model := model, oracle := oracle, cls := cls, label := label }

def sParse : Option Int → String
  | some t => s!"ok {t}"
  | none => s!"err {Time.zeroTimeUnix}"

def hHttpdate : Handler := fun _ => do
  let s ← pBytes
  let a := Time.parseRFC1123 s
  let b := Time.parseRFC1123Z s
  let label := match a, b with
    | some _, _ => "rfc1123"
    | none, some _ => "rfc1123z"
    | none, none => "unparsable"
  return { model := s!"{sParse a} {sParse b}", label := label }

def hSkipcache : Handler := fun impl => do
  let h ← pHeader
  let ov ← pList (do
    let k ← pBytes
    let v ← pOptBytes
    pure (k, v))
  let r := shouldSkipCaching h ov
  let oracle :=
    match impl with
    | [t] => if Spec.C10.holdsSkip h ov (t == "1") then "ok" else "bad:C10:credentials-not-kept-out-of-the-cache"
    | _ => "na"
  let label := (if Spec.C10.hasAuthorization h then "auth" else "noauth") ++
    (if Spec.C10.rulesStripAuthorization ov then ":stripped" else "")
  return { model := sB r, oracle := oracle, label := label }

def handlers : List (String × Handler) := [
  ("ccparse", hCcparse), ("kf.C10-a", hCcparse), ("kf.C10-b", hCcparse),
  ("fresh", hFresh), ("kf.C08-a", hFresh), ("kf.C08-b", hFresh), ("kf.C09-a", hFresh),
  ("httpdate", hHttpdate), ("skipcache", hSkipcache) ]

end H.Freshness
