import Driver.Core
import RrModel.Spec.C06
/- streams: recomp, recomphdr, codeclaw, kf.C06-a … kf.C06-d  (C06); kf.C06-a and kf.C06-d are the
   regression streams of the repaired findings C06-a and C06-d (no class label any more: a failure
   there is a violation) -/
open Go Model Proto
open Model.Recompress

namespace H.Recompress

def showAccepts : Accepts → String
  | .other => "other" | .gzip => "gzip" | .brotli => "brotli" | .brokenClient => "broken"
def showCe : CeClass → String
  | .empty => "none" | .identity => "identity" | .gzip => "gzip" | .br => "br" | .other => "other"
def showCt : CtClass → String
  | .json => "json" | .text => "text" | .other => "other"
def showCType : CType → String
  | .none => "none" | .gzip => "gzip" | .brotli => "br"

def oracleString (vs : List String) : String :=
  if vs.isEmpty then "ok" else ",".intercalate (vs.map fun v => "bad:C06:" ++ v)

def clsString (cs : List String) : String := if cs.isEmpty then "-" else ",".intercalate cs

/-- L1: GetRecompression, ContentEncodingFromCompressionType, canTransform -/
def hRecomp : Handler := fun impl => do
  let ae ← pBytes
  let ce ← pBytes
  let ct ← pBytes
  let cc ← pBytes
  let rc := getRecompression ae ce ct
  let can := canTransform cc
  let model := s!"{rc.add.code} {rc.remove.code} {toHex (contentEncodingFromCompressionType rc.add)} {if can then 1 else 0}"
  -- the oracle judges the IMPLEMENTATION's decision: it is carried out on an honest origin
  -- response (toy codec) and the property's clauses are evaluated on the result
  let plain : Bytes := 0 :: b!"body"
  let body : Bytes := if ce = b!"gzip" then 1 :: plain else if ce = b!"br" then 2 :: plain else plain
  let h : Header := [(kContentType, ct), (kContentEncoding, ce), (kCacheControl, cc)].foldl
    (fun h kv => if kv.2 = [] then h else h.add kv.1 kv.2) []
  let x : Input := { flag := true, ae := ae, originHeaders := h, originBody := body }
  let oracle :=
    match impl with
    | [a, r, _, c] =>
      match a.toNat?, r.toNat? with
      | some a, some r =>
        let rcI : Recompression := if c = "1" then ⟨CType.ofCode a, CType.ofCode r⟩ else ⟨.none, .none⟩
        oracleString (Spec.C06.violations toyExt x (handle toyExt rcI x))
      | _, _ => "na"
    | _ => "na"
  let label := s!"{showAccepts (acceptsEncodingFromString ae)}/{showCe (ceClass ce)}/{showCt (ctClass ct)}"
  return { model := model, oracle := oracle, cls := clsString (Spec.C06.classes x), label := label }

def showHeader (h : Header) : String :=
  let n := h.normal
  " ".intercalate (toString n.length :: n.map fun (k, vs) =>
    " ".intercalate (toHex k :: toString vs.length :: vs.map toHex))

def pHeaderMap : P Header := pList (do
  let k ← pBytes
  let vs ← pList pBytes
  pure (k, vs))

/-- L2: the whole response path through ConfigureServeMux -/
def hHdr : Handler := fun impl => do
  let flag ← pBool
  let hasAE ← pBool
  let ae ← pBytes
  let lines ← pList (do let k ← pBytes; let v ← pBytes; pure (k, v))
  let body ← pBytes
  let h : Header := lines.foldl (fun h kv => h.add kv.1 kv.2) []
  let x : Input := { flag := flag, ae := if hasAE then ae else [], originHeaders := h, originBody := body }
  let rc := decision x
  let r := respond toyExt x
  -- last token (C05): a Content-Length that reaches the client equals the bytes delivered. The generator's
  -- origin states its length correctly, so by Props.C05Recompress.content_length_only_with_the_origins_bytes
  -- the model's answer is: consistent, unless the length survives next to a changed body (never)
  let clOK := r.headers.get kContentLength == [] || r.body == x.originBody
  let model := s!"{r.status} {showHeader r.headers} {toHex r.body} {if r.body = x.originBody then 1 else 0} {if clOK then 1 else 0}"
  let c05 := match impl.getLast? with
    | some "0" => ["bad:C05:content-length-differs-from-the-bytes-delivered"]
    | _ => []
  let oracle :=
    match run (do let st ← pNat; let hh ← pHeaderMap; let b ← pBytes; pure (st, hh, b)) impl with
    | .ok (st, hh, b) =>
      let o6 := oracleString (Spec.C06.violations toyExt x { status := st, headers := hh, body := b })
      if c05.isEmpty then o6 else if o6 = "ok" then ",".intercalate c05 else o6 ++ "," ++ ",".intercalate c05
    | .error _ => "na"
  let vary := x.originHeaders.get kVary
  let label :=
    if ¬ Spec.C06.inDomain toyExt x then (if r.status = 500 then "mislabelled:500" else "mislabelled:pass")
    else if !flag then "off"
    else if !canTransform (cacheControlOf x.originHeaders) then "no-transform"
    else if rc.add = .none ∧ rc.remove = .none then "pass"
    else (if rc.remove = .gzip then "gunzip" else "") ++
         (if rc.add ≠ .none then "+" ++ showCType rc.add ++
            (if (x.originHeaders.values kVary).isEmpty then ""
             else if varyRewrite vary = kAcceptEncoding then ":vary-replaced" else ":vary-appended")
          else "")
  -- finding C05-d: a body labelled gzip that does not decode is answered 500 under the origin's own headers
  let c05d := if r.status = 500 ∧ !clOK then ["C05-d"] else []
  return { model := model, oracle := oracle, cls := clsString (Spec.C06.classes x ++ c05d), label := label }

/-- the codec laws on the real libraries (a sampled test of the theorems' hypotheses); the
    model side states the same four laws for the toy codec -/
def hLaw : Handler := fun _ => do
  let b ← pBytes
  let g := decide (toyExt.gzipDec (toyExt.gzipEnc b) = some b)
  let r := decide (toyExt.brDec (toyExt.brEnc b) = some b)
  let t (x : Bool) : String := if x then "1" else "0"
  return { model := s!"{t g} {t r} {t g} {t r}", label := if b.length > 1024 then "big" else "small" }

def handlers : List (String × Handler) := [
  ("recomp", hRecomp), ("recomphdr", hHdr), ("codeclaw", hLaw),
  ("kf.C06-a", hHdr), ("kf.C06-b", hHdr), ("kf.C06-c", hHdr), ("kf.C06-d", hHdr), ("kf.C05-d", hHdr) ]

end H.Recompress
