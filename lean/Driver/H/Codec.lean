import Driver.Core
import RrModel.Spec.C07
/- streams: codec, codec.raw, storeprep, kf.C07-a  (C07, function level) -/
open Go Model Proto

namespace H.Codec
open Model.Codec

/-- header map tokens: n, then per key: key, number of values, values -/
def pHeader : P Header :=
  pList (do let k ← pBytes; let vs ← pList pBytes; pure (k, vs))

def pMeta : P Meta := do
  let host ← pBytes
  let path ← pBytes
  let rq ← pHeader
  let rs ← pHeader
  let status ← pInt
  let redirect ← pBytes
  let created ← pInt
  let revalidated ← pInt
  let size ← pInt
  pure { host := host, path := path, reqHeader := rq, respHeader := rs, status := status,
         redirect := redirect, created := created, revalidated := revalidated, size := size }

/-- the Go side prints every map key (sorted) with all its values -/
def showHeader (h : Header) : String :=
  let ks := sortBytes (mapKeys h)
  " ".intercalate (toString ks.length ::
    ks.map fun k =>
      let vs := Header.vals h k
      " ".intercalate (toHex k :: toString vs.length :: vs.map toHex))

def showMeta (m : Meta) : String :=
  s!"{toHex m.host} {toHex m.path} {showHeader m.reqHeader} {showHeader m.respHeader} {m.status} {toHex m.redirect} {m.created} {m.revalidated} {m.size}"

def showDecode : Res (Option Meta) → String
  | .panic _ => "panic"
  | .ok none => "err"
  | .ok (some m) => "ok " ++ showMeta m

/-- parse what the implementation printed after the encoded bytes -/
def implObs (impl : List String) : Option Spec.C07.Obs :=
  match impl with
  | ["panic"] => some .panic
  | _ :: "panic" :: [] => some .panic
  | _ :: "err" :: [] => some .err
  | _ :: "ok" :: rest =>
    match run pMeta rest with
    | .ok m => some (.ok m)
    | .error _ => none
  | _ => none

def sizeBucket (m : Meta) : String :=
  let n := (mapKeys m.respHeader).length
  if n = 0 then "h0" else if n ≤ 3 then "h1-3" else "h4+"

def hCodec : Handler := fun impl => do
  let m ← pMeta
  let enc := encode m
  let dec := decode enc
  let model := s!"{toHex enc} {showDecode dec}"
  let repr := Spec.C07.Representable m
  let oracle :=
    match implObs impl with
    | none => "na"
    | some o =>
      if Spec.C07.holdsCodec m o then "ok"
      else ",".intercalate ((Spec.C07.reasons m o).map fun r => s!"bad:C07:{r}")
  let mo := Spec.C07.obsOf dec
  let label :=
    if repr then s!"repr:{sizeBucket m}"
    else if Spec.C07.holdsCodec m mo then "nonrepr:roundtrips-anyway"
    else s!"nonrepr:{(Spec.C07.reasons m mo).headD "mismatch"}"
  -- the known finding C07-a is the loss THE CODE AS MODELLED shows on this input (same decoded metadata, same error):
  -- a different wrong outcome on a non-representable input is a different violation and is reported with this input
  let sameLoss := " ".intercalate impl == model
  return { model := model, oracle := oracle, cls := if repr ∨ !sameLoss then "-" else "C07-a", label := label }

def showErrOrHeader : Res (ErrOr Header) → String
  | .panic _ => "panic"
  | .ok (.err _) => "err"
  | .ok (.val h) => "ok " ++ showHeader h

def errLabel : DecodeErr → String
  | .badLength => "bad-length"
  | .invalidFormat => "invalid-format"
  | .oddHeader => "odd-header"
  | .badInt => "bad-int"

def hRaw : Handler := fun _ => do
  let mode ← pNat
  match mode with
  | 0 =>
    let s ← pBytes
    let r := sToHeader [] s
    let label := match r with
      | .panic _ => "stoheader:panic"
      | .ok (.err e) => s!"stoheader:{errLabel e}"
      | .ok (.val h) => if h.isEmpty then "stoheader:empty" else "stoheader:ok"
    return { model := showErrOrHeader r, label := label }
  | 1 =>
    let s ← pBytes
    let label := match decodeCustom s with
      | .panic _ => "decode:panic"
      | .ok (.err e) => s!"decode:{errLabel e}"
      | .ok (.val _) => "decode:ok"
    return { model := showDecode (decode s), label := label }
  | _ =>
    let h ← pHeader
    return { model := toHex (headerToS h), label := if h.all (fun e => canon e.1 == e.1) then "headertos" else "headertos:rawkey" }

def hStorePrep : Handler := fun impl => do
  let env ← pBytes
  let status ← pInt
  let h ← pHeader
  let sfx := currentEtagSuffix env
  let out := storePrep sfx status h
  let oracle :=
    match run pHeader impl with
    | .ok got => if Spec.C07.holdsStore sfx status h got then "ok" else "bad:C07:store-time-difference-not-documented"
    | .error _ => "na"
  let label :=
    (if isCacheableError status then "4xx" else "plain") ++
    (if (h.get b!"etag").isEmpty then "" else if stripETagSuffix sfx (h.get b!"etag") != h.get b!"etag" then ":etag-stripped" else ":etag-kept") ++
    (if (Header.vals h b!"Richie-Edge-Cache").isEmpty then "" else ":edge-cache-dropped")
  return { model := showHeader out, oracle := oracle, label := label }

def handlers : List (String × Handler) := [
  ("codec", hCodec), ("kf.C07-a", hCodec), ("codec.raw", hRaw), ("storeprep", hStorePrep) ]

end H.Codec
