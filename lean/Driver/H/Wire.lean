import Driver.Core
import RrModel.Redirect
/- stream: wire (C01 C02) — the REAL http.Transport of proxy.NewRouter against real local listeners: for every request of a
   history on one router, which listener received it, with which request-target and Host.  Model: `Model.Redirect.outgoing`
   (first matching enabled rule, its target with the wildcard text substituted, `preq.Host` by the rule's hostheader
   policy).  Oracle: the destination that RECEIVED the request is the one written in the chosen rule (C01: destination of
   the first matching rule; C02: host and port contacted are exactly those written in the rule). -/
open Go Model Model.Redirect Proto

namespace H.Wire

/-- `dJ.wire` ↦ J -/
def destIndex (host : Bytes) : Option Nat :=
  if host.length = 7 ∧ host.head? = some 100 ∧ host.drop 2 = b!".wire" then
    match host[1]? with
    | some c => if 48 ≤ c ∧ c ≤ 57 then some (c - 48) else none
    | none => none
  else none

structure Exp where
  status : Nat
  dest : Option Nat
  target : Bytes
  host : Bytes

def expect (rules : List Rule) (path : Bytes) : Exp :=
  match parseURL path with
  | none => { status := 0, dest := none, target := [], host := [] }
  | some u =>
    let r : Req := { url := u, host := b!"edge.test", headers := [], method := b!"GET" }
    match query r with
    | .panic _ => { status := 0, dest := none, target := [], host := [] }
    | .ok q =>
      match outgoing rules q r none with
      | .ok (rule, ou) => { status := 200, dest := destIndex ou.host, target := requestURI ou, host := hostField rule r ou }
      | .error _ => { status := 404, dest := none, target := [], host := [] }

def showExp (e : Exp) : List String :=
  [toString e.status, (match e.dest with | some d => toString d | none => "-1"), toHex e.target, toHex e.host]

def hWire : Handler := fun impl => do
  let rcs ← pList pRuleC
  let paths ← pList pBytes
  if ¬ rcs.all (·.valid) then return { model := "err:rules", label := "rules-rejected" }
  let rules := rcs.map (·.rule)
  let exps := paths.map (expect rules)
  let model := " ".intercalate (exps.flatMap showExp)
  -- the oracle reads the implementation's tokens: per request status, destination index
  let rec judge : List Exp → List String → List String
    | [], _ => []
    | e :: es, st :: d :: _ :: _ :: rest =>
      (match e.dest with
       | some want =>
         if st == "200" ∧ d != toString want then
           ["bad:C01:request-delivered-to-a-destination-other-than-the-chosen-rule's", "bad:C02:host-or-port-contacted-is-not-the-one-written-in-the-rule"]
         else []
       | none => if st == "200" then ["bad:C01:request-that-matches-no-rule-was-proxied"] else []) ++ judge es rest
    | _, _ => []
  let bad := (judge exps impl).eraseDups
  let multi := (exps.filterMap (·.dest)).eraseDups.length
  return { model := model, oracle := if bad.isEmpty then "ok" else ",".intercalate bad,
           label := s!"dests:{multi}" ++ (if exps.any (·.dest.isNone) then ":nomatch" else "") }

def handlers : List (String × Handler) := [ ("wire", hWire) ]

end H.Wire
