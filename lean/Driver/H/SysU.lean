import Driver.Core
import RrModel.Go.UrlEscape
import RrModel.Spec.C02
import RrModel.Target
import RrModel.Spec.Sys
import RrModel.Spec.C20
import RrModel.Generated.Facts
/- streams: sysu, kf.C03-a  — slice S1 (uncached pass-through) of the system model: C01 C03 C05 C20 -/
open Go Model Proto Spec.Sys

namespace H.SysU

/-- a body token: hex, or an opaque atom (kept as 256 :: text so that it prints back verbatim) -/
def pBlob : P Bytes := do
  let t ← tok
  match fromHex t with
  | some b => pure b
  | none => pure (256 :: ofString t)

def blobTok (b : Bytes) : String :=
  match b with
  | 256 :: t => String.ofList (t.map Char.ofNat)
  | _ => toHex b

def pPair : P (Bytes × Bytes) := do
  let k ← pBytes
  let v ← pBytes
  pure (k, v)

def pClientReq : P ClientReq := do
  let m ← pBytes
  let t ← pBytes
  let h ← pBytes
  let hs ← pList pPair
  let b ← pBlob
  pure { method := m, target := t, host := h, headers := hs, body := b }

def pOrigin : P OriginEntry := do
  let host ← pBytes
  let status ← pNat
  let hs ← pList pPair
  let body ← pBlob
  let chunked ← pBool
  let ce ← pNat
  let re ← pInt
  pure { host := host, status := status, headers := hs, body := body, chunked := chunked, connectErrors := ce,
         readErrAt := if re < 0 then none else some re.toNat }

def headerOf (wire : List (Bytes × Bytes)) : Header :=
  wire.foldl (fun h kv => Header.add h kv.1 kv.2) []

/-- `preprocessHeaders` (server.go:468-478) -/
def preprocess (h : Header) (overrides : List (Bytes × Option Bytes)) : Header :=
  overrides.foldl (fun h kv => match kv.2 with | none => Header.del h kv.1 | some v => Header.set h kv.1 v) h

/-- the 407 / panic verdict of createProxyRequest + ensureInternalHeaders (proxy.go:595-642) -/
def buildVerdict (h : Header) (secretsNil : Bool) (secrets : List Bytes) (internal : Bool) : Option BuildErr :=
  let oldSecret := Header.get h b!"Richie-Routing-Secret"
  if oldSecret ≠ [] ∧ ¬ secrets.contains oldSecret then some .badSecret
  else
    let pass := internal && !secretsNil
    if pass then
      if oldSecret ≠ [] then none
      else if Header.get h b!"Richie-Request-ID" ≠ [] ∨ Header.get h b!"Richie-Originating-IP" ≠ [] then some .idOrIpNoSecret
      else if secrets.isEmpty then some .panicNoSecrets
      else none
    else none

def viewTok (v : View) : String :=
  let b := match v.body with
    | .inl bytes => blobTok bytes
    | .inr msg => "j" ++ (toHex msg).drop 1
  s!"{v.status} {v.framing} {b}"

def contactsTok (cs : List Contact) : String :=
  " ".intercalate (toString cs.length :: cs.map fun c => s!"{toHex c.host} {toHex c.method} {if c.failed then 1 else 0} {blobTok c.body}")

/-- parse the implementation's tokens: compared part, then (after `||`) the observation part -/
structure ImplObs where
  view : ViewObs
  contacts : List ContactObs
  noCopy : Option ViewObs

def pViewCmp : P ViewObs := do
  let st ← pNat
  let fr ← tok
  let b ← tok
  pure { status := st, framing := fr, body := b }

def pImpl : P ImplObs := do
  let v ← pViewCmp
  let cs ← pList (do
    let h ← pBytes; let m ← pBytes; let f ← pBool; let b ← pBlob
    pure ({ host := h, method := m, failed := f, body := b } : ContactObs))
  let sep ← tok
  if sep ≠ "||" then throw "expected ||"
  let vh ← pList pPair
  let n ← pNat
  let extra ← pTimes (do
    let s ← pBytes; let p ← pBytes; let hf ← pBytes; let hs ← pList pPair
    pure (s, p, hf, hs)) n
  let cs' := (cs.zip extra).map fun (c, (s, p, hf, hs)) => { c with scheme := s, path := p, hostField := hf, headers := hs }
  let has ← pBool
  let nc ← if has then (do
      let v2 ← pViewCmp
      let h2 ← pList pPair
      pure (some { v2 with headers := h2 }))
    else pure none
  pure { view := { v with headers := vh }, contacts := cs', noCopy := nc }

def hSysU : Handler := fun impl => do
  let rcs ← pList pRuleC
  let secretsNil ← pBool
  let secrets ← pList pBytes
  let retries ← pNat
  let req ← pClientReq
  let flag ← pNat
  let scheme ← pBytes
  let host ← pBytes
  let uri ← pBytes
  let _rawQuery ← pBytes
  let decodedPath ← pBytes
  let script ← pList pOrigin
  -- reload mode (absent in witness streams): 1 = the rules were loaded over a sibling set before the request,
  -- 2 = a sibling set is loaded while the request is with its first destination
  let reloadMode ← (pNat <|> pure 0)
  if ¬ rcs.all (·.valid) then return { model := "err:rules", label := "rules-rejected" }
  if flag = 4 then
    -- rrrouter's own matched string (completeURL → destinationString → url.Parse) is not the
    -- scheme / port-less host / request-target of the request: the model is run on the latter
    pure ()
  else if flag ≠ 1 then
    -- net/http rejected the request, or the matched string could not be built: outside slice S1
    return { model := " ".intercalate (impl.takeWhile (· ≠ "||")), label := "outside-S1:flag" }
  let rs := rcs.map (·.rule)
  let q : Query := ⟨scheme, host, uri, req.method⟩
  let obs? := run pImpl impl
  -- net/http's ServeMux answers non-canonical paths itself
  if ¬ isCleanPath decodedPath ∧ req.method ≠ b!"CONNECT" then
    let model := "301 complete rmux 0"
    let oracle := match obs? with
      | .ok o =>
        let bad := (if holdsC01 rs (fun _ => []) q o.view o.contacts then [] else ["bad:C01:mux-redirect-instead-of-routing"]) ++
                   ["bad:C05:mux-redirect-is-neither-origin-response-nor-error"]
        ",".intercalate bad
      | .error _ => "na"
    return { model := model, oracle := oracle, cls := "C01-a,C05-c", label := "mux-redirect" }
  let h0 := headerOf req.headers
  let res := matchRules rs q
  let mainRC := res.proxy.bind fun (i, _) => rcs[i]?
  let h1 := match mainRC with | some rc => preprocess h0 rc.rule.requestHeaders | none => h0
  let cfg : ExecCfg := {
    script := script, retries := retries, excluded := Facts.retryableExcludedMethod,
    build := buildVerdict h1 secretsNil secrets,
    is4xx := fun s => Facts.is4xxLo ≤ s && s ≤ Facts.is4xxHi,
    isRedirect := fun s => Facts.redirectStatuses.contains s,
    locationOk := fun _ => true }
  let main := res.proxy.bind fun (i, t) => (rs[i]?).map fun r => (r, t, some i)
  let copy := res.copy.bind fun (i, t) => (rs[i]?).map fun r => (r, t)
  let chain := (mainRC.map (·.retry)).getD []
  let (st, rr) := routeRequest cfg q req.method chain main copy { remaining := req.body }
  let view : View :=
    match rr with
    | .response e _ => passView req.method e
    | .panicked => { status := 200, framing := "complete", body := .inl [] }
    | r => let v := errorView r; if req.method = b!"HEAD" then { v with body := .inl [] } else v
  let model := s!"{viewTok view} {contactsTok st.contacts}"
  let retryHostsOf (i : Nat) : List Bytes := ((rcs[i]?.map (·.retry)).getD []).map (hostOfDest ·.dest)
  let retryHosts := (mainRC.map (·.retry)).getD [] |>.map (hostOfDest ·.dest)
  let fallbackTaken := st.contacts.any fun c => retryHosts.contains c.host
  let final : Option OriginEntry := match rr with | .response e _ => some e | _ => none
  let faulted := match final with | some e => e.readErrAt.isSome | none => false
  -- finding C04-a: only the FIRST Richie-Routing-Secret line is validated (Header.Get): a valid first line
  -- lets later unknown ones through, and they reach the internal destination
  let clientSecrets := headerValues req.headers b!"Richie-Routing-Secret"
  let firstValid : Bool := match clientSecrets.head? with | some v => secrets.contains v | none => false
  let cls := if !secretsNil && decide (clientSecrets.length ≥ 2) && firstValid && !clientSecrets.all secrets.contains then "C04-a" else ""
  let oracle :=
    match obs? with
    | .error _ => "na"
    | .ok o =>
      let ruleResp := match rr, mainRC with
        | .response _ _, some rc => (if fallbackTaken then [] else rc.rule.responseHeaders)
        | _, _ => []
      let bad :=
        (if holdsC01 rs retryHostsOf q o.view o.contacts then [] else ["bad:C01:wrong-destination-or-missing-404"]) ++
        (if holdsC03Body req o.contacts then [] else ["bad:C03:method-or-body-not-intact"]) ++
        -- C02 at system level: the selected destination is asked for the rule's destination with the wildcard text
        -- substituted, as the client sent it, and the query verbatim (request-target seen by the destination)
        (match res.proxy with
         | some (i, t) =>
           let h := (rs[i]?.map (hostOfDest ·.dest)).getD []
           let expected : Option Bytes :=
             if Spec.C02.inClassA _rawQuery ∨ ¬ targetEscapesOk t then none
             else (outgoingURL t _rawQuery []).bind fun u => UrlEsc.requestURI { u with rawQuery := sentRawQuery u }
           match expected, o.contacts.find? (fun c => c.host == h) with
           | some e, some c => if c.path == e then [] else ["bad:C02:destination-not-asked-for-the-rule-destination-with-the-capture"]
           | _, _ => []
         | none => []) ++
        (let allRules : List Rule := rcs.flatMap fun rc => rc.rule :: rc.retry
         let ruleOfHost (h : Bytes) : Option Bool := (allRules.find? fun r => hostOfDest r.dest == h).map (·.internal)
         if holdsC04 ruleOfHost secretsNil secrets (headerValues req.headers b!"Richie-Routing-Secret") o.contacts then [] else ["bad:C04:internal-headers-wrong-for-destination-class"]) ++
        (if faulted then [] else
          (if holdsC05Plain req.method final o.view blobTok then [] else ["bad:C05:status-body-or-error-shape"]) ++
          (match final with
           | some e => if fallbackTaken ∨ holdsC05Headers e.headers ruleResp o.view then [] else ["bad:C05:headers-not-mirrored"]
           | none => [])) ++
        (match o.noCopy with
         | some v2 => if holdsC20Invisible o.view v2 then [] else ["bad:C20:copy-rule-changes-client-response"]
         | none => []) ++
        -- C20: the copy destination and the proxy destination receive the same method and body
        (if copy.isSome ∧ main.isSome ∧ !fallbackTaken then
           (match (o.contacts.filter (!·.failed)) with
            | c0 :: rest => if rest.all (fun c => c.method == c0.method && c.body == c0.body) then [] else ["bad:C20:copy-and-proxy-destination-receive-different-requests"]
            | [] => [])
         else [])
      -- C19: a request is handled under the rules that were loaded when it arrived - all of it (mode 2), and under the
      -- rules loaded LAST when the reload came first (mode 1): with a reload in the case, any deviation from the
      -- behaviour under `rs` alone is a request handled (partly) under another version of the rules
      let cmpImpl := " ".intercalate (impl.takeWhile (· ≠ "||"))
      let routed := bad.any fun b => b.startsWith "bad:C01" || b.startsWith "bad:C05" || b.startsWith "bad:C02"
      let bad := if reloadMode ≠ 0 ∧ (routed ∨ cmpImpl ≠ model) then bad ++ ["bad:C19:request-not-handled-under-one-version-of-the-rules"] else bad
      if bad.isEmpty then "ok" else ",".intercalate bad
  let label :=
    (match rr with
     | .response e _ => s!"pass:{e.status / 100}xx"
     | .userError c _ => s!"self:{c}"
     | .plainError => "self:500"
     | .panicked => "panic") ++
    (if copy.isSome then "+copy" else "") ++ (if fallbackTaken then "+fallback" else "") ++
    (if st.contacts.any (·.failed) then "+connfail" else "") ++ (if faulted then "+readerr" else "")
  return { model := model, oracle := oracle, cls := if cls = "" then "-" else cls, label := label }

def handlers : List (String × Handler) := [
  ("sysu", hSysU), ("kf.C03-a", hSysU), ("kf.C01-a", hSysU), ("kf.C20-a", hSysU), ("kf.C04-a", hSysU) ]

end H.SysU
