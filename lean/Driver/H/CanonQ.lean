import Driver.Core
import RrModel.Redirect
import RrModel.Generated.Facts
/- stream: canonq (C18) — a destination that canonicalises its query with a redirect
   (/s?b=2&a=1 → 302 /s?a=1&b=2 → 200): the chain terminates, the client receives the 200.
   Model: Model.Redirect.follow on the uncached path with an origin that looks at the query. -/
open Go Model Proto Model.Redirect

namespace H.CanonQ

def canon : Bytes := b!"a=1&b=2"

def originOf (loc : Bytes) (c : Contact) : Option Resp :=
  if c.url.host ≠ b!"d0.test" then none
  else if c.url.path ≠ b!"/s" then some { status := 404, body := b!"unknown" }
  else if c.url.rawQuery = canon then some { status := 200, body := b!"final" }
  else some { status := 302, location := loc, body := b!"moved" }

def theRule : Rule :=
  { path := b!"/*", wci := some 1, dest := b!"http://d0.test/$1", host := b!"h.test", restartOnRedirect := true }

def hCanonQ : Handler := fun impl => do
  let target ← pBytes
  let loc ← pBytes
  let cfg : Cfg := { rules := [theRule], origin := originOf loc,
                     isRedirect := fun s => Facts.redirectStatuses.contains s, maxRedirects := Facts.maxRedirects }
  match clientLevel target b!"h.test" [] b!"GET" with
  | none => return { model := "err:target", label := "bad-target" }
  | some lvl =>
  let out := follow cfg (Facts.maxRedirects + 2) lvl
  let contactsTok (cs : List Contact) : String :=
    " ".intercalate (toString cs.length :: cs.map fun c => s!"{toHex c.url.host} {toHex (requestURI c.url)}")
  let model := match out with
    | .diverged => "runaway"
    | .done (.response r _) cs => s!"{r.status} complete {toHex r.body} {contactsTok cs}"
    | .done (.userError c _) cs => s!"{c} complete {toHex (b!"{\"Message\":\"Loop detected\"}\n")} {contactsTok cs}"
    | .done _ cs => s!"500 complete x {contactsTok cs}"
  -- oracle (property text): two URLs that differ in their query are two URLs; the chain ends in the 200,
  -- which the client receives (a request that is already canonical is answered at once)
  let oracle := match impl with
    | st :: _ :: body :: _ => if st = "200" ∧ body = toHex b!"final" then "ok" else "bad:C18:terminating-chain-not-answered-with-the-final-response"
    | _ => "na"
  let label := (if loc.head? = some 47 then "rooted" else "absolute") ++ (match out with | .done _ cs => s!"/h{cs.length}" | _ => "")
  return { model := model, oracle := oracle, label := label }

def handlers : List (String × Handler) := [ ("canonq", hCanonQ) ]

end H.CanonQ
