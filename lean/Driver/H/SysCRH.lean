import Driver.H.SysC
import RrModel.SysCacheRH
/- stream: syscrh — the histories of stream sysc on a cache-enabled rule that carries `response_headers`;
   model side `Model.SysCacheRH.runRH`.

   Oracles.  Mode N (the rule's header names are none the cache reads): the history oracles of stream sysc, applied to
   the origin answers AS THE CLIENT IS TO SEE THEM (the rule's lines replace the origin's lines of the same name).
   Mode C (the rule sets a header the cache reads — Cache-Control …): the generator keeps ONE origin answer per path
   (status inside the storage gate, complete body) and plain GET/HEAD requests; whatever row answers, the client must be
   sent exactly that answer, completely (C05; C07 when no origin was contacted). -/
open Go Proto

namespace H.SysCRH
open H.SysC

/-- header names the cache itself reads or writes -/
def cachingNames : List Bytes := [b!"cache-control", b!"expires", b!"vary", b!"etag", b!"last-modified", b!"date", b!"age",
  b!"content-length", b!"content-range", b!"richie-edge-cache", b!"location", b!"content-encoding"]

def isNeutral (rh : List (Bytes × Bytes)) : Bool := rh.all fun kv => !cachingNames.contains (toLower kv.1)

/-- the origin answer as the client is to see it: the rule's lines replace the origin's of the same name -/
def override (rh : List (Bytes × Bytes)) (o : Origin) : Origin :=
  { o with headers := o.headers.filter (fun kv => !rh.any fun r => toLower r.1 == toLower kv.1) ++ rh }

def overrideOp (rh : List (Bytes × Bytes)) : Op → Op
  | .origin o => .origin (override rh o)
  | op => op

/-- mode C: every answered request carries the path's one origin answer, completely -/
def judgeC (cur : List Origin) (method path : Bytes) (o : Obs) : List String × String :=
  match cur.find? (·.path == path) with
  | none => ([], "no-origin")
  | some c =>
    let want := if method == b!"HEAD" then [] else c.body
    if o.framing == "complete" ∧ o.status == c.status ∧ o.body == want then ([], if o.contacts == 0 then "rh:hit" else "rh:fill")
    else if o.contacts == 0 then
      (["bad:C05:response-does-not-mirror-the-origin-answer", "bad:C07:hit-body-is-not-the-stored-body"], "rh:hit-bad")
    else (["bad:C05:response-does-not-mirror-the-origin-answer"], "rh:fill-bad")

def modelTokensRH (force : Nat) (rh : List (Bytes × Bytes)) (ops : List Op) (obs : List Obs) : List String × List String :=
  let cfg : Model.SysCache.Config := { force := force }
  let ms := Model.SysCacheRH.runRH cfg rh (Model.SysCache.State.init 1700000000) (ops.map toModelOp)
  let aborts := ops.filterMap fun o => match o with | .req .. => some false | .abort .. => some true | _ => none
  let toks := ((ms.zip obs).zip aborts).flatMap fun x => renderObs x.2 x.1.1 x.1.2
  (toks, ms.map (·.label))

def hSysCRH : Handler := fun impl => do
  let force ← pNat
  let rh ← pList pPair
  let ops ← pList pOp
  let nreq := (ops.filter fun o => match o with | .req .. => true | .abort .. => true | _ => false).length
  let obs := match run (pTimes pObs nreq) impl with | .ok l => l | .error _ => []
  if obs.length ≠ nreq then return { model := " ".intercalate impl, oracle := "na", label := "unparsed" }
  let (mtoks, mlabels) := modelTokensRH force rh ops obs
  if isNeutral rh then
    -- mode N: the oracles of stream sysc on the overridden origin answers
    let oops := ops.map (overrideOp rh)
    let (st, _) := oops.foldl (fun (acc : St × List Obs) op =>
        let (st, os) := acc
        match op with
        | .tick dt => ({ st with now := st.now + dt }, os)
        | .origin o => ({ st with cur := o :: st.cur.filter (·.path != o.path), all := st.all ++ [o] }, os)
        | .req m p hs =>
          match os with
          | [] => (st, [])
          | o :: rest =>
            let conv := converse force st m p hs o
            let st' := judge force st m p hs o
            ({ st' with bad := st'.bad ++ conv }, rest)
        | .abort m p hs =>
          match os with
          | [] => (st, [])
          | o :: rest =>
            let st' := match st.cur.find? (·.path == p), o.contacts with
              | some c, _ + 1 =>
                { st with fetches := st.fetches ++ [{ key := keyOf m p hs, origin := { c with readErrAt := some (c.body.length / 2) }, time := st.now,
                                                      reqAuth := (valuesCI hs b!"authorization").any (· ≠ []), reqOrigin := (valuesCI hs b!"origin") ≠ [], method := m }],
                          labels := st.labels ++ ["aborted-fetch"] }
              | _, _ => { st with labels := st.labels ++ ["aborted"] }
            (st', rest)) (({} : St), obs)
    let oracle := if st.bad.isEmpty then "ok" else ",".intercalate st.bad.eraseDups
    let cls := if st.cls.isEmpty then "-" else ",".intercalate st.cls.eraseDups
    let label := "+".intercalate (("rhN" :: mlabels ++ st.labels).eraseDups.take 6)
    return { model := " ".intercalate mtoks, oracle := oracle, cls := cls, label := label }
  else
    let (bad, labels, _, _) := ops.foldl (fun (acc : List String × List String × List Origin × List Obs) op =>
        let (bad, labels, cur, os) := acc
        match op with
        | .tick _ => (bad, labels, cur, os)
        | .origin o => (bad, labels, o :: cur.filter (·.path != o.path), os)
        | .req m p _ =>
          match os with
          | [] => (bad, labels, cur, [])
          | o :: rest =>
            let (b, l) := judgeC cur m p o
            (bad ++ b, labels ++ [l], cur, rest)
        | .abort .. =>
          match os with
          | [] => (bad, labels, cur, [])
          | _ :: rest => (bad, labels, cur, rest)) (([] : List String), ([] : List String), ([] : List Origin), obs)
    let oracle := if bad.isEmpty then "ok" else ",".intercalate bad.eraseDups
    let label := "+".intercalate (("rhC" :: mlabels ++ labels).eraseDups.take 6)
    return { model := " ".intercalate mtoks, oracle := oracle, cls := "-", label := label }

def handlers : List (String × Handler) := [ ("syscrh", hSysCRH), ("kf.C05-e", hSysCRH) ]

end H.SysCRH
