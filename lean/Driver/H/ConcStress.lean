import Driver.Core
/- streams: concget (C12), concroute (C02) — free-running concurrency on the real code; the model's
   answer is the constant the theorems give (one writer per lock generation: Props.C12.lock_mutex;
   the outgoing query is a function of the request alone: Props.C02.query_verbatim_partial). -/
open Go Proto

namespace H.ConcStress

def hConcGet : Handler := fun impl => do
  let rounds ← pNat
  let oracle := match impl with
    | [_, w] => if w = "1" then "ok" else "bad:C12:more-than-one-request-became-the-writer-for-one-key"
    | _ => "na"
  return { model := s!"{rounds} 1", oracle := oracle, label := "barrier-8" }

def hConcRoute : Handler := fun impl => do
  let dest ← pBytes
  let oracle := match impl with
    | [_, b] => if b = "0" then "ok" else "bad:C02:outgoing-request-carries-another-requests-query"
    | _ => "na"
  return { model := "2400 0", oracle := oracle, label := if index b!"$1" dest = none then "no-placeholder" else "placeholder" }

/-- concrefresh (C07): plain hits racing a stream of refreshes; a hit is one stored response (the read
    side takes metadata and size from the descriptor it opened: Pins.getStorageMetadataShape; in the
    interleaving model a hit's view is read from one `FileSt`) -/
def hConcRefresh : Handler := fun impl => do
  let _rounds ← pNat
  let oracle := match impl with
    | [t] => if t = "0" then "ok" else "bad:C07:a-hit-pairs-metadata-of-one-stored-response-with-bytes-of-another"
    | _ => "na"
  return { model := "0", oracle := oracle, label := "refresh-vs-6-readers" }

/-- conccopy (C20): GET and POST for one url through one router at once; the copy rule mirrors POST and PUT only. The rule
    choice is a function of the request alone (Props.C20.copy_choice: first matching enabled copy rule that allows the method) -/
def hConcCopy : Handler := fun impl => do
  let _k ← pNat
  let oracle := match impl with
    | [n, p, c, w, posts] =>
      if w ≠ "0" then "bad:C20:a-request-was-copied-although-the-copy-rule-excludes-its-method"
      else if c ≠ posts then "bad:C20:a-request-the-copy-rule-matches-was-not-copied-exactly-once"
      else if p ≠ n then "bad:C20:a-request-did-not-reach-the-proxy-destination"
      else "ok"
    | _ => "na"
  return { model := "1600 1600 800 0 800", oracle := oracle, label := "get-vs-post-8" }

def handlers : List (String × Handler) := [ ("concget", hConcGet), ("concroute", hConcRoute), ("concrefresh", hConcRefresh), ("conccopy", hConcCopy) ]

end H.ConcStress
