import Driver.Core
/- streams: concget (C12), concroute (C02) — free-running concurrency on the real code; the model's
   answer is the constant the theorems give (one writer per lock generation: Props.C12.lock_mutex;
   the outgoing query is a function of the request alone: Props.C02.query_verbatim_partial). -/
open Go Proto

namespace H.ConcStress

def hConcGet : Handler := fun impl => do
  let rounds ← pNat
  let oracle := match impl with
    | [_, w] => if w = "1" then "ok" else "bad:C12:more-than-one-request-became-the-writer-for-one-key"
    | _ => "na"
  return { model := s!"{rounds} 1", oracle := oracle, label := "barrier-8" }

def hConcRoute : Handler := fun impl => do
  let dest ← pBytes
  let oracle := match impl with
    | [_, b] => if b = "0" then "ok" else "bad:C02:outgoing-request-carries-another-requests-query"
    | _ => "na"
  return { model := "2400 0", oracle := oracle, label := if index b!"$1" dest = none then "no-placeholder" else "placeholder" }

def handlers : List (String × Handler) := [ ("concget", hConcGet), ("concroute", hConcRoute) ]

end H.ConcStress
