import Driver.Core
import RrModel.Spec.C18
import RrModel.Generated.Facts
/- streams: sysr, kf.C18-a, kf.C18-b — restart_on_redirect on the uncached path (C18); kf.C18-a and
   kf.C18-b are the regression streams of the repaired findings C18-a (redirect loops: now ended
   by the hop counter with 508) and C18-b (no class label any more: a failure there is a
   violation) -/
open Go Model Proto Model.Redirect Spec.C18

namespace H.SysR

def pNode : P Node := do
  let path ← pBytes
  let redirect ← pBool
  let status ← pNat
  let body ← pBytes
  let hasLoc ← pBool
  let location ← pBytes
  let intended ← pInt
  let ruleIdx ← pInt
  pure { path, redirect, status, body, hasLoc, location, intended, ruleIdx }

/-- the scripted origin: any known host answers, keyed by the request path; an unknown path is
    a 404 "unknown"; an unknown host refuses the connection -/
def originOf (nodes : List Node) (known : List Bytes) (c : Contact) : Option Resp :=
  if known.contains c.url.host then
    match nodes.find? (·.path = c.url.path) with
    | some n => some { status := n.status, location := if n.hasLoc then n.location else [], body := n.body }
    | none => some { status := 404, body := b!"unknown" }
  else none

def contactTok (c : ContactObs) : String :=
  s!"{toHex c.host} {toHex c.uri} {toHex c.hostField} {if c.failed then 1 else 0} {toHex c.xhop} {toHex c.via}"

def contactsTok (cs : List ContactObs) : String :=
  " ".intercalate (toString cs.length :: cs.map contactTok)

def leafTok (l : Leaf) : String :=
  match l with
  | .outside => "outside x x x"
  | .response r _ => s!"{r.status} complete {leafBodyTok l} {toHex r.location}"
  | _ => s!"{leafStatus l} complete {leafBodyTok l} x"

def pContactObs : P ContactObs := do
  let host ← pBytes
  let uri ← pBytes
  let hostField ← pBytes
  let failed ← pBool
  let xhop ← pBytes
  let via ← pBytes
  pure { host, uri, hostField, failed, xhop, via }

/-- the implementation's tokens -/
def pObs : P Obs := do
  let t ← tok
  if t = "runaway" ∨ t = "noresponse" then
    let cs ← pList pContactObs
    pure { runaway := true, status := 0, body := "", contacts := cs }
  else
    match t.toNat? with
    | none => throw s!"unexpected {t}"
    | some st =>
      let _framing ← tok
      let body ← tok
      let _loc ← tok
      let cs ← pList pContactObs
      pure { runaway := false, status := st, body := body, contacts := cs }

def nodeAt (nodes : List Node) (path : Bytes) : Option Node := nodes.find? (·.path = path)

/-- the Location that answered contact `c` (when it was a redirect with a parsable Location) -/
def locationFor (nodes : List Node) (c : ContactObs) : Option RUrl :=
  match nodeAt nodes (pathOfUri c.uri) with
  | some n => if n.redirect ∧ n.hasLoc ∧ ¬ c.failed then parseURL n.location else none
  | none => none

/-- consecutive contacts with the Location between them -/
def hopsOf (nodes : List Node) : List ContactObs → List (ContactObs × RUrl × ContactObs)
  | a :: b :: t =>
    (match locationFor nodes a with
     | some l => [(a, l, b)]
     | none => []) ++ hopsOf nodes (b :: t)
  | _ => []

def hSysR : Handler := fun impl => do
  let rcs ← pList pRuleC
  let target ← pBytes
  let host ← pBytes
  let nodes ← pList pNode
  let known ← pList pBytes
  let limit ← pNat
  if ¬ rcs.all (·.valid) then return { model := "err:rules", label := "rules-rejected" }
  let rules := rcs.map (·.rule)
  let cfg : Cfg := { rules := rules, origin := originOf nodes known,
                     isRedirect := fun s => Facts.redirectStatuses.contains s,
                     maxRedirects := Facts.maxRedirects }
  match clientLevel target host [] b!"GET" with
  | none => return { model := "err:target", label := "bad-target" }
  | some lvl =>
  let shown := 8
  let out := follow cfg limit lvl
  let (model, hops) : String × List ContactObs :=
    match out with
    | .diverged =>
      let cs := (trace cfg shown lvl).map obsOfContact
      (s!"runaway {contactsTok cs}", cs)
    | .done l cs =>
      let cs := cs.map obsOfContact
      (s!"{leafTok l} {contactsTok cs}", cs)
  -- the property speaks about rules with restart_on_redirect; with mixed flags it does not say
  let allRestart := rules.all (·.restartOnRedirect)
  let start := nodes.findIdx? (·.path = pathOfUri target)
  let chain : ChainEnd := match start with | some s => chainEnd nodes nodes.length s | none => .unspecified
  -- distribution label only: a relative Location merged below a directory other than the root
  -- (the inputs of the repaired finding C18-b)
  let deepJoin := (hopsOf nodes hops).any fun (a, l, _) =>
    formOf l == .relative && baseDir (pathOfUri a.uri) != b!"/"
  -- no known-finding class on this stream any more (C18-a, C18-b repaired)
  let cls := ""
  let oracle :=
    if ¬ allRestart then "na" else
    match run pObs impl, start with
    | .ok o, some s =>
      let bad :=
        (if holds nodes s o then [] else
          [match chain with
           | .cycle => if o.runaway then "bad:C18:loop-not-ended-by-an-error-response" else "bad:C18:loop-answered-without-error-or-too-late"
           | _ => "bad:C18:final-response-is-not-the-sinks"]) ++
        (if (hopsOf nodes o.contacts).all fun (a, l, b) => holdsHop rules a l b then [] else ["bad:C18:hop-not-the-resolved-location-through-the-rules"])
      if bad.isEmpty then "ok" else ",".intercalate bad
    | _, _ => "na"
  let label :=
    (if allRestart then "" else "mixed-or-off:") ++
    (match out with
     | .diverged => "runaway"
     | .done (.response r _) cs => (if cfg.isRedirect r.status then "passthrough" else s!"final:{r.status}") ++ s!"/h{cs.length}"
     | .done (.userError c _) cs =>
       (if c = 508 ∧ cs.length > cfg.maxRedirects then "bound:508" else s!"self:{c}") ++ s!"/h{cs.length}"
     | .done .plainError cs => s!"self:500/h{cs.length}"
     | .done .panicked _ => "panic"
     | .done .outside _ => "outside") ++
    (if deepJoin then "+reljoin" else "") ++
    (if hops.any (·.xhop ≠ []) then "+rule" else "")
  return { model := model, oracle := oracle, cls := if cls = "" then "-" else cls, label := label }

def handlers : List (String × Handler) := [
  ("sysr", hSysR), ("kf.C18-a", hSysR), ("kf.C18-b", hSysR) ]

end H.SysR
