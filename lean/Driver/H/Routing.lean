import Driver.Core
import RrModel.Spec.C01
import RrModel.Spec.C20
import RrModel.Spec.C02
/- streams: match, dropport, scheme  (C01, C02, C20) -/
open Go Model Proto

namespace H.Routing

def hMatch : Handler := fun impl => do
  let rcs ← pList pRuleC
  let _s ← pBytes
  let parsed ← pBool
  let scheme ← pBytes
  let host ← pBytes
  let uri ← pBytes
  let method ← pBytes
  let method2 ← pBytes
  if ¬ rcs.all (·.valid) then return { model := "err:rules", label := "rules-rejected" }
  if ¬ parsed then return { model := "err:match", label := "unparsable" }
  let rs := rcs.map (·.rule)
  let q : Query := ⟨scheme, host, uri, method⟩
  let res := matchRules rs q
  let res2 := matchRules rs { q with method := method2 }
  let model := s!"{showOptIdx res.proxy} {showOptIdx res.copy} {showOptIdx res2.proxy} {showOptIdx res2.copy} {showOptIdx res.proxy} {showOptIdx res.copy}"
  -- oracles on the implementation's choice: impl = [pi, pt, ci, ct]
  let idxOf (t : String) : Option Nat := match t.toInt? with | some (.ofNat i) => some i | _ => none
  let oracle :=
    match impl with
    | [pi, pt, ci, ct, pi2, _, ci2, _, pi3, _, ci3, _] =>
      let q2 : Query := { q with method := method2 }
      -- C02: the target of the chosen rule is its destination with the wildcard text substituted for $1
      let targetOk (i t : String) : Bool :=
        match idxOf i, fromHex t with
        | some k, some tb =>
          -- (a pattern is a URL path pattern: the bare `*` without a leading slash is not judged here)
          (match rs[k]? with | some r => r.path.head? != some 47 || tb == Spec.C02.targetFor r.path r.dest uri | none => true)
        | _, _ => true
      let c02 := if targetOk pi pt && targetOk ci ct then [] else ["bad:C02:target-is-not-the-destination-with-the-wildcard-text-for-$1"]
      let obsOf (p : String) : Spec.C01.Obs :=
        match idxOf p with
        | some i => { proxyRule := some i, status := 0 }
        | none => { proxyRule := none, status := 404 }
      let bad := (if Spec.C01.holds rs q (obsOf pi) && Spec.C01.holds rs q2 (obsOf pi2) && Spec.C01.holds rs q (obsOf pi3)
                  then [] else ["bad:C01:not-first-matching-rule"]) ++
                 (if Spec.C20.holdsChoice rs q (idxOf ci) && Spec.C20.holdsChoice rs q2 (idxOf ci2) && Spec.C20.holdsChoice rs q (idxOf ci3)
                  then [] else ["bad:C20:copy-rule-not-first-before-proxy"]) ++ c02
      if bad.isEmpty then "ok" else ",".intercalate bad
    | [pi, _, ci, _] =>
      let obs : Spec.C01.Obs :=
        match idxOf pi with
        | some i => { proxyRule := some i, status := 0 }
        | none => { proxyRule := none, status := 404 }
      let bad := (if Spec.C01.holds rs q obs then [] else ["bad:C01:not-first-matching-rule"]) ++
                 (if Spec.C20.holdsChoice rs q (idxOf ci) then [] else ["bad:C20:copy-rule-not-first-before-proxy"])
      if bad.isEmpty then "ok" else ",".intercalate bad
    | _ => "na"
  let label :=
    match res.proxy, res.copy with
    | none, none => "nomatch"
    | none, some _ => "copy-only"
    | some (i, _), c =>
      let shadowed := ((rs.drop (i + 1)).any fun r => Spec.C01.applies r q)
      (if c.isSome then "proxy+copy" else "proxy") ++ (if shadowed then ":shadowing" else "") ++
        (if (rs.take i).any (fun r => !r.enabled || methodExcluded r q.method) then ":skipped-before" else "")
  return { model := model, oracle := oracle, label := label }

def hDropPort : Handler := fun _ => do
  let s ← pBytes
  match dropPort s with
  | .ok r =>
    let label := if s.head? = some 91 then (if s.contains 93 then "bracket" else "bracket-unclosed") else "plain"
    return { model := s!"ok {toHex r}", label := label }
  | .panic _ => return { model := "panic", label := "panic" }   -- unreachable: `dropPort` has no panic site left

def hScheme : Handler := fun _ => do
  let tls ← pBool
  let xfp ← pBytes
  return { model := toHex (scheme tls xfp) }

def handlers : List (String × Handler) := [
  ("match", hMatch), ("dropport", hDropPort), ("scheme", hScheme) ]

end H.Routing
