import Driver.Core
/- stream: halfclose (C05) — a client that is done sending shuts down the sending side of its connection while the
   destination has taken the request and does not answer.  Model (the behaviour of `RouteRequest` with a cancelled request
   context as `server.writeError` renders it: a non-user error ⇒ bare 500): the half-closed request is answered `500`,
   complete, no body, after ONE contact — unless a fresh stored entry answers it (cached rule, GET/HEAD, prior fill not yet
   stale): then it is a hit, no contact.  Oracle (C05): a request whose destination never answered is told so with a
   well-formed error status, never a success status without the origin's content. -/
open Go Proto

namespace H.HalfClose

def hHalfClose : Handler := fun impl => do
  let method ← pBytes
  let rule ← tok
  let prior ← pNat
  let _body ← pBytes
  let isHead := method == b!"HEAD"
  -- the implementation's tokens
  let p : P (Option (Nat × String × Bytes) × Nat × String × Bytes × Nat) := do
    let pr ← if prior > 0 then (do let s ← pNat; let f ← tok; let b ← pBytes; pure (some (s, f, b))) else pure none
    let s ← pNat
    let f ← tok
    let b ← pBytes
    let c ← pNat
    pure (pr, s, f, b, c)
  match run p impl with
  | .error _ => return { model := " ".intercalate impl, oracle := "na", label := "unparsed" }
  | .ok (pr, st, fr, body, contacts) =>
    let storedBody : Bytes := match pr with | some (_, _, b) => b | none => []
    let hit := rule == "c" && prior == 1
    let priorToks : List String := match pr with
      | some (s, f, b) => [toString s, f, toHex b]     -- the prior fill is stream sysc's business: echoed
      | none => []
    let modelToks := priorToks ++ (if hit then ["200", "complete", toHex (if isHead then [] else storedBody), "0"] else ["500", "complete", toHex [], "1"])
    let bad : List String :=
      if contacts ≥ 1 then
        (if st ≥ 400 ∧ fr == "complete" then [] else ["bad:C05:destination-never-answered-but-the-client-is-not-told-an-error"])
      else
        (if hit ∧ st == 200 ∧ fr == "complete" ∧ (isHead ∨ body == storedBody) then []
         else if st ≥ 400 ∧ fr == "complete" then [] else ["bad:C05:response-is-neither-the-stored-answer-nor-a-well-formed-error"])
    return { model := " ".intercalate modelToks, oracle := if bad.isEmpty then "ok" else ",".intercalate bad, cls := "-",
             label := (if hit then "hc:hit" else if prior == 2 then "hc:revalidation-pending" else "hc:pending") ++ ":" ++ rule }

def handlers : List (String × Handler) := [ ("halfclose", hHalfClose) ]

end H.HalfClose
