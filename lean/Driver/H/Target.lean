import Driver.Core
import RrModel.Spec.C02
import RrModel.Go.UrlEscape
/- streams: urlsplit, outurl, kf.C02-a  (C02) -/
open Go Model Proto

namespace H.Target

def hUrlSplit : Handler := fun impl => do
  let s ← pBytes
  match Url.split s with
  | none => return { model := "err", label := "split-error" }
  | some u =>
    if impl = ["err"] then
      -- Go's deeper validation (port syntax, host bytes, %-escapes) rejected what splits fine:
      -- one-directional comparison, counted under its own label
      return { model := "err", label := "deep-validation-error" }
    let auth0 := u.authority.getD []
    -- the Go side prints "*@host" when Userinfo.String() re-escaped the userinfo (never read by rrrouter)
    let starred := match impl with
      | _ :: _ :: a :: _ => a.startsWith "x2a40"
      | _ => false
    let hostStar := match impl with
      | _ :: _ :: a :: _ => a == "x2a"
      | _ => false
    let auth := if hostStar then b!"*" else if starred then b!"*@" ++ Go.UrlEsc.hostOfAuthority auth0 else auth0
    let label := if u.authority.isSome then (if u.rawQuery ≠ [] then "authority+query" else "authority")
                 else if u.opaq ≠ [] then "opaque" else "path-only"
    return { model := s!"ok {toHex u.scheme} {toHex auth} {toHex u.rawQuery} {if u.forceQuery then 1 else 0} {toHex u.opaq}",
             label := label }

def hOutUrl : Handler := fun impl => do
  let rcs ← pList pRuleC
  let _target ← pBytes
  let flag ← pNat
  let scheme ← pBytes
  let host ← pBytes
  let uri ← pBytes
  let method ← pBytes
  let q ← pBytes
  if flag = 0 then return { model := "rejected", label := "rejected-by-net/http" }
  if flag = 3 then return { model := "panic", label := "panic" }
  if ¬ rcs.all (·.valid) then return { model := "err:rules", label := "rules-rejected" }
  if flag = 2 then return { model := "err:outurl", label := "matched-string-unparsable" }
  let rs := rcs.map (·.rule)
  let res := matchRules rs ⟨scheme, host, uri, method⟩
  match res.proxy with
  | none => return { model := "nomatch", label := "nomatch" }
  | some (i, t) =>
    let dest := (rs[i]?.map (·.dest)).getD []
    let cls := if Spec.C02.inClassA q then "C02-a" else "-"
    match outgoingURL t q [] with
    | none => return { model := "err:outurl", label := "target-unparsable", cls := cls }
    | some u =>
      if ¬ targetEscapesOk t then return { model := "err:outurl", label := "target-bad-escape", cls := cls }
      let auth := u.authority.getD []
      let sent := sentRawQuery u
      let model := s!"ok {toHex u.scheme} {toHex auth} {toHex u.rawQuery} {toHex u.scheme} {toHex auth} {toHex sent}"
      -- oracle on what the implementation sent: impl = ok sch host rawq sch' host' sentq
      let oracle :=
        match impl with
        | [_, _, _, _, s2, h2, q2] =>
          match fromHex s2, fromHex h2, fromHex q2 with
          | some s2, some h2, some q2 =>
            let o : Spec.C02.Obs := { scheme := s2, host := h2, rawQuery := q2 }
            if Spec.C02.holds dest q o then "ok"
            else if o.rawQuery ≠ q then "bad:C02:query-not-verbatim" else "bad:C02:authority-not-the-rules"
          | _, _, _ => "na"
        | _ => "na"
      let label := (if (rs[i]?.map (·.wci.isSome)).getD false then "wild" else "exact") ++
                   (if q ≠ [] then ":query" else "") ++ (if index b!"$1" dest = none then ":noplaceholder" else "")
      return { model := model, oracle := oracle, cls := cls, label := label }

def handlers : List (String × Handler) := [
  ("urlsplit", hUrlSplit), ("outurl", hOutUrl), ("kf.C02-a", hOutUrl) ]

end H.Target
