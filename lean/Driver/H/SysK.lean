import Driver.Core
import RrModel.KeySys
import RrModel.Spec.C11Sys
/- stream: sysk — C11 at system level: histories of variants of one request, some of them
   overlapped, against the real server + disk cache + coalescing.  The model column is the
   reference keyed cache of RrModel/KeySys.lean; the oracle (RrModel/Spec/C11Sys.lean) is applied
   to the echo each response of the IMPLEMENTATION carries. -/
open Go Model Proto

namespace H.SysK
open Model.KeySys

def pPair : P (Bytes × Bytes) := do
  let k ← pBytes
  let v ← pBytes
  pure (k, v)

def pCReq : P CReq := do
  let m ← pBytes
  let h ← pBytes
  let t ← pBytes
  let ls ← pList pPair
  pure { method := m, host := h, target := t, lines := ls }

def pStep : P Step := do
  let k ← tok
  if k = "T" then
    let dt ← pNat
    pure (.tick dt)
  else if k = "R" then
    let r ← pCReq
    pure (.one r)
  else if k = "P" then
    let a ← pCReq
    let b ← pCReq
    pure (.two a b)
  else throw s!"bad step {k}"

def showList (vs : List Bytes) : List String := toString vs.length :: vs.map toHex

def showTag : Option Tag → List String
  | none => ["0"]
  | some t => ["1", toHex t.host, toHex t.uri, toHex t.method] ++ showList t.ae ++ showList t.auth ++ showList t.origin

def showResp (r : Resp) : List String :=
  [toString r.status, toHex r.cacheStatus,
   toHex (match r.age with | some a => ofString (toString a) | none => [])] ++
  showTag r.tag ++
  [(match r.body with | .echo => "e" | .empty => "0" | .other => "x"), r.framing, toHex r.vary, toHex r.cc, toString r.contacts]

def showOut : Out → List String
  | .one _ r => showResp r
  | .two how _ r1 _ r2 => [how.toString] ++ showResp r1 ++ showResp r2

/-- what the harness recorded for one response -/
structure Obs where
  status : Nat
  cacheStatus : Bytes
  echo : Option Spec.C11Sys.Echo
  vary : Bytes
  deriving Repr

def pObs : P Obs := do
  let st ← pNat
  let cs ← pBytes
  let _age ← pBytes
  let has ← pBool
  let echo ← if has then (do
      let h ← pBytes; let u ← pBytes; let m ← pBytes
      let ae ← pList pBytes; let au ← pList pBytes; let og ← pList pBytes
      pure (some ({ host := h, uri := u, method := m, ae := ae, auth := au, origin := og } : Spec.C11Sys.Echo)))
    else pure none
  let _body ← tok
  let _framing ← tok
  let vary ← pBytes
  let _cc ← pBytes
  let _contacts ← pNat
  pure { status := st, cacheStatus := cs, echo := echo, vary := vary }

/-- the implementation's observations, one per request, in request order -/
def pImpl : List Step → P (List Obs)
  | [] => pure []
  | .tick _ :: t => pImpl t
  | .one _ :: t => do
    let o ← pObs
    let r ← pImpl t
    pure (o :: r)
  | .two _ _ :: t => do
    let _how ← tok
    let a ← pObs
    let b ← pObs
    let r ← pImpl t
    pure (a :: b :: r)

/-- the request together with the routing decision (first matching rule; plain-HTTP listener) -/
def routedOf (rules : List Rule) (r : CReq) : Option Spec.C11.Routed :=
  match (matchRules rules ⟨b!"http", r.host, r.target, r.method⟩).proxy with
  | none => none
  | some (i, _) =>
    (rules[i]?).map fun rule =>
      { req := r.toReq, rule := rule, rScheme := b!"http", rHost := r.host, rUri := r.target }

structure Judged where
  bad : List String := []          -- reasons
  classes : List String := []      -- union of the classes of the failing responses
  unclassified : Bool := false     -- some failing response lies in no known class
  judged : Nat := 0

/-- finding C11-d (Props.C11SysCompose.NoForeignFlagClash, negated): some request of the history that is
    routed to ANOTHER storage has an UNFLAGGED key with the same entry name as an opaque-origin key of
    the receiver. The lock table is keyed by name only, so the receiver's site can be handed that
    unflagged key, and re-keying by Origin value is skipped. -/
def foreignFlagClash (rules : List Rule) (reqs : List CReq) (recv : CReq) : Bool :=
  match route rules recv with
  | none => false
  | some x =>
    reqs.any fun g =>
      match route rules g with
      | none => false
      | some gc =>
        gc.cache != x.cache &&
        gc.keys.any fun kg => x.keys.any fun kx => nameOf kg == nameOf kx && !kg.opaqueOrigin && kx.opaqueOrigin

def judge (history : List Spec.C11.Routed) (acc : Judged) (x : Option Spec.C11.Routed) (clash : Bool) (o : Obs) : Judged :=
  match x, o.echo with
  | some x, some e =>
    -- the response varies by Origin: it says so, or the origin is known to vary the echoed URL by Origin
    let varies := Spec.C11Sys.variesByOrigin [o.vary, varyOf e.uri]
    match Spec.C11Sys.mismatch x e varies with
    | none => { acc with judged := acc.judged + 1 }
    | some reason =>
      let cs := Spec.C11Sys.classesOf history x e ++ (if clash ∧ reason == "origin-value" then ["C11-d"] else [])
      { bad := acc.bad ++ [reason], classes := (acc.classes ++ cs).eraseDups,
        unclassified := acc.unclassified || cs.isEmpty, judged := acc.judged + 1 }
  | _, _ => acc

def zipJudge (history : List Spec.C11.Routed) : Judged → List (Option Spec.C11.Routed × Bool) → List Obs → Judged
  | acc, (x, c) :: xs, o :: os => zipJudge history (judge history acc x c o) xs os
  | acc, _, _ => acc

def hSysK : Handler := fun impl => do
  let rcs ← pList pRuleC
  let steps ← pList pStep
  if ¬ rcs.all (·.valid) then return { model := "err:rules", label := "rules-rejected" }
  let rules := rcs.map (·.rule)
  let out := run rules steps
  let model := " ".intercalate (out.outs.flatMap showOut)
  let reqs := requestsOf steps
  let routed := reqs.map (routedOf rules)
  let history := routed.filterMap id
  let (oracle, cls, crossServed) :=
    match Proto.run (pImpl steps) impl with
    | .error _ => ("na", "-", false)
    | .ok obs =>
      let j := zipJudge history {} (routed.zip (reqs.map (foreignFlagClash rules reqs))) obs
      if j.judged = 0 then ("na", "-", false)
      else if j.bad.isEmpty then ("ok", "-", false)
      else
        (",".intercalate (j.bad.eraseDups.map fun r => s!"bad:C11:{r}"),
         -- one failing response outside every known class makes the whole case unlisted
         (if j.unclassified || j.classes.isEmpty then "-" else ",".intercalate j.classes), true)
  let hows := out.outs.filterMap fun o => match o with | .two h _ _ _ _ => some h | _ => none
  let overlap :=
    if hows.contains .parked then "parked" else if hows.contains .free then "free"
    else if hows.contains .seq then "seq" else "nopair"
  let resps := out.outs.flatMap fun o => o.served.map (·.2)
  -- C12 ("a request that overlaps an ongoing fill ... every client receives the complete, CORRECT response"): a response
  -- another request was fetched for, delivered in a case with an overlapped pair and outside every class listed for
  -- C11, is a wrong response to a coalesced client as well
  let unlisted := oracle != "ok" && oracle != "na" && cls == "-"
  let oracle := if unlisted ∧ (overlap == "parked" ∨ overlap == "free") then
      oracle ++ ",bad:C12:a-request-overlapping-a-fill-received-a-response-fetched-for-another-resource" else oracle
  let label :=
    overlap ++
    (if out.anyWokenFill then ":woken-fill" else "") ++
    (if out.anyRekey then ":rekeyed" else "") ++
    (if resps.any (·.cacheStatus == b!"hit") then ":hit" else "") ++
    (if crossServed then ":cross-served" else "")
  return { model := model, oracle := oracle, cls := cls, label := label }

def handlers : List (String × Handler) := [("sysk", hSysK), ("kf.C11-d", hSysK)]

end H.SysK
