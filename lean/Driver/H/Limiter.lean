import Driver.Core
import RrModel.Spec.C16
import RrModel.Spec.C17
/- streams: limiter, kf.C16-*, kf.C17-*  (C16, C17) -/
open Go Model Proto
open Model.Limiter

namespace H.Limiter

/-! ### small utilities -/

/-- Go's `<` on strings: bytewise lexicographic -/
def bytesLt : Bytes → Bytes → Bool
  | [], [] => false
  | [], _ :: _ => true
  | _ :: _, [] => false
  | a :: s, b :: t => if a < b then true else if b < a then false else bytesLt s t

def insertName (n : Bytes) : List Bytes → List Bytes
  | [] => [n]
  | a :: t => if bytesLt n a then n :: a :: t else a :: insertName n t

def sortNames (l : List Bytes) : List Bytes := l.foldr insertName []

def intSum (l : List Int) : Int := l.foldl (· + ·) 0

def diskBytes (fs : FS) : Int := intSum (fs.files.toList.map fun x => (x.2 : Int))

def filePaths (fs : FS) : List Bytes := sortNames (dedup fs.files.dom)

/-! ### cursor over the implementation's tokens (lenient: a malformed record only spoils the hints) -/

abbrev C := StateM (List String)

def cTok : C String := do
  match (← get) with
  | [] => pure ""
  | t :: ts => set ts; pure t

def cNat : C Nat := do pure ((← cTok).toNat?.getD 0)
def cInt : C Int := do pure ((← cTok).toInt?.getD 0)
def cBytes : C Bytes := do pure ((fromHex (← cTok)).getD [])

def cTimes {α} (p : C α) : Nat → C (List α)
  | 0 => pure []
  | n + 1 => do
    let a ← p
    let r ← cTimes p n
    pure (a :: r)

def cList {α} (p : C α) : C (List α) := do
  let n ← cNat
  cTimes p (if n > 100000 then 0 else n)

structure ImplPass where
  ran : Bool := false
  without : List Bytes := []
  withA : List Bytes := []
  before : Int := 0
  after : Int := 0
  removed : List Bytes := []
  survivors : List Bytes := []

def cPass : C ImplPass := do
  let t ← cTok
  if t ≠ "P1" then return {}
  let wo ← cList cBytes
  let wi ← cList cBytes
  let _sel ← cInt
  let _sz ← cInt
  let before ← cInt
  let after ← cInt
  let removed ← cList cBytes
  let surv ← cList cBytes
  return { ran := true, without := wo, withA := wi, before := before, after := after, removed := removed, survivors := surv }

/-- skip a `<state>` record -/
def cState : C Unit := do
  let _ ← cInt
  let _ ← cList (do let _ ← cTok; let _ ← cTok; cTok)
  let _ ← cList (do let _ ← cTok; cTok)
  let _ ← cList (do let _ ← cTok; let _ ← cTok; cTok)
  let _ ← cInt
  pure ()

/-! ### hints: complete what the implementation reports to full enumerations -/

def lastIdx (x : Bytes) : List Bytes → Nat → Option Nat → Option Nat
  | [], _, acc => acc
  | a :: t, i, acc => lastIdx x t (i + 1) (if a = x then some i else acc)

def insertKey (x : Nat × Bytes) : List (Nat × Bytes) → List (Nat × Bytes)
  | [] => [x]
  | a :: t => if x.1 < a.1 then x :: a :: t else a :: insertKey x t

/-- the order in which a flush wrote the storable items, read off the log afterwards: by the
    position of the last occurrence of each item's line; an item whose line is not there (the
    trim took it, or it was glued to an unterminated tail) was written first -/
def forderFrom (st : LState) (content : Bytes) : List Bytes :=
  let lines := split1 10 content
  let keyed := (dedup st.storable.dom).map fun n =>
    let line := match st.storable.get n with | some s => (logLine n s).dropLast | none => []
    ((match lastIdx line lines 0 none with | none => 0 | some i => i + 1), n)
  (keyed.foldr insertKey []).map (·.2)

def mkSched (implWithout implWith : List Bytes) (content : Bytes) : Sched := fun st =>
  { uorder := implWithout ++ (dedup st.without.dom).filter (fun n => !implWithout.contains n),
    korder := implWith ++ sortBy (atimeWithA st) ((dedup st.withA.dom).filter (fun n => !implWith.contains n)),
    forder := forderFrom st content }

/-! ### rendering the model's side -/

def showI (i : Int) : String := toString i

def stateTokens (s : Sys) : List String :=
  let wa := sortNames (dedup s.st.withA.dom)
  let wo := sortNames (dedup s.st.without.dom)
  let so := sortNames (dedup s.st.storable.dom)
  [showI s.st.sizeBytes, toString wa.length] ++
  wa.flatMap (fun n => [toHex n, toString (atimeWithA s.st n), toString (kbWithA s.st n)]) ++
  [toString wo.length] ++ wo.flatMap (fun n => [toHex n, toString (kbWithout s.st n)]) ++
  [toString so.length] ++
  so.flatMap (fun n => match s.st.storable.get n with
    | some x => [toHex n, showI x.unix, toString x.kb] | none => []) ++
  [showI (diskBytes s.fs)]

def namesTokens (l : List Bytes) : List String := toString l.length :: l.map toHex

/-- the model's pass record; `fsBefore` = the directory when the pass started -/
def passTokens (fsBefore : FS) (after : Sys) (o : PassOut) : List String × List Bytes :=
  if !o.ran then (["P0"], [])
  else
    let removed := sortNames ((dedup (o.sel.without ++ o.sel.withA)).filter fun n => fsBefore.files.has n)
    let surv := if removed.isEmpty then [] else filePaths after.fs
    (["P1"] ++ namesTokens o.sel.without ++ namesTokens o.sel.withA ++
      [showI o.sel.size, showI after.st.sizeBytes, showI (diskBytes fsBefore), showI (diskBytes after.fs)] ++
      namesTokens removed ++ namesTokens surv, removed)

/-! ### the script -/

structure Script where
  max : Int
  start : Int
  logSize : Int
  pre : List (Bytes × Nat)
  atimes : Option Bytes
  ops : List (Nat × Bytes × Nat × Int)   -- kind, name, size, dt

def pOp : P (Nat × Bytes × Nat × Int) := do
  let k ← pNat
  match k with
  | 0 => do let n ← pBytes; let sz ← pNat; let dt ← pInt; pure (0, n, sz, dt)
  | 1 => do let n ← pBytes; let dt ← pInt; pure (1, n, 0, dt)
  | 2 => do let dt ← pInt; pure (2, [], 0, dt)
  | 3 => do let n ← pBytes; let sz ← pNat; pure (3, n, sz, 0)
  | 4 => do let n ← pBytes; pure (4, n, 0, 0)
  | 5 => do let dt ← pInt; pure (5, [], 0, dt)
  | _ => throw s!"bad op kind {k}"

def pScript : P Script := do
  let max ← pInt
  let start ← pInt
  let logSize ← pInt
  let pre ← pList (do let p ← pBytes; let sz ← pNat; pure (p, sz))
  let has ← pBool
  let atc ← pBytes
  let ops ← pList pOp
  pure { max := max, start := start, logSize := logSize, pre := pre,
         atimes := if has then some atc else none, ops := ops }

/-- `ATIME_LOG_SIZE_BYTES` unset: `int64(60 * 3000000)` -/
def maxLengthOf (logSize : Int) : Int := if logSize < 0 then 180000000 else logSize

/-! ### the run: model and oracles side by side -/

structure Acc where
  sys : Sys
  now : Int
  out : List String := []          -- model tokens, reversed chunks
  cls : List String := []
  p16 : List Spec.C16.Pass := []
  p17 : List Spec.C17.Pass := []
  access : Bytes → Option Int := fun _ => none
  dirty : Bool := false            -- an access since the last flush
  judged : Bool := true
  invalidHints : Bool := false
  evicted : Bool := false
  overNoProgress : Bool := false
  restarts : Nat := 0
  panicked : Bool := false

def addCls (a : Acc) (op : Op) : Acc :=
  let cs := Spec.C16.classesOfStep a.sys op ++ Spec.C17.classesOfStep a.sys op
  { a with cls := cs.foldl (fun l c => if l.contains c then l else l ++ [c]) a.cls }

/-- the system on which the loop tail runs for a limiter op -/
def midSys (s : Sys) (op : Op) (sc : Sched) : Option Sys :=
  match applyOp s op sc with
  | .ok (s1, some _) => some s1
  | _ => none

/-- record the implementation's pass for the two oracles -/
def observe (a : Acc) (ip : ImplPass) : Acc :=
  if !ip.ran then a else
  let p16 : Spec.C16.Pass := { max := a.sys.st.max, before := ip.before, after := ip.after, removed := ip.removed }
  let p17 : Spec.C17.Pass := { removed := ip.removed.filter Spec.C17.isEntryPath, survivors := ip.survivors.filter Spec.C17.isEntryPath, access := a.access, judged := a.judged }
  { a with p16 := a.p16 ++ [p16], p17 := a.p17 ++ [p17],
           evicted := a.evicted || !ip.removed.isEmpty,
           overNoProgress := a.overNoProgress || !Spec.C16.progress p16 }

/-- a limiter op: model step with the implementation's choices, tokens, observation -/
def limiterOp (a : Acc) (op : Op) (tag : List String) (ip : ImplPass) (content : Bytes) : Acc :=
  let a := addCls a op
  let sc := mkSched ip.without ip.withA content
  let bad := match midSys a.sys op sc with
    | some mid => !validHints mid.st (sc mid.st)
    | none => false
  let bad := bad || (match op with
    | .flush _ _ => !isEnumOf (sc a.sys.st).forder a.sys.st.storable.dom
    | _ => false)
  match step a.sys op sc with
  | .panic _ => { a with panicked := true, out := a.out ++ ["panic"] }
  | .ok (s', o) =>
    -- the directory when the pass started: the op's own effect on the directory included
    let fsBefore : FS := match midSys a.sys op sc with | some m => m.fs | none => a.sys.fs
    let did := (midSys a.sys op sc).isSome
    let logTok := match op with
      | .flush _ _ => [if fsBefore.atimes.isSome then "1" else "0", toHex (fsBefore.atimes.getD [])]
      | _ => [if did then "1" else "0"]
    let ptoks := if did then (passTokens fsBefore s' o).1 else []
    { a with sys := s', out := a.out ++ tag ++ logTok ++ ptoks, invalidHints := a.invalidHints || bad }

def upd' (f : Bytes → Option Int) (n : Bytes) (v : Int) : Bytes → Option Int :=
  fun m => if m = n then some v else f m

def runOps : List (Nat × Bytes × Nat × Int) → Int → Acc → C Acc
  | [], _, a => pure a
  | (k, n, sz, dt) :: rest, ml, a => do
    if a.panicked then return a
    match k with
    | 0 => do
      let now := a.now + dt
      let _ ← cTok
      let did ← cTok
      let ip ← if did = "1" then cPass else pure {}
      let a := { a with now := now }
      let a1 := limiterOp a (.fill n sz now) ["F"] ip []
      let a1 := if did = "1" then { a1 with access := upd' a1.access n now, dirty := true } else a1
      runOps rest ml (observe a1 ip)
    | 1 => do
      let now := a.now + dt
      let _ ← cTok
      let did ← cTok
      let ip ← if did = "1" then cPass else pure {}
      let a := { a with now := now }
      let a1 := limiterOp a (.hit n now) ["H"] ip []
      let a1 := if did = "1" then { a1 with access := upd' a1.access n now, dirty := true } else a1
      runOps rest ml (observe a1 ip)
    | 2 => do
      let now := a.now + dt
      let _ ← cTok
      let _has ← cTok
      let content ← cBytes
      let ip ← cPass
      let a := { a with now := now }
      let a1 := limiterOp a (.flush now ml) ["L"] ip content
      runOps rest ml (observe { a1 with dirty := false } ip)
    | 3 => do
      let _ ← cTok; let _ ← cTok
      let a := addCls a (.regrow n sz)
      let did := a.sys.fs.files.has n
      match step a.sys (.regrow n sz) canonicalHints with
      | .ok (s', _) => runOps rest ml { a with sys := s', out := a.out ++ ["G", if did then "1" else "0"] }
      | .panic _ => pure { a with panicked := true }
    | 4 => do
      let _ ← cTok; let _ ← cTok
      let a := addCls a (.delete n)
      let did := a.sys.fs.files.has n
      match step a.sys (.delete n) canonicalHints with
      | .ok (s', _) => runOps rest ml { a with sys := s', out := a.out ++ ["D", if did then "1" else "0"] }
      | .panic _ => pure { a with panicked := true }
    | _ => do
      let now := a.now + dt
      let _ ← cTok
      let ok ← cTok
      if ok = "ok" then cState
      let a := addCls { a with now := now } (.restart now)
      match step a.sys (.restart now) canonicalHints with
      | .ok (s', _) =>
        runOps rest ml { a with sys := s', out := a.out ++ ["R", "ok"] ++ stateTokens s',
                                judged := a.judged && !a.dirty, dirty := false, restarts := a.restarts + 1 }
      | .panic _ => pure { a with panicked := true, out := a.out ++ ["R", "panic"] }

def finalTokens (s : Sys) : List String :=
  let files := sortNames (dedup s.fs.files.dom)
  ["E"] ++ stateTokens s ++ [toString files.length] ++
  files.flatMap (fun p => [toHex p, toString ((s.fs.files.get p).getD 0)]) ++
  [if s.fs.atimes.isSome then "1" else "0", toHex (s.fs.atimes.getD [])]

def hLimiter : Handler := fun impl => do
  let sc ← pScript
  let files : KMap Nat := sc.pre.foldl (fun m x => m.set x.1 x.2) KMap.empty
  let fs0 : FS := { files := files, atimes := sc.atimes }
  let s0 : Sys := { st := newState sc.max sc.start, fs := fs0 }
  -- the history's own access log starts with what the log on disk records
  let acc0 : Bytes → Option Int := match sc.atimes with
    | none => fun _ => none
    | some c => (Spec.C17.parseLog c).foldl (fun f x => upd' f x.1 x.2) (fun _ => none)
  let a0 : Acc := addCls { sys := s0, now := sc.start, access := acc0 } (.restart sc.start)
  let ml := maxLengthOf sc.logSize
  let go : C Acc := do
    let _ ← cTok
    let ok ← cTok
    if ok = "ok" then cState
    match step s0 (.restart sc.start) canonicalHints with
    | .panic _ => pure { a0 with panicked := true, out := ["S", "panic"] }
    | .ok (s1, _) => runOps sc.ops ml { a0 with sys := s1, out := ["S", "ok"] ++ stateTokens s1 }
  let (a, _) := Id.run (go.run impl)
  let out := if a.panicked then a.out else a.out ++ finalTokens a.sys
  let out := if a.invalidHints then out ++ ["INVALID-CHOICE"] else out
  let r16 := Spec.C16.reasons a.p16
  let bad17 := !Spec.C17.holds a.p17
  let bads := r16.map (fun r => s!"bad:C16:{r}") ++ (if bad17 then ["bad:C17:evicted-while-older-or-never-used-remains"] else [])
  let oracle := if bads.isEmpty then "ok" else ",".intercalate bads
  let label :=
    if a.panicked then "startup-panic"
    else
      (if a.evicted then "evict" else if a.overNoProgress then "over-limit-stuck" else if a.p16.any (fun p => decide (p.before > p.max)) then "over" else "quiet") ++
      (if a.restarts > 0 then ":restart" else "") ++ (if a.cls.isEmpty then ":clean" else "")
  return { model := " ".intercalate out, oracle := oracle,
           cls := if a.cls.isEmpty then "-" else ",".intercalate a.cls, label := label }

def handlers : List (String × Handler) :=
  [("limiter", hLimiter)] ++
  (["C16-a", "C16-b", "C16-c", "C16-d", "C16-e", "C16-f", "C17-a", "C17-b", "C17-c"].map fun c => ("kf." ++ c, hLimiter))

end H.Limiter
