import Driver.Core
import RrModel.Conditional
import RrModel.Spec.C09
/- streams: reval, etag, allow, revalflow, kf.C09-b, kf.C09-c, kf.C09-d  (C09) -/
open Go Proto

namespace H.Conditional
open Model.Conditional Spec.C09

def pHeader : P Header := pList (do let k ← pBytes; let vs ← pList pBytes; pure (k, vs))

def showHeader (h : Header) (drop : List Bytes := []) : String :=
  let n := (Header.normal h).filter fun e => !drop.contains e.1
  " ".intercalate (toString n.length :: n.flatMap fun e =>
    toHex e.1 :: toString e.2.length :: e.2.map toHex)

/-! ### L1 streams -/

def hReval : Handler := fun _ => do
  let h ← pHeader
  let r := revalidateHeaders h
  let label :=
    if r.2.2 = [] then "none"
    else (if r.1 = kINM then "inm" else "ims") ++
      (if h.get r.1 ≠ [] then ":first" else ":second-key")
  return { model := s!"{toHex r.1} {toHex r.2.1} {toHex r.2.2}", oracle := "ok", label := label }

/-- hypotheses of the suffix laws, decidable form -/
def roundTripDomain (t e : Bytes) : Bool :=
  t ≠ [] && !t.contains 34 && (!e.contains 34 || e.getLast? == some 34) &&
    !hasSuffix (trimRight quote e) t

def hEtag : Handler := fun impl => do
  let t ← pBytes
  let e ← pBytes
  let sfx := currentSuffix t
  let a := addSuffix sfx e
  let model := s!"{toHex a} {toHex (stripSuffix sfx e)} {toHex (stripSuffix sfx a)} {toHex (addSuffix sfx a)}"
  -- the laws, judged on what the implementation returned: impl = [add e, strip e, strip (add e), add (add e)]
  let oracle :=
    match impl.map fromHex with
    | [some ia, _, some isa, some iaa] =>
      let bad :=
        (if (sfx.isNone || roundTripDomain t e) && isa ≠ e then ["bad:C09:suffix-roundtrip"] else []) ++
        (if !t.contains 34 && iaa ≠ ia then ["bad:C09:suffix-not-idempotent"] else []) ++
        (if sfx.isSome && !t.contains 34 && !hasSuffix (trimRight quote ia) t then ["bad:C09:served-etag-without-suffix"] else [])
      if bad.isEmpty then "ok" else ",".intercalate bad
    | _ => "na"
  let label :=
    if sfx.isNone then "unset"
    else if hasSuffix (trimRight quote e) t then "already-suffixed"
    else if e.contains 34 then (if e.getLast? == some 34 then "quoted" else "quote-inside") else "unquoted"
  return { model := model, oracle := oracle, label := label }

def hAllow : Handler := fun _ => do
  let deny ← pBool
  let h ← pHeader
  let list ← pList pBytes
  let out := if deny then denyHeaders h list else allowHeaders h list
  let nonCanon := (rawKeys h).any fun k => canon k ≠ k
  return { model := showHeader out, oracle := "ok",
           label := (if deny then "deny" else "allow") ++ (if nonCanon then ":noncanonical-keys" else "") }

/-! ### revalflow -/

def pOrigin : P OriginState := do
  let body ← pBytes
  let etag ← pBytes
  let lm ← pBytes
  let err ← pNat
  let h200 ← pHeader
  let h304 ← pHeader
  let d2 ← pBool
  let d3 ← pBool
  pure { rep := ⟨body, etag, lm⟩, err := err, h200 := h200, h304 := h304, dnc200 := d2, dnc304 := d3 }

def pClient : P ClientReq := do
  let inm ← pBytes
  let ims ← pBytes
  let range ← pBytes
  let rp ← pBool
  pure ⟨inm, ims, range, rp⟩

def pScenario : P Scenario := do
  let t ← pBytes
  let a ← pOrigin
  let b ← pOrigin
  let c1 ← pClient
  let c2 ← pClient
  let c3 ← pClient
  pure { sfx := currentSuffix t, originA := a, originB := b, c1 := c1, c2 := c2, c3 := c3 }

/-- the implementation's tokens of one step -/
def pStepObs : P StepObs := do
  let t ← tok
  if t = "R" then return { contacts := [], view := none }
  let n ← match t.toNat? with
    | some n => pure n
    | none => throw s!"expected contact count, got {t}"
  let cs ← pTimes (do let a ← pBytes; let b ← pBytes; let c ← pBytes; pure (Contact.mk a b c)) n
  let t ← tok
  if t = "R" then return { contacts := cs, view := none }
  let st ← pNat
  let h ← pHeader
  let body ← pBytes
  return { contacts := cs, view := some (st, h, body) }

def pObs : P (List StepObs) := do
  let a ← pStepObs
  let b ← pStepObs
  let c ← pStepObs
  pure [a, b, c]

def implStatus (o : Option StepObs) : Option Nat := (o.bind (·.view)).map (·.1)

def showContact (h : Header) : String :=
  s!"{toHex (h.get kINM)} {toHex (h.get kIMS)} {toHex (h.get kRange)}"

def showStep (out : FlowOut) (rangeParsed : Bool) : String :=
  let cs := " ".intercalate (toString out.contacts.length :: out.contacts.map showContact)
  if rangeParsed then cs ++ " R"
  else s!"{cs} V {out.view.status} {showHeader out.view.header [kAge]} {toHex out.view.body}"

structure StepRes where
  text : String
  entry : Option Meta
  label : String
  cls : List String

/-- one step on the model side.  `stale` and `cmp304` are the parameters owned by
    Freshness.lean: `stale` follows from the generator's lifetime discipline, `cmp304` is read
    off the implementation's answer (and then judged by the oracle). -/
def runStep (sc : Scenario) (o : OriginState) (c : ClientReq) (e : Option Meta) (now : Int)
    (stale : Bool) (implSt : Option Nat) : Option StepRes :=
  let p : FlowParams := { sfx := sc.sfx, doNotCache := o.doNotCache, origin := o.answer, now := now,
                          stale := stale, cmp304 := implSt == some 304 }
  match flowStep p c.rangeParsed c.header e with
  | none => none
  | some out =>
    let cls :=
      match e with
      | some m =>
        if stale then
          let s := surgery .revalidating c.rangeParsed c.header m.header
          let resp := o.answer s.req
          (if inClass_C09_d m.header then ["C09-d"] else []) ++
          (if inClass_C09_c c.header m.header then ["C09-c"] else []) ++
          (if inClass_C09_e resp.status then ["C09-e"] else []) ++
          (if inClass_C09_b (s.used.length > 0) resp.status (o.doNotCache resp.header) &&
              !validatorMatches sc.sfx c.inm c.ims o.rep then ["C09-b"] else [])
        else []
      | none => []
    some { text := showStep out c.rangeParsed, entry := out.entry, label := out.label, cls := cls }

def hFlow : Handler := fun impl => do
  let sc ← pScenario
  if impl = ["unsync"] then return { model := "unsync", label := "unsync" }
  if impl = ["panic"] then return { model := "no-panic-expected", label := "panic" }
  let obs := match run pObs impl with
    | .ok o => o
    | .error _ => []
  let unsupported : Verdict := { model := "outside-slice", label := "outside-slice" }
  -- step 1: fill (clock 0); steps 2 and 3 at clock 1000, past the stored lifetime
  let some r1 := runStep sc sc.originA sc.c1 none 0 false (implStatus obs[0]?) | return unsupported
  let stop1 := sc.c1.rangeParsed
  let r2? := if stop1 then none else runStep sc sc.originB sc.c2 r1.entry 1000 true (implStatus obs[1]?)
  if !stop1 && r2?.isNone then return unsupported
  let stop2 := stop1 || sc.c2.rangeParsed
  -- lifetime discipline of the generator: whatever step 2 stored or revalidated is fresh at step 3
  let r3? := match r2? with
    | some r2 => if stop2 then none else runStep sc sc.originB sc.c3 r2.entry 1000 (r2.entry == r1.entry) (implStatus obs[2]?)
    | none => none
  if !stop2 && r3?.isNone then return unsupported
  let text (r : Option StepRes) := match r with | some r => r.text | none => "R"
  let model := s!"{r1.text} {text r2?} {text r3?}"
  let lab (r : Option StepRes) := match r with | some r => r.label | none => "-"
  let cls := (r1.cls ++ (r2?.map (·.cls)).getD [] ++ (r3?.map (·.cls)).getD []).eraseDups
  let oracle :=
    if obs.isEmpty then "na"
    else match (verdict sc obs).eraseDups with
      | [] => "ok"
      | bad => ",".intercalate bad
  return { model := model, oracle := oracle, cls := if cls.isEmpty then "-" else ",".intercalate cls,
           label := s!"{lab r2?}|{lab r3?}" }

def handlers : List (String × Handler) := [
  ("reval", hReval), ("etag", hEtag), ("allow", hAllow), ("revalflow", hFlow),
  ("kf.C09-b", hFlow), ("kf.C09-c", hFlow), ("kf.C09-d", hFlow), ("kf.C09-e", hFlow) ]

end H.Conditional
