import Driver.Core
import RrModel.Spec.C07
import RrModel.Spec.C08
import RrModel.Spec.C10
import RrModel.Spec.Tables
import RrModel.SysCache
/- stream: sysc — histories on a cache-enabled rule; the history oracles of C05, C07, C08, C10
   (DESIGN Appendix E: the reference cache) applied to what the implementation did. The model side
   of this stream is the set of function-level models (Freshness, Codec, Range, Conditional, …)
   compared in their own streams; here the comparison column echoes the implementation and the
   ORACLES decide. -/
open Go Proto

namespace H.SysC

structure Origin where
  path : Bytes
  status : Nat
  headers : List (Bytes × Bytes)
  body : Bytes
  chunked : Bool
  /-- the origin connection breaks after this many body bytes -/
  readErrAt : Option Nat := none
  /-- the origin honours If-None-Match: 304 when it names the current ETag (`cl0`: with Content-Length: 0) -/
  cond : Bool := false
  cl0 : Bool := false
  /-- Cache-Control of that 304 when it differs from the 200's -/
  cc304 : Bytes := []
  deriving Repr

inductive Op where
  | req (method path : Bytes) (headers : List (Bytes × Bytes))
  /-- the same request, but the client goes away after half of the body has arrived -/
  | abort (method path : Bytes) (headers : List (Bytes × Bytes))
  | tick (dt : Nat)
  | origin (o : Origin)
  deriving Repr

def pPair : P (Bytes × Bytes) := do
  let k ← pBytes
  let v ← pBytes
  pure (k, v)

def pOp : P Op := do
  let k ← tok
  if k = "T" then
    let dt ← pNat
    pure (.tick dt)
  else if k = "O" then
    let p ← pBytes
    let st ← pNat
    let hs ← pList pPair
    let b ← pBytes
    let ch ← pBool
    let re ← pInt
    let cond ← pBool
    let cl0 ← pBool
    let cc304 ← pBytes
    pure (.origin { path := p, status := st, headers := hs, body := b, chunked := ch,
                    readErrAt := if re < 0 then none else some re.toNat, cond := cond, cl0 := cl0, cc304 := cc304 })
  else if k = "R" ∨ k = "A" then
    let m ← pBytes
    let p ← pBytes
    let hs ← pList pPair
    pure (if k = "R" then .req m p hs else .abort m p hs)
  else throw s!"bad op {k}"

/-- what the harness recorded for one request -/
structure Obs where
  status : Nat
  framing : String
  body : Bytes
  headers : List (Bytes × Bytes)
  contacts : Nat
  /-- Range header seen by the origin, per contact -/
  contactRanges : List Bytes := []
  /-- If-None-Match seen by the origin, per contact -/
  contactINM : List Bytes := []
  deriving Repr

def pObs : P Obs := do
  let st ← pNat
  let fr ← tok
  let b ← pBytes
  let hs ← pList pPair
  let nc ← pNat
  let rs ← pTimes (do let i ← pBytes; let _ ← pBytes; let r ← pBytes; pure (i, r)) nc
  pure { status := st, framing := fr, body := b, headers := hs, contacts := nc, contactRanges := rs.map (·.2), contactINM := rs.map (·.1) }

def hdrOf (wire : List (Bytes × Bytes)) : Header := wire.foldl (fun h kv => Header.add h kv.1 kv.2) []
def valuesCI (h : List (Bytes × Bytes)) (name : Bytes) : List Bytes :=
  (h.filter fun kv => toLower kv.1 == toLower name).map (·.2)

/-- one fetch that reached the origin: which response it got, when, for which key, by what request -/
structure Fetch where
  key : Bytes × Bytes × List Bytes × List Bytes     -- path, method class, Accept-Encoding, Authorization
  origin : Origin
  time : Int
  reqAuth : Bool
  reqOrigin : Bool
  method : Bytes
  /-- the origin answered this fetch 304 (revalidation of the stored entry) -/
  via304 : Bool := false
  /-- … and that 304 carried a directive that forbids storing / sharing -/
  forbid304 : Bool := false
  /-- the origin failed (status >= 400) and the client was served the STORED answer under its stale-if-error
      allowance: this answer of the origin is not what the entry holds afterwards -/
  servedStale : Bool := false
  deriving Repr

def inGate (s : Nat) : Bool := s == 200 || Spec.redirectStatuses.contains s || (400 ≤ s && s ≤ 404)

/-- the response may be stored and shared (C10's reading of the property) -/
def cacheableExchange (f : Fetch) : Bool :=
  (f.method == b!"GET" || f.method == b!"HEAD") && !f.reqAuth && !Spec.C10.carriesAny (hdrOf f.origin.headers)

def diffsNames : List Bytes := [b!"age", b!"richie-edge-cache", b!"date", b!"connection", b!"content-length",
  b!"transfer-encoding", b!"etag", b!"content-type"]

/-- C07 on a hit: every header line of the filling response arrives (and nothing else), up to the
    documented differences; cached 400–404 answers carry the fixed 60 s Cache-Control -/
def c07Holds (src : Origin) (o : Obs) : Bool :=
  let exp : List (Bytes × Bytes) :=
    if 400 ≤ src.status ∧ src.status ≤ 404 then
      src.headers.filter (fun kv => toLower kv.1 != b!"cache-control") ++ [(b!"Cache-Control", Spec.cacheable4xxCacheControl)]
    else src.headers
  let names := (exp.map (fun kv => toLower kv.1) ++ o.headers.map (fun kv => toLower kv.1)).eraseDups
  names.all fun n => diffsNames.contains n || valuesCI o.headers n == valuesCI exp n

structure St where
  now : Int := 1000000
  cur : List Origin := []            -- current origin answer per path
  all : List Origin := []            -- every answer ever configured
  fetches : List Fetch := []
  bad : List String := []
  cls : List String := []
  labels : List String := []

def keyOf (method path : Bytes) (hs : List (Bytes × Bytes)) : Bytes × Bytes × List Bytes × List Bytes :=
  (path, (if method == b!"GET" then b!"" else method), valuesCI hs b!"accept-encoding", valuesCI hs b!"authorization")

def judge (force : Nat) (st : St) (method path : Bytes) (hs : List (Bytes × Bytes)) (o : Obs) : St :=
  let cur? := st.cur.find? (·.path == path)
  let key := keyOf method path hs
  let reqAuth := (valuesCI hs b!"authorization").any (· ≠ [])
  let reqOrigin := (valuesCI hs b!"origin") ≠ []
  -- a Range request is judged by C15's own streams; here only: the origin is asked for the whole
  let ranged := (valuesCI hs b!"range") ≠ []
  let conditional := (valuesCI hs b!"if-none-match") ≠ [] || ranged
  let cacheMethod := method == b!"GET" || method == b!"HEAD"
  -- the exchange's own fetch, if the origin was contacted
  let st1 : St :=
    match cur?, o.contacts with
    | some c, n + 1 =>
      let _ := n
      let etag0 := (valuesCI c.headers b!"etag").headD []
      let is304 := c.cond && etag0 ≠ [] && o.contactINM.any (· == etag0)
      -- "a 304 … updates its headers while keeping the body": the entry's Cache-Control is the 304's from now on
      let cEff : Origin := if is304 ∧ c.cc304 ≠ [] ∧ c.cc304 ≠ b!"-" then
          { c with headers := c.headers.filter (fun kv => toLower kv.1 != b!"cache-control") ++ [(b!"Cache-Control", c.cc304)] } else c
      let servedStale := c.status ≥ 400 && o.body ≠ [] && o.body != c.body &&
        (st.all.filter (·.path == path)).any (fun s => s.body == o.body && ((Model.getCacheControlDirectives (hdrOf s.headers)).staleIfError).isSome)
      { st with fetches := st.fetches ++ [{ key := key, origin := cEff, time := st.now, reqAuth := reqAuth, reqOrigin := reqOrigin, method := method,
                                            servedStale := servedStale,
                                            via304 := c.cond && etag0 ≠ [] && o.contactINM.any (· == etag0),
                                            forbid304 := c.cond && etag0 ≠ [] && o.contactINM.any (· == etag0) && c.cc304 ≠ [] &&
                                              Spec.C10.carriesAny (hdrOf [(b!"Cache-Control", c.cc304)]) }] }
    | _, _ => st
  -- which origin answer does the delivered body belong to?
  let src? : Option Origin :=
    if o.body ≠ [] then (st.all.filter (·.path == path)).reverse.find? (·.body == o.body) else none
  let add (s : St) (b : List String) (c : List String) (l : String) : St :=
    { s with bad := s.bad ++ b, cls := s.cls ++ c, labels := s.labels ++ [l] }
  let st1 := if ranged ∧ cacheMethod ∧ !reqAuth ∧ o.contactRanges.any (· ≠ []) then
      add st1 ["bad:C15:range-forwarded-to-the-origin-on-a-cache-enabled-rule"] [] "range-forwarded" else st1
  -- the performer's watchdog tripped: this ONE request contacted the origin 300 times (the handler re-enters
  -- itself without bound; without the watchdog it never answers)
  let st1 := if o.contacts ≥ 300 then
      add st1 (["bad:C05:request-never-answered-(handler-re-enters-itself-without-bound)",
               "bad:C13:request-never-answered-(handler-re-enters-itself-without-bound)",
               "bad:C08:origin-contacted-without-bound-for-one-request"] ++
               (if o.contactINM.any (· ≠ []) then ["bad:C09:revalidation-never-ends-(handler-re-enters-itself-without-bound)"] else []))
        [] "unbounded-reentry" else st1
  if o.framing == "noresponse" then
    -- nothing came back within the client's deadline: the key is wedged (C13), the request unanswered (C05)
    add st1 ["bad:C13:request-got-no-response-the-key-is-wedged", "bad:C05:request-got-no-response"] [] "noresponse" else
  -- finding C11-a seen from here: the key string is a bare concatenation, so a request WITH Authorization finds the
  -- entry stored for the path `<path>Authorization<credentials>` and is answered from it (hit, or revalidated with the
  -- origin of ITS url and then served the other URL's body)
  let authV := (valuesCI hs b!"authorization").headD []
  let collides := reqAuth && st.all.any (fun x => x.path == path ++ b!"Authorization" ++ authV)
  let st1 := if collides then { st1 with cls := st1.cls ++ ["C11-a"] } else st1
  match cur? with
  | none => add st1 [] [] "no-origin"
  | some c =>
    let curDoNotCache := Spec.C10.carriesAny (hdrOf c.headers)
    -- C13: whoever is served WITHOUT contacting the origin must never get a strict prefix of a body
    let isStrictPrefix := o.body ≠ [] && (st.all.filter (·.path == path)).any (fun x => o.body.length < x.body.length && x.body.take o.body.length == o.body) &&
      !(st.all.filter (·.path == path)).any (·.body == o.body)
    if o.contacts == 0 ∧ isStrictPrefix ∧ !ranged then
      add st1 ["bad:C13:partial-data-of-a-failed-fetch-served-from-the-cache", "bad:C05:truncated-body-served"] [] "hit:truncated" else
    if o.contacts > 0 ∧ c.readErrAt.isSome then
      -- the failing fetch itself: its own client may see a broken response (judged in the schedule
      -- replay); nothing to mirror
      add st1 [] [] "fill:origin-read-error" else
    if o.contacts > 0 then
      -- C05 on a filling / passing exchange: mirror of the CURRENT origin answer, or (origin failing,
      -- stale-if-error granted) an earlier complete answer
      let staleIfError := c.status ≥ 400 && (match src? with
        | some s => s.body != c.body && ((Model.getCacheControlDirectives (hdrOf s.headers)).staleIfError).isSome
        | none => false)
      let mirrors := o.framing == "complete" && o.status == c.status && (o.body == (if method == b!"HEAD" then [] else c.body))
      -- (the class is about what the CODE takes for cacheable: its own directive parser)
      let codeDoNotCache := (Model.getCacheControlDirectives (hdrOf c.headers)).doNotCache
      let _ := curDoNotCache
      let c05a := cacheMethod && !reqAuth && !codeDoNotCache && !inGate c.status && c.body ≠ [] && method == b!"GET"
      let c05bad := if conditional ∨ staleIfError ∨ mirrors then [] else ["bad:C05:response-does-not-mirror-the-origin-answer"]
      -- the origin answered this exchange's revalidation with 304 (it honours If-None-Match and was sent its current tag)
      let etag := (valuesCI c.headers b!"etag").headD []
      let got304 := c.cond && etag ≠ [] && o.contactINM.any (· == etag)
      -- C09: a client that sent no validator never receives 304
      let c09bad := (if !conditional ∧ o.status == 304 then ["bad:C09:304-for-a-client-that-sent-no-validator"] else []) ++
        -- C09: a 304 keeps the stored body: the revalidating client is sent it
        (if got304 ∧ !conditional ∧ !mirrors then ["bad:C09:stored-body-not-kept-across-a-304-revalidation"] else [])
      -- finding C09-e seen from here: the revalidation of a stored entry is answered with a status outside the
      -- storage gate and NO body; the revalidating writer has no file of its own, WrittenFile re-opens the OLD
      -- entry and its bytes go out under the new status line (when the new answer declares no length)
      let c09eFill := !inGate c.status && c.body == [] && o.body ≠ [] && src?.isSome
      -- finding C09-b seen from here: a 304 whose headers forbid caching is handed on as it is (no body, no validator restored)
      let c09b := got304 && c.cc304 ≠ [] && Spec.C10.carriesAny (hdrOf [(b!"Cache-Control", c.cc304)])
      add st1 (c05bad ++ c09bad) ((if c05a then ["C05-a"] else []) ++ (if c09eFill then ["C09-e"] else []) ++ (if c09b then ["C09-b"] else []))
        (if mirrors then (if got304 then "fill:mirror-after-304" else "fill:mirror") else if staleIfError then "fill:stale-if-error" else if conditional then "fill:conditional" else "fill:other")
    else
      -- served without origin contact
      if !cacheMethod then
        -- C10: only GET and HEAD are ever answered from the cache
        add st1 ["bad:C10:request-with-a-method-other-than-GET-or-HEAD-answered-without-the-origin"] [] "hit:uncacheable-method" else
      if conditional then
        -- C09 on a conditional hit: a 304 without origin contact for a validator the origin has since been SEEN to have
        -- replaced - a later complete answer for this key with another body, not served stale-if-error - misreports the
        -- content (seeded change C09-m8; the bodiless case is finding C09-e)
        let inm := (valuesCI hs b!"if-none-match").headD []
        let old? := (st.all.filter (·.path == path)).reverse.find? (fun x => inm ≠ [] && (valuesCI x.headers b!"etag").headD [] == inm)
        let later := match old? with
          | some s =>
            let tFill := ((st.fetches.filter fun (f : Fetch) => f.key.1 == path && f.origin.body == s.body).map Fetch.time).foldl max 0
            st.fetches.filter fun (f : Fetch) => f.key.1 == path && f.time ≥ tFill && f.origin.body != s.body && !f.servedStale && !f.via304 &&
              f.origin.readErrAt.isNone && (f.method == b!"GET")
          | none => []
        let bad304 : Bool := o.status == 304 && !ranged && !later.isEmpty
        let cls9e : Bool := later.any fun (f : Fetch) => !inGate f.origin.status && f.origin.body == []
        add st1 (if bad304 then ["bad:C09:304-without-contact-for-a-validator-the-origin-has-since-replaced"] else [])
          (if bad304 && cls9e then ["C09-e"] else []) "hit:conditional" else
      match src? with
      | none =>
        if o.body == [] ∧ (method == b!"HEAD" ∨ (st.all.filter (·.path == path)).any (·.body == [])) then add st1 [] [] "hit:empty-body"
        else
          -- after a 304 revalidation of this key the hit must still replay the stored body (C07, C09)
          let after304 := match (st.fetches.filter (·.key == key)).getLast? with | some f => f.via304 | none => false
          add st1 (["bad:C05:served-from-cache-a-body-the-origin-never-sent", "bad:C07:hit-body-is-not-the-stored-body"] ++
                   (if after304 then ["bad:C09:stored-body-lost-after-a-304-revalidation"] else [])) [] "hit:unknown-body"
      | some s =>
        -- the fetches that could have filled this entry
        let fills := st.fetches.filter fun f => f.origin.body == s.body && f.origin.path == path && !f.forbid304
        let okFill := fills.any cacheableExchange
        -- the stored response as the latest fill (or 304 revalidation) left it
        let s := match fills.getLast? with | some f => f.origin | none => s
        let c10bad := if okFill then [] else ["bad:C10:uncacheable-response-served-to-a-later-request"]
        let c10cls := if Spec.C10.inClass_C10_b (hdrOf s.headers) then ["C10-b"] else []
        let c05bad := if o.framing == "complete" ∧ o.status == s.status then [] else ["bad:C05:hit-status-or-framing-wrong"]
        let c07bad := if c07Holds s o then [] else ["bad:C07:hit-headers-differ-from-the-stored-response"]
        let c07cls := if Spec.C07.goodHeader (hdrOf s.headers) then [] else ["C07-a"]
        -- C08: served without contact only while fresh (age from the latest fetch of this body)
        let tFill := (fills.map (·.time)).foldl max 0
        let stored := Spec.C08.storedOf (hdrOf (if 400 ≤ s.status ∧ s.status ≤ 404 then [(b!"Cache-Control", Spec.cacheable4xxCacheControl)] else s.headers)) tFill 0
        let c08bad := if Spec.C08.isFresh stored st.now force then [] else ["bad:C08:served-from-cache-although-not-fresh"]
        -- C10: the latest answer of the origin for this key was a 304 that forbids storing: no hit afterwards
        let forbidden := match (st.fetches.filter (·.key == key)).getLast? with | some f => f.forbid304 | none => false
        let c10bad := c10bad ++ (if forbidden then ["bad:C10:served-from-the-cache-after-a-304-that-forbids-storing"] else [])
        -- finding C09-e seen from here: a revalidation of this entry was answered with a status outside the
        -- storage gate and WITHOUT a body; Close re-published the old file with Revalidated = now
        let c09e := st.fetches.any fun f => f.key == key && f.origin.path == path && f.time ≥ tFill && !inGate f.origin.status &&
          f.origin.body == [] && f.origin.readErrAt.isNone
        let c08cls := if c09e then ["C09-e"] else []
        add st1 (c05bad ++ c07bad ++ c08bad ++ c10bad) (c07cls ++ c10cls ++ c08cls) "hit"

/-- C06 on pass-through encodings (no recompression on this rule): a response judged wrong in its body / framing, outside every
    listed class, for a resource whose origin answer is LABELLED with a Content-Encoding: what the client decodes is not the
    origin's content (seeded change C06-m7: an encoded entry re-published with `Content-Length: 0` after a 304) -/
def judgeC06 (st st' : St) (path : Bytes) : St :=
  let newBad := st'.bad.drop st.bad.length
  let encoded : Bool := match st.cur.find? (·.path == path) with
    | some c => !(valuesCI c.headers b!"content-encoding").isEmpty
    | none => false
  if encoded && st'.cls.length == st.cls.length && newBad.any (fun b => b.startsWith "bad:C05:" || b.startsWith "bad:C07:") then
    { st' with bad := st'.bad ++ ["bad:C06:encoded-response-delivered-with-other-bytes-or-length-than-the-origin's"] }
  else st'

/-- the converse of C08: while the entry for this key is fresh, the origin is not contacted -/
def converse (force : Nat) (st : St) (method path : Bytes) (hs : List (Bytes × Bytes)) (o : Obs) : List String :=
  let key := keyOf method path hs
  let conditional := (valuesCI hs b!"if-none-match") ≠ [] || (valuesCI hs b!"range") ≠ []
  let reqOrigin := (valuesCI hs b!"origin") ≠ []
  if o.contacts == 0 ∨ conditional ∨ reqOrigin then [] else
  match (st.fetches.filter (fun f => f.key == key && !f.servedStale)).getLast? with
  | none => []
  | some f =>
    let stored := Spec.C08.storedOf (hdrOf (if 400 ≤ f.origin.status ∧ f.origin.status ≤ 404 then [(b!"Cache-Control", Spec.cacheable4xxCacheControl)] else f.origin.headers)) f.time 0
    let storable := cacheableExchange f && !f.forbid304 && !f.reqOrigin && inGate f.origin.status && f.origin.readErrAt.isNone &&
      (f.origin.body ≠ [] || f.method == b!"HEAD" || f.origin.status ≠ 200) &&
      Spec.C07.goodHeader (hdrOf f.origin.headers) &&
      !Spec.C10.inClass_C10_b (hdrOf f.origin.headers)
    if storable ∧ Spec.C08.isFresh stored st.now force then ["bad:C08:origin-contacted-although-the-entry-is-fresh"] else []

/-! ### the model side: `Model.SysCache.run` on the same history, rendered in the implementation's token syntax -/

def toModelOp : Op → Model.SysCache.Op
  | .req m p hs => .req { method := m, path := p, header := Model.SysCache.addAll hs }
  | .abort m p hs => .req { method := m, path := p, header := Model.SysCache.addAll hs, abort := true }
  | .tick dt => .tick dt
  | .origin o => .setOrigin o.path { status := o.status, headers := o.headers, body := o.body, chunked := o.chunked,
                                     readErrAt := o.readErrAt, cond := o.cond, cl0 := o.cl0, cc304 := o.cc304 }

/-- stable insertion by key (Go: `sort.SliceStable` on the canonical name) -/
def insertPair (x : Bytes × Bytes) : List (Bytes × Bytes) → List (Bytes × Bytes)
  | [] => [x]
  | y :: t => if bytesLt x.1 y.1 then x :: y :: t else y :: insertPair x t

def sortPairs (l : List (Bytes × Bytes)) : List (Bytes × Bytes) := l.foldl (fun acc x => insertPair x acc) []

/-- the header map as the harness prints it: one pair per value, canonical names, sorted by name,
    `Date` and `Connection` dropped -/
def pairsOf (h : Header) : List (Bytes × Bytes) :=
  sortPairs (((Model.mapKeys h).flatMap fun k => (Header.vals h k).map fun v => (canon k, v)).filter
    fun kv => toLower kv.1 != b!"date" && toLower kv.1 != b!"connection")

/-- header lines that net/http's server decides by itself when the handler left them open (TRUSTED):
    framing (`Content-Length` when the handler set none, `Transfer-Encoding`) and the sniffed
    `Content-Type` when the handler set none.  They are taken over from the implementation's
    observation; every line the handler itself set is compared. -/
def reconcile (model impl : List (Bytes × Bytes)) : List (Bytes × Bytes) :=
  let has (n : Bytes) := model.any fun kv => toLower kv.1 == n
  let fromImpl := impl.filter fun kv =>
    (toLower kv.1 == b!"transfer-encoding") ||
    (toLower kv.1 == b!"content-length" && !has b!"content-length") ||
    (toLower kv.1 == b!"content-type" && !has b!"content-type")
  sortPairs (model ++ fromImpl)

def renderObs (isAbort : Bool) (m : Model.SysCache.Obs) (impl : Obs) : List String :=
  let cs := m.contacts.flatMap fun c => [toHex' c.inm, toHex' c.ims, toHex' c.range]
  if isAbort then ["0", "aborted", "x", "0", toString m.contacts.length] ++ cs
  else if m.hang then ["0", "noresponse", "x", "0", toString m.contacts.length] ++ cs
  else
    let hs := reconcile (pairsOf m.header) impl.headers
    [toString m.status, (if m.complete then "complete" else "cutshort"), toHex' m.body, toString hs.length] ++
      hs.flatMap (fun kv => [toHex' kv.1, toHex' kv.2]) ++ [toString m.contacts.length] ++ cs
where toHex' (b : Bytes) : String := toHex b

def modelTokens (force : Nat) (ops : List Op) (obs : List Obs) : List String × List String :=
  let cfg : Model.SysCache.Config := { force := force }
  let ms := Model.SysCache.run cfg (Model.SysCache.State.init 1700000000) (ops.map toModelOp)
  let aborts := ops.filterMap fun o => match o with | .req .. => some false | .abort .. => some true | _ => none
  let toks := ((ms.zip obs).zip aborts).flatMap fun x => renderObs x.2 x.1.1 x.1.2
  (toks, ms.map (·.label))

def hSysC : Handler := fun impl => do
  let force ← pNat
  let ops ← pList pOp
  -- the implementation's observations, one per request op
  let nreq := (ops.filter fun o => match o with | .req .. => true | .abort .. => true | _ => false).length
  let obs := match run (pTimes pObs nreq) impl with | .ok l => l | .error _ => []
  if obs.length ≠ nreq then return { model := " ".intercalate impl, oracle := "na", label := "unparsed" }
  let (st, _) := ops.foldl (fun (acc : St × List Obs) op =>
      let (st, os) := acc
      match op with
      | .tick dt => ({ st with now := st.now + dt }, os)
      | .origin o => ({ st with cur := o :: st.cur.filter (·.path != o.path), all := st.all ++ [o] }, os)
      | .req m p hs =>
        match os with
        | [] => (st, [])
        | o :: rest =>
          let conv := converse force st m p hs o
          let st' := judgeC06 st (judge force st m p hs o) p
          ({ st' with bad := st'.bad ++ conv }, rest)
      | .abort m p hs =>
        -- the client went away mid-body: what it saw is not judged; if the origin was contacted the
        -- fetch is a FAILED one (the origin's body ended with the cancelled context's error half way)
        match os with
        | [] => (st, [])
        | o :: rest =>
          let st' := match st.cur.find? (·.path == p), o.contacts with
            | some c, _ + 1 =>
              { st with fetches := st.fetches ++ [{ key := keyOf m p hs, origin := { c with readErrAt := some (c.body.length / 2) }, time := st.now,
                                                    reqAuth := (valuesCI hs b!"authorization").any (· ≠ []), reqOrigin := (valuesCI hs b!"origin") ≠ [], method := m }],
                        labels := st.labels ++ ["aborted-fetch"] }
            | _, _ => { st with labels := st.labels ++ ["aborted"] }
          (st', rest)) (({} : St), obs)
  let oracle := if st.bad.isEmpty then "ok" else ",".intercalate st.bad.eraseDups
  let cls := if st.cls.isEmpty then "-" else ",".intercalate st.cls.eraseDups
  let (mtoks, mlabels) := modelTokens force ops obs
  let label := "+".intercalate ((mlabels ++ st.labels).eraseDups.take 6)
  return { model := " ".intercalate mtoks, oracle := oracle, cls := cls, label := if label = "" then "-" else label }

def handlers : List (String × Handler) := [ ("sysc", hSysC), ("kf.C08-c", hSysC), ("kf.C09-g", hSysC), ("kf.C05-a", hSysC), ("kf.C09-e.sysc", hSysC), ("kf.C09-b.sysc", hSysC), ("kf.C11-a.sysc", hSysC), ("kf.C07-a.loop", hSysC) ]

end H.SysC
