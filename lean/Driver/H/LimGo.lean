import Driver.Core
import Driver.H.Limiter
import RrModel.LimiterLoop
import RrModel.Spec.C16
import RrModel.Spec.C17
/- stream: limgo (C16, C17) — the real storage with its limiter goroutine, driven end to end -/
open Go Model Proto
open Model.Limiter Model.LimiterLoop
open H.Limiter (C cTok cNat cInt cBytes cList sortNames diskBytes filePaths stateTokens mkSched upd' maxLengthOf)

namespace H.LimGo

/-! ### the implementation's records -/

structure ImplState where
  sizeBytes : Int := 0
  withA : List (Bytes × Nat × Nat) := []
  without : List (Bytes × Nat) := []
  disk : Int := 0

def cStateR : C ImplState := do
  let sb ← cInt
  let wa ← cList (do let n ← cBytes; let a ← cNat; let k ← cNat; pure (n, a, k))
  let wo ← cList (do let n ← cBytes; let k ← cNat; pure (n, k))
  let _ ← cList (do let _ ← cTok; let _ ← cTok; cTok)
  let d ← cInt
  pure { sizeBytes := sb, withA := wa, without := wo, disk := d }

def cFiles : C (List (Bytes × Nat)) := cList (do let p ← cBytes; let s ← cNat; pure (p, s))

structure ImplIter where
  before : Int := 0
  removed : List Bytes := []
  st : ImplState := {}
  files : List (Bytes × Nat) := []

def cIter : C ImplIter := do
  let before ← cInt
  let removed ← cList cBytes
  let st ← cStateR
  let files ← cFiles
  pure { before := before, removed := removed, st := st, files := files }

/-! ### the map orders of the goroutine, read off what it did -/

def insertKeyed (key : Bytes → Nat × Nat) (n : Bytes) : List Bytes → List Bytes
  | [] => [n]
  | a :: t =>
    let kn := key n
    let ka := key a
    if kn.1 < ka.1 || (kn.1 == ka.1 && kn.2 < ka.2) then n :: a :: t else a :: insertKeyed key n t

def sortKeyed (key : Bytes → Nat × Nat) (l : List Bytes) : List Bytes := l.foldr (insertKeyed key) []

/-- the unknown-atime items the pass took: those gone from the map.  Any order in which they are a
    prefix of Go's map iteration and only the last one completes the amount is as good as the real
    one: the largest goes last. -/
def selWithout (mid : LState) (after : ImplState) : List Bytes :=
  let gone := (dedup mid.without.dom).filter fun n => !(after.without.any fun x => x.1 == n)
  sortKeyed (fun n => (0, (kbBytes (kbWithout mid n)).toNat)) gone

/-- the known items the pass took, ascending in access time; among equal times the largest last -/
def selWith (mid : LState) (after : ImplState) : List Bytes :=
  let gone := (dedup mid.withA.dom).filter fun n => !(after.withA.any fun x => x.1 == n)
  sortKeyed (fun n => (atimeWithA mid n, (kbBytes (kbWithA mid n)).toNat)) gone

/-! ### rendering -/

def filesTokens (fs : FS) : List String :=
  let files := filePaths fs
  toString files.length :: files.flatMap fun p => [toHex p, toString ((fs.files.get p).getD 0)]

def namesTokens (l : List Bytes) : List String := toString l.length :: l.map toHex

/-! ### the script -/

structure ScOp where
  kind : Nat
  name : Bytes := []
  size : Nat := 0
  dt : Int := 0
  mode : Nat := 0
  max : Int := 0

def pOp : P ScOp := do
  let k ← pNat
  match k with
  | 0 => do let n ← pBytes; let sz ← pNat; let dt ← pInt; pure { kind := 0, name := n, size := sz, dt := dt }
  | 1 => do let n ← pBytes; let dt ← pInt; pure { kind := 1, name := n, dt := dt }
  | 2 => do let dt ← pInt; pure { kind := 2, dt := dt }
  | 3 => do let n ← pBytes; let sz ← pNat; pure { kind := 3, name := n, size := sz }
  | 4 => do let n ← pBytes; pure { kind := 4, name := n }
  | 5 => do let dt ← pInt; let m ← pNat; pure { kind := 5, dt := dt, mode := m }
  | 6 => do let m ← pInt; pure { kind := 6, max := m }
  | _ => throw s!"bad op kind {k}"

structure Script where
  max : Int
  start : Int
  logSize : Int
  mode : Nat
  pre : List (Bytes × Nat)
  ops : List ScOp

def pScript : P Script := do
  let max ← pInt
  let start ← pInt
  let logSize ← pInt
  let mode ← pNat
  let pre ← pList (do let p ← pBytes; let sz ← pNat; pure (p, sz))
  let ops ← pList pOp
  pure { max := max, start := start, logSize := logSize, mode := mode, pre := pre, ops := ops }

/-! ### the run -/

structure Acc where
  sys : Sys
  now : Int
  mode : Nat
  fired : Bool := false              -- the goroutine of this storage has run an iteration
  out : List String := []
  cls16 : List String := []
  cls17 : List String := []
  i16 : List Spec.C16.Pass := []     -- what the IMPLEMENTATION's passes did
  m16 : List Spec.C16.Pass := []     -- what the model's passes did
  i17 : List Spec.C17.Pass := []
  m17 : List Spec.C17.Pass := []
  access : Bytes → Option Int := fun _ => none
  dirty : Bool := false
  judged : Bool := true
  invalidHints : Bool := false
  evicted : Bool := false
  overNoProgress : Bool := false
  restarts : Nat := 0
  panicked : Bool := false

def addU (l : List String) (cs : List String) : List String :=
  cs.foldl (fun l c => if l.contains c then l else l ++ [c]) l

def addCls (a : Acc) (op : Op) : Acc :=
  { a with cls16 := addU a.cls16 (Spec.C16.classesOfStep a.sys op),
           cls17 := addU a.cls17 (Spec.C17.classesOfStep a.sys op) }

def midSys (s : Sys) (op : Op) (sc : Sched) : Option Sys :=
  match applyOp s op sc with
  | .ok (s1, some _) => some s1
  | _ => none

def filesBytes (l : List (Bytes × Nat)) : Int := l.foldl (fun acc x => acc + (x.2 : Int)) 0

/-- an op that reaches the limiter: the model's iteration with the goroutine's choices, tokens,
    and the two logs (implementation / model) the oracles judge -/
def limOp (a : Acc) (op : Op) (tag : String) (n : Nat) (it : ImplIter) (content : Bytes)
    (accessed : Option (Bytes × Int)) : Acc :=
  let a := addCls a op
  let gate := a.mode == 0 || !a.fired
  let sc0 := mkSched [] [] content
  match midSys a.sys op sc0 with
  | none =>
    -- nothing reaches the limiter (fill of a present entry, hit on a missing one)
    match stepG a.sys op gate sc0 with
    | .ok (s', _) => { a with sys := s', out := a.out ++ [tag, "0"] }
    | .panic _ => { a with panicked := true, out := a.out ++ ["panic"] }
  | some mid =>
    let sc := mkSched (selWithout mid.st it.st) (selWith mid.st it.st) content
    let bad := !validHints mid.st (sc mid.st) ||
      (match op with | .flush _ _ => !isEnumOf (sc a.sys.st).forder a.sys.st.storable.dom | _ => false)
    match stepG a.sys op gate sc with
    | .panic _ => { a with panicked := true, out := a.out ++ ["panic"] }
    | .ok (s', o) =>
      let removed := sortNames ((dedup (o.sel.without ++ o.sel.withA)).filter fun x => mid.fs.files.has x)
      let logTok := match op with
        | .flush _ _ => [if s'.fs.atimes.isSome then "1" else "0", toHex (s'.fs.atimes.getD [])]
        | _ => []
      let toks := [tag, "1", toString (diskBytes mid.fs)] ++ namesTokens removed ++ stateTokens s' ++ filesTokens s'.fs ++ logTok
      let access := match accessed with | some (nm, t) => upd' a.access nm t | none => a.access
      let a := { a with sys := s', out := a.out ++ toks, invalidHints := a.invalidHints || bad, fired := true,
                        access := access, dirty := a.dirty || accessed.isSome }
      if gate && n ≥ 1 then
        -- the period has passed and an op has arrived: a pass is due
        let mx := mid.st.max
        let ip16 : Spec.C16.Pass := { max := mx, before := it.before, after := filesBytes it.files, removed := it.removed }
        let mp16 : Spec.C16.Pass := { max := mx, before := diskBytes mid.fs, after := diskBytes s'.fs, removed := removed }
        let ip17 : Spec.C17.Pass := { removed := it.removed.filter Spec.C17.isEntryPath,
                                      survivors := (it.files.map (·.1)).filter Spec.C17.isEntryPath, access := access, judged := a.judged }
        let mp17 : Spec.C17.Pass := { removed := removed.filter Spec.C17.isEntryPath,
                                      survivors := (filePaths s'.fs).filter Spec.C17.isEntryPath, access := access, judged := a.judged }
        { a with i16 := a.i16 ++ [ip16], m16 := a.m16 ++ [mp16], i17 := a.i17 ++ [ip17], m17 := a.m17 ++ [mp17],
                 evicted := a.evicted || !it.removed.isEmpty,
                 overNoProgress := a.overNoProgress || !Spec.C16.progress ip16 }
      else a

def cIterIf (n : Nat) : C ImplIter := if n ≥ 1 then cIter else pure {}

def runOps : List ScOp → Int → Acc → C Acc
  | [], _, a => pure a
  | o :: rest, ml, a => do
    if a.panicked then return a
    match o.kind with
    | 0 => do
      let now := a.now + o.dt
      let _ ← cTok
      let n ← cNat
      let it ← cIterIf n
      let a := { a with now := now }
      let did := !a.sys.fs.files.has o.name
      runOps rest ml (limOp a (.fill o.name o.size now) "F" n it [] (if did then some (o.name, now) else none))
    | 1 => do
      let now := a.now + o.dt
      let _ ← cTok
      let n ← cNat
      let it ← cIterIf n
      let a := { a with now := now }
      let did := a.sys.fs.files.has o.name
      runOps rest ml (limOp a (.hit o.name now) "H" n it [] (if did then some (o.name, now) else none))
    | 2 => do
      let now := a.now + o.dt
      let _ ← cTok
      let n ← cNat
      let it ← cIterIf n
      let _has ← cTok
      let content ← cBytes
      let a := { a with now := now }
      let a1 := limOp a (.flush now ml) "L" n it content none
      runOps rest ml { a1 with dirty := false }
    | 3 => do
      let _ ← cTok; let _ ← cTok
      let a := addCls a (.regrow o.name o.size)
      let did := a.sys.fs.files.has o.name
      match step a.sys (.regrow o.name o.size) canonicalHints with
      | .ok (s', _) => runOps rest ml { a with sys := s', out := a.out ++ ["G", if did then "1" else "0"] }
      | .panic _ => pure { a with panicked := true }
    | 4 => do
      let _ ← cTok; let _ ← cTok
      let a := addCls a (.delete o.name)
      let did := a.sys.fs.files.has o.name
      match step a.sys (.delete o.name) canonicalHints with
      | .ok (s', _) => runOps rest ml { a with sys := s', out := a.out ++ ["D", if did then "1" else "0"] }
      | .panic _ => pure { a with panicked := true }
    | 5 => do
      let now := a.now + o.dt
      let _ ← cTok
      let _ ← cStateR
      let _ ← cFiles
      let a := addCls { a with now := now } (.restart now)
      match step a.sys (.restart now) canonicalHints with
      | .ok (s', _) =>
        runOps rest ml { a with sys := s', out := a.out ++ ["R"] ++ stateTokens s' ++ filesTokens s'.fs,
                                judged := a.judged && !a.dirty, dirty := false, restarts := a.restarts + 1,
                                mode := o.mode, fired := false }
      | .panic _ => pure { a with panicked := true, out := a.out ++ ["R", "panic"] }
    | _ => do
      -- `Update`: the limit changes, nothing is sent to the limiter
      let _ ← cTok
      runOps rest ml { a with sys := { a.sys with st := { a.sys.st with max := o.max } }, out := a.out ++ ["M"] }

def finalTokens (s : Sys) : List String :=
  ["E"] ++ stateTokens s ++ filesTokens s.fs ++ [if s.fs.atimes.isSome then "1" else "0", toHex (s.fs.atimes.getD [])]

/-- a pass of the implementation that fails the oracle although the model's pass (the code as it
    stands, listed defects included) passes it -/
def unexplained {α} (ok : α → Bool) : List α → List α → Bool
  | i :: is, m :: ms => (!ok i && ok m) || unexplained ok is ms
  | _, _ => false

def hLimGo : Handler := fun impl => do
  let sc ← pScript
  let files : KMap Nat := sc.pre.foldl (fun m x => m.set x.1 x.2) KMap.empty
  let fs0 : FS := { files := files, atimes := none }
  let s0 : Sys := { st := newState sc.max sc.start, fs := fs0 }
  let a0 : Acc := addCls { sys := s0, now := sc.start, mode := sc.mode } (.restart sc.start)
  let ml := maxLengthOf sc.logSize
  let go : C Acc := do
    let _ ← cTok
    let _ ← cStateR
    let _ ← cFiles
    match step s0 (.restart sc.start) canonicalHints with
    | .panic _ => pure { a0 with panicked := true, out := ["S", "panic"] }
    | .ok (s1, _) => runOps sc.ops ml { a0 with sys := s1, out := ["S"] ++ stateTokens s1 ++ filesTokens s1.fs }
  let (a, _) := Id.run (go.run impl)
  let out := if a.panicked then a.out else a.out ++ finalTokens a.sys
  let out := if a.invalidHints then out ++ ["INVALID-CHOICE"] else out
  let r16 := Spec.C16.reasons a.i16
  let bad17 := !Spec.C17.holds a.i17
  let bads := r16.map (fun r => s!"bad:C16:{r}") ++ (if bad17 then ["bad:C17:evicted-while-older-or-never-used-remains"] else [])
  let oracle := if bads.isEmpty then "ok" else ",".intercalate bads
  -- a listed class accounts for a failing pass only if the model of the unchanged code fails there too
  let un16 := unexplained Spec.C16.passOk a.i16 a.m16
  let un17 := unexplained Spec.C17.passOk a.i17 a.m17
  let cls := (if un16 then [] else a.cls16) ++ (if un17 then [] else a.cls17)
  let label :=
    if a.panicked then "startup-panic"
    else
      (if a.evicted then "evict" else if a.overNoProgress then "over-limit-stuck" else if a.i16.any (fun p => decide (p.before > p.max)) then "over" else "quiet") ++
      (if a.restarts > 0 then ":restart" else "") ++ (if a.cls16.isEmpty && a.cls17.isEmpty then ":clean" else "")
  return { model := " ".intercalate out, oracle := oracle,
           cls := if cls.isEmpty then "-" else ",".intercalate cls, label := label }

def handlers : List (String × Handler) := [("limgo", hLimGo)]

end H.LimGo
