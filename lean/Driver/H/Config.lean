import Driver.Core
import RrModel.Spec.C19
/- streams: config, configraw, reqpath, reload, kf.C19-a, kf.C19-b, kf.C19-d, kf.C19-host  (C19) -/
open Go Model Proto

namespace H.Config
open Model.Config Spec.C19

/-! token syntax of a document tree: `0` null · `1 b` bool · `2 i` int · `3 x…` other ·
    `4 x…` string · `5 n item*` list · `6 n (key value)*` map -/

def pScalarTag (tag : Nat) : P Scalar := do
  match tag with
  | 0 => pure .null
  | 1 => do let b ← pBool; pure (.bool b)
  | 2 => do let i ← pInt; pure (.int i)
  | 3 => do let t ← pBytes; pure (.other t)
  | 4 => do let s ← pBytes; pure (.str s)
  | _ => throw s!"bad scalar tag {tag}"

partial def pTree : P Tree := do
  let tag ← pNat
  match tag with
  | 5 => do
    let n ← pNat
    let l ← pTimes pTree n
    pure (.list l)
  | 6 => do
    let n ← pNat
    let m ← pTimes (do let kt ← pNat; let k ← pScalarTag kt; let v ← pTree; pure (k, v)) n
    pure (.map m)
  | t => do let s ← pScalarTag t; pure (.sc s)

mutual
/-- a JSON text spells every key as a string (the harness renders `%v` of the key) -/
partial def jsonKeys : Tree → Tree
  | .sc s => .sc s
  | .list l => .list (l.map jsonKeys)
  | .map m => .map (m.map fun kv => (Scalar.str (sprintV kv.1), jsonKeys kv.2))
end

def bytesLt : Bytes → Bytes → Bool
  | [], [] => false
  | [], _ :: _ => true
  | _ :: _, [] => false
  | a :: as, b :: bs => if a < b then true else if b < a then false else bytesLt as bs

def insertBy {α} (key : α → Bytes) (x : α) : List α → List α
  | [] => [x]
  | y :: ys => if bytesLt (key x) (key y) then x :: y :: ys else y :: insertBy key x ys

def sortBy {α} (key : α → Bytes) (l : List α) : List α := l.foldl (fun acc x => insertBy key x acc) []

def bTok (b : Bool) : String := if b then "1" else "0"

def hostBehaviorTok : HostHeaderBehavior → String
  | .default => "0" | .original => "1" | .override => "2" | .destination => "3"

def dumpRule (r : Rule) : List String :=
  let ms := sortBy id r.methods
  let rq := sortBy (·.1) r.requestHeaders
  let rp := sortBy (·.1) r.responseHeaders
  [bTok r.enabled, toHex r.scheme, toHex r.host, toHex r.path,
   (match r.wci with | none => "-1" | some i => toString i), toHex r.dest, bTok r.internal,
   toString ms.length] ++ ms.map toHex ++
  [bTok (r.type == .copy), bTok r.recompression, hostBehaviorTok r.hostBehavior, toHex r.hostOverride,
   toHex r.cacheId, toString r.forceRevalidate, toString rq.length] ++
  rq.flatMap (fun kv => match kv.2 with
    | none => [toHex kv.1, "0", toHex []]
    | some v => [toHex kv.1, "1", toHex v]) ++
  [toString rp.length] ++ rp.flatMap (fun kv => [toHex kv.1, toHex kv.2]) ++ [bTok r.restartOnRedirect]

def dumpChain (r : Rule) : List Rule → List String
  | [] => dumpRule r ++ ["0"]
  | r' :: more => dumpRule r ++ ["1"] ++ dumpChain r' more

def errTok : RuleErr → String
  | .decode => "err:decode"
  | .noRules => "err:norules"
  | .emptyPathOrDest => "err:emptyfield"
  | .badMethods => "err:badmethod"
  | .badType => "err:badtype"
  | .newRule .emptyPath => "err:emptypath"
  | .newRule .emptyDestination => "err:emptydest"
  | .newRule .wildcardCount => "err:wildcardcount"
  | .newRule .wildcardNotLast => "err:wildcardnotlast"

def rulesTokens : Except RuleErr (List RuleChain) → List String
  | .error e => [errTok e]
  | .ok cs => ["ok", toString cs.length] ++ cs.flatMap fun c => dumpChain c.rule c.retries

def storageTokens : Option (List StorageCfg) → List String
  | none => ["err"]
  | some cfgs => ["ok", toString cfgs.length] ++ cfgs.flatMap fun c => [toHex c.id, toHex c.path, toString c.size]

def sectionToks (ts : List String) : List String := toString ts.length :: ts

/-- split the implementation's tokens into its length-prefixed sections -/
partial def splitSections (ts : List String) : Option (List (List String)) :=
  match ts with
  | [] => some []
  | n :: rest =>
    match n.toNat? with
    | none => none
    | some k =>
      if rest.length < k then none
      else (splitSections (rest.drop k)).map fun more => rest.take k :: more

def outcomeOf (sec : List String) : Outcome :=
  match sec with
  | "ok" :: n :: _ => n.toNat?
  | _ => none

structure QIn where
  parsed : Bool
  q : Query

def pQuery : P QIn := do
  let parsed ← pBool
  let scheme ← pBytes
  let host ← pBytes
  let uri ← pBytes
  let method ← pBytes
  pure ⟨parsed, ⟨scheme, host, uri, method⟩⟩

def queryTokens (rules : Except RuleErr (List RuleChain)) (qi : QIn) : List String :=
  match rules with
  | .error _ => ["-"]
  | .ok cs =>
    if ¬ qi.parsed then ["err:match"]
    else
      let res := matchRules (cs.map (·.rule)) qi.q
      (s!"{showOptIdx res.proxy} {showOptIdx res.copy}").splitOn " "

def shortLabel (rt st : List String) : String :=
  (rt.headD "?") ++ "/" ++ (st.headD "?")

/-- `config`: three spellings of one generated tree -/
def hConfig : Handler := fun impl => do
  let t ← pTree
  let okY ← pBool
  let okJ ← pBool
  let okF ← pBool
  let qs ← pList pQuery
  let tj := jsonKeys t
  let docs : List Doc := [
    { yaml := if okY then some t else none, json := none },
    { yaml := if okJ then some tj else none, json := some tj },
    { yaml := if okF then some tj else none, json := some tj } ]
  let rules := docs.map parseRules
  let rToks := rules.map rulesTokens
  let sToks := docs.map fun d => storageTokens (parseStorageConfigs d)
  let qToks := qs.flatMap fun qi => rules.map fun r => queryTokens r qi
  let model := " ".intercalate ((rToks ++ sToks ++ qToks).flatMap sectionToks)
  let oracle :=
    match splitSections impl with
    | none => "bad:C19:unreadable-implementation-output"
    | some secs =>
      if secs.length ≠ 6 + 3 * qs.length then "bad:C19:unreadable-implementation-output"
      else
        let whole := (List.zip docs (secs.take 3)).all fun p => holdsWhole p.1.source (outcomeOf p.2)
        -- the same configuration under each spelling: rules, storages and every query
        let cols : List (List (List String)) := [0, 1, 2].map fun i =>
          (List.range (2 + qs.length)).map fun k => (secs.drop (3 * k + i)).headD []
        let spell := match cols with
          | [y, j, f] => holdsSpellings t y j && holdsSpellings t y f
          | _ => false
        let nopanic := (secs.drop 6).all fun s => s ≠ ["panic"]
        -- "any configuration text is either rejected with an error or accepted": a crash of the
        -- rule parser or of the storage parser (sections 3-5; a duplicate id/path panicked there
        -- before the fix for finding C19-b) is neither
        let rulesNoPanic := (secs.take 3).all fun s => s ≠ ["panic"]
        let storagesNoPanic := ((secs.drop 3).take 3).all fun s => s ≠ ["panic"]
        let bad := (if rulesNoPanic then [] else ["bad:C19:rule-parser-crashes-instead-of-accepting-or-rejecting"]) ++
                   (if storagesNoPanic then [] else ["bad:C19:storage-parser-crashes-instead-of-accepting-or-rejecting"]) ++
                   (if whole then [] else ["bad:C19:partial-acceptance"]) ++
                   (if spell then [] else ["bad:C19:spellings-disagree"]) ++
                   (if nopanic then [] else ["bad:C19:query-panics-under-accepted-configuration"])
        if bad.isEmpty then "ok" else ",".intercalate bad
  let label := shortLabel (rToks.headD []) (sToks.headD []) ++ (if wellTyped t then "" else ":mixed-types")
  return { model := model, oracle := oracle, label := label }

/-- `configraw`: plain YAML scalars; the tree is the one the YAML parser produced. The last
    section (accept/reject of the YAML and of the JSON spelling) is differential only: it is
    echoed, never predicted. -/
def hConfigRaw : Handler := fun impl => do
  let t ← pTree
  let okY ← pBool
  let qs ← pList pQuery
  let d : Doc := { yaml := if okY then some t else none, json := none }
  let rules := parseRules d
  let rTok := rulesTokens rules
  let sTok := storageTokens (parseStorageConfigs d)
  let qToks := qs.map fun qi => queryTokens rules qi
  let secs := splitSections impl
  let diffSec : List String := match secs with
    | some ss => ss.getLastD []
    | none => []
  let model := " ".intercalate (([rTok, sTok] ++ qToks ++ [diffSec]).flatMap sectionToks)
  let oracle :=
    match secs with
    | none => "bad:C19:unreadable-implementation-output"
    | some ss =>
      let whole := holdsWhole d.source (outcomeOf (ss.headD []))
      if whole then "ok" else "bad:C19:partial-acceptance"
  let label := "raw:" ++ (rTok.headD "?") ++ ":" ++ ",".intercalate diffSec
  return { model := model, oracle := oracle, label := label }

/-! ### reqpath -/

def idxTok : Option (Nat × Bytes) → String
  | none => "-1"
  | some (i, _) => toString i

def hReqPath : Handler := fun impl => do
  let t ← pTree
  let hasSecrets ← pBool
  let secrets ← pList pBytes
  let tls ← pBool
  let xfp ← pBytes
  let host ← pBytes
  let uri ← pBytes
  let method ← pBytes
  let secret ← pBytes
  let reqID ← pBytes
  let origIP ← pBytes
  let reparsed ← pBool
  let scheme' ← pBytes
  let host' ← pBytes
  let uri' ← pBytes
  match parseRules { yaml := some t, json := none } with
  | .error _ => return { model := "rejected", label := "rejected" }
  | .ok cs =>
    let rs := cs.map (·.rule)
    let req : Req := { tls := tls, xForwardedProto := xfp, host := host, uri := uri, method := method,
                       secret := secret, requestID := reqID, originatingIP := origIP }
    let routingSecrets := if hasSecrets then some secrets else none
    let reparse : Query → Option Query := fun _ => if reparsed then some ⟨scheme', host', uri', method⟩ else none
    let res := requestPath routingSecrets reparse rs req
    let model := match res with
      | .panic _ => "panic"
      | .ok m => s!"ok {idxTok m.proxy} {idxTok m.copy}"
    let oracle :=
      if routingSecrets = some [] then "na"          -- outside the stated assumption RoutingSecrets ≠ []
      else if impl = ["panic"] then "bad:C19:request-panics-under-accepted-configuration"
      else "ok"
    let label := match res with
      | .panic s => if s.startsWith "ensure" then "panic:secrets" else "panic:slice"
      | .ok m => if ¬ reparsed then (if host.head? = some 91 ∧ ¬ host.contains 93 then "unparsable:unclosed-bracket" else "unparsable") else match m.proxy, m.copy with
        | none, none => "nomatch"
        | some _, none => "proxy"
        | none, some _ => "copy-only"
        | some _, some _ => "proxy+copy"
    return { model := model, oracle := oracle, label := label }

/-! ### reload -/

def reloadProbes : List Query := [
  ⟨b!"http", b!"h1.test", b!"/a/x", b!"GET"⟩, ⟨b!"http", b!"h1.test", b!"/b/x", b!"GET"⟩,
  ⟨b!"http", b!"h1.test", b!"/a/b/x", b!"GET"⟩, ⟨b!"http", b!"h1.test", b!"/x", b!"GET"⟩,
  ⟨b!"http", b!"h2.test", b!"/zzz", b!"POST"⟩ ]

def reloadIds : List Bytes := [b!"a", b!"b", b!"c", b!"d"]

def obsTokens (o : Obs) : List String :=
  o.answers.flatMap (fun a => match a with
    | none => ["0", toHex [], toHex []]
    | some (d, c) => ["1", toHex d, toHex c]) ++ o.storages.map bTok

def obsWidth : Nat := 3 * reloadProbes.length + reloadIds.length

/-- read an observation back from the implementation's tokens -/
def readObs (ts : List String) : Option Obs :=
  if ts.length ≠ obsWidth then none
  else
    let rec answers : Nat → List String → Option (List (Option (Bytes × Bytes)))
      | 0, _ => some []
      | n + 1, f :: d :: c :: rest =>
        match fromHex d, fromHex c, answers n rest with
        | some d', some c', some more => some ((if f = "1" then some (d', c') else none) :: more)
        | _, _, _ => none
      | _ + 1, _ => none
    match answers reloadProbes.length ts with
    | none => none
    | some a => some { answers := a, storages := (ts.drop (3 * reloadProbes.length)).map (· = "1") }

def pFetch : P Fetch := do
  let kind ← pNat
  match kind with
  | 0 => pure .error
  | 1 => do let sum ← pNat; pure (.doc sum { yaml := none, json := none })
  | _ => do
    let sum ← pNat
    let ok ← pBool
    let t ← pTree
    pure (.doc sum { yaml := if ok then some t else none, json := some t })

def endTok : StepEnd → String
  | .fetchError => "fetcherr" | .unchanged => "same" | .rulesRejected => "ruleserr"
  | .storagesRejected => "storerr" | .crashed => "crash" | .loaded => "loaded"

def restartOf : Fetch → Option State
  | .error => none
  | .doc sum d => start sum d

def stepClasses (s : State) (f : Fetch) : List String :=
  (if inClass_C19_d s f then ["C19-d"] else [])

structure StepReport where
  bad : Option String
  classes : List String

/-- the model's run and, alongside, the oracle on the implementation's tokens -/
def runReload (s : State) (before : Option Obs) : List Fetch → List String → List String × List StepReport × List String
  | [], _ => ([], [], [])
  | f :: more, implToks =>
    let kind := kindOf s.checksum f
    let classes := stepClasses s f
    let restart := (restartOf f).map (observe reloadProbes reloadIds)
    let restartToks := match restart with | none => ["norestart"] | some o => "restart" :: obsTokens o
    -- what the implementation showed for this step
    let implEnd := implToks.headD ""
    let implCrash := implEnd = "crash"
    let implAfter := if implCrash then none else readObs ((implToks.drop 1).take obsWidth)
    let afterRest := (implToks.drop 1).drop obsWidth
    let implRestart := match afterRest with
      | "restart" :: r => readObs (r.take obsWidth)
      | _ => none
    let implNext := match afterRest with
      | "restart" :: r => r.drop obsWidth
      | _ :: r => r
      | [] => []
    let verdict : Option String :=
      match before with
      | none => some "bad:C19:unreadable-implementation-output"
      | some b =>
        if ¬ implCrash ∧ implAfter.isNone then some "bad:C19:unreadable-implementation-output"
        else if holdsStep kind b implAfter implRestart then none
        else if kind = .valid then some "bad:C19:successful-reload-not-like-restart"
        else some "bad:C19:failed-reload-changed-what-serves"
    let report : StepReport := ⟨verdict, classes⟩
    -- the model's reloader cannot die (`step` is total); an implementation that does is a
    -- difference, and the oracle above has judged it
    let (s', e) := step s f
    let toks := [endTok e] ++ obsTokens (observe reloadProbes reloadIds s') ++ restartToks
    if implCrash then (toks, [report], [endTok e])
    else
      let (t2, r2, l2) := runReload s' implAfter more implNext
      (toks ++ t2, report :: r2, endTok e :: l2)

def hReload : Handler := fun impl => do
  let t0 ← pTree
  let n ← pNat
  let sum0 ← pNat
  let fetches ← pTimes pFetch n
  match start sum0 { yaml := some t0, json := none } with
  | none => return { model := "refused", label := "refused" }
  | some s0 =>
    let obs0 := observe reloadProbes reloadIds s0
    let implObs0 := if impl.headD "" = "started" then readObs ((impl.drop 1).take obsWidth) else none
    let (toks, reports, ends) := runReload s0 implObs0 fetches ((impl.drop 1).drop obsWidth)
    let model := " ".intercalate (["started"] ++ obsTokens obs0 ++ toks)
    let bads := reports.filter (·.bad.isSome)
    let oracle := if bads.isEmpty then "ok" else ",".intercalate (bads.filterMap (·.bad)).eraseDups
    let clsList :=
      if bads.isEmpty then (reports.flatMap (·.classes)).eraseDups
      else if bads.any (·.classes.isEmpty) then []
      else (bads.flatMap (·.classes)).eraseDups
    let cls := if clsList.isEmpty then "-" else ",".intercalate clsList
    let label := "+".intercalate ((sortBy ofString ends.eraseDups))
    return { model := model, oracle := oracle, cls := cls, label := label }

def handlers : List (String × Handler) := [
  ("config", hConfig), ("configraw", hConfigRaw), ("reqpath", hReqPath), ("reload", hReload),
  ("kf.C19-a", hReload), ("kf.C19-b", hReload), ("kf.C19-d", hReload), ("kf.C19-host", hReqPath) ]

end H.Config
