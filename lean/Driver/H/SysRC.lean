import Driver.Core
import RrModel.RedirectCache
import RrModel.Spec.C18Cache
import RrModel.Generated.Facts
/- streams: sysrc, kf.C18-c, kf.C18-d, kf.C09-b.sysrc — restart_on_redirect through cache-enabled rules, as
   histories (cold, warm, ticks, stale hops revalidated by 304) on one cache (C18); kf.C18-c is the regression stream of the
   repaired finding C18-c (a loop of stored hops: now ended by the hop counter with 508) -/
open Go Model Proto Model.Redirect Model.RedirectCache Spec.C18 Spec.C18Cache

namespace H.SysRC

def pCNode : P CNode := do
  let path ← pBytes
  let redirect ← pBool
  let status ← pNat
  let body ← pBytes
  let location ← pBytes
  let cc ← pBytes
  let etag ← pBytes
  let cc304 ← pBytes
  let intended ← pInt
  let ruleIdx ← pInt
  pure { path, redirect, status, body, location, cc, intended, ruleIdx, etag, cc304 }

def pReqOp : P ReqOp := do
  let k ← tok
  if k = "T" then
    let dt ← pNat
    pure (.tick dt)
  else if k = "R" then
    let t ← pBytes
    let s ← pNat
    pure (.request t s)
  else throw s!"bad op {k}"

/-- the scripted origin: any known host answers a plain http(s) URL, keyed by the request path;
    an unknown path is a 404 "unknown"; anything else refuses the connection.  A node with a
    validator answers a request whose If-None-Match names it with 304 (ETag, Cache-Control: its
    own `cc304`, else the node's) -/
def originOf (nodes : List CNode) (known : List Bytes) (c : Contact) : Option OResp :=
  if (c.url.scheme = b!"http" ∨ c.url.scheme = b!"https") ∧ known.contains c.url.host then
    match nodes.find? (·.path = c.url.path) with
    | some n =>
      if n.etag ≠ [] ∧ Header.get c.headers b!"If-None-Match" = n.etag then
        some { status := 304, cacheControl := if n.cc304 ≠ [] then n.cc304 else n.cc, etag := n.etag }
      else
        some { status := n.status, location := if n.redirect then n.location else [], cacheControl := n.cc, body := n.body, etag := n.etag }
    | none => some { status := 404, body := b!"unknown" }
  else none

/-- one contact: what `Spec.C18.ContactObs` holds, then the If-None-Match it carried -/
def contactTok (k : Contact) : String :=
  let c := obsOfContact k
  s!"{toHex c.host} {toHex c.uri} {toHex c.hostField} {if c.failed then 1 else 0} {toHex c.xhop} {toHex c.via} {toHex (Header.get k.headers b!"If-None-Match")}"

def contactsTok (cs : List Contact) : String :=
  " ".intercalate (toString cs.length :: cs.map contactTok)

def ageTok (a : Option Int) : String :=
  match a with
  | some n => toHex (itoa n)
  | none => "x"

def sentTok : Sent → String
  | .response st body loc inc => s!"{st} complete {toHex body} {toHex loc} {toHex inc.status} {ageTok inc.age}"
  | .userError code msg => s!"{code} complete j{(toHex msg).drop 1} x x x"
  | .plainError => "500 complete x x x x"
  | .panicked => "200 complete x x x x"
  | .outside => "outside x x x x x"

def shown : Nat := 8

def outcomeTok : RedirectCache.Outcome → String
  | .done d => s!"R {sentTok d.sent} {contactsTok d.contacts}"
  | .runaway cs => s!"runaway {contactsTok (cs.take shown)}"
  | .selfwait cs => s!"selfwait {contactsTok (cs.take shown)}"

def pContactObs : P ContactObs := do
  let host ← pBytes
  let uri ← pBytes
  let hostField ← pBytes
  let failed ← pBool
  let xhop ← pBytes
  let via ← pBytes
  let _inm ← pBytes
  pure { host, uri, hostField, failed, xhop, via }

/-- the implementation's tokens for one request -/
def pRObs : P RObs := do
  let t ← tok
  if t = "runaway" ∨ t = "selfwait" ∨ t = "noresponse" then
    let cs ← pList pContactObs
    pure { cut := some t, contacts := cs }
  else if t = "R" then
    let st ← pNat
    let _framing ← tok
    let body ← tok
    let loc ← pBytes
    let cst ← pBytes
    let age ← pBytes
    let cs ← pList pContactObs
    pure { status := st, body := body, location := loc, cacheStatus := cst, age := age, contacts := cs }
  else throw s!"unexpected {t}"

partial def pAll {α} (p : P α) : P (List α) := do
  if (← get).isEmpty then pure []
  else
    let a ← p
    let r ← pAll p
    pure (a :: r)

def letterOf (cfg : RedirectCache.Cfg) : RedirectCache.Outcome → String
  | .runaway _ => "R"
  | .selfwait _ => "S"
  | .done d =>
    match d.sent with
    | .outside => "o"
    | .response st _ _ inc =>
      if cfg.isRedirect st then "r"
      -- a stored entry was offered to the origin for confirmation (If-None-Match sent)
      else if d.contacts.any (fun k => Header.get k.headers b!"If-None-Match" ≠ []) then "v"
      else if d.contacts.isEmpty then "w"
      else if inc.status = b!"hit" then "h" else "c"
    | _ => "e"

def hasStorage (id : Bytes) : Bool := id == b!"c1" || id == b!"c2"

def mkCfg (rules : List Rule) (nodes : List CNode) (known : List Bytes) : RedirectCache.Cfg where
  rules := rules
  origin := originOf nodes known
  isRedirect := fun s => Facts.redirectStatuses.contains s
  hasStorage := hasStorage
  maxRedirects := Facts.maxRedirects

def hSysRC : Handler := fun impl => do
  let rcs ← pList pRuleC
  let edge ← pBytes
  let nodes ← pList pCNode
  let known ← pList pBytes
  let ops ← pList pReqOp
  let limit ← pNat
  if ¬ rcs.all (·.valid) then return { model := "err:rules", label := "rules-rejected" }
  let rules := rcs.map (·.rule)
  let cfg : RedirectCache.Cfg := mkCfg rules nodes known
  let mops : List Op := ops.map fun o => match o with | .request t _ => .request t | .tick dt => .tick dt
  let outs := history cfg edge limit 1700000000 [] mops
  let model := " ".intercalate (outs.map outcomeTok)
  -- classes: per request of the history, on the input (the loop findings C18-a / C18-c are
  -- repaired: a loop is ended by the hop counter, no class stands for it any more)
  let reqs : List (Bytes × Nat) := ops.filterMap fun o => match o with | .request t s => some (t, s) | _ => none
  let cls : List String := (reqs.flatMap fun (t, s) =>
    let chain := chainOf nodes rules edge t s
    if ¬ allRestart chain then [] else
    (if inClass_C18_d nodes chain then ["C18-d"] else []) ++
    (if inClass_C09_b nodes chain (ops.any fun o => match o with | .tick _ => true | _ => false) then ["C09-b"] else [])).eraseDups
  let (oracle, skips) : String × List String :=
    match run (pAll pRObs) impl with
    | .ok obs =>
      let st := holds nodes rules edge {} ops obs
      if ¬ st.bad.isEmpty then (",".intercalate st.bad.eraseDups, st.skips)
      else if st.oks = 0 then ("na", st.skips) else ("ok", st.skips)
    | .error _ => ("na", ["unparsed"])
  let shared := rules.any (·.path = b!"/p/*")
  let label := (if shared then "s:" else "r:") ++ String.join (outs.map (letterOf cfg)) ++
    (if skips.contains "mixed-or-off" then "/mixed" else "") ++
    (if skips.contains "edge-contact" then "/edge" else "")
  return { model := model, oracle := oracle, cls := if cls.isEmpty then "-" else ",".intercalate cls, label := label }

def handlers : List (String × Handler) := [
  ("sysrc", hSysRC), ("kf.C18-c", hSysRC), ("kf.C18-d", hSysRC), ("kf.C09-b.sysrc", hSysRC) ]

end H.SysRC
