import Driver.Core
import RrModel.Spec.C14
/- stream: crash (C14) — crash images taken at every writer hook point, served by a fresh cache -/
open Go Proto Model.Crash

namespace H.Crash

/-- the abstract scenario: initial FS, protocol, point table.  Key 0 = the entry; body of
    response r is `[r, r, r]` cut into n chunks abstractly (only lengths matter to the model). -/
def bodyOf (r : Nat) : Bytes := [r, r, r, r, r, r]

def chunksOf (r n : Nat) : List Bytes :=
  match n with
  | 0 => [bodyOf r]
  | 1 => [bodyOf r]
  | 2 => [(bodyOf r).take 2, (bodyOf r).drop 2]
  | _ => [(bodyOf r).take 2, ((bodyOf r).drop 2).take 2, (bodyOf r).drop 4]

def oldEntry : File := { data := bodyOf 1, xattr := some { key := 0, resp := 1, size := 6, hasContentLength := true, revalidated := 0 } }

def scenario (kind n : Nat) : Option (FS × List Effect × List (String × Nat)) :=
  let mNew (r : Nat) : Meta := { key := 0, resp := r, size := 6, hasContentLength := true, revalidated := 1 }
  match kind with
  | 0 => some (FS.empty, freshFill 0 (chunksOf 1 n) { mNew 1 with revalidated := 0 }, pointsFresh n)
  | 1 => some (upd FS.empty (.final 0) (some oldEntry), revalFill 0 (chunksOf 2 n) (mNew 2), pointsReval n)
  | 2 => some (upd FS.empty (.final 0) (some oldEntry), reval304 0 (mNew 1), points304)
  | 3 => some (FS.empty, freshFill 0 (chunksOf 1 n) { mNew 1 with revalidated := 0 },
               ("changekey.after-rename", 0) :: pointsFresh n)
  | _ => none

/-- what two probes of a crash image show -/
def probePrediction (kind : Nat) (fs : FS) : String :=
  match (get fs 0).2 with
  | .miss => "200 miss 9 complete 200 hit 9 complete"
  | .found _ m =>
    -- in the revalidation scenarios the clock has passed the old entry's lifetime
    if (kind = 1 ∨ kind = 2) ∧ m.revalidated = 0 then "200 revalidated 9 complete 200 hit 9 complete"
    else s!"200 hit {m.resp} complete 200 hit {m.resp} complete"

def liveVersion (kind : Nat) : Nat := if kind = 1 then 2 else 1

partial def pSnaps : Nat → P (List (String × List String))
  | 0 => pure []
  | n + 1 => do
    let pt ← tok
    let a ← pTimes tok 8
    let rest ← pSnaps n
    pure ((pt, a) :: rest)

def pImpl : P (Nat × Nat × List (String × List String)) := do
  let st ← pNat
  let v ← pNat
  let n ← pNat
  let snaps ← pSnaps n
  pure (st, v, snaps)

def oracleOf (impl : List String) : String :=
  match run pImpl impl with
  | .error _ => "na"
  | .ok (_, _, snaps) =>
    let badSnap := snaps.find? fun (_, a) =>
      match a with
      | [s1, _e1, v1, f1, s2, e2, v2, f2] =>
        let o : Spec.C14.ProbeObs := {
          hit1 := true, body1Known := v1 ≠ "0" && f1 = "complete", hit2 := e2 = "hit",
          body2Known := v2 ≠ "0" && f2 = "complete", status1 := s1.toNat!, status2 := s2.toNat! }
        !Spec.C14.holdsProbe o
      | _ => true
    match badSnap with
    | some (pt, _) => s!"bad:C14:crash-image-at-{pt}-serves-garbled-or-stuck-entry"
    | none => "ok"

def hCrash : Handler := fun impl => do
  let kind ← pNat
  let n ← pNat
  match scenario kind n with
  | none =>
    -- key change of an existing entry: outside the compared model (see DESIGN C14); the probe
    -- oracle still judges every crash image
    -- kinds 5, 6 (witness stream kf.C13-a.crash): the origin's body breaks off; finding C13-a's publish-then-delete window
    let o := oracleOf impl
    return { model := " ".intercalate impl, oracle := o, cls := if (kind = 5 ∨ kind = 6) ∧ o ≠ "ok" then "C13-a" else "-",
             label := s!"kind{kind}:oracle-only" }
  | some (fs0, proto, points) =>
    let snaps := points.map fun (pt, k) => s!"{pt} {probePrediction kind (applyAll fs0 (proto.take k))}"
    let model := s!"200 {liveVersion kind} {points.length} " ++ " ".intercalate snaps
    return { model := model, oracle := oracleOf impl, label := s!"kind{kind}:chunks{n}" }

def handlers : List (String × Handler) := [ ("crash", hCrash), ("kf.C13-a.crash", hCrash) ]

end H.Crash
