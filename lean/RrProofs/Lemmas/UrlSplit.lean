import RrModel.Spec.C02
import RrProofs.Lemmas.Strings
/-
  Lemmas about `Go.index` / `Go.replaceFirst` / `Go.Url.split` over a text `pre ++ rest` whose
  prefix is free of the delimiter in question, and the C02 authority theorem built on them:
  for a rule destination `scheme://authority/…` whatever is substituted after the `/` that ends
  the authority, `url.Parse` (split level) either fails or reports exactly the scheme and the
  authority written in the rule.
-/
namespace Go

/-! ### `index` / `replaceFirst` over `pre ++ rest` -/

/-- a separator whose first byte differs from the first byte of the text is not a prefix -/
theorem isPrefixOf_cons_ne (c d : Nat) (t s : Bytes) (h : c ≠ d) :
    (c :: t).isPrefixOf (d :: s) = false := by
  simp [List.isPrefixOf, h]

/-- **1.** The first occurrence of a separator whose first byte does not occur in `pre` lies in
    `rest`. -/
theorem index_append_of_head_not_mem (sep pre rest : Bytes) (c : Nat) (t : Bytes)
    (hsep : sep = c :: t) (hc : c ∉ pre) :
    index sep (pre ++ rest) = (index sep rest).map (· + pre.length) := by
  subst hsep
  induction pre with
  | nil =>
    rw [List.nil_append]
    cases index (c :: t) rest with
    | none => rfl
    | some i => simp
  | cons d p ih =>
    have hcd : c ≠ d := fun e => hc (by simp [e])
    have hcp : c ∉ p := fun hm => hc (List.mem_cons_of_mem _ hm)
    have hstep : index (c :: t) (d :: (p ++ rest)) = (index (c :: t) (p ++ rest)).map (· + 1) := by
      rw [index, isPrefixOf_cons_ne c d t (p ++ rest) hcd]
      simp
    rw [List.cons_append, hstep, ih hcp]
    cases index (c :: t) rest with
    | none => rfl
    | some i =>
      simp only [Option.map_some, List.length_cons, Option.some.injEq]
      omega

/-- **2.** `strings.Replace(pre+rest, old, new, 1)` leaves `pre` alone when the first byte of
    `old` does not occur in `pre`. -/
theorem replaceFirst_append_of_head_not_mem (old new pre rest : Bytes) (c : Nat) (t : Bytes)
    (hold : old = c :: t) (hc : c ∉ pre) :
    replaceFirst (pre ++ rest) old new = pre ++ replaceFirst rest old new := by
  unfold replaceFirst
  rw [index_append_of_head_not_mem old pre rest c t hold hc]
  cases index old rest with
  | none => rfl
  | some i =>
    simp only [Option.map_some]
    have htake : List.take (i + pre.length) (pre ++ rest) = pre ++ List.take i rest := by
      rw [List.take_append]
      have h1 : List.take (i + pre.length) pre = pre := List.take_of_length_le (by omega)
      have h2 : i + pre.length - pre.length = i := by omega
      rw [h1, h2]
    have hdrop : List.drop (i + pre.length + old.length) (pre ++ rest)
        = List.drop (i + old.length) rest := by
      rw [List.drop_append]
      have h1 : List.drop (i + pre.length + old.length) pre = [] :=
        List.drop_of_length_le (by omega)
      have h2 : i + pre.length + old.length - pre.length = i + old.length := by omega
      rw [h1, h2, List.nil_append]
    rw [htake, hdrop]
    simp only [List.append_assoc]

/-! ### `indexByte` / `cut1` / `getScheme` over a delimiter-free prefix -/

open Spec.C02

theorem indexByte_append_of_not_mem (c : Nat) (pre rest : Bytes) (h : c ∉ pre) :
    indexByte c (pre ++ rest) = (indexByte c rest).map (· + pre.length) := by
  induction pre with
  | nil =>
    rw [List.nil_append]
    cases indexByte c rest with
    | none => rfl
    | some i => simp
  | cons d p ih =>
    have hdc : ¬ d = c := fun e => h (by simp [e])
    have hcp : c ∉ p := fun hm => h (List.mem_cons_of_mem _ hm)
    rw [List.cons_append, indexByte, if_neg hdc, ih hcp]
    cases indexByte c rest with
    | none => rfl
    | some i =>
      simp only [Option.map_some, List.length_cons, Option.some.injEq]
      omega

theorem indexByte_append_cons_self (c : Nat) (pre x : Bytes) (h : c ∉ pre) :
    indexByte c (pre ++ c :: x) = some pre.length := by
  rw [indexByte_append_of_not_mem c pre (c :: x) h]
  simp [indexByte]

/-- `strings.Cut` on the first `c` of `pre ++ rest` when `c` does not occur in `pre` -/
theorem cut1_append_of_not_mem (c : Nat) (pre rest : Bytes) (h : c ∉ pre) :
    Url.cut1 c (pre ++ rest)
      = (pre ++ (Url.cut1 c rest).1, (Url.cut1 c rest).2.1, (Url.cut1 c rest).2.2) := by
  unfold Url.cut1
  rw [indexByte_append_of_not_mem c pre rest h]
  cases indexByte c rest with
  | none => simp
  | some i =>
    simp only [Option.map_some]
    have htake : List.take (i + pre.length) (pre ++ rest) = pre ++ List.take i rest := by
      rw [List.take_append]
      have h1 : List.take (i + pre.length) pre = pre := List.take_of_length_le (by omega)
      have h2 : i + pre.length - pre.length = i := by omega
      rw [h1, h2]
    have hdrop : List.drop (i + pre.length + 1) (pre ++ rest) = List.drop (i + 1) rest := by
      rw [List.drop_append]
      have h1 : List.drop (i + pre.length + 1) pre = [] := List.drop_of_length_le (by omega)
      have h2 : i + pre.length + 1 - pre.length = i + 1 := by omega
      rw [h1, h2, List.nil_append]
    rw [htake, hdrop]

theorem schemeByte_ne (c : Nat) (h : isSchemeByte c = true) :
    c ≠ 35 ∧ c ≠ 36 ∧ c ≠ 47 ∧ c ≠ 58 ∧ c ≠ 63 ∧ ¬ (c < 32 ∨ c = 127) := by
  simp only [isSchemeByte, Url.isAlpha, Url.isSchemeTail, Bool.or_eq_true, Bool.and_eq_true,
    decide_eq_true_eq] at h
  omega

theorem getSchemeGo_scheme (t : Bytes) (sch : Bytes) :
    ∀ acc : Bytes, (∀ c ∈ sch, isSchemeByte c = true) →
      (acc ≠ [] ∨ ∃ c s, sch = c :: s ∧ Url.isAlpha c = true) →
      Url.getSchemeGo (sch ++ 58 :: t) acc = .some (acc.reverse ++ sch) t := by
  induction sch with
  | nil =>
    intro acc _ hacc
    have hne : acc ≠ [] := by
      rcases hacc with h | ⟨c, s, h, _⟩
      · exact h
      · cases h
    have hemp : acc.isEmpty = false := by
      cases acc with
      | nil => exact absurd rfl hne
      | cons a l => rfl
    simp [Url.getSchemeGo, Url.isAlpha, Url.isSchemeTail, hemp]
  | cons c s ih =>
    intro acc hall hacc
    have hc : isSchemeByte c = true := hall c (by simp)
    have hs : ∀ x ∈ s, isSchemeByte x = true := fun x hx => hall x (List.mem_cons_of_mem _ hx)
    have hrec : Url.getSchemeGo (s ++ 58 :: t) (c :: acc) = .some (acc.reverse ++ c :: s) t := by
      rw [ih (c :: acc) hs (Or.inl (by simp))]
      simp
    rw [List.cons_append, Url.getSchemeGo]
    by_cases ha : Url.isAlpha c = true
    · rw [if_pos ha]; exact hrec
    · rw [if_neg ha]
      have htail : Url.isSchemeTail c = true := by
        simp only [isSchemeByte, Bool.or_eq_true] at hc
        rcases hc with h | h
        · exact absurd h ha
        · exact h
      rw [if_pos htail]
      have hne : acc ≠ [] := by
        rcases hacc with h | ⟨c', s', h, hal⟩
        · exact h
        · simp only [List.cons.injEq] at h
          rw [← h.1] at hal
          exact absurd hal ha
      have hemp : acc.isEmpty = false := by
        cases acc with
        | nil => exact absurd rfl hne
        | cons a l => rfl
      simp only [hemp, Bool.false_eq_true, if_false]
      exact hrec

theorem getScheme_scheme (sch t : Bytes) (c : Nat) (s : Bytes) (hsch : sch = c :: s)
    (hc : Url.isAlpha c = true) (hall : ∀ x ∈ s, isSchemeByte x = true) :
    Url.getScheme (sch ++ 58 :: t) = .some sch t := by
  unfold Url.getScheme
  have hall' : ∀ x ∈ sch, isSchemeByte x = true := by
    intro x hx
    rw [hsch] at hx
    rcases List.mem_cons.1 hx with h | h
    · rw [h]; simp [isSchemeByte, hc]
    · exact hall x h
  rw [getSchemeGo_scheme t sch [] hall' (Or.inr ⟨c, s, hsch, hc⟩)]
  simp

/-! ### `Url.split` of `scheme://authority/…` -/

theorem mem_of_filter_length_one (c : Nat) (r : Bytes)
    (h : (r.filter (· = c)).length = 1) : c ∈ r := by
  cases hf : r.filter (· = c) with
  | nil => rw [hf] at h; simp at h
  | cons a l =>
    have ha : a ∈ r.filter (· = c) := by rw [hf]; simp
    have := List.mem_filter.1 ha
    simp only [decide_eq_true_eq] at this
    rw [← this.2]; exact this.1

/-- dropping the last byte of `pre ++ rest` keeps `pre` when `rest` is not empty -/
theorem take_pred_append (pre rest : Bytes) (h : rest ≠ []) :
    List.take ((pre ++ rest).length - 1) (pre ++ rest) = pre ++ List.take (rest.length - 1) rest := by
  have hl : 0 < rest.length := List.length_pos_iff.2 h
  rw [List.take_append, List.length_append]
  have h1 : List.take (pre.length + rest.length - 1) pre = pre := List.take_of_length_le (by omega)
  have h2 : pre.length + rest.length - 1 - pre.length = rest.length - 1 := by omega
  rw [h1, h2]

/-- the tail of `Url.split` once the text after the scheme is known to be `//auth/x` -/
theorem split_authority_of_parts (raw u0 frag : Bytes) (b : Bool) (s r auth : Bytes)
    (hcut : Url.cut1 35 raw = (u0, frag, b)) (hstar : u0 ≠ [42])
    (hsch : Url.getScheme u0 = .some s r) (hs : s ≠ []) (h47 : 47 ∉ auth)
    (hfq : 63 ∈ r → ∃ x, List.take (r.length - 1) r = 47 :: 47 :: (auth ++ 47 :: x))
    (hcq : ∃ x, (Url.cut1 63 r).1 = 47 :: 47 :: (auth ++ 47 :: x))
    (u : Url.Split) (h : Url.split raw = some u) :
    u.scheme = toLower s ∧ u.authority = some auth := by
  unfold Url.split at h
  rw [hcut] at h
  cases hctl : Url.hasCTL u0 with
  | true => simp [hctl] at h
  | false =>
    simp only [hctl, hstar, hsch, if_false, Bool.false_eq_true] at h
    have hlow : toLower s ≠ [] := by
      cases s with
      | nil => exact absurd rfl hs
      | cons a l => simp [toLower]
    -- in both branches of the query cut the remaining text is `//auth/x`
    have key : ∀ (x rest2 : Bytes),
        rest2 = 47 :: 47 :: (auth ++ 47 :: x) →
        hasPrefix rest2 [47] = true ∧ hasPrefix rest2 [47, 47] = true ∧
          indexByte 47 (List.drop 2 rest2) = some auth.length ∧
          List.take auth.length (List.drop 2 rest2) = auth := by
      intro x rest2 hr
      subst hr
      refine ⟨by simp [hasPrefix, List.isPrefixOf], by simp [hasPrefix, List.isPrefixOf], ?_, ?_⟩
      · exact indexByte_append_cons_self 47 auth x h47
      · simp
    by_cases hc : hasSuffix r [63] = true ∧ (List.filter (fun x => decide (x = 63)) r).length = 1
    · obtain ⟨x, hx⟩ := hfq (mem_of_filter_length_one 63 r hc.2)
      obtain ⟨k1, k2, k3, k4⟩ := key x _ hx
      simp only [hc, and_self, if_true, k1, k2, k3, k4] at h
      rw [if_neg (by simp), if_pos ⟨Or.inl hlow, trivial⟩] at h
      simp only [Option.some.injEq] at h
      subst h
      exact ⟨rfl, rfl⟩
    · obtain ⟨x, hx⟩ := hcq
      obtain ⟨k1, k2, k3, k4⟩ := key x _ hx
      simp only [hc, if_false, k1, k2, k3, k4] at h
      rw [if_neg (by simp), if_pos ⟨Or.inl hlow, trivial⟩] at h
      simp only [Option.some.injEq] at h
      subst h
      exact ⟨rfl, rfl⟩

/-- what `WfDest.ok` says, in propositional form -/
theorem wfDest_ok_parts (d : WfDest) (hd : d.ok = true) :
    (∃ c s, d.scheme = c :: s ∧ Url.isAlpha c = true ∧ ∀ x ∈ s, isSchemeByte x = true) ∧
    (∀ x ∈ d.authority, x ≠ 47 ∧ x ≠ 63 ∧ x ≠ 35 ∧ x ≠ 36 ∧ ¬ (x < 32 ∨ x = 127)) := by
  unfold WfDest.ok at hd
  rw [Bool.and_eq_true] at hd
  obtain ⟨h1, h2⟩ := hd
  constructor
  · cases hs : d.scheme with
    | nil => rw [hs] at h1; exact absurd h1 (by decide)
    | cons c s =>
      rw [hs] at h1
      simp only [Bool.and_eq_true, List.all_eq_true] at h1
      exact ⟨c, s, rfl, h1.1, h1.2⟩
  · intro x hx
    have hx' := List.all_eq_true.1 h2 x hx
    simp only [Bool.and_eq_true, Bool.or_eq_true, decide_eq_true_eq, ne_eq] at hx'
    omega

theorem wfDest_scheme_bytes (d : WfDest) (hd : d.ok = true) :
    ∀ x ∈ d.scheme, isSchemeByte x = true := by
  obtain ⟨⟨c, s, hs, hc, hall⟩, _⟩ := wfDest_ok_parts d hd
  intro x hx
  rw [hs] at hx
  rcases List.mem_cons.1 hx with h | h
  · rw [h]; simp [isSchemeByte, hc]
  · exact hall x h

/-- no byte `c` that is neither a scheme byte, nor `:` `/`, nor an authority byte occurs in the
    `scheme://authority/` prefix -/
theorem wfDest_prefix_not_mem (d : WfDest) (hd : d.ok = true) (c : Nat)
    (hc : c = 35 ∨ c = 36 ∨ c = 63) :
    c ∉ d.scheme ++ b!"://" ++ d.authority ++ b!"/" := by
  have hsb := wfDest_scheme_bytes d hd
  have hau := (wfDest_ok_parts d hd).2
  intro hm
  simp only [List.mem_append, List.mem_cons, List.not_mem_nil, or_false] at hm
  rcases hm with ((hm | hm) | hm) | hm
  · have := schemeByte_ne c (hsb c hm); omega
  · omega
  · have := hau c hm; omega
  · omega

/-- **3.** For a well-formed destination prefix `scheme://authority/` and ANY tail, the parse
    either fails or yields exactly the scheme and the authority written in the rule. -/
theorem split_authority_fixed (d : WfDest) (hd : d.ok = true) (rest' : Bytes) (u : Url.Split)
    (h : Url.split (d.scheme ++ b!"://" ++ d.authority ++ b!"/" ++ rest') = some u) :
    u.scheme = toLower d.scheme ∧ u.authority = some d.authority := by
  obtain ⟨⟨c, s, hs, hc, hall⟩, hau⟩ := wfDest_ok_parts d hd
  -- the fragment cut happens in the tail
  have hcut := cut1_append_of_not_mem 35 (d.scheme ++ b!"://" ++ d.authority ++ b!"/") rest'
    (wfDest_prefix_not_mem d hd 35 (Or.inl rfl))
  generalize hr1 : (Url.cut1 35 rest').1 = r1 at hcut
  -- shape of the text in front of the fragment
  have hu0 : d.scheme ++ b!"://" ++ d.authority ++ b!"/" ++ r1
      = d.scheme ++ 58 :: (47 :: 47 :: (d.authority ++ 47 :: r1)) := by
    simp only [List.append_assoc, List.cons_append, List.nil_append]
  rw [hu0] at hcut
  have hstar : d.scheme ++ 58 :: (47 :: 47 :: (d.authority ++ 47 :: r1)) ≠ [42] := by
    intro e
    have := congrArg List.length e
    simp only [List.length_append, List.length_cons, List.length_nil] at this
    omega
  have hsch := getScheme_scheme d.scheme (47 :: 47 :: (d.authority ++ 47 :: r1)) c s hs hc hall
  have hne : d.scheme ≠ [] := by rw [hs]; simp
  have h47 : 47 ∉ d.authority := fun hm => (hau 47 hm).1 rfl
  -- the query cut happens behind `//authority/`
  have h63 : 63 ∉ 47 :: 47 :: (d.authority ++ [47]) := by
    intro hm
    simp only [List.mem_cons, List.mem_append, List.not_mem_nil, or_false] at hm
    rcases hm with hm | hm | hm | hm
    · omega
    · omega
    · exact (hau 63 hm).2.1 rfl
    · omega
  have hblock : ∀ x : Bytes, 47 :: 47 :: (d.authority ++ [47]) ++ x
      = 47 :: 47 :: (d.authority ++ 47 :: x) := by
    intro x
    simp only [List.append_assoc, List.cons_append, List.nil_append]
  have hfq : 63 ∈ 47 :: 47 :: (d.authority ++ 47 :: r1) →
      ∃ x, List.take ((47 :: 47 :: (d.authority ++ 47 :: r1)).length - 1)
        (47 :: 47 :: (d.authority ++ 47 :: r1)) = 47 :: 47 :: (d.authority ++ 47 :: x) := by
    intro hm
    rw [← hblock r1] at hm ⊢
    have hr1ne : r1 ≠ [] := by
      intro e
      rw [e, List.append_nil] at hm
      exact h63 hm
    refine ⟨List.take (r1.length - 1) r1, ?_⟩
    rw [take_pred_append _ r1 hr1ne, hblock]
  have hcq : ∃ x, (Url.cut1 63 (47 :: 47 :: (d.authority ++ 47 :: r1))).1
      = 47 :: 47 :: (d.authority ++ 47 :: x) := by
    refine ⟨(Url.cut1 63 r1).1, ?_⟩
    rw [← hblock r1, cut1_append_of_not_mem 63 _ r1 h63, hblock]
  exact split_authority_of_parts _ _ _ _ d.scheme _ d.authority hcut hstar hsch hne h47 hfq hcq u h

/-- **4.** The target computed for a well-formed destination and any captured text: the first
    `$1` lies behind `scheme://authority/`, so the parse either fails or yields the rule's scheme
    and authority. -/
theorem parse_target_authority (d : WfDest) (hd : d.ok = true) (cap : Bytes) (u : Url.Split)
    (h : Url.split (expectedTarget d.text cap) = some u) :
    u.scheme = toLower d.scheme ∧ u.authority = some d.authority := by
  have h36 : 36 ∉ d.scheme ++ b!"://" ++ d.authority ++ b!"/" :=
    wfDest_prefix_not_mem d hd 36 (Or.inr (Or.inl rfl))
  have heq : expectedTarget d.text cap
      = d.scheme ++ b!"://" ++ d.authority ++ b!"/" ++ replaceFirst d.rest b!"$1" cap := by
    unfold expectedTarget WfDest.text
    exact replaceFirst_append_of_head_not_mem b!"$1" cap _ d.rest 36 [49] rfl h36
  rw [heq] at h
  exact split_authority_fixed d hd _ u h

/-! ### Non-vacuity -/

-- 1, 2: a separator / placeholder behind a prefix that is free of its first byte
example : index b!"$1" (b!"http://d1.test/" ++ b!"pre/$1") = some 19 := by decide
example : (36 : Nat) ∉ b!"http://d1.test/" := by decide
example : replaceFirst (b!"http://d1.test/" ++ b!"pre/$1/$1") b!"$1" b!"CAP"
    = b!"http://d1.test/" ++ b!"pre/CAP/$1" := by decide

-- 3, 4: the hypotheses hold for an ordinary rule, and the parse of a hostile capture succeeds
example : (⟨b!"http", b!"d1.test:8080", b!"pre/$1"⟩ : WfDest).ok = true := by decide
example : (⟨b!"HTTPS", b!"user@d1.test", b!"$1"⟩ : WfDest).ok = true := by decide
example : expectedTarget (WfDest.text ⟨b!"http", b!"d1.test:8080", b!"pre/$1"⟩) b!"a/../b?x#y@evil/"
    = b!"http://d1.test:8080/pre/a/../b?x#y@evil/" := by decide
example : Url.split (expectedTarget (WfDest.text ⟨b!"http", b!"d1.test:8080", b!"pre/$1"⟩)
      b!"a/../b?x#y@evil/")
    = some { scheme := b!"http", authority := some b!"d1.test:8080", path := b!"/pre/a/../b",
             rawQuery := b!"x", fragment := b!"y@evil/" } := by decide
-- ForceQuery branch (`…?` with a single `?`)
example : Url.split (expectedTarget (WfDest.text ⟨b!"http", b!"d1.test", b!"$1"⟩) b!"a?")
    = some { scheme := b!"http", authority := some b!"d1.test", path := b!"/a",
             forceQuery := true } := by decide
-- the other disjunct is real: a control byte in the capture makes the parse fail
example : Url.split (expectedTarget (WfDest.text ⟨b!"http", b!"d1.test", b!"$1"⟩) [97, 10, 98])
    = none := by decide
-- `ok` is needed: a `?` or `$1` written inside the authority moves the boundary
example : (⟨b!"http", b!"d1.test?x", b!"$1"⟩ : WfDest).ok = false := by decide
example : (Url.split (WfDest.text ⟨b!"http", b!"d1.test?x", b!"y"⟩)).map (·.authority)
    = some (some b!"d1.test") := by decide
example : (Url.split (expectedTarget (WfDest.text ⟨b!"http", b!"$1.test", b!"y"⟩) b!"evil/")).map
    (·.authority) = some (some b!"evil") := by decide

end Go
