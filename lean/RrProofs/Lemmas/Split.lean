import RrModel.Spec.C07
/-
  Lemmas about `Go.split1`, `Go.split` (two-byte separator), `Go.join`, `Go.trim`, `Go.index` /
  `Go.splitN2` on a single byte, and `Spec.C07.noPair`: what is needed to show that splitting a
  joined list gives the list back.
-/
namespace Go

/-! ### `split1` -/

theorem split1_ne_nil (c : Nat) (s : Bytes) : split1 c s ≠ [] := by
  induction s with
  | nil => simp [split1]
  | cons d t ih =>
    unfold split1
    by_cases h : d = c
    · simp [h]
    · simp only [h, if_false]
      cases hs : split1 c t with
      | nil => exact absurd hs ih
      | cons p ps => simp

theorem split1_of_not_mem {c : Nat} {p : Bytes} (h : c ∉ p) : split1 c p = [p] := by
  induction p with
  | nil => simp [split1]
  | cons d t ih =>
    have hd : d ≠ c := fun e => h (by simp [e])
    have ht : c ∉ t := fun e => h (by simp [e])
    unfold split1
    simp [hd, ih ht]

theorem split1_append_sep {c : Nat} {p : Bytes} (rest : Bytes) (h : c ∉ p) :
    split1 c (p ++ c :: rest) = p :: split1 c rest := by
  induction p with
  | nil => simp [split1]
  | cons d t ih =>
    have hd : d ≠ c := fun e => h (by simp [e])
    have ht : c ∉ t := fun e => h (by simp [e])
    rw [List.cons_append, split1]
    simp only [hd, if_false]
    rw [ih ht]

/-- splitting a `c`-joined list of `c`-free parts gives the parts back -/
theorem split1_join {c : Nat} : ∀ {ps : List Bytes}, ps ≠ [] → (∀ p ∈ ps, c ∉ p) →
    split1 c (join [c] ps) = ps
  | [], h, _ => absurd rfl h
  | [p], _, hp => by
    simp only [join]
    exact split1_of_not_mem (hp p (by simp))
  | p :: q :: ps, _, hp => by
    simp only [join, List.append_assoc, List.singleton_append]
    rw [split1_append_sep _ (hp p (by simp))]
    rw [split1_join (by simp) (fun x hx => hp x (by simp [hx]))]

/-- the number of parts is the number of separators plus one -/
theorem length_split1 (c : Nat) (s : Bytes) : (split1 c s).length = s.count c + 1 := by
  induction s with
  | nil => simp [split1]
  | cons d t ih =>
    unfold split1
    by_cases h : d = c
    · simp [h, ih]
    · simp only [h, if_false]
      cases hs : split1 c t with
      | nil => exact absurd hs (split1_ne_nil c t)
      | cons p ps =>
        rw [hs] at ih
        simp only [List.length_cons] at ih ⊢
        rw [List.count_cons_of_ne h]
        exact ih

/-! ### `noPair` -/
open Spec.C07 in
theorem noPair_cons_of_ne {a b c : Nat} {s : Bytes} (h : c ≠ a) : noPair a b (c :: s) = noPair a b s := by
  cases s with
  | nil => simp [noPair]
  | cons d t => simp [noPair, h]

open Spec.C07 in
theorem noPair_tail {a b c : Nat} {s : Bytes} (h : noPair a b (c :: s) = true) : noPair a b s = true := by
  cases s with
  | nil => simp [noPair]
  | cons d t =>
    simp only [noPair, Bool.and_eq_true] at h
    exact h.2

open Spec.C07 in
/-- the pair cannot start at the head: either the head is not `a` or the next byte is not `b` -/
theorem noPair_head {a b c d : Nat} {s : Bytes} (h : noPair a b (c :: d :: s) = true) : ¬ (c = a ∧ d = b) := by
  simp only [noPair, Bool.and_eq_true, Bool.not_eq_true', Bool.and_eq_false_iff, beq_eq_false_iff_ne] at h
  intro ⟨h1, h2⟩
  rcases h.1 with h' | h'
  · exact h' h1
  · exact h' h2

open Spec.C07 in
theorem noPair_of_not_mem {a b : Nat} {s : Bytes} (h : a ∉ s) : noPair a b s = true := by
  induction s with
  | nil => simp [noPair]
  | cons c t ih =>
    have hc : c ≠ a := fun e => h (by simp [e])
    rw [noPair_cons_of_ne hc]
    exact ih (fun e => h (by simp [e]))

open Spec.C07 in
/-- appending is safe when the second list does not start with `b` -/
theorem noPair_append {a b : Nat} {x y : Bytes} (hx : noPair a b x = true) (hy : noPair a b y = true)
    (hh : y.head? ≠ some b) : noPair a b (x ++ y) = true := by
  induction x with
  | nil => simpa using hy
  | cons c t ih =>
    cases t with
    | nil =>
      cases y with
      | nil => simp [noPair]
      | cons d u =>
        have hd : d ≠ b := fun e => hh (by simp [e])
        simp only [List.cons_append, List.nil_append, noPair, Bool.and_eq_true, Bool.not_eq_true',
          Bool.and_eq_false_iff, beq_eq_false_iff_ne]
        exact ⟨Or.inr hd, hy⟩
    | cons d u =>
      have h1 := noPair_head hx
      have h2 := ih (noPair_tail hx)
      simp only [List.cons_append, noPair, Bool.and_eq_true, Bool.not_eq_true', Bool.and_eq_false_iff,
        beq_eq_false_iff_ne] at h2 ⊢
      refine ⟨?_, h2⟩
      by_cases hc : c = a
      · exact Or.inr (fun e => h1 ⟨hc, e⟩)
      · exact Or.inl hc

open Spec.C07 in
/-- appending is safe when the first list contains no `a` at all -/
theorem noPair_append_of_not_mem {a b : Nat} {x y : Bytes} (hx : a ∉ x) (hy : noPair a b y = true) :
    noPair a b (x ++ y) = true := by
  induction x with
  | nil => simpa using hy
  | cons c t ih =>
    have hc : c ≠ a := fun e => hx (by simp [e])
    rw [List.cons_append, noPair_cons_of_ne hc]
    exact ih (fun e => hx (by simp [e]))

/-! ### `split` on a two-byte separator `a b` with `a ≠ b` -/

open Spec.C07 in
theorem splitGo2_end {a b : Nat} {p : Bytes} (cur : Bytes) (hp : noPair a b p = true) :
    splitGo [a, b] p 0 cur = [cur.reverse ++ p] := by
  induction p generalizing cur with
  | nil => simp [splitGo]
  | cons c t ih =>
    have hpre : List.isPrefixOf [a, b] (c :: t) = false := by
      cases t with
      | nil => simp [List.isPrefixOf]
      | cons d u =>
        have := noPair_head hp
        simp only [List.isPrefixOf, Bool.and_true, Bool.and_eq_false_iff, beq_eq_false_iff_ne]
        by_cases hc : a = c
        · exact Or.inr (fun e => this ⟨hc.symm, e.symm⟩)
        · exact Or.inl hc
    rw [splitGo]
    simp only [hpre, Bool.false_eq_true, if_false]
    rw [ih _ (noPair_tail hp)]
    simp

open Spec.C07 in
theorem splitGo2_sep {a b : Nat} {p : Bytes} (cur rest : Bytes) (hab : a ≠ b) (hp : noPair a b p = true) :
    splitGo [a, b] (p ++ a :: b :: rest) 0 cur = (cur.reverse ++ p) :: splitGo [a, b] rest 0 [] := by
  induction p generalizing cur with
  | nil =>
    rw [List.nil_append, splitGo]
    simp [List.isPrefixOf, splitGo]
  | cons c t ih =>
    have hpre : List.isPrefixOf [a, b] (c :: (t ++ a :: b :: rest)) = false := by
      cases t with
      | nil =>
        simp only [List.nil_append, List.isPrefixOf, Bool.and_true, Bool.and_eq_false_iff, beq_eq_false_iff_ne]
        exact Or.inr (fun e => hab e.symm)
      | cons d u =>
        have := noPair_head hp
        simp only [List.cons_append, List.isPrefixOf, Bool.and_true, Bool.and_eq_false_iff, beq_eq_false_iff_ne]
        by_cases hc : a = c
        · exact Or.inr (fun e => this ⟨hc.symm, e.symm⟩)
        · exact Or.inl hc
    rw [List.cons_append, splitGo]
    simp only [hpre, Bool.false_eq_true, if_false]
    rw [ih _ (noPair_tail hp)]
    simp

open Spec.C07 in
/-- splitting an `a b`-joined list of parts without the pair `a b` gives the parts back -/
theorem split_join2 {a b : Nat} (hab : a ≠ b) : ∀ {ps : List Bytes}, ps ≠ [] →
    (∀ p ∈ ps, noPair a b p = true) → split (join [a, b] ps) [a, b] = ps
  | [], h, _ => absurd rfl h
  | [p], _, hp => by
    simp only [join, split]
    rw [splitGo2_end _ (hp p (by simp))]
    simp
  | p :: q :: ps, _, hp => by
    have ih := split_join2 hab (ps := q :: ps) (by simp) (fun x hx => hp x (by simp [hx]))
    simp only [split] at ih ⊢
    simp only [join, List.append_assoc, List.cons_append, List.nil_append]
    rw [splitGo2_sep _ _ hab (hp p (by simp)), ih]
    simp

/-! ### cutset trims -/

theorem trimLeft_append_all {cs l : Bytes} (x : Bytes) (hl : ∀ c ∈ l, cs.contains c = true) :
    trimLeft cs (l ++ x) = trimLeft cs x := by
  induction l with
  | nil => rfl
  | cons c t ih =>
    rw [List.cons_append, trimLeft]
    simp only [hl c (by simp), if_true]
    exact ih (fun d hd => hl d (by simp [hd]))

theorem trimLeft_all {cs l : Bytes} (hl : ∀ c ∈ l, cs.contains c = true) : trimLeft cs l = [] := by
  have := trimLeft_append_all (cs := cs) [] hl
  simpa [trimLeft] using this

theorem trimLeft_of_head {cs x : Bytes} (hx : ∀ c, x.head? = some c → cs.contains c = false) :
    trimLeft cs x = x := by
  cases x with
  | nil => rfl
  | cons c t =>
    rw [trimLeft, hx c (by simp)]
    simp

theorem trimRight_append_all {cs r : Bytes} (x : Bytes) (hr : ∀ c ∈ r, cs.contains c = true) :
    trimRight cs (x ++ r) = trimRight cs x := by
  unfold trimRight
  rw [List.reverse_append, trimLeft_append_all _ (fun c hc => hr c (by simpa using hc))]

theorem trimRight_of_last {cs x : Bytes} (hx : ∀ c, x.getLast? = some c → cs.contains c = false) :
    trimRight cs x = x := by
  unfold trimRight
  rw [trimLeft_of_head (fun c hc => hx c (by simpa [List.head?_reverse] using hc))]
  simp

/-- a cutset trim removes a wrapping made of cutset bytes and nothing else, provided the wrapped
    string neither starts nor ends with a cutset byte -/
theorem trim_wrapped {cs l v r : Bytes} (hl : ∀ c ∈ l, cs.contains c = true)
    (hr : ∀ c ∈ r, cs.contains c = true) (hh : ∀ c, v.head? = some c → cs.contains c = false)
    (ht : ∀ c, v.getLast? = some c → cs.contains c = false) : trim cs (l ++ v ++ r) = v := by
  unfold trim
  rw [List.append_assoc, trimLeft_append_all _ hl]
  cases v with
  | nil =>
    rw [List.nil_append, trimLeft_all hr]
    simp [trimRight, trimLeft]
  | cons c t =>
    rw [trimLeft_of_head (x := c :: t ++ r) (fun d hd => hh d (by simpa using hd))]
    rw [trimRight_append_all _ hr, trimRight_of_last ht]

/-! ### `index` / `splitN2` / slices on a single byte -/

theorem index_singleton_append {c : Nat} {k : Bytes} (rest : Bytes) (hk : c ∉ k) :
    index [c] (k ++ c :: rest) = some k.length := by
  induction k with
  | nil => simp [index, List.isPrefixOf]
  | cons d t ih =>
    have hd : c ≠ d := fun e => hk (by simp [e])
    rw [List.cons_append, index]
    simp [List.isPrefixOf, hd, ih (fun e => hk (by simp [e]))]

/-- `strings.SplitN(k + c + rest, c, 2)` cuts after `k` when `k` is free of `c` -/
theorem splitN2_singleton {c : Nat} {k : Bytes} (rest : Bytes) (hk : c ∉ k) :
    splitN2 (k ++ c :: rest) [c] = [k, rest] := by
  unfold splitN2
  rw [index_singleton_append rest hk]
  simp

end Go

namespace Go

/-- one step of `split` on a two-byte separator, without the skip counter -/
theorem splitGo2_step (a b c : Nat) (t cur : Bytes) :
    splitGo [a, b] (c :: t) 0 cur =
      if c = a ∧ t.head? = some b then cur.reverse :: splitGo [a, b] t.tail 0 []
      else splitGo [a, b] t 0 (c :: cur) := by
  rw [splitGo]
  cases t with
  | nil => simp [List.isPrefixOf]
  | cons d u =>
    by_cases h1 : a = c
    · by_cases h2 : b = d
      · subst h1; subst h2
        simp [List.isPrefixOf, splitGo]
      · have : ¬ d = b := fun e => h2 e.symm
        simp [List.isPrefixOf, h1, h2, this]
    · have : ¬ c = a := fun e => h1 e.symm
      simp [List.isPrefixOf, h1, this]

theorem splitGo_ne_nil (sep : Bytes) : ∀ (s : Bytes) (skip : Nat) (cur : Bytes), splitGo sep s skip cur ≠ []
  | [], _, _ => by simp [splitGo]
  | _ :: t, skip + 1, cur => by rw [splitGo]; exact splitGo_ne_nil sep t skip cur
  | c :: t, 0, cur => by
    rw [splitGo]
    split
    · simp
    · exact splitGo_ne_nil sep t 0 _

/-- if the string ends with the first byte `a` of the separator `a b` (`a ≠ b`), the last part that
    `split` returns is not empty -/
theorem splitGo2_last_ne_nil {a b : Nat} (hab : a ≠ b) : ∀ (n : Nat) (s cur : Bytes), s.length = n →
    (s.getLast? = some a ∨ (s = [] ∧ cur ≠ [])) →
    ∀ p, (splitGo [a, b] s 0 cur).getLast? = some p → p ≠ [] := by
  intro n
  induction n using Nat.strongRecOn with
  | _ n ih =>
    intro s cur hn hs p hp
    cases s with
    | nil =>
      rcases hs with hs | ⟨_, hc⟩
      · simp at hs
      · simp only [splitGo, List.getLast?_singleton, Option.some.injEq] at hp
        rw [← hp]; simpa using hc
    | cons c t =>
      have hlast : (c :: t).getLast? = some a := by
        rcases hs with hs | ⟨hs, _⟩
        · exact hs
        · simp at hs
      rw [splitGo2_step] at hp
      split at hp
      · rename_i hm
        obtain ⟨hc, ht⟩ := hm
        cases t with
        | nil => simp at ht
        | cons d u =>
          simp only [List.head?_cons, Option.some.injEq] at ht
          simp only [List.tail_cons] at hp
          rw [List.getLast?_cons_of_ne_nil (splitGo_ne_nil _ _ _ _)] at hp
          cases u with
          | nil =>
            -- the string would end with `b`
            simp only [List.getLast?_cons_cons, List.getLast?_singleton, Option.some.injEq] at hlast
            exact absurd (ht.symm.trans hlast) (fun e => hab e.symm)
          | cons e v =>
            have hl : (e :: v).getLast? = some a := by
              simpa [List.getLast?_cons_cons] using hlast
            exact ih v.length.succ (by simp only [List.length_cons] at hn; omega) (e :: v) [] (by simp)
              (Or.inl hl) p hp
      · cases t with
        | nil =>
          exact ih 0 (by simp only [List.length_cons, List.length_nil] at hn; omega) [] (c :: cur) rfl
            (Or.inr ⟨rfl, by simp⟩) p hp
        | cons d u =>
          have hl : (d :: u).getLast? = some a := by
            simpa [List.getLast?_cons_cons] using hlast
          exact ih (d :: u).length (by simp only [List.length_cons] at hn ⊢; omega) (d :: u) (c :: cur) rfl
            (Or.inl hl) p hp

/-- what a cutset trim leaves of `x ++ [z] ++ r` still ends with `z`, when `z` is not in the cutset
    and `r` consists of cutset bytes -/
theorem trim_ends {cs x r : Bytes} {z : Nat} (hz : cs.contains z = false)
    (hr : ∀ c ∈ r, cs.contains c = true) : ∃ y, trim cs (x ++ [z] ++ r) = y ++ [z] := by
  have hl : ∃ y, trimLeft cs (x ++ [z] ++ r) = y ++ [z] ++ r := by
    induction x with
    | nil =>
      refine ⟨[], ?_⟩
      rw [List.nil_append, List.singleton_append, trimLeft, hz]
      simp
    | cons c t ih =>
      simp only [List.cons_append, List.append_assoc] at ih ⊢
      rw [trimLeft]
      split
      · exact ih
      · exact ⟨c :: t, by simp⟩
  obtain ⟨y, hy⟩ := hl
  refine ⟨y, ?_⟩
  unfold trim
  rw [hy, trimRight_append_all _ hr, trimRight_of_last]
  intro c hc
  simp only [List.getLast?_append, List.getLast?_singleton, Option.some_or, Option.some.injEq] at hc
  rw [← hc]; exact hz

end Go
