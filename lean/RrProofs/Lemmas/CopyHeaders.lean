import RrModel.Conditional
import RrModel.CacheControl
import RrModel.Codec
import RrProofs.Lemmas.Header
import RrProofs.Lemmas.Forward
import RrProofs.Lemmas.StorePrep
/-
  What `clearAndCopyHeaders` (`Conditional.copyHeaders`), `suffixETag` and `util.DenyHeaders` do to the
  value list of a header name, for `Normal` origin header maps (distinct raw keys in canonical form: the
  shape of every map filled through `Add`/`Set`, e.g. a parsed `http.Response.Header`), and the fact that
  `GetCacheControlDirectives` reads nothing but `Values("cache-control")` and `Values("vary")`.
-/
namespace Model.Conditional
open Go Go.Header

/-! ### the two loops of `clearAndCopyHeaders` -/

theorem foldl_add_eq_addAll (vs : List Bytes) (h : Header) (k : Bytes) :
    vs.foldl (fun h v => h.add k v) h = Model.addAll h k vs := by
  induction vs generalizing h with
  | nil => rfl
  | cons v vs ih => rw [List.foldl_cons, ih]; rfl

theorem foldl_origin_eq_copyHeader (o acc : Header) :
    o.foldl (fun h e => e.2.foldl (fun h v => h.add e.1 v) h) acc = Model.copyHeader o acc := by
  induction o generalizing acc with
  | nil => rfl
  | cons e t ih =>
    obtain ⟨k, vs⟩ := e
    rw [List.foldl_cons, ih, foldl_add_eq_addAll]
    rfl

theorem vals_foldl_set_ne (vs : List Bytes) (h : Header) (k c : Bytes) (hne : canon k ≠ c) :
    vals (vs.foldl (fun h v => h.set k v) h) c = vals h c := by
  induction vs generalizing h with
  | nil => rfl
  | cons v vs ih =>
    rw [List.foldl_cons, ih]
    unfold Header.set
    rw [Header.vals_setRaw, if_neg hne]

theorem normal_foldl_set (vs : List Bytes) {h : Header} (hn : Normal h) (k : Bytes) :
    Normal (vs.foldl (fun h v => h.set k v) h) := by
  induction vs generalizing h with
  | nil => exact hn
  | cons v vs ih => rw [List.foldl_cons]; exact ih (hn.set k v)

/-- the `alwaysInclude` loop leaves a canonical key alone under which `alwaysInclude` has no value (an
    entry without values is never `Set`) -/
theorem vals_foldl_ai_ne (ai h0 : Header) (c : Bytes) (hc : ∀ e ∈ ai, canon e.1 = c → e.2 = []) :
    vals (ai.foldl (fun h e => e.2.foldl (fun h v => h.set e.1 v) h) h0) c = vals h0 c := by
  induction ai generalizing h0 with
  | nil => rfl
  | cons e t ih =>
    rw [List.foldl_cons, ih _ (fun e' he' => hc e' (List.mem_cons_of_mem _ he'))]
    by_cases hk : canon e.1 = c
    · rw [hc e (by simp) hk]; rfl
    · exact vals_foldl_set_ne _ _ _ _ hk

/-- a `Normal` map without a value under the canonical key `c` has no valued entry that canonicalises to `c` -/
theorem no_entry_of_vals_nil {ai : Header} (hn : Normal ai) {c : Bytes} (hv : vals ai c = []) :
    ∀ e ∈ ai, canon e.1 = c → e.2 = [] := by
  intro e he hk
  obtain ⟨k, vs⟩ := e
  have hcan : canon k = k := hn.2 k (List.mem_map.2 ⟨(k, vs), he, rfl⟩)
  have : vals ai k = vs := mem_vals_of_nodup hn.1 he
  rw [hcan] at hk
  rw [← this, hk, hv]

theorem normal_foldl_ai (ai : Header) {h0 : Header} (hn : Normal h0) :
    Normal (ai.foldl (fun h e => e.2.foldl (fun h v => h.set e.1 v) h) h0) := by
  induction ai generalizing h0 with
  | nil => exact hn
  | cons e t ih => rw [List.foldl_cons]; exact ih (normal_foldl_set _ hn _)

/-- `clearAndCopyHeaders` builds a `Normal` map from ANY two association lists -/
theorem normal_copyHeaders (o ai : Header) : Normal (copyHeaders o ai) := by
  unfold copyHeaders
  rw [foldl_origin_eq_copyHeader]
  exact normal_foldl_ai ai (normal_copyHeader normal_nil o)

/-- under a canonical key that `alwaysInclude` does not name: the values of ALL origin entries whose key
    canonicalises to it, in order (for every association list) -/
theorem vals_copyHeaders (o ai : Header) (c : Bytes) (hc : ∀ e ∈ ai, canon e.1 = c → e.2 = []) :
    vals (copyHeaders o ai) c = (o.filter fun e => canon e.1 = c).flatMap (·.2) := by
  unfold copyHeaders
  rw [vals_foldl_ai_ne _ _ _ hc, foldl_origin_eq_copyHeader, vals_copyHeader]
  simp

/-- on a `Normal` map the entries whose key canonicalises to a canonical key `c` are the entry `c` -/
theorem filter_canon_normal {o : Header} (hn : Normal o) (c : Bytes) :
    ((o.filter fun e => canon e.1 = c).flatMap (·.2)) = vals o c := by
  rw [← allVals_eq_vals hn.1]
  unfold allVals
  congr 1
  apply List.filter_congr
  intro e he
  have hk : canon e.1 = e.1 := hn.2 e.1 (List.mem_map.2 ⟨e, he, rfl⟩)
  rw [hk]

/-- `clearAndCopyHeaders`: a header name for which `alwaysInclude` has no value keeps exactly the origin's
    values, when both maps are `Normal` -/
theorem values_copyHeaders {o : Header} (hn : Normal o) {ai : Header} (ha : Normal ai) (k : Bytes)
    (hc : ai.values k = []) :
    (copyHeaders o ai).values k = o.values k := by
  unfold Header.values
  rw [vals_copyHeaders o ai _ (no_entry_of_vals_nil ha hc), filter_canon_normal hn]

theorem values_suffixETag (sfx : Option Bytes) (h : Header) (k : Bytes) (hk : canon kEtag ≠ canon k) :
    (suffixETag sfx h).values k = h.values k := by
  unfold suffixETag
  split
  · rw [Header.values_set, if_neg hk]
  · rfl

theorem normal_suffixETag (sfx : Option Bytes) {h : Header} (hn : Normal h) : Normal (suffixETag sfx h) := by
  unfold suffixETag
  split
  · exact hn.set _ _
  · exact hn

/-- the header map the client is sent (`requestHandler`: origin headers ⊕ alwaysInclude, ETag suffixed)
    carries, under a name other than ETag that `alwaysInclude` does not carry, the origin's values -/
theorem values_clientHeader {o : Header} (hn : Normal o) (sfx : Option Bytes) {ai : Header} (ha : Normal ai)
    (k : Bytes) (hk : canon kEtag ≠ canon k) (hc : ai.values k = []) :
    (suffixETag sfx (copyHeaders o ai)).values k = o.values k := by
  rw [values_suffixETag _ _ _ hk, values_copyHeaders hn ha k hc]

end Model.Conditional

namespace Model.Codec
open Go

/-- `util.DenyHeaders` leaves a canonical key alone that no denied name canonicalises to -/
theorem vals_denyHeaders_ne (h : Header) (deny : List Bytes) (c : Bytes)
    (hc : ∀ x, deny.contains (toLower x) = true → canon x ≠ c) :
    Header.vals (denyHeaders h deny) c = Header.vals h c := by
  unfold denyHeaders
  rw [vals_foldl_del, if_neg]
  intro hm
  obtain ⟨x, hx, hxc⟩ := List.mem_map.1 hm
  exact hc x (List.mem_filter.1 hx).2 hxc

theorem normal_foldl_del (L : List Bytes) {h : Header} (hn : Normal h) :
    Normal (L.foldl (fun out x => out.del x) h) := by
  induction L generalizing h with
  | nil => exact hn
  | cons x xs ih => rw [List.foldl_cons]; exact ih (hn.del x)

theorem normal_denyHeaders {h : Header} (hn : Normal h) (deny : List Bytes) : Normal (denyHeaders h deny) := by
  unfold denyHeaders; exact normal_foldl_del _ hn

end Model.Codec

namespace Model
open Go

/-! ### `GetCacheControlDirectives` reads `Values("cache-control")` and `Values("vary")` only -/

theorem getCacheControlDirectives_congr {h h' : Header}
    (hcc : h.values b!"cache-control" = h'.values b!"cache-control")
    (hv : h.values b!"vary" = h'.values b!"vary") :
    getCacheControlDirectives h = getCacheControlDirectives h' := by
  unfold getCacheControlDirectives allHeaderValues
  rw [hcc, hv]

/-- `DoNotCache` reads `Values("cache-control")` only -/
theorem doNotCache_congr {h h' : Header}
    (hcc : h.values b!"cache-control" = h'.values b!"cache-control") :
    (getCacheControlDirectives h).doNotCache = (getCacheControlDirectives h').doNotCache := by
  unfold getCacheControlDirectives allHeaderValues Directives.doNotCache
  rw [hcc]

end Model
