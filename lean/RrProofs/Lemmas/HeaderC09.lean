import RrModel.Go.Header
import RrModel.Go.Strings
/-
  Get-after-update lemmas for `Go.Header` and a few list/string facts, as needed by
  RrProofs/Props/C09.lean.  Own namespace, so that nothing collides with Lemmas/Header.lean.
-/
namespace HeaderC09
open Go Go.Header

/-! ### raw level -/

theorem vals_filter (h : Header) (p : Bytes → Bool) (k : Bytes) :
    vals (h.filter (fun e => p e.1)) k = if p k then vals h k else [] := by
  induction h with
  | nil => simp [vals]
  | cons e t ih =>
    by_cases hp : p e.1 = true
    · rw [List.filter_cons_of_pos (by simpa using hp)]
      by_cases hk : e.1 = k
      · subst hk; simp [vals, hp]
      · simp [vals, hk, ih]
    · rw [List.filter_cons_of_neg (by simpa using hp)]
      rw [ih]
      by_cases hk : e.1 = k
      · subst hk; simp [hp]
      · simp [vals, hk]

theorem vals_delRaw_self (h : Header) (k : Bytes) : vals (delRaw h k) k = [] := by
  unfold delRaw
  rw [vals_filter h (fun x => decide (x ≠ k)) k]
  simp

theorem vals_delRaw_ne (h : Header) {k k' : Bytes} (hne : k' ≠ k) :
    vals (delRaw h k) k' = vals h k' := by
  unfold delRaw
  rw [vals_filter h (fun x => decide (x ≠ k)) k']
  simp [hne]

theorem vals_delRaw (h : Header) (k k' : Bytes) :
    vals (delRaw h k) k' = if k' = k then [] else vals h k' := by
  by_cases hk : k' = k
  · subst hk; simp [vals_delRaw_self]
  · simp [hk, vals_delRaw_ne h hk]

theorem vals_setRaw (h : Header) (k v k' : Bytes) :
    vals (setRaw h k v) k' = if k' = k then [v] else vals h k' := by
  unfold setRaw
  by_cases hk : k' = k
  · subst hk; simp [vals]
  · have : k ≠ k' := fun h' => hk h'.symm
    simp [vals, this, hk, vals_delRaw_ne h hk]

theorem vals_addRaw (h : Header) (k v k' : Bytes) :
    vals (addRaw h k v) k' = if k' = k then vals h k ++ [v] else vals h k' := by
  unfold addRaw
  by_cases hk : k' = k
  · subst hk; simp [vals]
  · have : k ≠ k' := fun h' => hk h'.symm
    simp [vals, this, hk, vals_delRaw_ne h hk]

theorem vals_eq_nil_of_not_mem (h : Header) (k : Bytes) (hk : k ∉ h.map (·.1)) : vals h k = [] := by
  induction h with
  | nil => rfl
  | cons e t ih =>
    simp only [List.map_cons, List.mem_cons, not_or] at hk
    have : e.1 ≠ k := fun h' => hk.1 h'.symm
    simp [vals, this, ih hk.2]

/-! ### `http.Header` level (keys canonicalised) -/

theorem values_del (h : Header) (k k' : Bytes) :
    values (del h k) k' = if canon k' = canon k then [] else values h k' := by
  simp [Header.values, Header.del, vals_delRaw]

theorem values_set (h : Header) (k v k' : Bytes) :
    values (set h k v) k' = if canon k' = canon k then [v] else values h k' := by
  simp [Header.values, Header.set, vals_setRaw]

theorem values_add (h : Header) (k v k' : Bytes) :
    values (add h k v) k' = if canon k' = canon k then values h k ++ [v] else values h k' := by
  simp [Header.values, Header.add, vals_addRaw]

theorem get_del (h : Header) (k k' : Bytes) :
    Header.get (del h k) k' = if canon k' = canon k then [] else Header.get h k' := by
  unfold Header.get; rw [values_del]; split <;> rfl

theorem get_set (h : Header) (k v k' : Bytes) :
    Header.get (Header.set h k v) k' = if canon k' = canon k then v else Header.get h k' := by
  unfold Header.get; rw [values_set]; split <;> rfl

theorem values_foldl_add (vv : List Bytes) (h : Header) (k k' : Bytes) :
    values (vv.foldl (fun h v => add h k v) h) k' =
      if canon k' = canon k then values h k ++ vv else values h k' := by
  induction vv generalizing h with
  | nil => by_cases hk : canon k' = canon k <;> simp [hk, values]
  | cons v t ih =>
    simp only [List.foldl_cons]
    rw [ih, values_add, values_add]
    by_cases hk : canon k' = canon k
    · simp [hk]
    · simp [hk]

theorem values_foldl_del (ks : List Bytes) (h : Header) (k' : Bytes) :
    values (ks.foldl (fun h k => del h k) h) k' =
      if canon k' ∈ ks.map canon then [] else values h k' := by
  induction ks generalizing h with
  | nil => simp
  | cons k t ih =>
    simp only [List.foldl_cons, List.map_cons, List.mem_cons]
    rw [ih, values_del]
    by_cases h1 : canon k' ∈ t.map canon
    · simp [h1]
    · by_cases h2 : canon k' = canon k <;> simp [h1, h2]

/-! ### strings -/

theorem hasSuffix_iff (s p : Bytes) : hasSuffix s p = true ↔ p <:+ s := by
  unfold hasSuffix
  rw [List.isPrefixOf_iff_prefix, List.reverse_prefix]

theorem hasSuffix_append (a p : Bytes) : hasSuffix (a ++ p) p = true :=
  (hasSuffix_iff _ _).2 (List.suffix_append a p)

theorem trimSuffix_append (a p : Bytes) : trimSuffix (a ++ p) p = a := by
  unfold trimSuffix
  rw [hasSuffix_append]
  simp

theorem trimLeft_cons_of_not_mem (c : Bytes) (x : Nat) (t : Bytes) (hx : c.contains x = false) :
    trimLeft c (x :: t) = x :: t := by
  unfold trimLeft; rw [hx]; rfl

theorem trimLeft_cons_of_mem (c : Bytes) (x : Nat) (t : Bytes) (hx : c.contains x = true) :
    trimLeft c (x :: t) = trimLeft c t := by
  conv => lhs; unfold trimLeft
  rw [hx]; rfl

/-- `strings.TrimRight` leaves a string alone that does not end in a cutset byte -/
theorem trimRight_of_getLast (c s : Bytes) (x : Nat) (hx : c.contains x = false) :
    trimRight c (s ++ [x]) = s ++ [x] := by
  unfold trimRight
  rw [List.reverse_append]
  simp only [List.reverse_cons, List.reverse_nil, List.nil_append, List.cons_append]
  rw [trimLeft_cons_of_not_mem c x _ hx]
  simp

theorem trimRight_nil (c : Bytes) : trimRight c [] = [] := rfl

/-- trailing cutset bytes are removed -/
theorem trimRight_append_cut (c s : Bytes) (x : Nat) (hx : c.contains x = true) :
    trimRight c (s ++ [x]) = trimRight c s := by
  unfold trimRight
  rw [List.reverse_append]
  simp only [List.reverse_cons, List.reverse_nil, List.nil_append, List.cons_append]
  rw [trimLeft_cons_of_mem c x _ hx]

theorem trimRight_of_not_mem (c s : Bytes) (h : ∀ x ∈ s, c.contains x = false) : trimRight c s = s := by
  cases hs : s.reverse with
  | nil => have : s = [] := by simpa using hs
           subst this; rfl
  | cons x t =>
    have hs' : s = t.reverse ++ [x] := by
      have := congrArg List.reverse hs
      simpa using this
    rw [hs']
    apply trimRight_of_getLast
    apply h
    rw [hs']; simp

theorem lastIndex_none_of_not_mem (c : Nat) (s : Bytes) (h : c ∉ s) : lastIndex [c] s = none := by
  induction s with
  | nil => rfl
  | cons x t ih =>
    simp only [List.mem_cons, not_or] at h
    unfold lastIndex
    rw [ih h.2]
    have : ([c] : Bytes).isPrefixOf (x :: t) = false := by
      simp [List.isPrefixOf, h.1]
    simp [this]

theorem lastIndex_append_singleton (c : Nat) (s : Bytes) : lastIndex [c] (s ++ [c]) = some s.length := by
  induction s with
  | nil => simp [lastIndex, List.isPrefixOf]
  | cons x t ih =>
    simp only [List.cons_append, List.length_cons]
    unfold lastIndex
    rw [ih]

end HeaderC09
