import RrModel.Key
/-
  Helper lemmas for C11: cancellation for unseparated concatenation, `Header` lookups through
  `delRaw`/`AllowHeaders`, membership in the insertion sort.
-/
namespace Go

theorem lowerByte_upperByte (c : Nat) : lowerByte (upperByte c) = lowerByte c := by
  unfold lowerByte upperByte
  repeat' split
  all_goals omega

theorem lowerByte_lowerByte (c : Nat) : lowerByte (lowerByte c) = lowerByte c := by
  unfold lowerByte
  repeat' split
  all_goals omega

theorem toLower_canonGo (k : Bytes) (up : Bool) : toLower (canonGo k up) = toLower k := by
  induction k generalizing up with
  | nil => rfl
  | cons c t ih =>
    simp only [canonGo, toLower, List.map_cons] at ih ⊢
    cases up
    · simp only [Bool.false_eq_true, ↓reduceIte, lowerByte_lowerByte, ih]
    · simp only [↓reduceIte, lowerByte_upperByte, ih]

/-- canonicalisation only changes the case of a key -/
theorem toLower_canon (k : Bytes) : toLower (canon k) = toLower k := by
  unfold canon
  split
  · exact toLower_canonGo k true
  · rfl

theorem mem_insertSorted (x y : Bytes) (l : List Bytes) : x ∈ insertSorted y l ↔ x = y ∨ x ∈ l := by
  induction l with
  | nil => simp [insertSorted]
  | cons z t ih =>
    unfold insertSorted
    split
    · simp only [List.mem_cons, ih]
      constructor
      · rintro (h | h | h)
        · exact Or.inr (Or.inl h)
        · exact Or.inl h
        · exact Or.inr (Or.inr h)
      · rintro (h | h | h)
        · exact Or.inr (Or.inl h)
        · exact Or.inl h
        · exact Or.inr (Or.inr h)
    · simp only [List.mem_cons]

theorem mem_sortBytes (x : Bytes) (l : List Bytes) : x ∈ sortBytes l ↔ x ∈ l := by
  induction l with
  | nil => simp [sortBytes]
  | cons y t ih =>
    have : sortBytes (y :: t) = insertSorted y (sortBytes t) := rfl
    rw [this, mem_insertSorted, ih, List.mem_cons]

namespace Header

theorem vals_delRaw (h : Header) (k K : Bytes) :
    vals (delRaw h k) K = if k = K then [] else vals h K := by
  induction h with
  | nil => simp [delRaw, vals]
  | cons e t ih =>
    obtain ⟨k', vs⟩ := e
    unfold delRaw at ih ⊢
    by_cases hk : k' = k
    · subst hk
      simp only [List.filter_cons, ne_eq, not_true_eq_false, decide_false, Bool.false_eq_true,
        ↓reduceIte, ih]
      by_cases hK : k' = K
      · simp [hK]
      · simp [hK, vals]
    · simp only [List.filter_cons, ne_eq, hk, not_false_eq_true, decide_true, ↓reduceIte, vals, ih]
      by_cases hK : k = K
      · subst hK; simp [hk]
      · simp [hK]

/-- lookup after a run of `Header.Del` calls -/
theorem vals_foldl_del (ks : List Bytes) (h : Header) (K : Bytes) :
    vals (ks.foldl (fun out k => del out k) h) K = if K ∈ ks.map canon then [] else vals h K := by
  induction ks generalizing h with
  | nil => simp
  | cons k t ih =>
    simp only [List.foldl_cons, List.map_cons, List.mem_cons]
    rw [ih, del, vals_delRaw]
    by_cases h1 : K ∈ t.map canon
    · simp [h1]
    · by_cases h2 : canon k = K
      · simp [h2]
      · have h3 : ¬ K = canon k := fun e => h2 e.symm
        simp [h1, h2, h3]

end Header
end Go

namespace Model
open Go

theorem mem_mapKeys (h : Header) (K : Bytes) : K ∈ mapKeys h ↔ K ∈ h.map (·.1) := by
  induction h generalizing K with
  | nil => simp [mapKeys]
  | cons e t ih =>
    obtain ⟨k, vs⟩ := e
    simp only [mapKeys, List.map_cons, List.mem_cons]
    split
    · rename_i hc
      have hk : k ∈ mapKeys t := by simpa using hc
      rw [ih]
      constructor
      · exact Or.inr
      · rintro (h1 | h1)
        · rw [h1]; exact (ih k).1 hk
        · exact h1
    · simp only [List.mem_cons, ih]

theorem vals_eq_nil_of_not_mem (h : Header) (K : Bytes) (hn : K ∉ mapKeys h) : Header.vals h K = [] := by
  rw [mem_mapKeys] at hn
  induction h with
  | nil => rfl
  | cons e t ih =>
    obtain ⟨k, vs⟩ := e
    simp only [List.map_cons, List.mem_cons, not_or] at hn
    have hk : ¬ k = K := fun e => hn.1 e.symm
    simp only [Header.vals, hk, ↓reduceIte]
    exact ih hn.2

/-- `AllowHeaders` keeps every value of a header whose lower-cased name is allowed -/
theorem vals_allowHeaders_allowed (h : Header) (allow : List Bytes) (K : Bytes)
    (hK : toLower K ∈ allow) : Header.vals (allowHeaders h allow) K = Header.vals h K := by
  unfold allowHeaders
  rw [Header.vals_foldl_del]
  have : ¬ K ∈ ((mapKeys h).filter fun k => !(allow.contains (toLower k))).map canon := by
    intro hm
    obtain ⟨k, hk, hck⟩ := List.mem_map.1 hm
    have hk2 := (List.mem_filter.1 hk).2
    have : toLower k ∈ allow := by rw [← toLower_canon k, hck]; exact hK
    simp [this] at hk2
  rw [if_neg this]

/-- `AllowHeaders` leaves nothing under a canonical name that is not allowed -/
theorem vals_allowHeaders_denied (h : Header) (allow : List Bytes) (K : Bytes)
    (hc : canon K = K) (hK : toLower K ∉ allow) : Header.vals (allowHeaders h allow) K = [] := by
  unfold allowHeaders
  rw [Header.vals_foldl_del]
  split
  · rfl
  · rename_i hn
    apply vals_eq_nil_of_not_mem
    intro hm
    apply hn
    refine List.mem_map.2 ⟨K, List.mem_filter.2 ⟨hm, ?_⟩, hc⟩
    simp [hK]

/-- the stored header map in canonical order determines every lookup -/
theorem vals_of_storedNormal_eq (h1 h2 : Header) (e : storedNormal h1 = storedNormal h2) (K : Bytes) :
    Header.vals h1 K = Header.vals h2 K := by
  have key : ∀ (g1 g2 : Header), storedNormal g1 = storedNormal g2 → K ∈ mapKeys g1 →
      K ∈ mapKeys g2 ∧ Header.vals g1 K = Header.vals g2 K := by
    intro g1 g2 e hm
    have hmem : (K, Header.vals g1 K) ∈ storedNormal g1 :=
      List.mem_map.2 ⟨K, (mem_sortBytes _ _).2 hm, rfl⟩
    rw [e] at hmem
    obtain ⟨k', hk', he⟩ := List.mem_map.1 hmem
    simp only [Prod.mk.injEq] at he
    obtain ⟨rfl, hv⟩ := he
    exact ⟨(mem_sortBytes _ _).1 hk', hv.symm⟩
  by_cases hm : K ∈ mapKeys h1
  · exact (key h1 h2 e hm).2
  · by_cases hm2 : K ∈ mapKeys h2
    · exact absurd (key h2 h1 e.symm hm2).1 hm
    · rw [vals_eq_nil_of_not_mem h1 K hm, vals_eq_nil_of_not_mem h2 K hm2]

/-! ### cancellation for unseparated concatenation -/

/-- values of known lengths can be cut out of a concatenation -/
theorem flatten_append_inj (vs ws : List Bytes) (x y : Bytes)
    (hl : vs.map List.length = ws.map List.length) (he : vs.flatten ++ x = ws.flatten ++ y) :
    vs = ws ∧ x = y := by
  induction vs generalizing ws with
  | nil =>
    cases ws with
    | nil => exact ⟨rfl, by simpa using he⟩
    | cons w ws => simp at hl
  | cons v vs ih =>
    cases ws with
    | nil => simp at hl
    | cons w ws =>
      simp only [List.map_cons, List.cons.injEq] at hl
      simp only [List.flatten_cons, List.append_assoc] at he
      obtain ⟨h1, h2⟩ := List.append_inj he hl.1
      obtain ⟨h3, h4⟩ := ih ws hl.2 h2
      exact ⟨by rw [h1, h3], h4⟩

/-- header entries of known shape can be cut out of a concatenation -/
theorem entriesString_append_inj (es fs : List (Bytes × List Bytes)) (x y : Bytes)
    (hl : es.map entryShape = fs.map entryShape) (he : entriesString es ++ x = entriesString fs ++ y) :
    es = fs ∧ x = y := by
  induction es generalizing fs with
  | nil =>
    cases fs with
    | nil => exact ⟨rfl, by simpa [entriesString] using he⟩
    | cons f fs => simp at hl
  | cons e es ih =>
    cases fs with
    | nil => simp at hl
    | cons f fs =>
      obtain ⟨k, vs⟩ := e
      obtain ⟨k', ws⟩ := f
      simp only [List.map_cons, List.cons.injEq, entryShape, Prod.mk.injEq] at hl
      simp only [entriesString, List.append_assoc] at he
      obtain ⟨h1, h2⟩ := List.append_inj he hl.1.1
      obtain ⟨h3, h4⟩ := flatten_append_inj vs ws _ _ hl.1.2 h2
      obtain ⟨h5, h6⟩ := ih fs hl.2 h4
      exact ⟨by rw [h1, h3, h5], h6⟩

theorem opaqueMarker_inj (o1 o2 : Bool) (h : opaqueMarker o1 = opaqueMarker o2) : o1 = o2 := by
  cases o1 <;> cases o2 <;> simp [opaqueMarker] at h ⊢

end Model

/-! ### `?` never occurs in the path part of a request-target -/
namespace Go.UrlEsc
open Go.Url

theorem upperHexDigit_ne (n : Nat) : upperHexDigit n ≠ 63 := by
  unfold upperHexDigit
  split <;> omega

theorem not_mem_escapePath (s : Bytes) : 63 ∉ escapePath s := by
  unfold escapePath
  intro h
  obtain ⟨c, _, hc⟩ := List.mem_flatMap.1 h
  split at hc
  · simp only [List.mem_cons, List.not_mem_nil, or_false] at hc
    rcases hc with hc | hc | hc
    · omega
    · exact upperHexDigit_ne _ hc.symm
    · exact upperHexDigit_ne _ hc.symm
  · rename_i hne
    simp only [List.mem_cons, List.not_mem_nil, or_false] at hc
    subst hc
    exact hne (by decide)

theorem not_mem_of_validEncodedPath (s : Bytes) (h : validEncodedPath s = true) : 63 ∉ s := by
  intro hm
  unfold validEncodedPath at h
  have := (List.all_eq_true.1 h) 63 hm
  revert this
  decide

theorem not_mem_escapedPath (s p : Bytes) (h : escapedPath s = some p) : 63 ∉ p := by
  unfold escapedPath at h
  split at h
  · simp at h
  · rename_i path _
    simp only at h
    split at h
    · rename_i he
      simp only [Option.some.injEq] at h
      subst h
      rw [he]; exact not_mem_escapePath _
    · split at h
      · rename_i hv
        simp only [Option.some.injEq] at h
        subst h
        exact not_mem_of_validEncodedPath _ hv
      · split at h
        · simp only [Option.some.injEq] at h
          subst h; decide
        · simp only [Option.some.injEq] at h
          subst h; exact not_mem_escapePath _

theorem not_mem_wirePath (p : Bytes) (h : 63 ∉ p) : 63 ∉ wirePath p := by
  unfold wirePath
  split
  · decide
  · exact h

/-- a request-target is cut unambiguously at its first `?` -/
theorem append_cut (p1 p2 s1 s2 : Bytes) (h1 : 63 ∉ p1) (h2 : 63 ∉ p2)
    (hs1 : s1 = [] ∨ s1.head? = some 63) (hs2 : s2 = [] ∨ s2.head? = some 63)
    (he : p1 ++ s1 = p2 ++ s2) : p1 = p2 ∧ s1 = s2 := by
  induction p1 generalizing p2 with
  | nil =>
    cases p2 with
    | nil => exact ⟨rfl, by simpa using he⟩
    | cons c t =>
      exfalso
      simp only [List.nil_append, List.cons_append] at he
      rcases hs1 with hs1 | hs1
      · rw [hs1] at he; simp at he
      · rw [he] at hs1
        simp only [List.head?_cons, Option.some.injEq] at hs1
        exact h2 (by rw [hs1]; exact List.mem_cons_self)
  | cons c t ih =>
    cases p2 with
    | nil =>
      exfalso
      simp only [List.nil_append, List.cons_append] at he
      rcases hs2 with hs2 | hs2
      · rw [hs2] at he; simp at he
      · rw [← he] at hs2
        simp only [List.head?_cons, Option.some.injEq] at hs2
        exact h1 (by rw [hs2]; exact List.mem_cons_self)
    | cons d t2 =>
      simp only [List.cons_append, List.cons.injEq] at he
      obtain ⟨e1, e2⟩ := ih t2 (fun h => h1 (List.mem_cons_of_mem _ h))
        (fun h => h2 (List.mem_cons_of_mem _ h)) he.2
      exact ⟨by rw [he.1, e1], e2⟩

theorem querySuffix_shape (u : Split) : querySuffix u = [] ∨ (querySuffix u).head? = some 63 := by
  unfold querySuffix
  split
  · exact Or.inr rfl
  · exact Or.inl rfl

/-- the `?query` suffix determines the raw query -/
theorem rawQuery_of_querySuffix (u v : Split) (h : querySuffix u = querySuffix v) :
    u.rawQuery = v.rawQuery := by
  unfold querySuffix at h
  split at h <;> split at h
  · simpa using h
  · simp at h
  · simp at h
  · rename_i h1 h2
    have e1 : u.rawQuery = [] := by
      cases hq : u.rawQuery with
      | nil => rfl
      | cons c t => exact absurd (Or.inr (by simp [hq])) h1
    have e2 : v.rawQuery = [] := by
      cases hq : v.rawQuery with
      | nil => rfl
      | cons c t => exact absurd (Or.inr (by simp [hq])) h2
    rw [e1, e2]

end Go.UrlEsc
