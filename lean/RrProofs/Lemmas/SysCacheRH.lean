import RrModel.SysCacheRH
import RrProofs.Props.SysCache
import RrProofs.Lemmas.CopyHeaders
/-
  Helper lemmas for `Props.SysCacheRHLift`: the wrapper structure of `Model.SysCacheRH`, row by row.

  `stepOnceRH cfg rh … ai …` is, for EVERY `rh`,
    (A) the base step with `ai` itself            — only when the lookup is the `f:304` row (which returns before the
                                                    rule's headers are put into alwaysInclude), or
    (B) the base step with `applyRH rh ai`        — every other row (the uncached row `u:pass` included: it sets
                                                    `(applyRH rh ai).set kStatus "pass"`, which is the base row at
                                                    `applyRH rh ai`), or
    (C) the answer `w:uncacheable-rule` (`ruleAnswer`) — the repair's branch, taken exactly when the rule forbids storing,
                                                    the origin's answer does not, no early 416, and the answer is not the
                                                    304 that confirms the entry the cache asked about.
  (`afterAnswerRH_eq`, `writerRowRH_eq`, `stepOnceRH_eq`.)

  Plus the list lemmas about `applyRH` (`Header.set` folded over the rule's pairs) and what `clearAndCopyHeaders` does
  with a name alwaysInclude carries (`values_copyHeaders_ai`).
-/
namespace Lemmas.SysCacheRH
open Go Model Model.SysCache Model.SysCacheRH

/-- the answer of the repair's branch `w:uncacheable-rule`: plain stack, the disk as the lookup left it -/
def ruleAnswer (cfg : Config) (d : Disk) (resp : Resp) (ai' : Header) (so : Option Nat) (cs : List Contact) : Step :=
  .done { disk := d, out := plainOut cfg resp (ai'.set kStatus b!"uncacheable") so, contacts := cs, label := "w:uncacheable-rule" }

/-- when the repair's branch is taken, in terms of the origin's answer -/
def RuleBranch (rh : List (Bytes × Bytes)) (rr : Option Range.ReqRange) (ai : Header) (sg : Conditional.Surgery) (resp : Resp) : Prop :=
  ruleForbids rh = true ∧ (rangeAdjust rr resp ai).1 = none ∧
    (getCacheControlDirectives resp.header).doNotCache = false ∧ ¬ (sg.used.length > 0 ∧ resp.status = 304)

theorem afterAnswerRH_eq (cfg : Config) (rh : List (Bytes × Bytes)) (now : Int) (keys : List Key) (rr : Option Range.ReqRange)
    (d : Disk) (ai : Header) (cs : List Contact) (reval : Option (Key × Stored × Int)) (w : Writer)
    (sg : Conditional.Surgery) (resp : Resp) :
    afterAnswerRH cfg rh now keys rr d ai cs reval w sg resp = afterAnswer cfg now keys rr d ai cs reval w sg resp ∨
    (RuleBranch rh rr ai sg resp ∧
      afterAnswerRH cfg rh now keys rr d ai cs reval w sg resp =
        ruleAnswer cfg d resp (rangeAdjust rr resp ai).2.2 (rangeAdjust rr resp ai).2.1 cs) := by
  unfold afterAnswerRH RuleBranch
  generalize rangeAdjust rr resp ai = ra
  rcases ra with ⟨_ | s2, so, ai'⟩
  · dsimp only
    split
    · exact Or.inl rfl
    · rename_i h304
      split
      · rename_i hb
        refine Or.inr ⟨⟨hb.2, rfl, by simpa using hb.1, ?_⟩, rfl⟩
        intro hc
        exact h304 ⟨hc.1, hc.2, hb.1⟩
      · exact Or.inl rfl
  · exact Or.inl rfl

theorem writerRowRH_eq (cfg : Config) (rh : List (Bytes × Bytes)) (origin : Bytes → Option Origin) (now : Int) (req : Request)
    (keys : List Key) (rr : Option Range.ReqRange) (d : Disk) (client ai : Header) (cs : List Contact)
    (reval : Option (Key × Stored × Int)) :
    writerRowRH cfg rh origin now req keys rr d client ai cs reval = writerRow cfg origin now req keys rr d client ai cs reval ∨
    (∃ resp, ask cfg origin req cs (surgeryOf rr client reval).req = some resp ∧
      RuleBranch rh rr ai (surgeryOf rr client reval) resp ∧
      writerRowRH cfg rh origin now req keys rr d client ai cs reval =
        ruleAnswer cfg d resp (rangeAdjust rr resp ai).2.2 (rangeAdjust rr resp ai).2.1
          (logged cfg cs (surgeryOf rr client reval).req)) := by
  unfold writerRowRH writerRow
  dsimp only
  cases hask : ask cfg origin req cs (surgeryOf rr client reval).req with
  | none => exact Or.inl rfl
  | some resp =>
    dsimp only
    rcases afterAnswerRH_eq cfg rh now keys rr d ai (logged cfg cs (surgeryOf rr client reval).req) reval
        (writerOf keys client reval) (surgeryOf rr client reval) resp with e | ⟨hb, e⟩
    · exact Or.inl e
    · exact Or.inr ⟨resp, rfl, hb, e⟩

/-- a method other than GET/HEAD: the uncached row of the base model at `applyRH rh ai` -/
theorem stepOnceRH_other_methods (cfg : Config) (rh : List (Bytes × Bytes)) (origin : Bytes → Option Origin) (now : Int)
    (req : Request) (hm : req.method ≠ b!"GET" ∧ req.method ≠ b!"HEAD")
    (d : Disk) (client ai : Header) (skip : Bool) (cs : List Contact) :
    stepOnceRH cfg rh origin now req d client ai skip cs = stepOnce cfg origin now req d client (applyRH rh ai) skip cs := by
  unfold stepOnceRH stepOnce
  rw [if_pos hm, if_pos hm]
  cases ask cfg origin req cs client <;> rfl

/-- GET/HEAD: the wrapper's step read off the lookup -/
theorem stepOnceRH_get (cfg : Config) (rh : List (Bytes × Bytes)) (origin : Bytes → Option Origin) (now : Int)
    (req : Request) (hm : ¬ (req.method ≠ b!"GET" ∧ req.method ≠ b!"HEAD"))
    (d : Disk) (client ai : Header) (skip : Bool) (cs : List Contact) :
    stepOnceRH cfg rh origin now req d client ai skip cs =
      match lookup cfg now (keysOf cfg req client) d client skip with
      | (_, .notModified _) => stepOnce cfg origin now req d client ai skip cs
      | (d1, .writer reval) =>
        writerRowRH cfg rh origin now req (keysOf cfg req client) (Range.getRange client) d1 client (applyRH rh ai) cs reval
      | _ => stepOnce cfg origin now req d client (applyRH rh ai) skip cs := by
  unfold stepOnceRH stepOnce
  rw [if_neg hm, if_neg hm, if_neg hm]
  dsimp only
  generalize lookup cfg now (keysOf cfg req client) d client skip = r
  rcases r with ⟨d1, l⟩
  cases l <;> rfl

theorem stepOnce_get_writer {cfg : Config} {origin : Bytes → Option Origin} {now : Int}
    {req : Request} (hm : ¬ (req.method ≠ b!"GET" ∧ req.method ≠ b!"HEAD"))
    {d d1 : Disk} {client : Header} (ai : Header) {skip : Bool} (cs : List Contact) {reval : Option (Key × Stored × Int)}
    (hl : lookup cfg now (keysOf cfg req client) d client skip = (d1, .writer reval)) :
    stepOnce cfg origin now req d client ai skip cs =
      writerRow cfg origin now req (keysOf cfg req client) (Range.getRange client) d1 client ai cs reval := by
  unfold stepOnce
  rw [if_neg hm]
  dsimp only
  rw [hl]

/-- **the characterisation**: one activation of the wrapper is (A) the base activation with `ai` (lookup `notModified`,
    the row `f:304`), or (B) the base activation with `applyRH rh ai`, or (C) the answer `w:uncacheable-rule` of a writer
    row (GET/HEAD, lookup `writer`, the origin answered, `RuleBranch`). -/
theorem stepOnceRH_eq (cfg : Config) (rh : List (Bytes × Bytes)) (origin : Bytes → Option Origin) (now : Int)
    (req : Request) (d : Disk) (client ai : Header) (skip : Bool) (cs : List Contact) :
    (¬ (req.method ≠ b!"GET" ∧ req.method ≠ b!"HEAD") ∧
      (∃ d1 s, lookup cfg now (keysOf cfg req client) d client skip = (d1, .notModified s)) ∧
      stepOnceRH cfg rh origin now req d client ai skip cs = stepOnce cfg origin now req d client ai skip cs) ∨
    stepOnceRH cfg rh origin now req d client ai skip cs = stepOnce cfg origin now req d client (applyRH rh ai) skip cs ∨
    (¬ (req.method ≠ b!"GET" ∧ req.method ≠ b!"HEAD") ∧
      ∃ d1 reval resp, lookup cfg now (keysOf cfg req client) d client skip = (d1, .writer reval) ∧
        ask cfg origin req cs (surgeryOf (Range.getRange client) client reval).req = some resp ∧
        RuleBranch rh (Range.getRange client) (applyRH rh ai) (surgeryOf (Range.getRange client) client reval) resp ∧
        stepOnceRH cfg rh origin now req d client ai skip cs =
          ruleAnswer cfg d1 resp (rangeAdjust (Range.getRange client) resp (applyRH rh ai)).2.2
            (rangeAdjust (Range.getRange client) resp (applyRH rh ai)).2.1
            (logged cfg cs (surgeryOf (Range.getRange client) client reval).req)) := by
  by_cases hm : req.method ≠ b!"GET" ∧ req.method ≠ b!"HEAD"
  · exact Or.inr (Or.inl (stepOnceRH_other_methods cfg rh origin now req hm d client ai skip cs))
  · rw [stepOnceRH_get cfg rh origin now req hm]
    cases hl : lookup cfg now (keysOf cfg req client) d client skip with
    | mk d1 l =>
      cases l with
      | panic => exact Or.inr (Or.inl rfl)
      | notModified s => exact Or.inl ⟨hm, ⟨d1, s, rfl⟩, rfl⟩
      | serve s age stale => exact Or.inr (Or.inl rfl)
      | writer reval =>
        dsimp only
        rw [stepOnce_get_writer hm (applyRH rh ai) cs hl]
        rcases writerRowRH_eq cfg rh origin now req (keysOf cfg req client) (Range.getRange client) d1 client
            (applyRH rh ai) cs reval with e | ⟨resp, hask, hb, e⟩
        · exact Or.inr (Or.inl e)
        · exact Or.inr (Or.inr ⟨hm, d1, reval, resp, rfl, hask, hb, e⟩)

/-! ### `applyRH`: `Header.set` folded over the rule's pairs -/

theorem applyRH_cons (kv : Bytes × Bytes) (rh : List (Bytes × Bytes)) (ai : Header) :
    applyRH (kv :: rh) ai = applyRH rh (ai.set kv.1 kv.2) := rfl

theorem applyRH_append (a b : List (Bytes × Bytes)) (ai : Header) :
    applyRH (a ++ b) ai = applyRH b (applyRH a ai) := by
  unfold applyRH; rw [List.foldl_append]

theorem normal_applyRH (rh : List (Bytes × Bytes)) {ai : Header} (hn : Normal ai) : Normal (applyRH rh ai) := by
  induction rh generalizing ai with
  | nil => exact hn
  | cons kv t ih => rw [applyRH_cons]; exact ih (hn.set _ _)

/-- a name none of the rule's pairs canonicalises to keeps its values -/
theorem values_applyRH_ne (rh : List (Bytes × Bytes)) (ai : Header) (k : Bytes)
    (h : ∀ kv ∈ rh, canon kv.1 ≠ canon k) : (applyRH rh ai).values k = ai.values k := by
  induction rh generalizing ai with
  | nil => rfl
  | cons kv t ih =>
    rw [applyRH_cons, ih _ (fun kv' h' => h kv' (List.mem_cons_of_mem _ h')), Header.values_set,
      if_neg (h kv (by simp))]

/-- the LAST pair of the rule with a given canonical name decides the value alwaysInclude carries under it -/
theorem values_applyRH_last (pre post : List (Bytes × Bytes)) (k v : Bytes) (ai : Header)
    (hpost : ∀ kv ∈ post, canon kv.1 ≠ canon k) :
    (applyRH (pre ++ (k, v) :: post) ai).values k = [v] := by
  rw [applyRH_append, applyRH_cons, values_applyRH_ne _ _ _ hpost, Header.values_set, if_pos rfl]

/-! ### `clearAndCopyHeaders` under a name alwaysInclude carries -/

open Model.Conditional in
/-- the alwaysInclude loop of `clearAndCopyHeaders`: an entry of a `Normal` alwaysInclude map with exactly one value
    REPLACES whatever the origin's lines said under that name -/
theorem vals_foldl_ai_eq (ai h0 : Header) (c v : Bytes) (hn : Normal ai) (hv : Header.vals ai c = [v]) :
    Header.vals (ai.foldl (fun h e => e.2.foldl (fun h v => h.set e.1 v) h) h0) c = [v] := by
  induction ai generalizing h0 with
  | nil => simp at hv
  | cons e t ih =>
    obtain ⟨k', vs⟩ := e
    have hnt : Normal t := ⟨(List.nodup_cons.1 hn.1).2, fun a ha => hn.2 a (List.mem_cons_of_mem _ ha)⟩
    rw [List.foldl_cons]
    rw [Header.vals_cons] at hv
    by_cases hk : k' = c
    · rw [if_pos hk] at hv
      subst hv
      have hcan : canon k' = k' := hn.2 k' (by simp [Header.rawKeys])
      have hnot : c ∉ Header.rawKeys t := by
        rw [← hk]; exact (List.nodup_cons.1 hn.1).1
      rw [vals_foldl_ai_ne t _ c]
      · dsimp only [List.foldl]
        unfold Header.set
        rw [Header.vals_setRaw, if_pos (by rw [hcan, hk])]
      · intro e he hce
        exfalso
        apply hnot
        have : canon e.1 = e.1 := hnt.2 e.1 (List.mem_map.2 ⟨e, he, rfl⟩)
        rw [← hce, this]
        exact List.mem_map.2 ⟨e, he, rfl⟩
    · rw [if_neg hk] at hv
      exact ih _ hnt hv

theorem values_copyHeaders_ai (o : Header) {ai : Header} (hn : Normal ai) (k v : Bytes) (hv : ai.values k = [v]) :
    (Conditional.copyHeaders o ai).values k = [v] := by
  unfold Conditional.copyHeaders Header.values
  exact vals_foldl_ai_eq ai _ (canon k) v hn hv

end Lemmas.SysCacheRH
