import RrModel.Conc
import RrProofs.Lemmas.Conc
/-
  C07 on the interleaving model `Model.Conc`: the writer streams the body of the version whose
  headers it sent, in every schedule without entry expiry and without a stale release.

  `StepA s a s'` refines `Lemmas.Conc.Step`: it records the acting `Actor` (so that schedules without
  `.expire` can be singled out) and, for the lock takers, how the `reval` flag and the file state
  relate (`Step.takeLock` forgets both).
-/
namespace Model.Conc

/-- before the origin answered: no fetched version, nothing at the client -/
def Pc.pre : Pc → Bool
  | .start | .lookedUp _ | .waiting | .route _ => true
  | _ => false

/-- the revalidation flag of the program counter is off -/
def Pc.noReval : Pc → Bool
  | .lookedUp r | .route r | .whCreate r | .write r | .close r _ => !r
  | _ => true

/-- lock taken as a filling writer, file not yet created: the entry's name is free -/
def Pc.needAbsent : Pc → Bool
  | .route _ | .whCreate _ => true
  | _ => false

/-- published the whole body, about to stream it from the re-opened path -/
def Pc.rd : Pc → Bool
  | .notify k => k == 0
  | .sendBody => true
  | _ => false

/-- published a truncated body, about to delete it -/
def Pc.cl : Pc → Bool
  | .notify k => k == 1
  | .cleanup => true
  | _ => false

end Model.Conc

namespace Lemmas.ConcTorn
open Model.Conc Lemmas.Conc

/-- the thread may run `getReaderOrWriter` with flag `reval` -/
def LookAs (s : Sys) (i : Nat) (reval : Bool) : Prop :=
  (s.threads i).pc = .lookedUp reval ∨
  ((s.threads i).pc = .waiting ∧ (s.threads i).woken = true ∧
    (reval = true → ∃ v w, s.file = .published v w false))

/-- leaf transitions of `step` with the acting actor, result states explicit -/
inductive StepA (s : Sys) : Actor → Sys → Prop where
  | startAbsent (i : Nat) (hi : i < s.n) (hc : CanGet s i) (w : Bool) (hf : s.file = .absent) :
      StepA s (.thread i) { s with threads := setT s.threads i { s.threads i with pc := .lookedUp false, woken := w } }
  | startUnpub (i : Nat) (hi : i < s.n) (hc : CanGet s i) (w : Bool) (hf : s.file = .unpublished) :
      StepA s (.thread i) { s with
        file := .absent, liveRemovals := s.liveRemovals + (if (List.range s.n).any (fun j => decide (j ≠ i) && (s.threads j).ownsFile) then 1 else 0), threads := fun j =>
          let u := if j = i then { s.threads i with pc := .lookedUp false, woken := w } else s.threads j
          if u.ownsFile ∧ j ≠ i then { u with fileLost := true } else u }
  | startFresh (i : Nat) (hi : i < s.n) (hc : CanGet s i) (w : Bool) (v : Nat) (whole : Bool)
      (hf : s.file = .published v whole true) :
      StepA s (.thread i) { s with threads := setT s.threads i { s.threads i with pc := .done, woken := w, view := if whole then .complete v false else .truncated v } }
  | startStale (i : Nat) (hi : i < s.n) (hc : CanGet s i) (w : Bool) (v : Nat) (whole : Bool)
      (hf : s.file = .published v whole false) :
      StepA s (.thread i) { s with threads := setT s.threads i { s.threads i with pc := .lookedUp true, woken := w } }
  | lateWriter (i : Nat) (hi : i < s.n) (hc : LookAs s i false) (w : Bool) (hl : s.lock = none) (hf : s.file ≠ .absent) :
      StepA s (.thread i) { s with lock := some [], holder := some i, lateWriters := s.lateWriters + 1, threads := setT s.threads i { s.threads i with pc := .notify 3, woken := w, view := .error 500 } }
  | takeLock (i : Nat) (hi : i < s.n) (w : Bool) (reval : Bool) (hc : LookAs s i reval) (hl : s.lock = none)
      (hf : s.file = .absent ∨ reval = true) :
      StepA s (.thread i) { s with lock := some [], holder := some i, threads := setT s.threads i { s.threads i with pc := .route reval, woken := w } }
  | enqueue (i : Nat) (hi : i < s.n) (reval : Bool) (hc : LookAs s i reval) (ws : List Nat) (hl : s.lock = some ws) :
      StepA s (.thread i) { s with lock := some (ws ++ [i]), threads := setT s.threads i { s.threads i with pc := .waiting, woken := false } }
  | routeConnErr (i : Nat) (hi : i < s.n) (reval : Bool) (hpc : (s.threads i).pc = .route reval)
      (hf : (s.threads i).fault = .connectErr) :
      StepA s (.thread i) { s with threads := setT s.threads i { s.threads i with pc := .notify 3, view := .error 502 } }
  | routeUncache (i : Nat) (hi : i < s.n) (reval : Bool) (hpc : (s.threads i).pc = .route reval)
      (hf : (s.threads i).fault = .uncacheable) :
      StepA s (.thread i) (bumpFetch { s with threads := setT s.threads i { s.threads i with pc := .notify 2, ver := s.originVersion, fetching := false, view := .complete s.originVersion false } })
  | routeFetch (i : Nat) (hi : i < s.n) (reval : Bool) (hpc : (s.threads i).pc = .route reval)
      (hf1 : (s.threads i).fault ≠ .connectErr) (hf2 : (s.threads i).fault ≠ .uncacheable) :
      StepA s (.thread i) (bumpFetch { s with threads := setT s.threads i { s.threads i with pc := .whCreate reval, ver := s.originVersion, fetching := true } })
  | whReval (i : Nat) (hi : i < s.n) (hpc : (s.threads i).pc = .whCreate true) :
      StepA s (.thread i) { s with tmp := true, threads := setT s.threads i { s.threads i with pc := .write true, view := .headers (s.threads i).ver } }
  | whCreateFile (i : Nat) (hi : i < s.n) (hpc : (s.threads i).pc = .whCreate false) (hf : s.file = .absent) :
      StepA s (.thread i) { s with file := .unpublished, threads := setT s.threads i { s.threads i with pc := .write false, view := .headers (s.threads i).ver, ownsFile := true } }
  | whTmp (i : Nat) (hi : i < s.n) (hpc : (s.threads i).pc = .whCreate false) (hf : s.file ≠ .absent) :
      StepA s (.thread i) { s with tmp := true, threads := setT s.threads i { s.threads i with pc := .write true, view := .headers (s.threads i).ver } }
  | write (i : Nat) (hi : i < s.n) (reval : Bool) (hpc : (s.threads i).pc = .write reval) :
      StepA s (.thread i) { s with threads := setT s.threads i { s.threads i with pc := .close reval (decide ((s.threads i).fault = .readErr)), fetching := false } }
  | closeRevalOk (i : Nat) (hi : i < s.n) (rf : Bool) (hpc : (s.threads i).pc = .close true rf) (ht : s.tmp = true) :
      StepA s (.thread i) { s with tmp := false, file := .published (s.threads i).ver (!rf) true, threads := setT s.threads i { s.threads i with pc := .notify (if rf then 1 else 0) } }
  | closeRevalLost (i : Nat) (hi : i < s.n) (rf : Bool) (hpc : (s.threads i).pc = .close true rf) (ht : s.tmp = false) :
      StepA s (.thread i) { s with threads := setT s.threads i { s.threads i with pc := .notify 3 } }
  | closeLost (i : Nat) (hi : i < s.n) (rf : Bool) (hpc : (s.threads i).pc = .close false rf)
      (hl : (s.threads i).fileLost = true) :
      StepA s (.thread i) { s with threads := setT s.threads i { s.threads i with pc := .notify 3, ownsFile := false } }
  | closePub (i : Nat) (hi : i < s.n) (rf : Bool) (hpc : (s.threads i).pc = .close false rf)
      (hl : (s.threads i).fileLost = false) :
      StepA s (.thread i) { s with file := .published (s.threads i).ver (!rf) true, threads := setT s.threads i { s.threads i with pc := .notify (if rf then 1 else 0), ownsFile := false } }
  | notify (i : Nat) (hi : i < s.n) (k : Nat) (hpc : (s.threads i).pc = .notify k) (hn : s.notifier = .idle)
      (p' : Pc)
      (hp : (k = 0 ∧ p' = .sendBody) ∨ (k = 1 ∧ p' = .cleanup) ∨ (k = 2 ∧ p' = .notify 3) ∨ (3 ≤ k ∧ p' = .done)) :
      StepA s (.thread i) { s with notifier := .got i, threads := setT s.threads i { s.threads i with pc := p' } }
  | sendPub (i : Nat) (hi : i < s.n) (hpc : (s.threads i).pc = .sendBody) (v : Nat) (whole fr : Bool)
      (hf : s.file = .published v whole fr) :
      StepA s (.thread i) { s with threads := setT s.threads i { s.threads i with pc := .notify 3, view := if whole then .complete v false else .truncated v } }
  | sendNone (i : Nat) (hi : i < s.n) (hpc : (s.threads i).pc = .sendBody) (hf : s.file.isPub = false) :
      StepA s (.thread i) { s with threads := setT s.threads i { s.threads i with pc := .notify 3 } }
  | cleanup (i : Nat) (hi : i < s.n) (hpc : (s.threads i).pc = .cleanup) :
      StepA s (.thread i) { s with file := .absent, threads := setT s.threads i { s.threads i with pc := .notify 3 } }
  | waitDone (i : Nat) (hi : i < s.n) (hpc : (s.threads i).pc = .waiting) (hw : (s.threads i).woken = true)
      (v : Nat) (whole fresh : Bool) (hf : s.file = .published v whole fresh) :
      StepA s (.thread i) { s with threads := setT s.threads i { s.threads i with pc := .done, view := if whole then .complete v (!fresh) else .truncated v } }
  | notifier (sender : Nat) (hn : s.notifier = .got sender) :
      StepA s .notifier { s with notifier := .idle, lock := none, holder := none, staleReleases := s.staleReleases + (match s.holder with | some h => if h = sender then 0 else 1 | none => 0), threads := fun j => if (s.lock.getD []).contains j then { s.threads j with woken := true }
                                          else s.threads j }
  | expire (v : Nat) (whole : Bool) (hf : s.file = .published v whole true) :
      StepA s .expire { s with file := .published v whole false }
  | originChange : StepA s .originChange { s with originVersion := s.originVersion + 1 }

theorem stepStartA_sound (s : Sys) (i : Nat) (hi : i < s.n) (hc : CanGet s i) (p : Pc) (w : Bool) :
    StepA s (.thread i) (stepStart s i { s.threads i with pc := p, woken := w }) := by
  unfold stepStart
  split
  · next hf => exact StepA.startAbsent i hi hc w hf
  · next hf => exact StepA.startUnpub i hi hc w hf
  · next v whole fresh hf =>
    cases fresh with
    | true => exact StepA.startFresh i hi hc w v whole hf
    | false => exact StepA.startStale i hi hc w v whole hf

theorem stepLookedUpA_sound (s : Sys) (i : Nat) (hi : i < s.n) (p : Pc) (w : Bool) (reval : Bool)
    (hc : LookAs s i reval) :
    StepA s (.thread i) (stepLookedUp s i { s.threads i with pc := p, woken := w } reval) := by
  unfold stepLookedUp
  split
  · next hl =>
    split
    · next h =>
      have hr : reval = false := by simpa using h.2
      subst hr
      exact StepA.lateWriter i hi hc w hl h.1
    · next h =>
      refine StepA.takeLock i hi w reval hc hl ?_
      cases reval with
      | true => exact Or.inr rfl
      | false =>
        refine Or.inl ?_
        cases hf : s.file with
        | absent => rfl
        | _ => exact absurd ⟨by simp [hf], by simp⟩ h
  · next ws hl => exact StepA.enqueue i hi reval hc ws hl

theorem stepThreadA_sound (s s' : Sys) (i : Nat) (h : stepThread s i = some s') : StepA s (.thread i) s' := by
  unfold stepThread at h
  simp only at h
  split at h
  · cases h
  next hi =>
  have hi : i < s.n := by omega
  split at h
  · next hpc =>
    cases h
    exact stepStartA_sound s i hi (Or.inl hpc) (s.threads i).pc (s.threads i).woken
  · next reval hpc =>
    cases h
    exact stepLookedUpA_sound s i hi (s.threads i).pc (s.threads i).woken reval (Or.inl hpc)
  · next reval hpc =>
    split at h
    · next hf => cases h; exact StepA.routeConnErr i hi reval hpc hf
    · next hf => cases h; exact StepA.routeUncache i hi reval hpc hf
    · next hf1 hf2 => cases h; exact StepA.routeFetch i hi reval hpc hf1 hf2
  · next reval hpc =>
    split at h
    · next hr => cases h; subst hr; exact StepA.whReval i hi hpc
    · next hr =>
      have hr : reval = false := by simpa using hr
      subst hr
      split at h
      · next hf => cases h; exact StepA.whCreateFile i hi hpc hf
      · next hf => cases h; exact StepA.whTmp i hi hpc (by intro h'; exact hf h')
  · next reval hpc => cases h; exact StepA.write i hi reval hpc
  · next reval rf hpc =>
    split at h
    · next hr =>
      subst hr
      split at h
      · next ht => cases h; exact StepA.closeRevalOk i hi rf hpc ht
      · next ht => cases h; exact StepA.closeRevalLost i hi rf hpc (by simpa using ht)
    · next hr =>
      have hr : reval = false := by simpa using hr
      subst hr
      split at h
      · next hl => cases h; exact StepA.closeLost i hi rf hpc hl
      · next hl => cases h; exact StepA.closePub i hi rf hpc (by simpa using hl)
  · next k hpc =>
    split at h
    · next hn =>
      cases h
      refine StepA.notify i hi k hpc hn _ ?_
      split
      · exact Or.inl ⟨rfl, rfl⟩
      · exact Or.inr (Or.inl ⟨rfl, rfl⟩)
      · exact Or.inr (Or.inr (Or.inl ⟨rfl, rfl⟩))
      · next h0 h1 h2 =>
        have h0 : k ≠ 0 := h0
        have h1 : k ≠ 1 := h1
        have h2 : k ≠ 2 := h2
        exact Or.inr (Or.inr (Or.inr ⟨by omega, rfl⟩))
    · cases h
  · next hpc =>
    split at h
    · next v whole fr hf => cases h; exact StepA.sendPub i hi hpc v whole fr hf
    · next hf =>
      cases h
      refine StepA.sendNone i hi hpc ?_
      cases hfile : s.file with
      | published v w f => exact absurd hfile (hf v w f)
      | _ => rfl
  · next hpc => cases h; exact StepA.cleanup i hi hpc
  · next hpc =>
    split at h
    · next hw =>
      split at h
      · next v whole fresh hf =>
        split at h
        · cases h; exact StepA.waitDone i hi hpc hw v whole fresh hf
        · next hnf =>
          cases h
          refine stepLookedUpA_sound s i hi (s.threads i).pc false true (Or.inr ⟨hpc, hw, fun _ => ⟨v, whole, ?_⟩⟩)
          cases fresh with
          | true => exact absurd (Or.inl rfl) hnf
          | false => exact hf
      · cases h; exact stepLookedUpA_sound s i hi (s.threads i).pc false false (Or.inr ⟨hpc, hw, fun h => by cases h⟩)
      · cases h; exact stepStartA_sound s i hi (Or.inr ⟨hpc, hw⟩) .start false
    · cases h
  · cases h

theorem stepA_sound (s s' : Sys) (a : Actor) (h : step s a = some s') : StepA s a s' := by
  cases a with
  | thread i => exact stepThreadA_sound s s' i h
  | notifier =>
    simp only [step, stepNotifier] at h
    split at h
    · cases h
    · next sender hn => cases h; exact StepA.notifier sender hn
  | expire =>
    simp only [step] at h
    split at h
    · next v whole hf => cases h; exact StepA.expire v whole hf
    · cases h
  | originChange =>
    simp only [step] at h
    cases h; exact StepA.originChange

/-- the refinement forgets to `Step` -/
theorem StepA.toStep {s s' : Sys} {a : Actor} (h : StepA s a s') : Step s s' := by
  cases h with
  | startAbsent i hi hc w hf => exact Step.startAbsent i hi hc w hf
  | startUnpub i hi hc w hf => exact Step.startUnpub i hi hc w hf
  | startFresh i hi hc w v whole hf => exact Step.startFresh i hi hc w v whole hf
  | startStale i hi hc w v whole hf => exact Step.startStale i hi hc w v whole hf
  | lateWriter i hi hc w hl hf =>
    exact Step.lateWriter i hi (hc.elim (fun h => Or.inl ⟨_, h⟩) (fun h => Or.inr ⟨h.1, h.2.1⟩)) w hl hf
  | takeLock i hi w reval hc hl hf =>
    exact Step.takeLock i hi (hc.elim (fun h => Or.inl ⟨_, h⟩) (fun h => Or.inr ⟨h.1, h.2.1⟩)) w reval hl
  | enqueue i hi reval hc ws hl =>
    exact Step.enqueue i hi (hc.elim (fun h => Or.inl ⟨_, h⟩) (fun h => Or.inr ⟨h.1, h.2.1⟩)) ws hl
  | routeConnErr i hi reval hpc hf => exact Step.routeConnErr i hi reval hpc hf
  | routeUncache i hi reval hpc hf => exact Step.routeUncache i hi reval hpc hf
  | routeFetch i hi reval hpc hf1 hf2 => exact Step.routeFetch i hi reval hpc hf1 hf2
  | whReval i hi hpc => exact Step.whReval i hi hpc
  | whCreateFile i hi hpc hf => exact Step.whCreateFile i hi hpc hf
  | whTmp i hi hpc hf => exact Step.whTmp i hi hpc hf
  | write i hi reval hpc => exact Step.write i hi reval hpc
  | closeRevalOk i hi rf hpc ht => exact Step.closeRevalOk i hi rf hpc ht
  | closeRevalLost i hi rf hpc ht => exact Step.closeRevalLost i hi rf hpc ht
  | closeLost i hi rf hpc hl => exact Step.closeLost i hi rf hpc hl
  | closePub i hi rf hpc hl => exact Step.closePub i hi rf hpc hl
  | notify i hi k hpc hn p' hp => exact Step.notify i hi k hpc hn p' hp
  | sendPub i hi hpc v whole fr hf => exact Step.sendPub i hi hpc v whole fr hf
  | sendNone i hi hpc hf => exact Step.sendNone i hi hpc hf
  | cleanup i hi hpc => exact Step.cleanup i hi hpc
  | waitDone i hi hpc hw v whole fresh hf => exact Step.waitDone i hi hpc hw v whole fresh hf
  | notifier sender hn => exact Step.notifier sender hn
  | expire v whole hf => exact Step.expire v whole hf
  | originChange => exact Step.originChange

/-! ## the writer's view: headers and body of one version

  In a state reached without entry expiry and without a stale release: nothing stale is on disk, so
  nobody revalidates (`noReval`); a filling writer takes the lock only while the entry's name is free
  (`needAbs`), and being alone in the writer section (`Inv.mutex`) it is the only one who can create
  or publish the file (`notPub`); from its publication to its `sendBody` the file is the one it
  published (`rd`) — the only deleter is a writer whose origin read failed, and that one published a
  truncated body and is alone too (`cl`, `clUniq`). -/

structure InvT (s : Sys) : Prop where
  fresh : ∀ v w fr, s.file = .published v w fr → fr = true
  noReval : ∀ j, (s.threads j).pc.noReval = true
  pre : ∀ j, (s.threads j).pc.pre = true → (s.threads j).ver = 0 ∧ (s.threads j).view = .nothing
  needAbs : ∀ j, (s.threads j).pc.needAbsent = true → s.file = .absent
  notPub : ∀ j, (s.threads j).pc.inW = true → s.file.isPub = false
  rd : ∀ j, (s.threads j).pc.rd = true → s.file = .published (s.threads j).ver true true
  cl : ∀ j, (s.threads j).pc.cl = true → s.file = .published (s.threads j).ver false true
  clUniq : ∀ i j, (s.threads i).pc.cl = true → (s.threads j).pc.cl = true → i = j
  vComplete : ∀ j v st, (s.threads j).view = .complete v st → (s.threads j).ver = 0 ∨ (s.threads j).ver = v
  vTrunc : ∀ j v, (s.threads j).view = .truncated v → (s.threads j).ver = 0 ∨ (s.threads j).ver = v

theorem invT_init (n : Nat) (f : Nat → Fault) : InvT (init n f) := by
  constructor <;> simp [init, Pc.noReval, Pc.pre, Pc.needAbsent, Pc.inW, Pc.rd, Pc.cl]

theorem Pc.needAbsent_inW (p : Pc) (h : p.needAbsent = true) : p.inW = true := by
  cases p <;> simp_all [Pc.needAbsent, Pc.inW]

macro "torn_grind" : tactic =>
  `(tactic| grind [setT, Pc.noReval, Pc.pre, Pc.needAbsent, Pc.inW, Pc.rd, Pc.cl, FileSt.isPub, CanGet, LookAs, Pc.needAbsent_inW])

theorem invT_step_fresh (s s' : Sys) (a : Actor) (ha : a ≠ .expire)
    (hI : InvT s) (h : StepA s a s') :
    ∀ v w fr, s'.file = .published v w fr → fr = true := by
  obtain ⟨h1, h2, h3, h4, h5, h6, h7, h8, h9, h10⟩ := hI
  cases h <;> simp only [bumpFetch] <;> torn_grind

theorem invT_step_noReval (s s' : Sys) (a : Actor) (ha : a ≠ .expire)
    (hI : InvT s) (h : StepA s a s') :
    ∀ j, (s'.threads j).pc.noReval = true := by
  obtain ⟨h1, h2, h3, h4, h5, h6, h7, h8, h9, h10⟩ := hI
  cases h <;> simp only [bumpFetch] <;> torn_grind

theorem invT_step_pre (s s' : Sys) (a : Actor) (ha : a ≠ .expire)
    (hI : InvT s) (h : StepA s a s') :
    ∀ j, (s'.threads j).pc.pre = true → (s'.threads j).ver = 0 ∧ (s'.threads j).view = .nothing := by
  obtain ⟨h1, h2, h3, h4, h5, h6, h7, h8, h9, h10⟩ := hI
  cases h <;> simp only [bumpFetch] <;> torn_grind

theorem invT_step_needAbs (s s' : Sys) (a : Actor) (ha : a ≠ .expire)
    (hM : ∀ j, (s.threads j).pc.inW = true → s.holder = some j)
    (hI : InvT s) (h : StepA s a s') :
    ∀ j, (s'.threads j).pc.needAbsent = true → s'.file = .absent := by
  obtain ⟨h1, h2, h3, h4, h5, h6, h7, h8, h9, h10⟩ := hI
  cases h <;> simp only [bumpFetch] <;> torn_grind

theorem invT_step_notPub (s s' : Sys) (a : Actor) (ha : a ≠ .expire)
    (hM : ∀ j, (s.threads j).pc.inW = true → s.holder = some j)
    (hI : InvT s) (h : StepA s a s') :
    ∀ j, (s'.threads j).pc.inW = true → s'.file.isPub = false := by
  obtain ⟨h1, h2, h3, h4, h5, h6, h7, h8, h9, h10⟩ := hI
  cases h <;> simp only [bumpFetch] <;> torn_grind

theorem invT_step_rd (s s' : Sys) (a : Actor) (ha : a ≠ .expire)
    (hI : InvT s) (h : StepA s a s') :
    ∀ j, (s'.threads j).pc.rd = true → s'.file = .published (s'.threads j).ver true true := by
  obtain ⟨h1, h2, h3, h4, h5, h6, h7, h8, h9, h10⟩ := hI
  cases h <;> simp only [bumpFetch] <;> torn_grind

theorem invT_step_cl (s s' : Sys) (a : Actor) (ha : a ≠ .expire)
    (hI : InvT s) (h : StepA s a s') :
    ∀ j, (s'.threads j).pc.cl = true → s'.file = .published (s'.threads j).ver false true := by
  obtain ⟨h1, h2, h3, h4, h5, h6, h7, h8, h9, h10⟩ := hI
  cases h <;> simp only [bumpFetch] <;> torn_grind

theorem invT_step_clUniq (s s' : Sys) (a : Actor) (ha : a ≠ .expire)
    (hI : InvT s) (h : StepA s a s') :
    ∀ i j, (s'.threads i).pc.cl = true → (s'.threads j).pc.cl = true → i = j := by
  obtain ⟨h1, h2, h3, h4, h5, h6, h7, h8, h9, h10⟩ := hI
  cases h <;> simp only [bumpFetch] <;> torn_grind

theorem invT_step_vComplete (s s' : Sys) (a : Actor) (ha : a ≠ .expire)
    (hI : InvT s) (h : StepA s a s') :
    ∀ j v st, (s'.threads j).view = .complete v st → (s'.threads j).ver = 0 ∨ (s'.threads j).ver = v := by
  obtain ⟨h1, h2, h3, h4, h5, h6, h7, h8, h9, h10⟩ := hI
  cases h <;> simp only [bumpFetch] <;> torn_grind

theorem invT_step_vTrunc (s s' : Sys) (a : Actor) (ha : a ≠ .expire)
    (hI : InvT s) (h : StepA s a s') :
    ∀ j v, (s'.threads j).view = .truncated v → (s'.threads j).ver = 0 ∨ (s'.threads j).ver = v := by
  obtain ⟨h1, h2, h3, h4, h5, h6, h7, h8, h9, h10⟩ := hI
  cases h <;> simp only [bumpFetch] <;> torn_grind

theorem invT_step (s s' : Sys) (a : Actor) (ha : a ≠ .expire)
    (hM : ∀ j, (s.threads j).pc.inW = true → s.holder = some j)
    (hI : InvT s) (h : StepA s a s') : InvT s' :=
  ⟨invT_step_fresh s s' a ha hI h, invT_step_noReval s s' a ha hI h, invT_step_pre s s' a ha hI h,
   invT_step_needAbs s s' a ha hM hI h, invT_step_notPub s s' a ha hM hI h, invT_step_rd s s' a ha hI h,
   invT_step_cl s s' a ha hI h, invT_step_clUniq s s' a ha hI h, invT_step_vComplete s s' a ha hI h,
   invT_step_vTrunc s s' a ha hI h⟩

/-! ## stale releases only accumulate, so `staleReleases = 0` at the end means 0 all along -/

theorem stale_mono_step (s s' : Sys) (h : Step s s') : s.staleReleases ≤ s'.staleReleases := by
  cases h <;> simp [bumpFetch]

theorem stale_mono_run (s : Sys) (sched : List Actor) : s.staleReleases ≤ (run s sched).staleReleases :=
  run_inv (fun s' => s.staleReleases ≤ s'.staleReleases)
    (fun s1 s2 h hs => Nat.le_trans h (stale_mono_step s1 s2 hs)) s sched (Nat.le_refl _)

/-- `InvT` along a schedule without `.expire` that ends with no stale release -/
theorem invT_run_from (s : Sys) (sched : List Actor) (hM : Inv s) (hT : InvT s)
    (hne : ∀ a ∈ sched, a ≠ Actor.expire) (h0 : (run s sched).staleReleases = 0) :
    InvT (run s sched) := by
  induction sched generalizing s with
  | nil => exact hT
  | cons a as ih =>
    have ha : a ≠ Actor.expire := hne a (List.mem_cons_self ..)
    have has : ∀ b ∈ as, b ≠ Actor.expire := fun b hb => hne b (List.mem_cons_of_mem _ hb)
    simp only [run] at h0 ⊢
    cases hs : step s a with
    | none =>
      rw [hs] at h0
      exact ih s hM hT has h0
    | some s1 =>
      rw [hs] at h0
      simp only [Option.getD_some] at h0 ⊢
      have hA := stepA_sound s s1 a hs
      have h1 : s1.staleReleases = 0 := Nat.le_zero.mp (h0 ▸ stale_mono_run s1 as)
      have hs0 : s.staleReleases = 0 := Nat.le_zero.mp (h1 ▸ stale_mono_step s s1 hA.toStep)
      exact ih s1 (inv_step s s1 hM hA.toStep) (invT_step s s1 a ha (hM.mutex hs0) hT hA) has h0

theorem invT_run (n : Nat) (f : Nat → Fault) (sched : List Actor)
    (hne : ∀ a ∈ sched, a ≠ Actor.expire) (h0 : (run (init n f) sched).staleReleases = 0) :
    InvT (run (init n f) sched) :=
  invT_run_from _ sched (inv_init n f) (invT_init n f) hne h0

end Lemmas.ConcTorn
