import RrProofs.Props.SysCache
import RrProofs.Lemmas.HeaderC09
import RrProofs.Lemmas.Fresh
/-
  General lemmas for `Props/SysCacheTerm.lean` (termination of the cached request path):

  * `canon` is idempotent and keeps the lower-cased name (own copies: `Lemmas/Header.lean` cannot be
    imported together with `Lemmas/StorePrep.lean`);
  * `Header.del`/`Header.set` as list filters, `Model.allowHeaders` (the key's header filter) as a
    list filter whose predicate does NOT depend on the map it is applied to;
  * the part of a client header the cache key is computed from (`keyPart`): `keysOf` is a function
    of it, and it is invariant under `del`/`set` of If-None-Match / If-Modified-Since / Range;
  * `storage.Get`: a key that yielded nothing has an empty cell afterwards, `storageGet` is
    idempotent, and the shape of a `found` result (the keys in front of the hit have empty cells).
-/
namespace Lemmas.SysCacheTerm
open Go Model Model.SysCache Props.SysCache

/-! ### `canon` -/

theorem lowerByte_lowerByte (c : Nat) : lowerByte (lowerByte c) = lowerByte c := by
  unfold lowerByte; repeat' (first | omega | split)

theorem upperByte_upperByte (c : Nat) : upperByte (upperByte c) = upperByte c := by
  unfold upperByte; repeat' (first | omega | split)

theorem lowerByte_upperByte (c : Nat) : lowerByte (upperByte c) = lowerByte c := by
  unfold lowerByte upperByte; repeat' (first | omega | split)

theorem isTokenByte_lowerByte (c : Nat) : isTokenByte (lowerByte c) = isTokenByte c := by
  unfold lowerByte
  split
  · next h =>
    have h1 : isTokenByte (c + 32) = true := by
      unfold isTokenByte
      have : 97 ≤ c + 32 ∧ c + 32 ≤ 122 := by omega
      simp [this.1, this.2]
    have h2 : isTokenByte c = true := by
      unfold isTokenByte
      simp [h.1, h.2]
    rw [h1, h2]
  · rfl

theorem isTokenByte_upperByte (c : Nat) : isTokenByte (upperByte c) = isTokenByte c := by
  rw [← isTokenByte_lowerByte (upperByte c), lowerByte_upperByte, isTokenByte_lowerByte]

theorem toLower_canonGo (k : Bytes) (u : Bool) : toLower (canonGo k u) = toLower k := by
  induction k generalizing u with
  | nil => rfl
  | cons c t ih =>
    simp only [canonGo, toLower, List.map_cons] at *
    rw [ih]
    cases u <;> simp [lowerByte_lowerByte, lowerByte_upperByte]

theorem all_token_canonGo (k : Bytes) (u : Bool) :
    (canonGo k u).all isTokenByte = k.all isTokenByte := by
  induction k generalizing u with
  | nil => rfl
  | cons c t ih =>
    simp only [canonGo, List.all_cons]
    rw [ih]
    cases u <;> simp [isTokenByte_lowerByte, isTokenByte_upperByte]

theorem canonGo_canonGo (k : Bytes) (u : Bool) : canonGo (canonGo k u) u = canonGo k u := by
  induction k generalizing u with
  | nil => rfl
  | cons c t ih =>
    cases u with
    | true =>
      simp only [canonGo, if_true]
      rw [upperByte_upperByte, ih]
    | false =>
      simp only [canonGo, Bool.false_eq_true, if_false]
      rw [lowerByte_lowerByte, ih]

/-- `CanonicalMIMEHeaderKey` is idempotent -/
theorem canon_canon (k : Bytes) : canon (canon k) = canon k := by
  unfold canon
  by_cases h : k.all isTokenByte = true
  · simp only [h, if_true, all_token_canonGo, canonGo_canonGo]
  · simp [h]

/-- canonicalisation never changes the case-insensitive name -/
theorem toLower_canon (k : Bytes) : toLower (canon k) = toLower k := by
  unfold canon; split
  · exact toLower_canonGo k true
  · rfl

/-! ### `Header.del`, `Header.set`, runs of `Del` as list filters -/

theorem del_eq_filter (h : Header) (k : Bytes) : h.del k = h.filter (fun e => e.1 != canon k) := by
  unfold Header.del Header.delRaw
  apply List.filter_congr
  intro e _
  by_cases hk : e.1 = canon k <;> simp [hk]

theorem set_eq_cons (h : Header) (k v : Bytes) :
    h.set k v = (canon k, [v]) :: h.filter (fun e => e.1 != canon k) := by
  unfold Header.set Header.setRaw
  rw [← del_eq_filter]
  rfl

theorem foldl_del_eq_filter (L : List Bytes) (h : Header) :
    L.foldl (fun out k => Header.del out k) h = h.filter (fun e => !(L.map canon).contains e.1) := by
  induction L generalizing h with
  | nil => exact (List.filter_eq_self.2 (fun _ _ => rfl)).symm
  | cons k t ih =>
    rw [List.foldl_cons, ih, del_eq_filter, List.filter_filter]
    apply List.filter_congr
    intro e _
    by_cases hk : e.1 = canon k
    · simp [hk]
    · simp [hk]

theorem mem_mapKeys (h : Header) (K : Bytes) : K ∈ Model.mapKeys h ↔ K ∈ h.map (·.1) := by
  induction h generalizing K with
  | nil => simp [Model.mapKeys]
  | cons e t ih =>
    obtain ⟨k, vs⟩ := e
    simp only [Model.mapKeys, List.map_cons, List.mem_cons]
    split
    · rename_i hc
      have hk : k ∈ Model.mapKeys t := by simpa using hc
      rw [ih]
      constructor
      · exact Or.inr
      · rintro (h1 | h1)
        · rw [h1]; exact (ih k).1 hk
        · exact h1
    · simp only [List.mem_cons, ih]

/-- what `util.AllowHeaders` keeps, entry by entry: everything but the CANONICAL raw keys whose
    lower-cased form is not on the list (a raw key that is not canonical stays, whatever it is) -/
def kept (allow : List Bytes) (e : Bytes × List Bytes) : Bool :=
  !(canon e.1 == e.1 && !allow.contains (toLower e.1))

/-- `util.AllowHeaders` is a filter whose predicate does not depend on the map -/
theorem allowHeaders_eq_filter (h : Header) (allow : List Bytes) :
    Model.allowHeaders h allow = h.filter (kept allow) := by
  unfold Model.allowHeaders
  simp only []
  rw [foldl_del_eq_filter]
  apply List.filter_congr
  intro e he
  unfold kept
  congr 1
  rw [Bool.eq_iff_iff]
  simp only [List.contains_eq_mem, List.mem_map, List.mem_filter, decide_eq_true_eq, Bool.not_eq_true',
    decide_eq_false_iff_not, Bool.and_eq_true, beq_iff_eq, mem_mapKeys]
  constructor
  · rintro ⟨k, ⟨_, hk⟩, hc⟩
    refine ⟨?_, ?_⟩
    · rw [← hc, canon_canon]
    · rw [← hc, toLower_canon]; exact hk
  · rintro ⟨hc, hk⟩
    exact ⟨e.1, ⟨⟨e, he, rfl⟩, hk⟩, hc⟩

/-! ### the part of the client header the cache key is computed from -/

/-- the canonical raw keys the header surgery of `cachingFunc` touches -/
def managed : List Bytes := [b!"If-None-Match", b!"If-Modified-Since", b!"Range"]

/-- the client header without the entries under the managed keys -/
def keyPart (h : Header) : Header := h.filter (fun e => !managed.contains e.1)

theorem keyPart_del (h : Header) {k : Bytes} (hk : canon k ∈ managed) : keyPart (h.del k) = keyPart h := by
  unfold keyPart
  rw [del_eq_filter, List.filter_filter]
  apply List.filter_congr
  intro e _
  by_cases he : e.1 = canon k
  · simp [he, hk]
  · simp [he]

theorem keyPart_set (h : Header) {k : Bytes} (v : Bytes) (hk : canon k ∈ managed) :
    keyPart (h.set k v) = keyPart h := by
  rw [← keyPart_del h hk]
  unfold keyPart
  rw [set_eq_cons, del_eq_filter, List.filter_cons]
  simp [hk]

/-- the managed keys are canonical and not on either allow-list of the key: `AllowHeaders` drops them -/
theorem kept_managed {allow : List Bytes}
    (ha : allow = Facts.keyClientHeaders ∨ allow = keyClientHeadersWithOrigin)
    {e : Bytes × List Bytes} (he : e.1 ∈ managed) : kept allow e = false := by
  obtain ⟨k, vs⟩ := e
  simp only [managed, List.mem_cons, List.not_mem_nil, or_false] at he
  unfold kept
  rcases ha with rfl | rfl <;> rcases he with rfl | rfl | rfl <;> (dsimp only; decide)

theorem allowHeaders_keyPart (h : Header) {allow : List Bytes}
    (ha : allow = Facts.keyClientHeaders ∨ allow = keyClientHeadersWithOrigin) :
    Model.allowHeaders (keyPart h) allow = Model.allowHeaders h allow := by
  rw [allowHeaders_eq_filter, allowHeaders_eq_filter]
  unfold keyPart
  rw [List.filter_filter]
  apply List.filter_congr
  intro e _
  by_cases hm : e.1 ∈ managed
  · simp [kept_managed ha hm]
  · simp [hm]

theorem get_keyPart (h : Header) {k : Bytes} (hk : canon k ∉ managed) : (keyPart h).get k = h.get k := by
  unfold keyPart Header.get Header.values
  rw [HeaderC09.vals_filter h (fun x => !managed.contains x) (canon k)]
  simp [hk]

/-- the key list of a request is a function of the key part of its header -/
theorem keysOf_keyPart (cfg : Config) (req : Request) (h : Header) :
    keysOf cfg req (keyPart h) = keysOf cfg req h := by
  unfold keysOf keysFromRequest newKey
  simp only []
  rw [get_keyPart h (k := b!"origin") (by decide),
    allowHeaders_keyPart h (Or.inl rfl), allowHeaders_keyPart h (Or.inr rfl)]

theorem keysOf_congr (cfg : Config) (req : Request) {h h' : Header} (e : keyPart h = keyPart h') :
    keysOf cfg req h = keysOf cfg req h' := by
  rw [← keysOf_keyPart cfg req h, e, keysOf_keyPart]

/-! ### `storage.Get` -/

theorem getOne_none {d d' : Disk} {k : Key} (h : getOne d k = (d', .ok none)) :
    d' (keyString k) = none ∧ Shrinks d' d := by
  have hs := getOne_shrinks d k
  rw [h] at hs
  refine ⟨?_, hs⟩
  unfold getOne at h
  repeat' first | split at h | (dsimp only at h; split at h)
  all_goals first
    | (cases h; assumption)
    | (cases h; simp [Disk.upd])
    | (cases h)

theorem getOne_of_empty {d : Disk} {k : Key} (h : d (keyString k) = none) : getOne d k = (d, .ok none) := by
  unfold getOne
  rw [h]

/-- a hit of the per-key step leaves the disk alone; what it returns is the file of the cell and the
    decoded xattr, whose Content-Length is non-empty or whose size is the file's -/
theorem getOne_some {d d' : Disk} {k : Key} {s : Stored} (h : getOne d k = (d', .ok (some s))) :
    d' = d ∧ d (keyString k) = some s.file ∧ ∃ x, s.file.xattr = some x ∧ Codec.decode x = .ok (some s.meta) ∧
      ((s.meta.respHeader.get b!"content-length").length > 0 ∨ (s.file.body.length : Int) = s.meta.size) := by
  unfold getOne at h
  repeat' first | split at h | (dsimp only at h; split at h)
  all_goals first
    | (cases h; refine ⟨rfl, ‹_›, _, ‹_›, ‹_›, Or.inl ‹_›⟩)
    | (cases h; refine ⟨rfl, ‹_›, _, ‹_›, ‹_›, Or.inr ?_⟩; rename_i hne; exact Decidable.of_not_not hne)
    | (cases h)

/-- the converse: the per-key step reads the disk only at the key's cell -/
theorem getOne_of_cell {e : Disk} {k : Key} {f : File} {x : Bytes} {m : Codec.Meta}
    (hc : e (keyString k) = some f) (hx : f.xattr = some x) (hd : Codec.decode x = .ok (some m))
    (hs : (m.respHeader.get b!"content-length").length > 0 ∨ (f.body.length : Int) = m.size) :
    getOne e k = (e, .ok (some ⟨m, f⟩)) := by
  unfold getOne
  rw [hc]; dsimp only
  rw [hx]; dsimp only
  rw [hd]; dsimp only
  rcases hs with hs | hs
  · rw [if_pos hs]
  · split
    · rfl
    · rw [if_neg (by simpa using hs)]

theorem getOne_panic {d d' : Disk} {k : Key} {site : String} (h : getOne d k = (d', .panic site)) : d' = d := by
  unfold getOne at h
  repeat' first | split at h | (dsimp only at h; split at h)
  all_goals first
    | (cases h; rfl)
    | (cases h)

theorem storageGet_idem : ∀ (keys : List Key) (d d' : Disk) (r : GetRes),
    storageGet d keys = (d', r) → storageGet d' keys = (d', r)
  | [], d, d', r, h => by
    unfold storageGet at h ⊢
    cases h; rfl
  | k :: ks, d, d', r, h => by
    unfold storageGet at h
    generalize hg : getOne d k = g at h
    obtain ⟨d1, res⟩ := g
    cases res with
    | panic s =>
      dsimp only at h
      cases h
      have := getOne_panic hg
      subst this
      unfold storageGet; rw [hg]
    | ok o =>
      cases o with
      | some st =>
        dsimp only at h
        cases h
        have := (getOne_some hg).1
        subst this
        unfold storageGet; rw [hg]
      | none =>
        dsimp only at h
        have h1 := (getOne_none hg).1
        have hs := storageGet_shrinks ks d1
        rw [h] at hs
        dsimp only at hs
        have h2 : d' (keyString k) = none := by
          rcases hs (keyString k) with e | e
          · rw [e, h1]
          · exact e
        unfold storageGet
        rw [getOne_of_empty h2]
        exact storageGet_idem ks d1 d' r h

/-- keys whose cells are empty are passed over -/
theorem storageGet_skip {e : Disk} : ∀ (pre : List Key) (rest : List Key),
    (∀ k0 ∈ pre, e (keyString k0) = none) → storageGet e (pre ++ rest) = storageGet e rest
  | [], _, _ => rfl
  | k :: pre, rest, h => by
    rw [List.cons_append]
    rw [storageGet, getOne_of_empty (h k (List.mem_cons_self ..))]
    dsimp only
    exact storageGet_skip pre rest (fun k0 hk0 => h k0 (List.mem_cons_of_mem _ hk0))

/-- the shape of a hit: the keys in front of it have empty cells afterwards, and the per-key step at
    the hit reads the same entry from the disk as it is afterwards -/
theorem storageGet_found : ∀ (keys : List Key) (d d' : Disk) (k : Key) (s : Stored),
    storageGet d keys = (d', .found k s) →
    ∃ pre post, keys = pre ++ k :: post ∧ (∀ k0 ∈ pre, d' (keyString k0) = none) ∧
      getOne d' k = (d', .ok (some s))
  | [], d, d', k, s, h => by
    unfold storageGet at h
    cases h
  | k1 :: ks, d, d', k, s, h => by
    unfold storageGet at h
    generalize hg : getOne d k1 = g at h
    obtain ⟨d1, res⟩ := g
    cases res with
    | panic s => dsimp only at h; cases h
    | ok o =>
      cases o with
      | some st =>
        dsimp only at h
        cases h
        have := (getOne_some hg).1
        subst this
        exact ⟨[], ks, rfl, fun _ hm => absurd hm (List.not_mem_nil), hg⟩
      | none =>
        dsimp only at h
        obtain ⟨pre, post, e1, e2, e3⟩ := storageGet_found ks d1 d' k s h
        have h1 := (getOne_none hg).1
        have hs := storageGet_shrinks ks d1
        rw [h] at hs
        dsimp only at hs
        have h2 : d' (keyString k1) = none := by
          rcases hs (keyString k1) with e | e
          · rw [e, h1]
          · exact e
        refine ⟨k1 :: pre, post, by rw [e1]; rfl, ?_, e3⟩
        intro k0 hk0
        rcases List.mem_cons.1 hk0 with rfl | hk0
        · exact h2
        · exact e2 k0 hk0

/-! ### `DoNotCache` of concatenated Cache-Control value lists -/

/-- `j` has no do-not-cache reason that `i` does not have -/
def NoWorse (i j : Directives) : Prop :=
  (j.noCache = true → i.noCache = true) ∧ (j.priv = true → i.priv = true) ∧ (j.noStore = true → i.noStore = true) ∧
  (nonPositive j.sMaxAge = true → nonPositive i.sMaxAge = true) ∧
  (nonPositive j.maxAge = true → nonPositive i.maxAge = true)

theorem NoWorse.doNotCache {i j : Directives} (h : NoWorse i j) (hi : i.doNotCache = false) : j.doNotCache = false := by
  obtain ⟨h1, h2, h3, h4, h5⟩ := h
  simp only [Directives.doNotCache, Bool.or_eq_false_iff] at hi ⊢
  obtain ⟨⟨⟨⟨a, b⟩, c⟩, e⟩, f⟩ := hi
  refine ⟨⟨⟨⟨?_, ?_⟩, ?_⟩, ?_⟩, ?_⟩
  · cases hj : j.noCache with | false => rfl | true => rw [h1 hj] at a; cases a
  · cases hj : j.priv with | false => rfl | true => rw [h2 hj] at b; cases b
  · cases hj : j.noStore with | false => rfl | true => rw [h3 hj] at c; cases c
  · cases hj : nonPositive j.sMaxAge with | false => rfl | true => rw [h4 hj] at e; cases e
  · cases hj : nonPositive j.maxAge with | false => rfl | true => rw [h5 hj] at f; cases f

theorem NoWorse.of_clean {j : Directives} (hj : j.doNotCache = false) : NoWorse {} j := by
  simp only [Directives.doNotCache, Bool.or_eq_false_iff] at hj
  obtain ⟨⟨⟨⟨a, b⟩, c⟩, e⟩, f⟩ := hj
  refine ⟨?_, ?_, ?_, ?_, ?_⟩ <;> intro h <;> simp_all

theorem NoWorse.applyPart {i j : Directives} (h : NoWorse i j) (p : Bytes) :
    NoWorse (applyPart i p) (applyPart j p) := by
  obtain ⟨h1, h2, h3, h4, h5⟩ := h
  unfold Model.applyPart
  cases partEffect p <;> simp only [PartEffect.apply] <;> refine ⟨?_, ?_, ?_, ?_, ?_⟩ <;>
    first | assumption | (intro _; rfl) | (intro h; exact h)

theorem NoWorse.foldl_applyPart {i j : Directives} (h : NoWorse i j) (ps : List Bytes) :
    NoWorse (ps.foldl Model.applyPart i) (ps.foldl Model.applyPart j) := by
  induction ps generalizing i j with
  | nil => exact h
  | cons p t ih => exact ih (h.applyPart p)

theorem NoWorse.applyValues {i j : Directives} (h : NoWorse i j) (ds : List Bytes) :
    NoWorse (applyValues i ds) (applyValues j ds) := by
  unfold Model.applyValues
  induction ds generalizing i j with
  | nil => exact h
  | cons dd t ih => exact ih (h.foldl_applyPart _)

/-- the Cache-Control half of `GetCacheControlDirectives` -/
def ccDirs (vs : List Bytes) : Directives :=
  applyValues {} (vs.flatMap fun v => (split1 44 v).map fun s => toLower (trim b!" \t" s))

theorem doNotCache_eq_ccDirs (h : Header) :
    (getCacheControlDirectives h).doNotCache = (ccDirs (h.values b!"cache-control")).doNotCache := rfl

theorem sMaxAge_eq_ccDirs (h : Header) :
    (getCacheControlDirectives h).sMaxAge = (ccDirs (h.values b!"cache-control")).sMaxAge := rfl

theorem maxAge_eq_ccDirs (h : Header) :
    (getCacheControlDirectives h).maxAge = (ccDirs (h.values b!"cache-control")).maxAge := rfl

/-- two value lists none of which gives a do-not-cache reason give none together (a later numeric
    directive overwrites an earlier one; flags only accumulate) -/
theorem ccDirs_append {a b : List Bytes} (ha : (ccDirs a).doNotCache = false) (hb : (ccDirs b).doNotCache = false) :
    (ccDirs (a ++ b)).doNotCache = false := by
  unfold ccDirs at *
  rw [List.flatMap_append]
  unfold Model.applyValues at *
  rw [List.foldl_append]
  exact ((NoWorse.of_clean ha).applyValues _).doNotCache hb

/-! ### the Cache-Control values of a header merged with a 304's (`storageWriter.Close`) -/

/-- a header map as `net/http` parses it: raw keys canonical and distinct -/
def WFHeader (h : Header) : Prop := (h.map (·.1)).Nodup ∧ ∀ e ∈ h, canon e.1 = e.1

theorem values_canon (h : Header) (k : Bytes) : h.values (canon k) = h.values k := by
  unfold Header.values; rw [canon_canon]

theorem get_canon (h : Header) (k : Bytes) : h.get (canon k) = h.get k := by
  unfold Header.get; rw [values_canon]

theorem values_mergeKey (s : Header) (k : Bytes) (vv : List Bytes) (K : Bytes) :
    Header.values (Conditional.mergeKey s k vv) K =
      if canon K = canon k then (if (s.get k).length > 0 then [] else Header.values s k) ++ vv
      else Header.values s K := by
  unfold Conditional.mergeKey
  rw [HeaderC09.values_foldl_add]
  by_cases hK : canon K = canon k
  · rw [if_pos hK, if_pos hK]
    split
    · rw [HeaderC09.values_del, if_pos rfl]
    · rfl
  · rw [if_neg hK, if_neg hK]
    split
    · rw [HeaderC09.values_del, if_neg hK]
    · rfl

theorem get_mergeKey_ne (s : Header) (k : Bytes) (vv : List Bytes) (K : Bytes) (hK : canon K ≠ canon k) :
    Header.get (Conditional.mergeKey s k vv) K = Header.get s K := by
  unfold Header.get
  rw [values_mergeKey, if_neg hK]

theorem values_merge304 (K : Bytes) : ∀ (h stored : Header), WFHeader h →
    Header.values (Conditional.merge304 stored h) K =
      if canon K ∈ h.map (·.1) then
        (if (stored.get K).length > 0 then [] else Header.values stored K) ++ Header.vals h (canon K)
      else Header.values stored K
  | [], stored, _ => by simp [Conditional.merge304]
  | e :: t, stored, hwf => by
    obtain ⟨hnd, hc⟩ := hwf
    have hwt : WFHeader t := ⟨(List.nodup_cons.1 hnd).2, fun e' he' => hc e' (List.mem_cons_of_mem _ he')⟩
    have he : canon e.1 = e.1 := hc e (List.mem_cons_self ..)
    have ih := values_merge304 K t (Conditional.mergeKey stored e.1 e.2) hwt
    have hm : Conditional.merge304 stored (e :: t) = Conditional.merge304 (Conditional.mergeKey stored e.1 e.2) t := rfl
    rw [hm, ih]
    by_cases hk : e.1 = canon K
    · have hnt : canon K ∉ t.map (·.1) := by rw [← hk]; exact (List.nodup_cons.1 hnd).1
      have hmem : canon K ∈ (e :: t).map (·.1) := by rw [List.map_cons, ← hk]; exact List.mem_cons_self ..
      rw [if_neg hnt, if_pos hmem, values_mergeKey, he, hk, if_pos rfl, get_canon, values_canon]
      obtain ⟨k, vs⟩ := e
      simp only at hk
      rw [Header.vals, if_pos hk]
    · have hne : canon K ≠ canon e.1 := by rw [he]; exact fun h' => hk h'.symm
      have hv : Header.vals (e :: t) (canon K) = Header.vals t (canon K) := by
        obtain ⟨k, vs⟩ := e
        rw [Header.vals, if_neg hk]
      have hmem : (canon K ∈ (e :: t).map (·.1)) ↔ (canon K ∈ t.map (·.1)) := by
        rw [List.map_cons, List.mem_cons]
        constructor
        · rintro (h' | h')
          · exact absurd h'.symm hk
          · exact h'
        · exact Or.inr
      rw [values_mergeKey, if_neg hne, get_mergeKey_ne _ _ _ _ hne, hv]
      by_cases ht : canon K ∈ t.map (·.1)
      · rw [if_pos ht, if_pos (hmem.2 ht)]
      · rw [if_neg ht, if_neg (fun h' => ht (hmem.1 h'))]

theorem WFHeader.del {h : Header} (hw : WFHeader h) (k : Bytes) : WFHeader (h.del k) := by
  rw [del_eq_filter]
  exact ⟨List.Nodup.sublist (List.Sublist.map _ List.filter_sublist) hw.1,
    fun e he => hw.2 e (List.mem_filter.1 he).1⟩

theorem WFHeader.set {h : Header} (hw : WFHeader h) (k v : Bytes) : WFHeader (h.set k v) := by
  have hd := hw.del k
  rw [del_eq_filter] at hd
  rw [set_eq_cons]
  refine ⟨?_, ?_⟩
  · rw [List.map_cons, List.nodup_cons]
    refine ⟨?_, hd.1⟩
    intro hm
    obtain ⟨e, he, hk⟩ := List.mem_map.1 hm
    have := (List.mem_filter.1 he).2
    simp [hk] at this
  · intro e he
    rcases List.mem_cons.1 he with rfl | he
    · exact canon_canon k
    · exact hd.2 e he

theorem WFHeader.add {h : Header} (hw : WFHeader h) (k v : Bytes) : WFHeader (h.add k v) := by
  have hd := hw.del k
  rw [del_eq_filter] at hd
  have : h.add k v = (canon k, Header.vals h (canon k) ++ [v]) :: h.filter (fun e => e.1 != canon k) := by
    unfold Header.add Header.addRaw
    rw [← del_eq_filter]; rfl
  rw [this]
  refine ⟨?_, ?_⟩
  · rw [List.map_cons, List.nodup_cons]
    refine ⟨?_, hd.1⟩
    intro hm
    obtain ⟨e, he, hk⟩ := List.mem_map.1 hm
    have := (List.mem_filter.1 he).2
    simp [hk] at this
  · intro e he
    rcases List.mem_cons.1 he with rfl | he
    · exact canon_canon k
    · exact hd.2 e he

theorem WFHeader.nil : WFHeader [] := ⟨List.nodup_nil, fun _ h => absurd h List.not_mem_nil⟩

/-- what the scripted origin sends is a parsed header map -/
theorem WFHeader.addAll (lines : List (Bytes × Bytes)) : WFHeader (addAll lines) := by
  unfold SysCache.addAll
  have : ∀ (ls : List (Bytes × Bytes)) (h : Header), WFHeader h →
      WFHeader (ls.foldl (fun h kv => h.add kv.1 kv.2) h) := by
    intro ls
    induction ls with
    | nil => intro h hw; exact hw
    | cons l t ih => intro h hw; exact ih _ (hw.add _ _)
  exact this lines [] WFHeader.nil

theorem WFHeader.originAnswer (o : Origin) (method : Bytes) (req : Header) (c : Option Nat) :
    WFHeader (originAnswer o method req c).header := by
  unfold SysCache.originAnswer
  repeat' first | split | (dsimp only; split)
  all_goals first
    | exact WFHeader.addAll _
    | exact (WFHeader.addAll _).del _
    | exact (WFHeader.addAll _).set _ _

theorem WFHeader.ask {cfg : Config} {origin : Bytes → Option Origin} {req : Request} {cs : List Contact}
    {h : Header} {resp : Resp} (ha : ask cfg origin req cs h = some resp) : WFHeader resp.header := by
  unfold SysCache.ask at ha
  split at ha
  · cases ha
  · cases ho : origin req.path with
    | none => rw [ho] at ha; cases ha
    | some o =>
      rw [ho] at ha
      simp only [Option.map_some, Option.some.injEq] at ha
      rw [← ha]
      exact WFHeader.originAnswer ..

/-- **the merged header gives no do-not-cache reason** when neither the stored header nor the 304 does
    (a header named in the 304 replaces the stored one, or is appended to it when the stored first
    value is empty; other names stay) -/
theorem doNotCache_merge304 {stored h304 : Header} (hw : WFHeader h304)
    (hs : (getCacheControlDirectives stored).doNotCache = false)
    (hn : (getCacheControlDirectives h304).doNotCache = false) :
    (getCacheControlDirectives
      (Conditional.merge304 stored (Conditional.dropZeroContentLength h304))).doNotCache = false := by
  have hw' : WFHeader (Conditional.dropZeroContentLength h304) := by
    unfold Conditional.dropZeroContentLength; split
    · exact hw.del _
    · exact hw
  have hv' : (Conditional.dropZeroContentLength h304).values b!"cache-control" = h304.values b!"cache-control" := by
    unfold Conditional.dropZeroContentLength; split
    · rw [HeaderC09.values_del, if_neg (by decide)]
    · rfl
  rw [doNotCache_eq_ccDirs] at hs hn ⊢
  rw [values_merge304 _ _ _ hw']
  have hvals : Header.vals (Conditional.dropZeroContentLength h304) (canon b!"cache-control") =
      h304.values b!"cache-control" := by rw [← hv']; rfl
  split
  · rw [hvals]
    split
    · simpa using hn
    · exact ccDirs_append hs hn
  · exact hs

end Lemmas.SysCacheTerm
