import RrModel.Spec.C07
import RrProofs.Lemmas.CodecAux
/-
  Lemmas for the store-time header preparation (C07): header-name canonicalisation depends only
  on the lower-cased name, what `util.DenyHeaders` removes, `strings.HasSuffix` / `TrimSuffix`.
-/
namespace Go

theorem upper_lowerByte (c : Nat) : upperByte (lowerByte c) = upperByte c := by
  unfold upperByte lowerByte
  split <;> split <;> (try split) <;> omega

theorem lower_lowerByte (c : Nat) : lowerByte (lowerByte c) = lowerByte c := by
  unfold lowerByte
  split <;> (try split) <;> omega

theorem canonGo_toLower (k : Bytes) (u : Bool) : canonGo (toLower k) u = canonGo k u := by
  induction k generalizing u with
  | nil => rfl
  | cons c t ih =>
    simp only [toLower, List.map_cons, canonGo] at ih ⊢
    cases u
    · simp only [Bool.false_eq_true, if_false, lower_lowerByte]
      rw [ih]
    · simp only [if_true, upper_lowerByte]
      rw [ih]

theorem isTokenByte_lowerByte (c : Nat) : isTokenByte (lowerByte c) = isTokenByte c := by
  unfold lowerByte
  split
  · rename_i h
    have h1 : isTokenByte (c + 32) = true := by
      unfold isTokenByte
      have : 97 ≤ c + 32 ∧ c + 32 ≤ 122 := by omega
      simp [this.1, this.2]
    have h2 : isTokenByte c = true := by
      unfold isTokenByte
      simp [h.1, h.2]
    rw [h1, h2]
  · rfl

theorem all_token_toLower (k : Bytes) : (toLower k).all isTokenByte = k.all isTokenByte := by
  induction k with
  | nil => rfl
  | cons c t ih =>
    simp only [toLower, List.map_cons, List.all_cons] at ih ⊢
    rw [isTokenByte_lowerByte, ih]

/-- the canonical form of a header name is determined by its lower-cased form, when that is a token -/
theorem canon_of_toLower {k l : Bytes} (h : toLower k = l) (ht : l.all isTokenByte = true) :
    canon k = canonGo l true := by
  unfold canon
  rw [← all_token_toLower, h, ht, ← canonGo_toLower, h]
  simp

theorem hasSuffix_iff_take (s p : Bytes) : hasSuffix s p = true ↔ s.take (s.length - p.length) ++ p = s := by
  unfold hasSuffix
  rw [← List.suffix_iff_eq_append, ← List.isSuffixOf_iff_suffix]
  rfl

theorem trimSuffix_of_hasSuffix {s p : Bytes} (h : hasSuffix s p = true) :
    trimSuffix s p = s.take (s.length - p.length) := by
  simp [trimSuffix, h]

end Go

namespace Model.Codec
open Go Spec.C07

theorem vals_foldl_del : ∀ (L : List Bytes) (h : Header) (k : Bytes),
    Header.vals (L.foldl (fun out x => out.del x) h) k = if k ∈ L.map canon then [] else Header.vals h k
  | [], h, k => by simp
  | x :: xs, h, k => by
    rw [List.foldl_cons, vals_foldl_del xs _ k, vals_del]
    by_cases h1 : k ∈ xs.map canon
    · simp [h1]
    · by_cases h2 : k = canon x
      · simp [h2]
      · simp [h1, h2]

/-- `util.DenyHeaders(h, {"richie-edge-cache"})` empties exactly the key `Richie-Edge-Cache` -/
theorem vals_denyHeaders (h : Header) (k : Bytes) :
    Header.vals (denyHeaders h [Facts.cacheStatusHeader]) k
      = if k = b!"Richie-Edge-Cache" then [] else Header.vals h k := by
  unfold denyHeaders
  rw [vals_foldl_del]
  have hL : ∀ x ∈ (mapKeys h).filter (fun k => [Facts.cacheStatusHeader].contains (toLower k)),
      canon x = b!"Richie-Edge-Cache" := by
    intro x hx
    simp only [List.mem_filter, List.contains_eq_mem, List.mem_singleton, decide_eq_true_eq] at hx
    rw [canon_of_toLower hx.2 (by decide)]
    decide
  by_cases hk : k = b!"Richie-Edge-Cache"
  · simp only [hk, if_true]
    split
    · rfl
    · rename_i hn
      apply vals_of_not_mem
      intro hm
      apply hn
      refine List.mem_map.2 ⟨b!"Richie-Edge-Cache", ?_, by decide⟩
      simp only [List.mem_filter, List.contains_eq_mem, List.mem_singleton, decide_eq_true_eq]
      exact ⟨mem_mapKeys.2 hm, by decide⟩
  · simp only [hk, if_false]
    split
    · rename_i hm
      obtain ⟨x, hx, hc⟩ := List.mem_map.1 hm
      exact absurd (hc.symm.trans (hL x hx)) hk
    · rfl

theorem stripETagSuffix_eq (suffix : Option Bytes) (e : Bytes) :
    stripETagSuffix suffix e = etagStripped suffix e := by
  cases suffix with
  | none => rfl
  | some t =>
    simp only [stripETagSuffix, etagStripped]
    by_cases h1 : hasSuffix e (t ++ b!"\"") = true
    · have h1' := (hasSuffix_iff_take e (t ++ b!"\"")).1 h1
      simp only [List.length_append, List.length_cons, List.length_nil] at h1'
      have : (e == List.take (e.length - (t.length + 1)) e ++ t ++ b!"\"") = true := by
        rw [beq_iff_eq, List.append_assoc]; exact h1'.symm
      rw [if_pos h1, if_pos this, trimSuffix_of_hasSuffix h1]
      simp
    · have : ¬ (e == List.take (e.length - (t.length + 1)) e ++ t ++ b!"\"") = true := by
        rw [beq_iff_eq, List.append_assoc]
        intro he
        apply h1
        rw [hasSuffix_iff_take]
        simp only [List.length_append, List.length_cons, List.length_nil]
        exact he.symm
      rw [if_neg h1, if_neg this]
      by_cases h2 : hasSuffix e t = true
      · have h2' := (hasSuffix_iff_take e t).1 h2
        have : (e == List.take (e.length - t.length) e ++ t) = true := by
          rw [beq_iff_eq]; exact h2'.symm
        rw [if_pos h2, if_pos this, trimSuffix_of_hasSuffix h2]
      · have : ¬ (e == List.take (e.length - t.length) e ++ t) = true := by
          rw [beq_iff_eq]
          intro he
          exact h2 ((hasSuffix_iff_take e t).2 he.symm)
        rw [if_neg h2, if_neg this]

end Model.Codec
