import RrModel.Exec
/-
  Helper lemmas for the executor model (`RrModel/Exec.lean`): locality of the performer.
  `doOnce` / `attemptLoop` / `performRequest` on host `h` read only `failCount · h` and the script,
  bump only `h`'s counter and append only contacts whose host is `h`.  Packaged as a simulation
  `Sim hc s s'` ("`s` and `s'` agree up to host `hc`'s failure counter and `hc`'s contacts"):
  a request to a host `h ≠ hc` run on both sides gives the same answer and keeps `Sim`;
  a request to `hc` run on the left side only keeps `Sim`.  Used by C20 (copy invisibility).
-/
namespace Model.ExecSim
open Go Model

/-! ### the per-host failure counter -/

theorem lookup_filter_ne (l : List (Bytes × Nat)) (h h' : Bytes) (hne : h' ≠ h) :
    (l.filter (·.1 ≠ h)).lookup h' = l.lookup h' := by
  induction l with
  | nil => rfl
  | cons p l ih =>
    obtain ⟨k, n⟩ := p
    by_cases hk : k = h
    · have h1 : (h' == k) = false := by subst hk; simpa using hne
      have h2 : decide ((k, n).1 ≠ h) = false := by simpa using hk
      rw [List.filter_cons, h2, if_neg (by decide), List.lookup_cons, h1]
      exact ih
    · have h2 : decide ((k, n).1 ≠ h) = true := by simpa using hk
      rw [List.filter_cons, h2, if_pos rfl, List.lookup_cons, List.lookup_cons, ih]

/-- `bumpFail` is a point update of the counter -/
theorem failCount_bumpFail (s : ExecState) (h h' : Bytes) :
    failCount (bumpFail s h) h' = if h' = h then failCount s h + 1 else failCount s h' := by
  by_cases hh : h' = h
  · subst hh
    simp [failCount, bumpFail]
  · have h1 : (h' == h) = false := by simpa using hh
    rw [if_neg hh]
    simp only [failCount, bumpFail, List.lookup_cons, h1]
    rw [lookup_filter_ne _ _ _ hh]

/-! ### the simulation -/

/-- `s` and `s'` agree on every failure counter except `hc`'s, and the contacts of `s` with
    `hc`'s removed are the contacts of `s'` (`remaining` is not part of the relation) -/
def Sim (hc : Bytes) (s s' : ExecState) : Prop :=
  (∀ h, h ≠ hc → failCount s h = failCount s' h) ∧
  s.contacts.filter (·.host ≠ hc) = s'.contacts

theorem Sim.init (hc b b' : Bytes) : Sim hc { remaining := b } { remaining := b' } :=
  ⟨fun _ _ => rfl, rfl⟩

/-- `Sim` does not look at `remaining` -/
theorem Sim.setRemaining {hc : Bytes} {s s' : ExecState} (h : Sim hc s s') (r r' : Bytes) :
    Sim hc { s with remaining := r } { s' with remaining := r' } := h

theorem filter_append_keep (l : List Contact) (c : Contact) (hc : Bytes) (h : c.host ≠ hc) :
    (l ++ [c]).filter (·.host ≠ hc) = l.filter (·.host ≠ hc) ++ [c] := by
  simp [List.filter_append, h]

theorem filter_append_drop (l : List Contact) (c : Contact) (hc : Bytes) (h : c.host = hc) :
    (l ++ [c]).filter (·.host ≠ hc) = l.filter (·.host ≠ hc) := by
  simp [List.filter_append, h]

/-! ### one `Do` -/

/-- the same request to a host other than `hc` on both sides: same answer, `Sim` kept -/
theorem doOnce_sim (script : List OriginEntry) (hc h m b : Bytes) (hne : h ≠ hc)
    (s s' : ExecState) (hs : Sim hc s s') :
    (doOnce script s h m b).2 = (doOnce script s' h m b).2 ∧
    Sim hc (doOnce script s h m b).1 (doOnce script s' h m b).1 := by
  have hfc : failCount s h = failCount s' h := hs.1 h hne
  have hfail : ∀ c : Contact, c.host = h →
      Sim hc { bumpFail s h with contacts := s.contacts ++ [c] }
             { bumpFail s' h with contacts := s'.contacts ++ [c] } := by
    intro c hch
    refine ⟨?_, ?_⟩
    · intro k hk
      have e1 : failCount { bumpFail s h with contacts := s.contacts ++ [c] } k = failCount (bumpFail s h) k := rfl
      have e2 : failCount { bumpFail s' h with contacts := s'.contacts ++ [c] } k = failCount (bumpFail s' h) k := rfl
      rw [e1, e2, failCount_bumpFail, failCount_bumpFail, hfc, hs.1 k hk]
    · show (s.contacts ++ [c]).filter (·.host ≠ hc) = s'.contacts ++ [c]
      rw [filter_append_keep _ _ _ (by rw [hch]; exact hne), hs.2]
  unfold doOnce
  cases hf : script.find? (·.host = h) with
  | none => exact ⟨rfl, hfail _ rfl⟩
  | some e =>
    simp only [← hfc]
    by_cases hlt : failCount s h < e.connectErrors
    · simp only [hlt, ↓reduceIte]
      exact ⟨by trivial, hfail _ rfl⟩
    · simp only [hlt, ↓reduceIte]
      refine ⟨by trivial, hs.1, ?_⟩
      show (s.contacts ++ [_]).filter (·.host ≠ hc) = s'.contacts ++ [_]
      rw [filter_append_keep _ _ _ (by exact hne), hs.2]

/-- a request to `hc` on the left side only: `Sim` kept -/
theorem doOnce_left (script : List OriginEntry) (hc m b : Bytes) (s s' : ExecState)
    (hs : Sim hc s s') : Sim hc (doOnce script s hc m b).1 s' := by
  have hfail : ∀ c : Contact, c.host = hc →
      Sim hc { bumpFail s hc with contacts := s.contacts ++ [c] } s' := by
    intro c hch
    refine ⟨?_, ?_⟩
    · intro k hk
      have e1 : failCount { bumpFail s hc with contacts := s.contacts ++ [c] } k = failCount (bumpFail s hc) k := rfl
      rw [e1, failCount_bumpFail, if_neg hk, hs.1 k hk]
    · show (s.contacts ++ [c]).filter (·.host ≠ hc) = s'.contacts
      rw [filter_append_drop _ _ _ hch, hs.2]
  unfold doOnce
  cases hf : script.find? (·.host = hc) with
  | none => exact hfail _ rfl
  | some e =>
    by_cases hlt : failCount s hc < e.connectErrors
    · simp only [hlt, ↓reduceIte]
      exact hfail _ rfl
    · simp only [hlt, ↓reduceIte]
      refine ⟨hs.1, ?_⟩
      show (s.contacts ++ [_]).filter (·.host ≠ hc) = s'.contacts
      rw [filter_append_drop s.contacts ⟨hc, m, false, b⟩ hc rfl, hs.2]

/-! ### the attempt loop -/

theorem attemptLoop_sim (script : List OriginEntry) (hc h m b : Bytes) (hne : h ≠ hc) (n : Nat)
    (s s' : ExecState) (hs : Sim hc s s') :
    (attemptLoop script h m b n s).2 = (attemptLoop script h m b n s').2 ∧
    Sim hc (attemptLoop script h m b n s).1 (attemptLoop script h m b n s').1 := by
  induction n generalizing s s' with
  | zero => exact ⟨rfl, hs⟩
  | succ n ih =>
    unfold attemptLoop
    obtain ⟨hr, hs1⟩ := doOnce_sim script hc h m b hne s s' hs
    cases hd : doOnce script s h m b with
    | mk t r =>
      cases hd' : doOnce script s' h m b with
      | mk t' r' =>
        rw [hd, hd'] at hr hs1
        simp only at hr hs1
        subst hr
        cases r with
        | some e => exact ⟨rfl, hs1⟩
        | none => exact ih t t' hs1

theorem attemptLoop_left (script : List OriginEntry) (hc m b : Bytes) (n : Nat)
    (s s' : ExecState) (hs : Sim hc s s') : Sim hc (attemptLoop script hc m b n s).1 s' := by
  induction n generalizing s with
  | zero => exact hs
  | succ n ih =>
    unfold attemptLoop
    have hs1 := doOnce_left script hc m b s s' hs
    cases hd : doOnce script s hc m b with
    | mk t r =>
      rw [hd] at hs1
      cases r with
      | some e => exact hs1
      | none => exact ih t hs1

/-! ### `performRequest` -/

/-- the bytes a body source delivers to the request -/
def delivered (st : ExecState) : BodySrc → Bytes
  | .buffered d => d
  | .client => st.remaining

/-- the same request to a host other than `hc` on `Sim`-related states, from possibly different
    body sources that deliver the same bytes: same answer, `Sim` kept -/
theorem performRequest_sim (script : List OriginEntry) (retries : Nat) (excl hc h m : Bytes)
    (hne : h ≠ hc) (ra : Bool) (s s' : ExecState) (src src' : BodySrc) (hs : Sim hc s s')
    (hb : delivered s src = delivered s' src') :
    (performRequest script retries excl s h m src ra).2
      = (performRequest script retries excl s' h m src' ra).2 ∧
    Sim hc (performRequest script retries excl s h m src ra).1
           (performRequest script retries excl s' h m src' ra).1 := by
  unfold performRequest
  by_cases hcnd : m ≠ excl ∧ ra = true
  · rw [if_pos hcnd, if_pos hcnd]
    cases src <;> cases src' <;> simp only [delivered] at hb <;> simp only [hb] <;>
      exact attemptLoop_sim script hc h m _ hne _ _ _ hs
  · rw [if_neg hcnd, if_neg hcnd]
    cases src <;> cases src' <;> simp only [delivered] at hb <;> simp only [hb] <;>
      exact doOnce_sim script hc h m _ hne _ _ hs

/-- a request to `hc` on the left side only: `Sim` kept -/
theorem performRequest_left (script : List OriginEntry) (retries : Nat) (excl hc m : Bytes)
    (ra : Bool) (s s' : ExecState) (src : BodySrc) (hs : Sim hc s s') :
    Sim hc (performRequest script retries excl s hc m src ra).1 s' := by
  unfold performRequest
  split
  · cases src
    · exact attemptLoop_left script hc m _ _ s s' hs
    · exact attemptLoop_left script hc m _ _ _ s' hs
  · cases src
    · exact doOnce_left script hc m _ s s' hs
    · exact doOnce_left script hc m _ _ s' hs

end Model.ExecSim
