import RrModel.Go.Header
/-
  Get-after-update lemmas for `Go.Header` (raw level: `vals` of `setRaw`/`addRaw`/`delRaw`;
  Go level: `values`/`get` of `set`/`add`/`del`), facts about `canon`
  (`textproto.CanonicalMIMEHeaderKey`): idempotence, invariance under case changes, and
  `keys`-free structural facts (`rawKeys`, distinct keys are preserved by every update).
  All statements hold for every association list (no representation invariant needed).
-/
namespace Go

/-! ### bytes -/

theorem lowerByte_lowerByte (c : Nat) : lowerByte (lowerByte c) = lowerByte c := by
  unfold lowerByte; repeat' (first | omega | split)

theorem upperByte_upperByte (c : Nat) : upperByte (upperByte c) = upperByte c := by
  unfold upperByte; repeat' (first | omega | split)

theorem lowerByte_upperByte (c : Nat) : lowerByte (upperByte c) = lowerByte c := by
  unfold lowerByte upperByte; repeat' (first | omega | split)

theorem upperByte_lowerByte (c : Nat) : upperByte (lowerByte c) = upperByte c := by
  unfold lowerByte upperByte; repeat' (first | omega | split)

theorem lowerByte_eq_dash (c : Nat) : lowerByte c = 45 ↔ c = 45 := by
  unfold lowerByte; repeat' (first | omega | split)

theorem upperByte_eq_dash (c : Nat) : upperByte c = 45 ↔ c = 45 := by
  unfold upperByte; repeat' (first | omega | split)

theorem isTokenByte_of_upper {c : Nat} (h : 65 ≤ c ∧ c ≤ 90) : isTokenByte c = true := by
  unfold isTokenByte
  have : (65 ≤ c && c ≤ 90) = true := by simp [h.1, h.2]
  simp [this]

theorem isTokenByte_of_lower {c : Nat} (h : 97 ≤ c ∧ c ≤ 122) : isTokenByte c = true := by
  unfold isTokenByte
  have : (97 ≤ c && c ≤ 122) = true := by simp [h.1, h.2]
  simp [this]

theorem isTokenByte_lowerByte (c : Nat) : isTokenByte (lowerByte c) = isTokenByte c := by
  unfold lowerByte
  split
  · next h => rw [isTokenByte_of_upper h, isTokenByte_of_lower (by omega)]
  · rfl

theorem isTokenByte_upperByte (c : Nat) : isTokenByte (upperByte c) = isTokenByte c := by
  rw [← isTokenByte_lowerByte (upperByte c), lowerByte_upperByte, isTokenByte_lowerByte]

/-! ### `canon` -/

theorem toLower_canonGo (k : Bytes) (u : Bool) : toLower (canonGo k u) = toLower k := by
  induction k generalizing u with
  | nil => rfl
  | cons c t ih =>
    simp only [canonGo, toLower, List.map_cons] at *
    rw [ih]
    cases u <;> simp [lowerByte_lowerByte, lowerByte_upperByte]

theorem canonGo_length (k : Bytes) (u : Bool) : (canonGo k u).length = k.length := by
  induction k generalizing u with
  | nil => rfl
  | cons c t ih => simp [canonGo, ih]

theorem all_token_canonGo (k : Bytes) (u : Bool) :
    (canonGo k u).all isTokenByte = k.all isTokenByte := by
  induction k generalizing u with
  | nil => rfl
  | cons c t ih =>
    simp only [canonGo, List.all_cons]
    rw [ih]
    cases u <;> simp [isTokenByte_lowerByte, isTokenByte_upperByte]

theorem canonGo_canonGo (k : Bytes) (u : Bool) : canonGo (canonGo k u) u = canonGo k u := by
  induction k generalizing u with
  | nil => rfl
  | cons c t ih =>
    cases u with
    | true =>
      simp only [canonGo, if_true]
      rw [upperByte_upperByte, ih]
    | false =>
      simp only [canonGo, Bool.false_eq_true, if_false]
      rw [lowerByte_lowerByte, ih]

/-- the casing loop only looks at the lower-cased text -/
theorem canonGo_congr {a b : Bytes} (h : toLower a = toLower b) (u : Bool) :
    canonGo a u = canonGo b u := by
  induction a generalizing b u with
  | nil =>
    cases b with
    | nil => rfl
    | cons d t => simp [toLower] at h
  | cons c s ih =>
    cases b with
    | nil => simp [toLower] at h
    | cons d t =>
      simp only [toLower, List.map_cons, List.cons.injEq] at h
      obtain ⟨hc, ht⟩ := h
      have hu : upperByte c = upperByte d := by
        rw [← upperByte_lowerByte c, ← upperByte_lowerByte d, hc]
      cases u with
      | true =>
        simp only [canonGo, if_true]
        rw [hu, ih (b := t) ht]
      | false =>
        simp only [canonGo, Bool.false_eq_true, if_false]
        rw [hc, ih (b := t) ht]

theorem all_token_congr {a b : Bytes} (h : toLower a = toLower b) :
    a.all isTokenByte = b.all isTokenByte := by
  induction a generalizing b with
  | nil =>
    cases b with
    | nil => rfl
    | cons d t => simp [toLower] at h
  | cons c s ih =>
    cases b with
    | nil => simp [toLower] at h
    | cons d t =>
      simp only [toLower, List.map_cons, List.cons.injEq] at h
      obtain ⟨hc, ht⟩ := h
      simp only [List.all_cons]
      rw [ih (b := t) ht, ← isTokenByte_lowerByte c, hc, isTokenByte_lowerByte]

/-- `CanonicalMIMEHeaderKey` is idempotent -/
@[simp] theorem canon_canon (k : Bytes) : canon (canon k) = canon k := by
  unfold canon
  by_cases h : k.all isTokenByte = true
  · simp only [h, if_true, all_token_canonGo, canonGo_canonGo]
  · simp [h]

/-- canonicalisation never changes the case-insensitive name -/
theorem toLower_canon (k : Bytes) : toLower (canon k) = toLower k := by
  unfold canon; split
  · exact toLower_canonGo k true
  · rfl

theorem all_token_canon (k : Bytes) : (canon k).all isTokenByte = k.all isTokenByte := by
  unfold canon; split
  · exact all_token_canonGo k true
  · rfl

/-- token names that differ only in case have the same canonical key -/
theorem canon_congr {a b : Bytes} (ha : a.all isTokenByte = true) (h : toLower a = toLower b) :
    canon a = canon b := by
  unfold canon
  rw [← all_token_congr h, ha, canonGo_congr h]
  rfl

/-- for token names: same canonical key ⇔ equal up to case -/
theorem canon_eq_iff {a b : Bytes} (ha : a.all isTokenByte = true) :
    canon a = canon b ↔ toLower a = toLower b := by
  constructor
  · intro h
    rw [← toLower_canon a, h, toLower_canon]
  · exact canon_congr ha

/-! ### raw level: `vals` after `delRaw` / `setRaw` / `addRaw` -/

namespace Header

@[simp] theorem vals_nil (k : Bytes) : vals [] k = [] := rfl

theorem vals_cons (k' : Bytes) (vs : List Bytes) (t : Header) (k : Bytes) :
    vals ((k', vs) :: t) k = if k' = k then vs else vals t k := rfl

@[simp] theorem delRaw_nil (k : Bytes) : delRaw [] k = [] := rfl

theorem delRaw_cons (e : Bytes × List Bytes) (t : Header) (k : Bytes) :
    delRaw (e :: t) k = if e.1 = k then delRaw t k else e :: delRaw t k := by
  unfold delRaw
  by_cases h : e.1 = k <;> simp [h]

@[simp] theorem vals_delRaw (h : Header) (k k' : Bytes) :
    vals (delRaw h k) k' = if k = k' then [] else vals h k' := by
  induction h with
  | nil => simp
  | cons e t ih =>
    obtain ⟨a, vs⟩ := e
    rw [delRaw_cons]
    by_cases h1 : a = k
    · simp only [h1, if_true, ih, vals_cons]
      by_cases h2 : k = k' <;> simp [h2]
    · simp only [h1, if_false, vals_cons, ih]
      by_cases h2 : k = k'
      · have : a ≠ k' := h2 ▸ h1
        simp [h2, this]
      · simp [h2]

@[simp] theorem vals_setRaw (h : Header) (k v k' : Bytes) :
    vals (setRaw h k v) k' = if k = k' then [v] else vals h k' := by
  unfold setRaw
  rw [vals_cons, vals_delRaw]
  by_cases h1 : k = k' <;> simp [h1]

@[simp] theorem vals_addRaw (h : Header) (k v k' : Bytes) :
    vals (addRaw h k v) k' = if k = k' then vals h k ++ [v] else vals h k' := by
  unfold addRaw
  rw [vals_cons, vals_delRaw]
  by_cases h1 : k = k' <;> simp [h1]

/-! ### Go level: `values` / `get` after `set` / `add` / `del` -/

@[simp] theorem values_set (h : Header) (k v k' : Bytes) :
    values (set h k v) k' = if canon k = canon k' then [v] else values h k' := by
  simp [values, set]

@[simp] theorem values_add (h : Header) (k v k' : Bytes) :
    values (add h k v) k' = if canon k = canon k' then values h k ++ [v] else values h k' := by
  simp [values, add]

@[simp] theorem values_del (h : Header) (k k' : Bytes) :
    values (del h k) k' = if canon k = canon k' then [] else values h k' := by
  simp [values, del]

@[simp] theorem get_set (h : Header) (k v k' : Bytes) :
    get (set h k v) k' = if canon k = canon k' then v else get h k' := by
  unfold get; rw [values_set]; split <;> rfl

@[simp] theorem get_del (h : Header) (k k' : Bytes) :
    get (del h k) k' = if canon k = canon k' then [] else get h k' := by
  unfold get; rw [values_del]; split <;> rfl

theorem get_add (h : Header) (k v k' : Bytes) :
    get (add h k v) k' = if canon k = canon k' then (values h k ++ [v]).headD [] else get h k' := by
  unfold get; rw [values_add]; split <;> rfl

theorem get_set_self (h : Header) (k v : Bytes) : get (set h k v) k = v := by simp

theorem get_del_self (h : Header) (k : Bytes) : get (del h k) k = [] := by simp

theorem values_set_self (h : Header) (k v : Bytes) : values (set h k v) k = [v] := by simp

theorem values_del_self (h : Header) (k : Bytes) : values (del h k) k = [] := by simp

/-- `Get` is non-empty only if there is a value -/
theorem values_ne_nil_of_get_ne {h : Header} {k : Bytes} (hg : get h k ≠ []) : values h k ≠ [] := by
  intro hv; apply hg; simp [get, hv]

theorem get_eq_of_values_eq {h h' : Header} {k k' : Bytes} (hv : values h k = values h' k') :
    get h k = get h' k' := by simp [get, hv]

/-! ### raw keys: membership and distinctness are preserved by every update -/

/-- the raw keys of the entries, in order -/
def rawKeys (h : Header) : List Bytes := h.map (·.1)

@[simp] theorem rawKeys_nil : rawKeys [] = [] := rfl
@[simp] theorem rawKeys_cons (e : Bytes × List Bytes) (t : Header) :
    rawKeys (e :: t) = e.1 :: rawKeys t := rfl

theorem mem_rawKeys_delRaw {h : Header} {k a : Bytes} :
    a ∈ rawKeys (delRaw h k) ↔ a ∈ rawKeys h ∧ a ≠ k := by
  unfold rawKeys delRaw
  simp only [List.mem_map, List.mem_filter, decide_eq_true_eq]
  constructor
  · rintro ⟨e, ⟨he, hne⟩, rfl⟩; exact ⟨⟨e, he, rfl⟩, hne⟩
  · rintro ⟨⟨e, he, rfl⟩, hne⟩; exact ⟨e, ⟨he, hne⟩, rfl⟩

theorem mem_rawKeys_setRaw {h : Header} {k v a : Bytes} :
    a ∈ rawKeys (setRaw h k v) ↔ a = k ∨ a ∈ rawKeys h := by
  unfold setRaw
  rw [rawKeys_cons, List.mem_cons, mem_rawKeys_delRaw]
  by_cases hak : a = k <;> simp [hak]

theorem mem_rawKeys_addRaw {h : Header} {k v a : Bytes} :
    a ∈ rawKeys (addRaw h k v) ↔ a = k ∨ a ∈ rawKeys h := by
  unfold addRaw
  rw [rawKeys_cons, List.mem_cons, mem_rawKeys_delRaw]
  by_cases hak : a = k <;> simp [hak]

theorem nodup_rawKeys_delRaw {h : Header} (k : Bytes) (hn : (rawKeys h).Nodup) :
    (rawKeys (delRaw h k)).Nodup := by
  unfold rawKeys delRaw at *
  exact (List.Nodup.sublist (List.Sublist.map _ List.filter_sublist) hn)

theorem nodup_rawKeys_setRaw {h : Header} (k v : Bytes) (hn : (rawKeys h).Nodup) :
    (rawKeys (setRaw h k v)).Nodup := by
  unfold setRaw
  rw [rawKeys_cons, List.nodup_cons]
  refine ⟨?_, nodup_rawKeys_delRaw k hn⟩
  intro hm
  exact (mem_rawKeys_delRaw.1 hm).2 rfl

theorem nodup_rawKeys_addRaw {h : Header} (k v : Bytes) (hn : (rawKeys h).Nodup) :
    (rawKeys (addRaw h k v)).Nodup := by
  unfold addRaw
  rw [rawKeys_cons, List.nodup_cons]
  refine ⟨?_, nodup_rawKeys_delRaw k hn⟩
  intro hm
  exact (mem_rawKeys_delRaw.1 hm).2 rfl

/-- all values stored under a raw key by any entry (`vals` sees only the first entry) -/
def allVals (h : Header) (k : Bytes) : List Bytes := (h.filter fun e => e.1 = k).flatMap (·.2)

theorem vals_eq_nil_of_not_mem {h : Header} {k : Bytes} (hk : k ∉ rawKeys h) : vals h k = [] := by
  induction h with
  | nil => rfl
  | cons e t ih =>
    obtain ⟨a, vs⟩ := e
    simp only [rawKeys_cons, List.mem_cons, not_or] at hk
    rw [vals_cons, if_neg (fun h => hk.1 h.symm), ih hk.2]

theorem allVals_eq_nil_of_not_mem {h : Header} {k : Bytes} (hk : k ∉ rawKeys h) : allVals h k = [] := by
  induction h with
  | nil => rfl
  | cons e t ih =>
    obtain ⟨a, vs⟩ := e
    simp only [rawKeys_cons, List.mem_cons, not_or] at hk
    have : a ≠ k := fun h => hk.1 h.symm
    simp only [allVals, List.filter_cons, this, decide_false, Bool.false_eq_true, if_false]
    exact ih hk.2

/-- with distinct raw keys (a Go map) the first entry is the only one -/
theorem allVals_eq_vals {h : Header} (hn : (rawKeys h).Nodup) (k : Bytes) : allVals h k = vals h k := by
  induction h with
  | nil => rfl
  | cons e t ih =>
    obtain ⟨a, vs⟩ := e
    rw [rawKeys_cons, List.nodup_cons] at hn
    by_cases hak : a = k
    · subst hak
      have := allVals_eq_nil_of_not_mem hn.1
      simp only [allVals] at this
      simp [allVals, vals_cons, this]
    · simp only [allVals, List.filter_cons, hak, decide_false, Bool.false_eq_true, if_false, vals_cons]
      exact ih hn.2

/-- with distinct raw keys every entry is the one `vals` finds -/
theorem mem_vals_of_nodup {h : Header} (hn : (rawKeys h).Nodup) {k : Bytes} {vs : List Bytes}
    (hm : (k, vs) ∈ h) : vals h k = vs := by
  induction h with
  | nil => cases hm
  | cons e t ih =>
    obtain ⟨a, ws⟩ := e
    rw [rawKeys_cons, List.nodup_cons] at hn
    rcases List.mem_cons.1 hm with heq | hm'
    · cases heq; simp [vals_cons]
    · have : a ≠ k := by
        intro hak; subst hak
        exact hn.1 (List.mem_map.2 ⟨(a, vs), hm', rfl⟩)
      rw [vals_cons, if_neg this]
      exact ih hn.2 hm'

end Header

end Go
