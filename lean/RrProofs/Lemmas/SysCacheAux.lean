import RrModel.SysCache
import RrProofs.Props.C07
import RrProofs.Lemmas.Header
import RrProofs.Lemmas.Itoa
import RrProofs.Lemmas.HeaderC09
/-
  General lemmas for the system-level C07 / C13 / C05 theorems (`Props/C07Sys.lean`):
  * the codec never misreports a NUMBER or a plain field it wrote (`decode_encode_fields`): whatever
    the header maps contain, if `decode (encode m)` yields an entry at all, its size, status, the two
    time stamps, host, path and redirect URL are those of `m` (no hypothesis on `m`);
  * every header map the decoder hands out is in canonical form (`Canonical`: distinct raw keys, each
    its own canonical form) because it is built with `Header.Set` from the empty map; so is every
    header map the scripted origin answers with (`originAnswer_canonical`, `ask_canonical`), and
    `copyHeaders` / `suffixETag` / `storePrep` keep the form;
  * `clearAndCopyHeaders` (`Conditional.copyHeaders`) on a canonical map: `Values`/`Get` of the result
    (`values_copyHeaders`, `get_copyHeaders`), the directives of what the client is sent
    (`directives_clientHeader`), and congruence under "same value list under every name"
    (`values_copyHeaders_congr`, `values_suffixETag_congr`, `freshness_decide_congr`).
-/
namespace Lemmas.SysCacheAux
open Go Model Model.Codec Model.SysCache

/-! ### numbers survive the codec, unconditionally -/

/-- `ParseInt(FormatInt(i))` is `i` or an error (out of the int64 range), never another number -/
theorem parseInt_itoa_inv {i v : Int} (h : parseInt (itoa i) = some v) : v = i := by
  by_cases hr : minInt64 ≤ i ∧ i ≤ maxInt64
  · rw [parseInt_itoa hr.1 hr.2] at h
    exact (Option.some.inj h).symm
  · exfalso
    unfold itoa at h
    by_cases hneg : i < 0
    · simp only [hneg, if_true] at h
      have hv := digitsVal_natDigits i.natAbs
      have hne := natDigits_ne_nil i.natAbs
      unfold parseInt at h
      simp only at h
      have hemp : (natDigits i.natAbs).isEmpty = false := by
        cases h' : natDigits i.natAbs with
        | nil => exact absurd h' hne
        | cons _ _ => rfl
      rw [hemp, hv] at h
      simp only [Bool.false_eq_true, if_false] at h
      have h1 : (-((i.natAbs : Nat) : Int) < minInt64) := by
        have : minInt64 = -9223372036854775808 := rfl
        have : maxInt64 = 9223372036854775807 := rfl
        omega
      rw [if_pos h1] at h
      cases h
    · simp only [hneg, if_false] at h
      obtain ⟨c, t, hct, h1, h2⟩ := natDigits_head i.natAbs
      have hv := digitsVal_natDigits i.natAbs
      rw [hct] at hv h
      unfold parseInt at h
      split at h
      · rename_i heq; cases heq
      · rename_i heq; injection heq with e _; omega
      · rename_i heq; injection heq with e _; omega
      · rw [hv] at h
        have : ((i.natAbs : Nat) : Int) > maxInt64 := by
          have : minInt64 = -9223372036854775808 := rfl
          have : maxInt64 = 9223372036854775807 := rfl
          omega
        simp only [this, if_true] at h
        cases h

theorem sToInt64_itoa_inv {i v : Int} (h : sToInt64 (itoa i) = .val v) : v = i := by
  unfold sToInt64 at h
  split at h
  · rename_i v' heq
    cases h
    exact parseInt_itoa_inv heq
  · cases h

/-- **the codec never misreports a plain field.**  For EVERY metadata value: if decoding what the
    encoder wrote yields an entry, then its size, status, time stamps, host, path and redirect URL are
    the ones written (only the two header maps can differ: finding C07-a). -/
theorem decode_encode_fields {m m' : Meta} (h : decode (encode m) = .ok (some m')) :
    m'.size = m.size ∧ m'.status = m.status ∧ m'.created = m.created ∧ m'.revalidated = m.revalidated ∧
    m'.host = m.host ∧ m'.path = m.path ∧ m'.redirect = m.redirect := by
  by_cases hlen : (split1 124 (encode m)).length = 9
  · have hc := Props.C07.count_pipe_encode m
    rw [length_split1] at hlen
    have z : ∀ {l : Bytes}, l.count 124 = 0 → 124 ∉ l := fun h => List.count_eq_zero.1 h
    have hsplit : split1 124 (encode m) = [m.host, m.path, headerToS m.reqHeader, headerToS m.respHeader,
        itoa m.status, m.redirect, itoa m.created, itoa m.revalidated, itoa m.size] := by
      unfold encode
      rw [Props.C07.encodeCustom_eq_join]
      apply split1_join (by simp)
      intro p hp'
      simp only [List.mem_cons, List.not_mem_nil, or_false] at hp'
      rcases hp' with rfl | rfl | rfl | rfl | rfl | rfl | rfl | rfl | rfl
      · exact z (by omega)
      · exact z (by omega)
      · exact z (by omega)
      · exact z (by omega)
      · exact Props.C07.pipe_not_mem_itoa _
      · exact z (by omega)
      · exact Props.C07.pipe_not_mem_itoa _
      · exact Props.C07.pipe_not_mem_itoa _
      · exact Props.C07.pipe_not_mem_itoa _
    unfold decode decodeCustom at h
    rw [hsplit] at h
    simp only at h
    generalize sToHeader [] (headerToS m.reqHeader) = r1 at h
    generalize sToHeader [] (headerToS m.respHeader) = r2 at h
    rcases r1 with (a | e) | s
    · rcases r2 with (b | e) | s
      · simp only at h
        generalize h4 : sToInt64 (itoa m.status) = x4 at h
        generalize h6 : sToInt64 (itoa m.created) = x6 at h
        generalize h7 : sToInt64 (itoa m.revalidated) = x7 at h
        generalize h8 : sToInt64 (itoa m.size) = x8 at h
        cases x4 <;> cases x6 <;> cases x7 <;> cases x8 <;> simp only at h <;> try (cases h; done)
        injection h with h
        injection h with h
        subst h
        exact ⟨sToInt64_itoa_inv h8, sToInt64_itoa_inv h4, sToInt64_itoa_inv h6, sToInt64_itoa_inv h7, rfl, rfl, rfl⟩
      · simp only at h; cases h
      · simp only at h; cases h
    · simp only at h; cases h
    · simp only at h; cases h
  · unfold decode at h
    rw [Props.C07.decodeCustom_badLength hlen] at h
    cases h

/-! ### canonical header maps -/

/-- distinct raw keys, each its own canonical form: what a Go `http.Header` that was filled through
    `Set` / `Add` / `Del` only (net/http's parser, `sToHeader`) looks like -/
def Canonical (h : Header) : Prop := (Header.rawKeys h).Nodup ∧ ∀ k ∈ Header.rawKeys h, canon k = k

theorem Canonical.nil : Canonical [] := ⟨List.nodup_nil, fun _ h => by cases h⟩

theorem Canonical.set {h : Header} (hc : Canonical h) (k v : Bytes) : Canonical (h.set k v) := by
  refine ⟨Header.nodup_rawKeys_setRaw _ _ hc.1, ?_⟩
  intro a ha
  rcases Header.mem_rawKeys_setRaw.1 ha with rfl | ha
  · exact canon_canon k
  · exact hc.2 a ha

theorem Canonical.add {h : Header} (hc : Canonical h) (k v : Bytes) : Canonical (h.add k v) := by
  refine ⟨Header.nodup_rawKeys_addRaw _ _ hc.1, ?_⟩
  intro a ha
  rcases Header.mem_rawKeys_addRaw.1 ha with rfl | ha
  · exact canon_canon k
  · exact hc.2 a ha

theorem Canonical.del {h : Header} (hc : Canonical h) (k : Bytes) : Canonical (h.del k) := by
  refine ⟨Header.nodup_rawKeys_delRaw _ hc.1, ?_⟩
  intro a ha
  exact hc.2 a (Header.mem_rawKeys_delRaw.1 ha).1

theorem setPart_canonical {h h' : Header} {p : Bytes} (hc : Canonical h) (hs : setPart h p = .val h') :
    Canonical h' := by
  unfold setPart at hs
  split at hs
  · cases hs; exact hc.set _ _
  · cases hs

theorem sToHeaderLoop_canonical (n : Nat) : ∀ (parts : List Bytes) (h : Header) (i : Nat) (h' : Header),
    Canonical h → sToHeaderLoop n h i parts = .ok (.val h') → Canonical h'
  | [], h, i, h', hc, hs => by
    unfold sToHeaderLoop at hs
    cases hs; exact hc
  | p :: rest, h, i, h', hc, hs => by
    unfold sToHeaderLoop at hs
    split at hs
    · cases hs
    · rename_i p' _
      split at hs
      · cases hs
      · rename_i h1 heq
        exact sToHeaderLoop_canonical n rest h1 (i + 1) h' (setPart_canonical hc heq) hs

theorem sToHeader_canonical {h h' : Header} {s : Bytes} (hc : Canonical h) (hs : sToHeader h s = .ok (.val h')) :
    Canonical h' := by
  unfold sToHeader at hs
  split at hs
  · cases hs
  · simp only at hs
    split at hs
    · cases hs; exact hc
    · exact sToHeaderLoop_canonical _ _ _ _ _ hc hs

/-- **every header map `decodeStorageMetadata` hands out is canonical** (it is rebuilt with `Header.Set`) -/
theorem decode_canonical {x : Bytes} {m : Meta} (h : decode x = .ok (some m)) :
    Canonical m.reqHeader ∧ Canonical m.respHeader := by
  unfold decode at h
  split at h
  · cases h
  · rename_i m0 heq
    cases h
    unfold decodeCustom at heq
    split at heq
    · split at heq
      · cases heq
      · cases heq
      · rename_i rq hrq
        split at heq
        · cases heq
        · cases heq
        · rename_i rs hrs
          split at heq
          · cases heq
          · split at heq
            · cases heq
            · split at heq
              · cases heq
              · split at heq
                · cases heq
                · cases heq
                  exact ⟨sToHeader_canonical Canonical.nil hrq, sToHeader_canonical Canonical.nil hrs⟩
    · cases heq
  · cases h

/-! ### `clearAndCopyHeaders` -/

/-- no entry of `ai` is a line named `k` -/
def NoKey (ai : Header) (k : Bytes) : Prop := ∀ e ∈ ai, canon e.1 ≠ canon k

theorem NoKey.nil (k : Bytes) : NoKey [] k := fun _ h => by cases h

theorem NoKey.set {ai : Header} {k : Bytes} (hn : NoKey ai k) {k' : Bytes} (v : Bytes) (hk : canon k' ≠ canon k) :
    NoKey (ai.set k' v) k := by
  intro e he
  unfold Header.set Header.setRaw at he
  rcases List.mem_cons.1 he with rfl | he
  · simpa using hk
  · unfold Header.delRaw at he
    exact hn e (List.mem_filter.1 he).1

theorem values_foldl_addAll (origin : Header) : ∀ (acc : Header) (k : Bytes),
    Header.values (origin.foldl (fun h e => e.2.foldl (fun h v => h.add e.1 v) h) acc) k =
      Header.values acc k ++ (origin.filter fun e => canon e.1 = canon k).flatMap (·.2) := by
  induction origin with
  | nil => intro acc k; simp
  | cons e t ih =>
    intro acc k
    rw [List.foldl_cons, ih, HeaderC09.values_foldl_add]
    by_cases hk : canon k = canon e.1
    · have hv : Header.values acc e.1 = Header.values acc k := by unfold Header.values; rw [hk]
      simp [hk, hv]
    · have hk' : ¬ canon e.1 = canon k := fun h => hk h.symm
      simp [hk, hk']

theorem values_foldl_setAll (ai : Header) : ∀ (acc : Header) (k : Bytes), NoKey ai k →
    Header.values (ai.foldl (fun h e => e.2.foldl (fun h v => h.set e.1 v) h) acc) k = Header.values acc k := by
  induction ai with
  | nil => intro acc k _; rfl
  | cons e t ih =>
    intro acc k hn
    rw [List.foldl_cons, ih _ _ (fun e' he' => hn e' (List.mem_cons_of_mem _ he'))]
    have hne : canon e.1 ≠ canon k := hn e (List.mem_cons_self ..)
    generalize e.2 = vv
    induction vv generalizing acc with
    | nil => rfl
    | cons v vs ih2 =>
      rw [List.foldl_cons, ih2, Header.values_set, if_neg hne]

/-- on a canonical map, `clearAndCopyHeaders` leaves the values of every name the alwaysInclude map
    does not mention as they are -/
theorem values_copyHeaders {origin ai : Header} {k : Bytes} (hc : Canonical origin) (hn : NoKey ai k) :
    Header.values (Conditional.copyHeaders origin ai) k = Header.values origin k := by
  unfold Conditional.copyHeaders
  rw [values_foldl_setAll _ _ _ hn, values_foldl_addAll]
  have hf : (origin.filter fun e => canon e.1 = canon k) = origin.filter fun e => e.1 = canon k := by
    apply List.filter_congr
    intro e he
    have := hc.2 e.1 (List.mem_map.2 ⟨e, he, rfl⟩)
    rw [this]
  rw [hf]
  have := Header.allVals_eq_vals hc.1 (canon k)
  unfold Header.allVals at this
  rw [this]
  simp [Header.values]

theorem get_copyHeaders {origin ai : Header} {k : Bytes} (hc : Canonical origin) (hn : NoKey ai k) :
    (Conditional.copyHeaders origin ai).get k = origin.get k := by
  unfold Header.get; rw [values_copyHeaders hc hn]

theorem values_suffixETag (sfx : Option Bytes) (h : Header) {k : Bytes} (hk : canon Conditional.kEtag ≠ canon k) :
    Header.values (Conditional.suffixETag sfx h) k = Header.values h k := by
  unfold Conditional.suffixETag
  split
  · rw [Header.values_set, if_neg hk]
  · rfl

theorem get_suffixETag (sfx : Option Bytes) (h : Header) {k : Bytes} (hk : canon Conditional.kEtag ≠ canon k) :
    (Conditional.suffixETag sfx h).get k = h.get k := by
  unfold Header.get; rw [values_suffixETag sfx h hk]

/-! ### the scripted origin answers with canonical header maps -/

theorem addAll_canonical (lines : List (Bytes × Bytes)) : Canonical (addAll lines) := by
  unfold addAll
  suffices h : ∀ (acc : Header), Canonical acc → Canonical (lines.foldl (fun h kv => h.add kv.1 kv.2) acc) from
    h [] Canonical.nil
  induction lines with
  | nil => intro acc h; exact h
  | cons kv t ih => intro acc h; exact ih _ (h.add _ _)

theorem originAnswer_canonical (o : Origin) (method : Bytes) (req : Header) (c : Option Nat) :
    Canonical (originAnswer o method req c).header := by
  unfold originAnswer
  repeat' first | split | (dsimp only; split)
  all_goals first
    | exact addAll_canonical _
    | exact (addAll_canonical _).del _
    | exact (addAll_canonical _).set _ _

theorem ask_canonical {cfg : Config} {origin : Bytes → Option Origin} {req : Request} {cs : List Contact}
    {h : Header} {resp : Resp} (ha : ask cfg origin req cs h = some resp) : Canonical resp.header := by
  unfold ask at ha
  split at ha
  · cases ha
  · cases ho : origin req.path with
    | none => rw [ho] at ha; cases ha
    | some o =>
      rw [ho] at ha
      simp only [Option.map_some, Option.some.injEq] at ha
      subst ha
      exact originAnswer_canonical ..

/-- the directives depend on the `Cache-Control` and `Vary` values only -/
theorem directives_congr {h h' : Header}
    (hcc : Header.values h b!"cache-control" = Header.values h' b!"cache-control")
    (hv : Header.values h b!"vary" = Header.values h' b!"vary") :
    getCacheControlDirectives h = getCacheControlDirectives h' := by
  unfold getCacheControlDirectives allHeaderValues
  rw [hcc, hv]

/-- what the client is sent carries the origin's directives: `clearAndCopyHeaders` and the ETag suffix
    leave `Cache-Control` and `Vary` of a canonical map alone -/
theorem directives_clientHeader {sfx : Option Bytes} {origin ai : Header} (hc : Canonical origin)
    (h1 : NoKey ai b!"cache-control") (h2 : NoKey ai b!"vary") :
    getCacheControlDirectives (Conditional.suffixETag sfx (Conditional.copyHeaders origin ai)) =
      getCacheControlDirectives origin := by
  apply directives_congr
  · rw [values_suffixETag _ _ (by decide), values_copyHeaders hc h1]
  · rw [values_suffixETag _ _ (by decide), values_copyHeaders hc h2]

/-! ### `cache.Get`'s decision reads the stored header map through `Values` only -/

theorem directives_congr_values {a b : Header} (hv : ∀ k, Header.values a k = Header.values b k) :
    getCacheControlDirectives a = getCacheControlDirectives b :=
  directives_congr (hv _) (hv _)

theorem get_congr_values {a b : Header} (hv : ∀ k, Header.values a k = Header.values b k) (k : Bytes) :
    a.get k = b.get k := by
  unfold Header.get; rw [hv]

/-- two stored header maps with the same value list under every name are judged alike -/
theorem freshness_decide_congr {a b : Header} (hv : ∀ k, Header.values a k = Header.values b k)
    (created revalidated now : Int) (force : Nat) (skip : Bool) (inm ims : Bytes) (sfx : Option Bytes) :
    Freshness.decide { header := a, created := created, revalidated := revalidated } now force skip inm ims sfx =
    Freshness.decide { header := b, created := created, revalidated := revalidated } now force skip inm ims sfx := by
  have hd := directives_congr_values hv
  have hg := get_congr_values hv
  unfold Freshness.decide Freshness.shouldRevalidate Freshness.clientCheck Freshness.ageOf
  simp only [hd, hg]

theorem values_of_vals {a b : Header} (hv : ∀ k, Header.vals a k = Header.vals b k) (k : Bytes) :
    Header.values a k = Header.values b k := by
  unfold Header.values; rw [hv]

/-! ### congruence: what the client is sent depends on the stored map through `Values` only -/

theorem values_addFold_canonical {origin : Header} (hc : Canonical origin) (k : Bytes) :
    Header.values (origin.foldl (fun h e => e.2.foldl (fun h v => h.add e.1 v) h) []) k = Header.values origin k := by
  rw [values_foldl_addAll]
  have hf : (origin.filter fun e => canon e.1 = canon k) = origin.filter fun e => e.1 = canon k := by
    apply List.filter_congr
    intro e he
    have := hc.2 e.1 (List.mem_map.2 ⟨e, he, rfl⟩)
    rw [this]
  rw [hf]
  have := Header.allVals_eq_vals hc.1 (canon k)
  unfold Header.allVals at this
  rw [this]
  simp [Header.values]

theorem values_foldl_setAll_congr (ai : Header) : ∀ (acc acc' : Header) (k : Bytes),
    Header.values acc k = Header.values acc' k →
    Header.values (ai.foldl (fun h e => e.2.foldl (fun h v => h.set e.1 v) h) acc) k =
      Header.values (ai.foldl (fun h e => e.2.foldl (fun h v => h.set e.1 v) h) acc') k := by
  induction ai with
  | nil => intro acc acc' k h; exact h
  | cons e t ih =>
    intro acc acc' k h
    rw [List.foldl_cons, List.foldl_cons]
    apply ih
    generalize e.2 = vv
    induction vv generalizing acc acc' with
    | nil => exact h
    | cons v vs ih2 =>
      rw [List.foldl_cons, List.foldl_cons]
      apply ih2
      rw [Header.values_set, Header.values_set, h]

theorem values_copyHeaders_congr {a b : Header} (ai : Header) (ha : Canonical a) (hb : Canonical b)
    (hv : ∀ k, Header.values a k = Header.values b k) (k : Bytes) :
    Header.values (Conditional.copyHeaders a ai) k = Header.values (Conditional.copyHeaders b ai) k := by
  unfold Conditional.copyHeaders
  apply values_foldl_setAll_congr
  rw [values_addFold_canonical ha, values_addFold_canonical hb, hv]

theorem values_suffixETag_congr (sfx : Option Bytes) {h h' : Header}
    (hv : ∀ k, Header.values h k = Header.values h' k) (k : Bytes) :
    Header.values (Conditional.suffixETag sfx h) k = Header.values (Conditional.suffixETag sfx h') k := by
  unfold Conditional.suffixETag
  rw [get_congr_values hv]
  split
  · rw [Header.values_set, Header.values_set, hv]
  · exact hv k

theorem Canonical.foldl_del {h : Header} (hc : Canonical h) (ks : List Bytes) :
    Canonical (ks.foldl (fun out k => out.del k) h) := by
  induction ks generalizing h with
  | nil => exact hc
  | cons k t ih => exact ih (hc.del k)

theorem Canonical.denyHeaders {h : Header} (hc : Canonical h) (deny : List Bytes) :
    Canonical (Codec.denyHeaders h deny) := by
  unfold Codec.denyHeaders
  exact hc.foldl_del _

theorem Canonical.storePrep {h : Header} (hc : Canonical h) (sfx : Option Bytes) (st : Int) :
    Canonical (Codec.storePrep sfx st h) := by
  have h1 : Canonical (if Codec.isCacheableError st then h.set b!"cache-control" Facts.cacheable4xxCacheControl else h) := by
    split
    · exact hc.set _ _
    · exact hc
  have aux : ∀ h1 : Header, Canonical h1 →
      Canonical (Codec.denyHeaders
        (if ((Codec.denyHeaders h1 [Facts.cacheStatusHeader]).get b!"etag").length > 0 then
          (Codec.denyHeaders h1 [Facts.cacheStatusHeader]).set b!"etag"
            (Codec.stripETagSuffix sfx ((Codec.denyHeaders h1 [Facts.cacheStatusHeader]).get b!"etag"))
         else Codec.denyHeaders h1 [Facts.cacheStatusHeader]) [Facts.cacheStatusHeader]) := by
    intro h1 hc1
    apply Canonical.denyHeaders
    split
    · exact (hc1.denyHeaders _).set _ _
    · exact hc1.denyHeaders _
  exact aux _ h1

theorem Canonical.copyHeaders (a ai : Header) : Canonical (Conditional.copyHeaders a ai) := by
  unfold Conditional.copyHeaders
  have h1 : ∀ (l : Header) (acc : Header), Canonical acc →
      Canonical (l.foldl (fun h e => e.2.foldl (fun h v => h.add e.1 v) h) acc) := by
    intro l
    induction l with
    | nil => intro acc h; exact h
    | cons e t ih =>
      intro acc h
      rw [List.foldl_cons]
      apply ih
      generalize e.2 = vv
      induction vv generalizing acc with
      | nil => exact h
      | cons v vs ih2 => rw [List.foldl_cons]; exact ih2 _ (h.add _ _)
  have h2 : ∀ (l : Header) (acc : Header), Canonical acc →
      Canonical (l.foldl (fun h e => e.2.foldl (fun h v => h.set e.1 v) h) acc) := by
    intro l
    induction l with
    | nil => intro acc h; exact h
    | cons e t ih =>
      intro acc h
      rw [List.foldl_cons]
      apply ih
      generalize e.2 = vv
      induction vv generalizing acc with
      | nil => exact h
      | cons v vs ih2 => rw [List.foldl_cons]; exact ih2 _ (h.set _ _)
  exact h2 _ _ (h1 _ _ Canonical.nil)

theorem Canonical.suffixETag {h : Header} (hc : Canonical h) (sfx : Option Bytes) :
    Canonical (Conditional.suffixETag sfx h) := by
  unfold Conditional.suffixETag
  split
  · exact hc.set _ _
  · exact hc

end Lemmas.SysCacheAux
