import RrProofs.Props.SysCache
import RrProofs.Props.C08
import RrProofs.Lemmas.Fresh
import RrProofs.Lemmas.Header
/-
  Structure lemmas about ONE ACTIVATION of `cachingFunc` in the sequential system model
  (`Model.SysCache.stepOnce`), not specific to one property: the cached path by lookup result, what a
  lookup result says about `storage.Get` and `Freshness.decide` (inversions), where the re-entries of
  `cachingFunc` come from (`afterAnswer`), and the branch labels (`…:stale` only from the found row
  with the copy marked stale).  Used by `Props/C08Sys.lean`.
-/
namespace Lemmas.C08Sys
open Go Model Model.SysCache Props.SysCache

/-! ### lists -/

theorem append_singleton_ne_self {α : Type} (l : List α) (a : α) : l ++ [a] ≠ l := by
  intro h
  have := congrArg List.length h
  simp at this

theorem prefix_antisymm {α : Type} {l₁ l₂ : List α} (h1 : l₁ <+: l₂) (h2 : l₂ <+: l₁) : l₁ = l₂ :=
  h1.eq_of_length (Nat.le_antisymm h1.length_le h2.length_le)

theorem suffix_of_append_sep {α : Type} {suf pre l : List α} {c : α} (hc : c ∉ suf)
    (h : suf <:+ (pre ++ [c]) ++ l) : suf <:+ l := by
  rcases List.suffix_or_suffix_of_suffix h (List.suffix_append (pre ++ [c]) l) with h1 | h1
  · exact h1
  · obtain ⟨t, ht⟩ := h1
    obtain ⟨u, hu⟩ := h
    -- u ++ (t ++ l) = (pre ++ [c]) ++ l
    rw [← ht, ← List.append_assoc] at hu
    have hu' : u ++ t = pre ++ [c] := List.append_cancel_right hu
    rcases List.eq_nil_or_concat t with ht0 | ⟨t', x, ht0⟩
    · subst ht0; rw [← ht]; exact List.suffix_refl _
    · exfalso
      rw [List.concat_eq_append] at ht0
      subst ht0
      rw [← List.append_assoc] at hu'
      have hx : x = c := by
        have := congrArg List.getLast? hu'
        simpa using this
      apply hc
      rw [← ht, hx]
      simp

/-! ### the cached path of one activation -/

/-- the request is on the cached path (`cachingFunc`'s first test, server.go:112) -/
def IsGetHead (req : Request) : Prop := req.method = b!"GET" ∨ req.method = b!"HEAD"

instance (req : Request) : Decidable (IsGetHead req) := by unfold IsGetHead; exact inferInstance

theorem isGetHead_iff (req : Request) :
    IsGetHead req ↔ ¬ (req.method ≠ b!"GET" ∧ req.method ≠ b!"HEAD") := by
  unfold IsGetHead
  by_cases h1 : req.method = b!"GET" <;> by_cases h2 : req.method = b!"HEAD" <;> simp [h1, h2]

/-- the lookup result is one of the FOUND rows (`g:panic`, `f:304`, `f:hit…`): not a writer -/
def Lookup.isFound : Lookup → Bool
  | .writer _ => false
  | _ => true

/-- one activation on the cached path, by the lookup result -/
theorem stepOnce_getHead (cfg : Config) (origin : Bytes → Option Origin) (now : Int) (req : Request)
    (d : Disk) (client ai : Header) (skip : Bool) (cs : List Contact) (hm : IsGetHead req) :
    stepOnce cfg origin now req d client ai skip cs =
      match lookup cfg now (keysOf cfg req client) d client skip with
      | (d, .panic) => .done { disk := d, out := { wrote := false }, contacts := cs, label := "g:panic" }
      | (d, .notModified s) =>
        .done { disk := d,
                out := { status := 304,
                         header := Conditional.suffixETag cfg.sfx
                           (Conditional.copyHeaders (Conditional.allow304 s.meta.respHeader) (ai.set kStatus b!"hit")) },
                contacts := cs, label := "f:304" }
      | (d, .serve s age stale) =>
        .done { disk := d, out := (foundHit cfg s age stale ai (Range.getRange client)).1, contacts := cs,
                label := if stale then (foundHit cfg s age stale ai (Range.getRange client)).2 ++ ":stale"
                         else (foundHit cfg s age stale ai (Range.getRange client)).2 }
      | (d, .writer reval) =>
        writerRow cfg origin now req (keysOf cfg req client) (Range.getRange client) d client ai cs reval := by
  unfold stepOnce
  rw [if_neg ((isGetHead_iff req).1 hm)]
  rfl

/-- the log after the first activation is a prefix of the request's log -/
theorem step_contacts_prefix_answer (cfg : Config) (origin : Bytes → Option Origin) (now : Int) (req : Request)
    (fuel : Nat) (d : Disk) (client ai : Header) (skip : Bool) (cs : List Contact) :
    Step.contacts (stepOnce cfg origin now req d client ai skip cs) <+:
      (cachingFunc cfg origin now req (fuel + 1) d client ai skip cs).contacts := by
  unfold cachingFunc
  split
  · rename_i a heq; rw [heq]; exact List.prefix_refl _
  · rename_i d' c' ai' s' cs' tag heq
    rw [heq]
    exact cachingFunc_contacts_prefix cfg origin now req fuel d' c' ai' s' cs'
  · rename_i d' c' ai' cs' tag heq
    rw [heq]
    exact lockedReentry_contacts_prefix cfg origin now req d' c' ai' cs'

/-! ### what `cache.Get`'s answer says about the disk and the freshness decision -/

theorem lookup_panic_inv {cfg : Config} {now : Int} {keys : List Key} {d : Disk} {client : Header} {skip : Bool}
    (h : (lookup cfg now keys d client skip).2 = .panic) :
    (∃ d' site, storageGet d keys = (d', .panic site))
    ∨ (∃ d' k s site, storageGet d keys = (d', .found k s)
        ∧ Freshness.decide (entryOf s) now cfg.force skip (client.get b!"if-none-match")
            (client.get b!"if-modified-since") cfg.sfx = .panic site) := by
  unfold lookup at h
  generalize storageGet d keys = r at h
  rcases r with ⟨d', g⟩
  cases g with
  | panic site => exact Or.inl ⟨_, _, rfl⟩
  | notFound => cases h
  | found k s =>
    right
    dsimp only at h
    split at h
    · rename_i site hd; exact ⟨d', k, s, site, rfl, hd⟩
    all_goals cases h

theorem lookup_notModified_inv {cfg : Config} {now : Int} {keys : List Key} {d : Disk} {client : Header}
    {skip : Bool} {s : Stored}
    (h : (lookup cfg now keys d client skip).2 = .notModified s) :
    ∃ d' k, storageGet d keys = (d', .found k s)
      ∧ Freshness.decide (entryOf s) now cfg.force skip (client.get b!"if-none-match")
          (client.get b!"if-modified-since") cfg.sfx = .ok .notModified304 := by
  unfold lookup at h
  generalize storageGet d keys = r at h
  rcases r with ⟨d', g⟩
  cases g with
  | panic site => cases h
  | notFound => cases h
  | found k s' =>
    dsimp only at h
    split at h
    · cases h
    · rename_i hd; injection h with h; subst h; exact ⟨d', k, rfl, hd⟩
    all_goals cases h

theorem lookup_serve_inv {cfg : Config} {now : Int} {keys : List Key} {d : Disk} {client : Header}
    {skip : Bool} {s : Stored} {age : Int} {stale : Bool}
    (h : (lookup cfg now keys d client skip).2 = .serve s age stale) :
    ∃ d' k, storageGet d keys = (d', .found k s)
      ∧ Freshness.decide (entryOf s) now cfg.force skip (client.get b!"if-none-match")
          (client.get b!"if-modified-since") cfg.sfx = .ok (if stale then .staleServe age else .fresh age) := by
  unfold lookup at h
  generalize storageGet d keys = r at h
  rcases r with ⟨d', g⟩
  cases g with
  | panic site => cases h
  | notFound => cases h
  | found k s' =>
    dsimp only at h
    split at h
    · cases h
    · cases h
    · rename_i a hd; injection h with h1 h2 h3; subst h1 h2 h3; exact ⟨d', k, rfl, hd⟩
    · rename_i a hd; injection h with h1 h2 h3; subst h1 h2 h3; exact ⟨d', k, rfl, hd⟩
    · cases h

theorem lookup_writer_inv {cfg : Config} {now : Int} {keys : List Key} {d : Disk} {client : Header}
    {skip : Bool} {k : Key} {s : Stored} {age : Int}
    (h : (lookup cfg now keys d client skip).2 = .writer (some (k, s, age))) :
    ∃ d' c, storageGet d keys = (d', .found k s)
      ∧ Freshness.decide (entryOf s) now cfg.force skip (client.get b!"if-none-match")
          (client.get b!"if-modified-since") cfg.sfx = .ok (.revalidate c age) := by
  unfold lookup at h
  generalize storageGet d keys = r at h
  rcases r with ⟨d', g⟩
  cases g with
  | panic site => cases h
  | notFound => cases h
  | found k' s' =>
    dsimp only at h
    split at h
    · cases h
    · cases h
    · cases h
    · cases h
    · rename_i c a hd
      injection h with h; injection h with h; injection h with h1 h2; injection h2 with h2 h3
      subst h1 h2 h3; exact ⟨d', c, rfl, hd⟩

/-- the value of `cache.Get` on an entry that `storage.Get` found -/
theorem lookup_of_found {cfg : Config} {now : Int} {keys : List Key} {d d' : Disk} {client : Header}
    {skip : Bool} {k : Key} {s : Stored} (h : storageGet d keys = (d', .found k s)) :
    lookup cfg now keys d client skip =
      match Freshness.decide (entryOf s) now cfg.force skip
          (client.get b!"if-none-match") (client.get b!"if-modified-since") cfg.sfx with
      | .panic _ => (d', .panic)
      | .ok .notModified304 => (d', .notModified s)
      | .ok (.fresh age) => (d', .serve s age false)
      | .ok (.staleServe age) => (d', .serve s age true)
      | .ok (.revalidate _ age) => (d', .writer (some (k, s, age))) := by
  unfold lookup
  rw [h]
  rfl

/-- `cache.Get` asks for a revalidation only when the caller did not ask for the stale copy and the
    entry is due -/
theorem revalidate_inv {m : Freshness.Entry} {now : Int} {force : Nat} {skip : Bool} {inm ims : Bytes}
    {suffix : Option Bytes} {c : Bool} {a : Int}
    (hd : Freshness.decide m now force skip inm ims suffix = .ok (.revalidate c a)) :
    skip = false ∧ Freshness.shouldRevalidate m now force = true ∧ a = (Props.C08.st m).age now := by
  cases hs : Freshness.shouldRevalidate m now force with
  | false =>
    exfalso
    rw [Freshness.decide_of_not_stale skip inm ims suffix hs] at hd
    cases hc : Freshness.clientCheck suffix inm ims m.header with
    | panic s => rw [hc] at hd; cases hd
    | ok b => rw [hc] at hd; cases b <;> cases hd
  | true =>
    rw [Freshness.decide_of_stale skip inm ims suffix hs, Props.C08.ageOf_fst_st] at hd
    cases skip with
    | true => simp at hd
    | false =>
      simp only [Bool.false_eq_true, if_false] at hd
      injection hd with hd
      injection hd with _ hd
      exact ⟨rfl, rfl, hd.symm⟩

/-- the entry `storage.Get` found, if any (for concrete instances: `GetRes` has no decidable equality) -/
def foundEntry : GetRes → Option Stored
  | .found _ s => some s
  | _ => none

theorem storageGet_of_foundEntry {d : Disk} {keys : List Key} {s : Stored}
    (h : foundEntry (storageGet d keys).2 = some s) : ∃ d' k, storageGet d keys = (d', .found k s) := by
  generalize storageGet d keys = r at h
  rcases r with ⟨d', g⟩
  cases g with
  | panic site => cases h
  | notFound => cases h
  | found k s' => injection h with h; subst h; exact ⟨d', k, rfl⟩

theorem foundEntry_of_storageGet {d d' : Disk} {keys : List Key} {k : Key} {s : Stored}
    (h : storageGet d keys = (d', .found k s)) : foundEntry (storageGet d keys).2 = some s := by
  rw [h]; rfl

/-! ### the branch label of an answer made from the copy marked stale -/

/-- the label says "found row, `IsStale`": it ends in `:stale` -/
def EndsStale (l : String) : Prop := ":stale".toList <:+ l.toList

instance (l : String) : Decidable (EndsStale l) := by unfold EndsStale; exact inferInstance

theorem foundHit_label_not_stale (cfg : Config) (s : Stored) (age : Int) (st : Bool) (ai : Header)
    (rr : Option Range.ReqRange) : ¬ EndsStale (foundHit cfg s age st ai rr).2 := by
  unfold foundHit
  repeat' first | split | (dsimp only; split)
  all_goals first | decide | (dsimp only; decide)

theorem cachingFill_label_not_stale (cfg : Config) (d : Disk) (w : Writer) (now : Int) (status : Nat)
    (clientHeader : Header) (resp : Resp) (redirect : Bytes) (rr : Option Range.ReqRange) :
    ¬ EndsStale (cachingFill cfg d w now status clientHeader resp redirect rr).label := by
  unfold cachingFill
  repeat' first | split | (dsimp only; split)
  all_goals first | decide | (dsimp only; decide)

theorem endsStale_append_stale (l : String) : EndsStale (l ++ ":stale") := by
  unfold EndsStale
  rw [String.toList_append]
  exact List.suffix_append _ _

theorem endsStale_of_tag_append {tag l : String} (ht : tag = "w:304>" ∨ tag = "w:stale>")
    (h : EndsStale (tag ++ l)) : EndsStale l := by
  unfold EndsStale at h ⊢
  rw [String.toList_append] at h
  rcases ht with ht | ht <;> subst ht
  · exact suffix_of_append_sep (pre := "w:304".toList) (c := '>') (by decide) h
  · exact suffix_of_append_sep (pre := "w:stale".toList) (c := '>') (by decide) h

/-! ### where the re-entries of `cachingFunc` come from -/

theorem staleIfErrorOf_inv {reval : Option (Key × Stored × Int)} {resp : Resp}
    (h : staleIfErrorOf reval resp = true) :
    ∃ k s age, reval = some (k, s, age) ∧ resp.status ≥ 400
      ∧ (getCacheControlDirectives s.meta.respHeader).canStaleIfError age = true := by
  unfold staleIfErrorOf at h
  rcases reval with _ | ⟨k, s, age⟩
  · cases h
  · simp only [Bool.and_eq_true, decide_eq_true_eq] at h
    exact ⟨k, s, age, rfl, h.1, h.2⟩

theorem ask_some_lt {cfg : Config} {origin : Bytes → Option Origin} {req : Request} {cs : List Contact}
    {h : Header} {resp : Resp} (ha : ask cfg origin req cs h = some resp) : cs.length < cfg.contactLimit := by
  unfold ask at ha
  split at ha
  · cases ha
  · omega

/-- only a RevalidatingWriter sends a validator of the stored entry (`usedRevalidateHeader`) -/
theorem surgeryOf_used_pos {rr : Option Range.ReqRange} {client : Header} {reval : Option (Key × Stored × Int)}
    (h : (surgeryOf rr client reval).used.length > 0) : ∃ k s age, reval = some (k, s, age) := by
  rcases reval with _ | ⟨k, s, age⟩
  · exfalso
    unfold surgeryOf Conditional.surgery at h
    simp at h
  · exact ⟨k, s, age, rfl⟩

/-- the client header a re-entry of `cachingFunc` sees after the row `w:stale`: the validator the cache
    added for the revalidation is removed again -/
def client1Of (sg : Conditional.Surgery) : Header := if sg.used.length > 0 then sg.req.del sg.used else sg.req

/-- … and after the row `w:304`: moreover the client's own validator is restored -/
def client2Of (sg : Conditional.Surgery) : Header :=
  if sg.clientKey.length > 0 ∧ sg.clientVal.length > 0 then (client1Of sg).set sg.clientKey sg.clientVal
  else client1Of sg

/-- the three exits of the row `w:304`: the self-locked re-entry of a writer whose disk writes are disabled
    (disk untouched), `500` when `Close` fails, and — the confirmation recorded on the disk (`republish … = (d1, true)`)
    — the re-entry with `skipRevalidate = true` (since the fix: commit for the two-values loop) -/
theorem row304_cases (d : Disk) (ai : Header) (cs : List Contact) (w : Writer) (sg : Conditional.Surgery)
    (resp : Resp) (now : Int) :
    (w.diskWritesDisabled = true ∧ row304 d ai cs w sg resp now
          = .reenterLocked d (client2Of sg) (ai.set kStatus b!"revalidated") cs "w:304>")
    ∨ (w.diskWritesDisabled = false ∧ ∃ d1, row304 d ai cs w sg resp now
          = .done { disk := d1, out := { status := 500 }, contacts := cs, label := "w:304-closeerr" })
    ∨ (w.diskWritesDisabled = false ∧ ∃ d1,
          republish d w now (some (Conditional.dropZeroContentLength resp.header)) = (d1, true)
          ∧ row304 d ai cs w sg resp now
              = .reenter d1 (client2Of sg) (ai.set kStatus b!"revalidated") true cs "w:304>") := by
  unfold row304
  dsimp only
  by_cases hw : w.diskWritesDisabled = true
  · rw [if_pos hw]
    exact Or.inl ⟨hw, rfl⟩
  · rw [if_neg hw]
    have hw' : w.diskWritesDisabled = false := by simpa using hw
    generalize republish d w now (some (Conditional.dropZeroContentLength resp.header)) = r
    rcases r with ⟨d1, ok⟩
    cases ok with
    | false => exact Or.inr (Or.inl ⟨hw', d1, rfl⟩)
    | true => exact Or.inr (Or.inr ⟨hw', d1, rfl, rfl⟩)

/-- the exits of a writer row after the origin's answer: an answer (never labelled `…:stale`), the row
    `w:304` (the origin answered 304 to a validator of the stored entry), or the re-entry with
    `skipRevalidate = true` of the row `w:stale` (`staleIfErrorOf`, disk untouched) -/
theorem afterAnswer_cases (cfg : Config) (now : Int) (keys : List Key) (rr : Option Range.ReqRange) (d : Disk)
    (ai : Header) (cs : List Contact) (reval : Option (Key × Stored × Int)) (w : Writer)
    (sg : Conditional.Surgery) (resp : Resp) :
    (∃ a, afterAnswer cfg now keys rr d ai cs reval w sg resp = .done a ∧ ¬ EndsStale a.label)
    ∨ (∃ ai', afterAnswer cfg now keys rr d ai cs reval w sg resp = row304 d ai' cs w sg resp now
          ∧ sg.used.length > 0 ∧ resp.status = 304 ∧ (getCacheControlDirectives resp.header).doNotCache = false)
    ∨ (∃ ai' : Header, afterAnswer cfg now keys rr d ai cs reval w sg resp
            = .reenter d (client1Of sg) (ai'.set kStatus b!"stale") true cs "w:stale>"
          ∧ staleIfErrorOf reval resp = true) := by
  unfold afterAnswer
  split
  · exact Or.inl ⟨_, rfl, by dsimp only; decide⟩
  · dsimp only
    split
    · rename_i hc
      exact Or.inr (Or.inl ⟨_, rfl, hc.1, hc.2.1, by simpa using hc.2.2⟩)
    · split
      · exact Or.inl ⟨_, rfl, by dsimp only; decide⟩
      · split
        · rename_i hc
          exact Or.inr (Or.inr ⟨_, rfl, hc⟩)
        · split
          · exact Or.inl ⟨_, rfl, by dsimp only; decide⟩
          · split
            · exact Or.inl ⟨_, rfl, by dsimp only; decide⟩
            · exact Or.inl ⟨_, rfl, cachingFill_label_not_stale _ _ _ _ _ _ _ _ _⟩

theorem afterAnswer_done_not_stale {cfg : Config} {now : Int} {keys : List Key} {rr : Option Range.ReqRange} {d : Disk}
    {ai : Header} {cs : List Contact} {reval : Option (Key × Stored × Int)} {w : Writer}
    {sg : Conditional.Surgery} {resp : Resp} {a : Ans}
    (h : afterAnswer cfg now keys rr d ai cs reval w sg resp = .done a) : ¬ EndsStale a.label := by
  rcases afterAnswer_cases cfg now keys rr d ai cs reval w sg resp with ⟨a', h1, h2⟩ | ⟨ai', h1, _⟩ | ⟨ai', h1, _⟩
  · rw [h1] at h; injection h with h; subst h; exact h2
  · rw [h1] at h
    rcases row304_cases d ai' cs w sg resp now with ⟨_, h2⟩ | ⟨_, d1, h2⟩ | ⟨_, d1, _, h2⟩
    · rw [h2] at h; cases h
    · rw [h2] at h; injection h with h; subst h; dsimp only; decide
    · rw [h2] at h; cases h
  · rw [h1] at h; cases h

/-- the re-entries of a writer row, all with `skipRevalidate = true`: from the row `w:stale`
    (`staleIfErrorOf reval resp`: origin status ≥ 400 inside the entry's stale-if-error allowance;
    disk untouched), or from the row `w:304` (the origin answered 304 to a validator of the stored
    entry, the answer is cacheable, disk writes are enabled and the confirmation was recorded:
    `republish … = (d', true)`) -/
theorem afterAnswer_reenter_inv {cfg : Config} {now : Int} {keys : List Key} {rr : Option Range.ReqRange} {d : Disk}
    {ai : Header} {cs : List Contact} {reval : Option (Key × Stored × Int)} {w : Writer}
    {sg : Conditional.Surgery} {resp : Resp}
    {d' : Disk} {client' ai' : Header} {skip' : Bool} {cs' : List Contact} {tag : String}
    (h : afterAnswer cfg now keys rr d ai cs reval w sg resp = .reenter d' client' ai' skip' cs' tag) :
    cs' = cs ∧ skip' = true ∧
    ((tag = "w:stale>" ∧ d' = d ∧ client' = client1Of sg ∧ staleIfErrorOf reval resp = true)
     ∨ (tag = "w:304>" ∧ client' = client2Of sg ∧ resp.status = 304 ∧ sg.used.length > 0
          ∧ (getCacheControlDirectives resp.header).doNotCache = false
          ∧ w.diskWritesDisabled = false
          ∧ republish d w now (some (Conditional.dropZeroContentLength resp.header)) = (d', true))) := by
  rcases afterAnswer_cases cfg now keys rr d ai cs reval w sg resp with
    ⟨a', h1, _⟩ | ⟨ai1, h1, hu, hst, hdc⟩ | ⟨ai1, h1, hs⟩
  · rw [h1] at h; cases h
  · rw [h1] at h
    rcases row304_cases d ai1 cs w sg resp now with ⟨_, h2⟩ | ⟨_, d1, h2⟩ | ⟨hw, d1, hrep, h2⟩
    · rw [h2] at h; cases h
    · rw [h2] at h; cases h
    · rw [h2] at h
      injection h with e1 e2 e3 e4 e5 e6
      subst e1
      exact ⟨e5.symm, e4.symm, Or.inr ⟨e6.symm, e2.symm, hst, hu, hdc, hw, hrep⟩⟩
  · rw [h1] at h
    injection h with e1 e2 e3 e4 e5 e6
    exact ⟨e5.symm, e4.symm, Or.inl ⟨e6.symm, e1.symm, e2.symm, hs⟩⟩

/-- the self-locked re-entry comes from the row `w:304` of a writer whose disk writes are disabled -/
theorem afterAnswer_reenterLocked_inv {cfg : Config} {now : Int} {keys : List Key} {rr : Option Range.ReqRange} {d : Disk}
    {ai : Header} {cs : List Contact} {reval : Option (Key × Stored × Int)} {w : Writer}
    {sg : Conditional.Surgery} {resp : Resp}
    {d' : Disk} {client' ai' : Header} {cs' : List Contact} {tag : String}
    (h : afterAnswer cfg now keys rr d ai cs reval w sg resp = .reenterLocked d' client' ai' cs' tag) :
    cs' = cs ∧ d' = d ∧ tag = "w:304>" ∧ client' = client2Of sg ∧ resp.status = 304 ∧ sg.used.length > 0
      ∧ (getCacheControlDirectives resp.header).doNotCache = false
      ∧ w.diskWritesDisabled = true := by
  rcases afterAnswer_cases cfg now keys rr d ai cs reval w sg resp with ⟨a', h1, _⟩ | ⟨ai1, h1, hu, hst, hdc⟩ | ⟨ai1, h1, hs⟩
  · rw [h1] at h; cases h
  · rw [h1] at h
    rcases row304_cases d ai1 cs w sg resp now with ⟨hw, h2⟩ | ⟨_, d1, h2⟩ | ⟨_, d1, _, h2⟩
    · rw [h2] at h
      injection h with e1 e2 e3 e4 e5
      exact ⟨e4.symm, e1.symm, e5.symm, e2.symm, hst, hu, hdc, hw⟩
    · rw [h2] at h; cases h
    · rw [h2] at h; cases h
  · rw [h1] at h; cases h

/-- one activation that is not an answer by a found row: a GET/HEAD writer row whose contact was answered -/
theorem stepOnce_writer_inv {cfg : Config} {origin : Bytes → Option Origin} {now : Int} {req : Request}
    {d : Disk} {client ai : Header} {skip : Bool} {cs : List Contact}
    (h : ∀ a, stepOnce cfg origin now req d client ai skip cs ≠ .done a) :
    IsGetHead req ∧ ∃ reval resp,
      (lookup cfg now (keysOf cfg req client) d client skip).2 = .writer reval
      ∧ ask cfg origin req cs (surgeryOf (Range.getRange client) client reval).req = some resp
      ∧ stepOnce cfg origin now req d client ai skip cs =
          afterAnswer cfg now (keysOf cfg req client) (Range.getRange client)
            (lookup cfg now (keysOf cfg req client) d client skip).1 ai
            (cs ++ [contactOf (surgeryOf (Range.getRange client) client reval).req]) reval
            (writerOf (keysOf cfg req client) client reval) (surgeryOf (Range.getRange client) client reval) resp := by
  by_cases hm : IsGetHead req
  · refine ⟨hm, ?_⟩
    rw [stepOnce_getHead _ _ _ _ _ _ _ _ _ hm] at h ⊢
    generalize lookup cfg now (keysOf cfg req client) d client skip = r at h ⊢
    rcases r with ⟨d1, l⟩
    cases l with
    | panic => exact absurd rfl (h _)
    | notModified s => exact absurd rfl (h _)
    | serve s age stale => exact absurd rfl (h _)
    | writer reval =>
      dsimp only at h ⊢
      unfold writerRow at h ⊢
      dsimp only at h ⊢
      cases hask : ask cfg origin req cs (surgeryOf (Range.getRange client) client reval).req with
      | none => rw [hask] at h; exact absurd rfl (h _)
      | some resp =>
        rw [logged_of_lt _ (ask_some_lt hask)]
        exact ⟨reval, resp, rfl, hask, rfl⟩
  · exfalso
    have hm' : req.method ≠ b!"GET" ∧ req.method ≠ b!"HEAD" := by
      rw [isGetHead_iff] at hm
      exact Classical.not_not.1 hm
    unfold stepOnce at h
    rw [if_pos hm'] at h
    split at h <;> exact absurd rfl (h _)

/-- a re-entry of `cachingFunc` comes from a writer row of a GET/HEAD request whose origin contact was
    answered -/
theorem stepOnce_reenter_inv {cfg : Config} {origin : Bytes → Option Origin} {now : Int} {req : Request}
    {d : Disk} {client ai : Header} {skip : Bool} {cs : List Contact}
    {d' : Disk} {client' ai' : Header} {skip' : Bool} {cs' : List Contact} {tag : String}
    (h : stepOnce cfg origin now req d client ai skip cs = .reenter d' client' ai' skip' cs' tag) :
    IsGetHead req ∧ ∃ reval resp,
      (lookup cfg now (keysOf cfg req client) d client skip).2 = .writer reval
      ∧ ask cfg origin req cs (surgeryOf (Range.getRange client) client reval).req = some resp
      ∧ afterAnswer cfg now (keysOf cfg req client) (Range.getRange client)
          (lookup cfg now (keysOf cfg req client) d client skip).1 ai
          (cs ++ [contactOf (surgeryOf (Range.getRange client) client reval).req]) reval
          (writerOf (keysOf cfg req client) client reval) (surgeryOf (Range.getRange client) client reval) resp
        = .reenter d' client' ai' skip' cs' tag := by
  obtain ⟨hm, reval, resp, hl, hask, he⟩ :=
    stepOnce_writer_inv (cfg := cfg) (origin := origin) (now := now) (req := req) (d := d) (client := client)
      (ai := ai) (skip := skip) (cs := cs) (by intro a ha; rw [h] at ha; cases ha)
  exact ⟨hm, reval, resp, hl, hask, he ▸ h⟩

theorem stepOnce_reenterLocked_inv {cfg : Config} {origin : Bytes → Option Origin} {now : Int} {req : Request}
    {d : Disk} {client ai : Header} {skip : Bool} {cs : List Contact}
    {d' : Disk} {client' ai' : Header} {cs' : List Contact} {tag : String}
    (h : stepOnce cfg origin now req d client ai skip cs = .reenterLocked d' client' ai' cs' tag) :
    IsGetHead req ∧ ∃ reval resp,
      (lookup cfg now (keysOf cfg req client) d client skip).2 = .writer reval
      ∧ ask cfg origin req cs (surgeryOf (Range.getRange client) client reval).req = some resp
      ∧ afterAnswer cfg now (keysOf cfg req client) (Range.getRange client)
          (lookup cfg now (keysOf cfg req client) d client skip).1 ai
          (cs ++ [contactOf (surgeryOf (Range.getRange client) client reval).req]) reval
          (writerOf (keysOf cfg req client) client reval) (surgeryOf (Range.getRange client) client reval) resp
        = .reenterLocked d' client' ai' cs' tag := by
  obtain ⟨hm, reval, resp, hl, hask, he⟩ :=
    stepOnce_writer_inv (cfg := cfg) (origin := origin) (now := now) (req := req) (d := d) (client := client)
      (ai := ai) (skip := skip) (cs := cs) (by intro a ha; rw [h] at ha; cases ha)
  exact ⟨hm, reval, resp, hl, hask, he ▸ h⟩

/-! ### the header surgery of the writer rows touches the validators and `Range` only -/

theorem revalidateHeaders_fst (h : Header) :
    (Conditional.revalidateHeaders h).1 = Conditional.kINM ∨ (Conditional.revalidateHeaders h).1 = Conditional.kIMS
      ∨ (Conditional.revalidateHeaders h).1 = [] := by
  unfold Conditional.revalidateHeaders
  repeat' split
  all_goals simp

/-- the keys the surgery sets or deletes -/
def SurgeryKey (k : Bytes) : Prop :=
  k = Conditional.kINM ∨ k = Conditional.kIMS ∨ k = Conditional.kRange ∨ k = []

theorem get_authorization_set {h : Header} {k v : Bytes} (hk : SurgeryKey k) :
    (h.set k v).get b!"authorization" = h.get b!"authorization" := by
  rw [Header.get_set]
  rcases hk with hk | hk | hk | hk <;> subst hk <;> rw [if_neg (by decide)]

theorem get_authorization_del {h : Header} {k : Bytes} (hk : SurgeryKey k) :
    (h.del k).get b!"authorization" = h.get b!"authorization" := by
  rw [Header.get_del]
  rcases hk with hk | hk | hk | hk <;> subst hk <;> rw [if_neg (by decide)]

theorem surgery_keys (kind : Conditional.WriterKind) (rp : Bool) (client stored : Header) :
    SurgeryKey (Conditional.surgery kind rp client stored).used
    ∧ SurgeryKey (Conditional.surgery kind rp client stored).clientKey
    ∧ (Conditional.surgery kind rp client stored).req.get b!"authorization" = client.get b!"authorization" := by
  have hkey : ∀ h, SurgeryKey (Conditional.revalidateHeaders h).1 := by
    intro h
    rcases revalidateHeaders_fst h with e | e | e <;> rw [e]
    · exact Or.inl rfl
    · exact Or.inr (Or.inl rfl)
    · exact Or.inr (Or.inr (Or.inr rfl))
  have hr0 : (if rp = true then client.del Conditional.kRange else client).get b!"authorization"
      = client.get b!"authorization" := by
    split
    · exact get_authorization_del (Or.inr (Or.inr (Or.inl rfl)))
    · rfl
  unfold Conditional.surgery
  cases kind with
  | revalidating =>
    dsimp only
    split
    · exact ⟨hkey _, hkey _, by rw [get_authorization_set (hkey _)]; exact hr0⟩
    · exact ⟨Or.inr (Or.inr (Or.inr rfl)), hkey _, hr0⟩
  | notFound =>
    dsimp only
    refine ⟨Or.inr (Or.inr (Or.inr rfl)), hkey _, ?_⟩
    rw [get_authorization_del (Or.inr (Or.inl rfl)), get_authorization_del (Or.inl rfl)]
    exact hr0

/-- the client header of a re-entry carries the `Authorization` the request came with -/
theorem client1Of_authorization (rr : Option Range.ReqRange) (client : Header) (reval : Option (Key × Stored × Int)) :
    (client1Of (surgeryOf rr client reval)).get b!"authorization" = client.get b!"authorization" := by
  obtain ⟨hu, _, hr⟩ := surgery_keys (if reval.isSome then .revalidating else .notFound) rr.isSome client
    (match reval with | some (_, s, _) => s.meta.respHeader | none => [])
  unfold client1Of
  split
  · exact (get_authorization_del hu).trans hr
  · exact hr

theorem client2Of_authorization (rr : Option Range.ReqRange) (client : Header) (reval : Option (Key × Stored × Int)) :
    (client2Of (surgeryOf rr client reval)).get b!"authorization" = client.get b!"authorization" := by
  obtain ⟨_, hk, _⟩ := surgery_keys (if reval.isSome then .revalidating else .notFound) rr.isSome client
    (match reval with | some (_, s, _) => s.meta.respHeader | none => [])
  unfold client2Of
  split
  · exact (get_authorization_set hk).trans (client1Of_authorization rr client reval)
  · exact client1Of_authorization rr client reval

/-- … in every re-entry of `cachingFunc` -/
theorem stepOnce_reenter_authorization {cfg : Config} {origin : Bytes → Option Origin} {now : Int} {req : Request}
    {d : Disk} {client ai : Header} {skip : Bool} {cs : List Contact}
    {d' : Disk} {client' ai' : Header} {skip' : Bool} {cs' : List Contact} {tag : String}
    (h : stepOnce cfg origin now req d client ai skip cs = .reenter d' client' ai' skip' cs' tag) :
    client'.get b!"authorization" = client.get b!"authorization" := by
  obtain ⟨_, reval, resp, _, _, haa⟩ := stepOnce_reenter_inv h
  obtain ⟨_, _, hh⟩ := afterAnswer_reenter_inv haa
  rcases hh with ⟨_, _, hc, _⟩ | ⟨_, hc, _⟩
  · rw [hc]; exact client1Of_authorization _ _ _
  · rw [hc]; exact client2Of_authorization _ _ _

/-! ### which answers carry a `…:stale` label -/

theorem writerRow_done_not_stale {cfg : Config} {origin : Bytes → Option Origin} {now : Int} {req : Request}
    {keys : List Key} {rr : Option Range.ReqRange} {d : Disk} {client ai : Header} {cs : List Contact}
    {reval : Option (Key × Stored × Int)} {a : Ans}
    (h : writerRow cfg origin now req keys rr d client ai cs reval = .done a) : ¬ EndsStale a.label := by
  unfold writerRow at h
  dsimp only at h
  split at h
  · injection h with h; subst h; dsimp only; decide
  · exact afterAnswer_done_not_stale h

/-- an activation whose answer carries a `:stale` label took the found row with the copy marked stale -/
theorem stepOnce_done_stale_inv {cfg : Config} {origin : Bytes → Option Origin} {now : Int} {req : Request}
    {d : Disk} {client ai : Header} {skip : Bool} {cs : List Contact} {a : Ans}
    (h : stepOnce cfg origin now req d client ai skip cs = .done a) (hs : EndsStale a.label) :
    IsGetHead req ∧ ∃ s age, (lookup cfg now (keysOf cfg req client) d client skip).2 = .serve s age true := by
  by_cases hm : IsGetHead req
  · refine ⟨hm, ?_⟩
    rw [stepOnce_getHead _ _ _ _ _ _ _ _ _ hm] at h
    generalize lookup cfg now (keysOf cfg req client) d client skip = r at h
    rcases r with ⟨d1, l⟩
    cases l with
    | panic => injection h with h; subst h; exact absurd hs (by dsimp only; decide)
    | notModified s => injection h with h; subst h; exact absurd hs (by dsimp only; decide)
    | serve s age stale =>
      cases stale with
      | true => exact ⟨s, age, rfl⟩
      | false =>
        injection h with h; subst h
        exact absurd hs (foundHit_label_not_stale _ _ _ _ _ _)
    | writer reval => exact absurd hs (writerRow_done_not_stale h)
  · exfalso
    have hm' : req.method ≠ b!"GET" ∧ req.method ≠ b!"HEAD" := by
      rw [isGetHead_iff] at hm
      exact Classical.not_not.1 hm
    unfold stepOnce at h
    rw [if_pos hm'] at h
    split at h <;> (injection h with h; subst h; exact absurd hs (by dsimp only; decide))

/-- conversely the found row with the copy marked stale labels its answer `…:stale` -/
theorem stepOnce_stale_label {cfg : Config} {origin : Bytes → Option Origin} {now : Int} {req : Request}
    {d : Disk} {client ai : Header} {skip : Bool} {cs : List Contact} {s : Stored} {age : Int}
    (hm : IsGetHead req)
    (hl : (lookup cfg now (keysOf cfg req client) d client skip).2 = .serve s age true) :
    ∃ a, stepOnce cfg origin now req d client ai skip cs = .done a ∧ EndsStale a.label := by
  rw [stepOnce_getHead _ _ _ _ _ _ _ _ _ hm]
  generalize lookup cfg now (keysOf cfg req client) d client skip = r at hl
  rcases r with ⟨d1, l⟩
  dsimp only at hl
  subst hl
  exact ⟨_, rfl, endsStale_append_stale _⟩

/-- the self-locked re-entry (`skipRevalidate = true` since the fix: commit for the two-values loop) labels its
    answer `…:stale` only when `cache.Get` hands out the stale copy (`Freshness.get true … true … = .foundStale`) -/
theorem lockedReentry_stale_inv {cfg : Config} {origin : Bytes → Option Origin} {now : Int} {req : Request}
    {d : Disk} {client ai : Header} {cs : List Contact}
    (h : EndsStale (lockedReentry cfg origin now req d client ai cs).label) :
    ∃ d' k s age, storageGet d (keysOf cfg req client) = (d', .found k s)
      ∧ Freshness.get true (entryOf s) now cfg.force true (client.get b!"if-none-match")
          (client.get b!"if-modified-since") cfg.sfx = .ok (.foundStale age) := by
  unfold lockedReentry at h
  dsimp only at h
  generalize storageGet d (keysOf cfg req client) = r at h
  rcases r with ⟨d', g⟩
  cases g with
  | panic site => exact absurd h (by dsimp only; decide)
  | notFound => exact absurd h (by dsimp only; decide)
  | found k s =>
    dsimp only at h
    refine ⟨d', k, s, ?_⟩
    generalize Freshness.get true (entryOf s) now cfg.force true (client.get b!"if-none-match")
          (client.get b!"if-modified-since") cfg.sfx = g at h
    cases g with
    | panic site => exact absurd h (by dsimp only; decide)
    | ok o =>
      cases o with
      | foundFresh age => exact absurd h (foundHit_label_not_stale _ _ _ _ _ _)
      | found304 age => exact absurd h (by dsimp only; decide)
      | foundStale age => exact ⟨age, rfl, rfl⟩
      | foundNoReader age =>
        dsimp only at h
        split at h
        · split at h <;> exact absurd h (by dsimp only; decide)
        · exact absurd h (by dsimp only; decide)
      | revalidatingWriter age => exact absurd h (by dsimp only; decide)
      | revalidatingReader age => exact absurd h (by dsimp only; decide)

end Lemmas.C08Sys
