import RrModel.Conditional
import RrModel.CacheControl
import RrModel.Codec
import RrProofs.Lemmas.Header
import RrProofs.Lemmas.Forward
import RrProofs.Lemmas.StorePrep
import RrProofs.Lemmas.CopyHeaders
/-
  `DoNotCache` of header maps put together from others:
  * the directive loop started from non-empty directives (`Directives.over`), hence `DoNotCache` of a value
    list that is the concatenation of two lists;
  * what `storageWriter.Close` makes of the `Cache-Control` values when it merges a 304 into the stored
    header map (`Conditional.merge304`);
  * what `storageWriter.WriteHeader` (`Codec.storePrep`) leaves under `Cache-Control`.
-/
namespace Model
open Go

/-! ### the directive loop started from `init` -/

/-- the directives `init` overlaid with what a further run of the loop found (`r` = that run from `{}`):
    flags accumulate, a numeric directive of the later run wins -/
def Directives.over (init r : Directives) : Directives :=
  { noCache := r.noCache || init.noCache
    noStore := r.noStore || init.noStore
    priv := r.priv || init.priv
    maxAge := match r.maxAge with | some n => some n | none => init.maxAge
    sMaxAge := match r.sMaxAge with | some n => some n | none => init.sMaxAge
    staleIfError := match r.staleIfError with | some n => some n | none => init.staleIfError
    staleWhileRevalidate := match r.staleWhileRevalidate with | some n => some n | none => init.staleWhileRevalidate
    vary := init.vary }

theorem Directives.over_empty (init : Directives) : Directives.over init {} = init := by
  cases init; rfl

theorem applyPart_over (init r : Directives) (p : Bytes) :
    applyPart (Directives.over init r) p = Directives.over init (applyPart r p) := by
  unfold applyPart
  cases partEffect p <;> rfl

theorem foldl_applyPart_over (init r : Directives) (ps : List Bytes) :
    ps.foldl applyPart (Directives.over init r) = Directives.over init (ps.foldl applyPart r) := by
  induction ps generalizing r with
  | nil => rfl
  | cons p ps ih => rw [List.foldl_cons, List.foldl_cons, applyPart_over, ih]

theorem applyValues_over (init r : Directives) (ds : List Bytes) :
    applyValues (Directives.over init r) ds = Directives.over init (applyValues r ds) := by
  unfold applyValues
  induction ds generalizing r with
  | nil => rfl
  | cons d ds ih => rw [List.foldl_cons, List.foldl_cons, foldl_applyPart_over, ih]

/-- the loop started from `init` = `init` overlaid with the loop started from `{}` -/
theorem applyValues_eq_over (init : Directives) (ds : List Bytes) :
    applyValues init ds = Directives.over init (applyValues {} ds) := by
  have := applyValues_over init {} ds
  rw [Directives.over_empty] at this
  exact this

theorem applyValues_append (init : Directives) (xs ys : List Bytes) :
    applyValues init (xs ++ ys) = applyValues (applyValues init xs) ys := by
  unfold applyValues; rw [List.foldl_append]

theorem doNotCache_over {init r : Directives} (hi : init.doNotCache = false) (hr : r.doNotCache = false) :
    (Directives.over init r).doNotCache = false := by
  unfold Directives.doNotCache at *
  simp only [Bool.or_eq_false_iff] at hi hr ⊢
  obtain ⟨⟨⟨⟨i1, i2⟩, i3⟩, i4⟩, i5⟩ := hi
  obtain ⟨⟨⟨⟨r1, r2⟩, r3⟩, r4⟩, r5⟩ := hr
  unfold Directives.over
  dsimp only
  refine ⟨⟨⟨⟨by simp [i1, r1], by simp [i2, r2]⟩, by simp [i3, r3]⟩, ?_⟩, ?_⟩
  · cases hs : r.sMaxAge with
    | none => exact i4
    | some n => rw [hs] at r4; exact r4
  · cases hs : r.maxAge with
    | none => exact i5
    | some n => rw [hs] at r5; exact r5

/-- `DoNotCache` of a header map whose `Cache-Control` values are those of `a` followed by those of `b` -/
theorem doNotCache_of_values_append {h a b : Header}
    (hv : h.values b!"cache-control" = a.values b!"cache-control" ++ b.values b!"cache-control")
    (ha : (getCacheControlDirectives a).doNotCache = false)
    (hb : (getCacheControlDirectives b).doNotCache = false) :
    (getCacheControlDirectives h).doNotCache = false := by
  have e : ∀ x : Header, (getCacheControlDirectives x).doNotCache =
      (applyValues {} (allHeaderValues b!"cache-control" x)).doNotCache := fun _ => rfl
  rw [e] at ha hb ⊢
  unfold allHeaderValues at ha hb ⊢
  rw [hv, List.flatMap_append, applyValues_append, applyValues_eq_over]
  exact doNotCache_over ha hb

/-- a header map without `Cache-Control` values does not say `DoNotCache` -/
theorem doNotCache_of_values_nil {h : Header} (hv : h.values b!"cache-control" = []) :
    (getCacheControlDirectives h).doNotCache = false := by
  have e : (getCacheControlDirectives h).doNotCache =
      (applyValues {} (allHeaderValues b!"cache-control" h)).doNotCache := rfl
  rw [e]; unfold allHeaderValues; rw [hv]; rfl

end Model

namespace Model.Conditional
open Go Go.Header

/-! ### `storageWriter.Close`: the 304's header map merged into the stored one -/

theorem vals_mergeKey (s : Header) (k : Bytes) (vv : List Bytes) (c : Bytes) :
    vals (mergeKey s k vv) c =
      if canon k = c then (if ((vals s c).headD []).length > 0 then [] else vals s c) ++ vv else vals s c := by
  unfold mergeKey
  rw [foldl_add_eq_addAll, vals_addAll]
  by_cases hk : canon k = c
  · rw [if_pos hk, if_pos hk]
    congr 1
    have hg : s.get k = (vals s c).headD [] := by unfold Header.get Header.values; rw [hk]
    rw [hg]
    split
    · unfold Header.del; rw [hk, Header.vals_delRaw, if_pos rfl]
    · rfl
  · rw [if_neg hk, if_neg hk]
    split
    · unfold Header.del; rw [Header.vals_delRaw, if_neg hk]
    · rfl

/-- under a canonical key `c`, for a `Normal` 304 map: untouched when the 304 has no entry `c`; otherwise the
    304's values, preceded by the stored ones when the stored `Get` is empty -/
theorem vals_merge304 {h : Header} (hn : Normal h) (s : Header) {c : Bytes} :
    vals (merge304 s h) c =
      if c ∈ Header.rawKeys h then (if ((vals s c).headD []).length > 0 then [] else vals s c) ++ vals h c
      else vals s c := by
  unfold merge304
  induction h generalizing s with
  | nil => rfl
  | cons e t ih =>
    obtain ⟨k, vv⟩ := e
    have hnt : Normal t := ⟨(List.nodup_cons.1 hn.1).2, fun a ha => hn.2 a (List.mem_cons_of_mem _ ha)⟩
    have hk : canon k = k := hn.2 k (by simp)
    have hkt : k ∉ Header.rawKeys t := (List.nodup_cons.1 hn.1).1
    rw [List.foldl_cons, ih hnt]
    dsimp only
    rw [vals_mergeKey, hk]
    by_cases hkc : k = c
    · subst hkc
      have hmem : k ∈ Header.rawKeys ((k, vv) :: t) := by simp
      rw [if_neg hkt, if_pos rfl, if_pos hmem, vals_cons, if_pos rfl]
    · have hmem : (c ∈ Header.rawKeys ((k, vv) :: t)) ↔ c ∈ Header.rawKeys t := by
        rw [Header.rawKeys_cons, List.mem_cons]
        constructor
        · rintro (h | h)
          · exact absurd h.symm hkc
          · exact h
        · exact Or.inr
      rw [if_neg hkc, vals_cons, if_neg hkc]
      by_cases hm : c ∈ Header.rawKeys t
      · rw [if_pos hm, if_pos (hmem.2 hm)]
      · rw [if_neg hm, if_neg (fun h => hm (hmem.1 h))]

/-- a 304 whose directives do not say `DoNotCache`, merged into a stored header map whose directives do not
    say it either, gives a map that does not say it -/
theorem doNotCache_merge304 {h : Header} (hn : Normal h) (s : Header)
    (hs : (getCacheControlDirectives s).doNotCache = false)
    (hh : (getCacheControlDirectives h).doNotCache = false) :
    (getCacheControlDirectives (merge304 s h)).doNotCache = false := by
  have hv := vals_merge304 hn s (c := canon b!"cache-control")
  by_cases hm : canon b!"cache-control" ∈ Header.rawKeys h
  · rw [if_pos hm] at hv
    split at hv
    · rw [List.nil_append] at hv
      rw [doNotCache_congr (h' := h) hv]; exact hh
    · exact doNotCache_of_values_append hv hs hh
  · rw [if_neg hm] at hv
    rw [doNotCache_congr (h' := s) hv]; exact hs

theorem normal_dropZeroContentLength {h : Header} (hn : Normal h) : Normal (dropZeroContentLength h) := by
  unfold dropZeroContentLength
  split
  · exact hn.del _
  · exact hn

theorem values_dropZeroContentLength (h : Header) (k : Bytes) (hk : canon kContentLength ≠ canon k) :
    (dropZeroContentLength h).values k = h.values k := by
  unfold dropZeroContentLength
  split
  · rw [Header.values_del, if_neg hk]
  · rfl

end Model.Conditional

namespace Model.Codec
open Go

/-! ### `storageWriter.WriteHeader`: what is stored under `Cache-Control` -/

theorem vals_storePrep_cc (sfx : Option Bytes) (s : Int) (h : Header) :
    Header.vals (storePrep sfx s h) b!"Cache-Control" =
      if isCacheableError s then [Facts.cacheable4xxCacheControl] else Header.vals h b!"Cache-Control" := by
  have hcc : canon b!"cache-control" = b!"Cache-Control" := by decide
  have het : canon b!"etag" = b!"Etag" := by decide
  have hne : (b!"Cache-Control" : Bytes) ≠ b!"Richie-Edge-Cache" := by decide
  have hne2 : (b!"Cache-Control" : Bytes) ≠ b!"Etag" := by decide
  unfold storePrep
  dsimp only
  rw [vals_denyHeaders, if_neg hne]
  have h2 : ∀ h1 : Header,
      Header.vals (if ((denyHeaders h1 [Facts.cacheStatusHeader]).get b!"etag").length > 0
        then (denyHeaders h1 [Facts.cacheStatusHeader]).set b!"etag"
          (stripETagSuffix sfx ((denyHeaders h1 [Facts.cacheStatusHeader]).get b!"etag"))
        else denyHeaders h1 [Facts.cacheStatusHeader]) b!"Cache-Control" = Header.vals h1 b!"Cache-Control" := by
    intro h1
    split
    · rw [vals_set, het, if_neg hne2, vals_denyHeaders, if_neg hne]
    · rw [vals_denyHeaders, if_neg hne]
  rw [h2]
  split
  · rw [vals_set, hcc, if_pos rfl]
  · rfl

/-- the stored header map says `DoNotCache` only if the map it was made from does; never for a cacheable
    error (400–404), which is stored with the fixed `s-maxage=60, max-age=60` -/
theorem doNotCache_storePrep (sfx : Option Bytes) (s : Int) (h : Header)
    (hd : (getCacheControlDirectives h).doNotCache = false) :
    (getCacheControlDirectives (storePrep sfx s h)).doNotCache = false := by
  have hv := vals_storePrep_cc sfx s h
  split at hv
  · have : (storePrep sfx s h).values b!"cache-control" =
        Header.values [(b!"Cache-Control", [Facts.cacheable4xxCacheControl])] b!"cache-control" := hv
    rw [doNotCache_congr this]
    decide
  · rw [doNotCache_congr (h' := h) hv]; exact hd

end Model.Codec
