import RrModel.Limiter
/-
  Lemmas about the access-time log text: decimal round trip (`parseInt (itoa i) = i`), splitting
  on a separator byte, complete lines.
-/
namespace Model.Limiter
open Go

/-! ### decimal round trip -/

theorem char_isDigit_bounds {c : Char} (h : c.isDigit = true) : 48 ≤ c.toNat ∧ c.toNat ≤ 57 := by
  unfold Char.isDigit at h
  simp only [Bool.and_eq_true, decide_eq_true_eq] at h
  have h1 := UInt32.le_iff_toNat_le.1 h.1
  have h2 := UInt32.le_iff_toNat_le.1 h.2
  exact ⟨by simpa using h1, by simpa using h2⟩

theorem digitsVal_map (l : List Char) (h : ∀ c ∈ l, c.isDigit = true) (acc : Nat) :
    digitsVal (l.map Char.toNat) acc = some (Nat.ofDigitChars 10 l acc) := by
  induction l generalizing acc with
  | nil => simp [digitsVal]
  | cons c t ih =>
    have hc := char_isDigit_bounds (h c (by simp))
    simp only [List.map_cons, digitsVal, Nat.ofDigitChars_cons]
    have : isDigit c.toNat = true := by simp [isDigit, hc.1, hc.2]
    rw [this]
    simp only [↓reduceIte]
    rw [ih (fun d hd => h d (by simp [hd]))]
    have e : acc * 10 + (c.toNat - 48) = 10 * acc + (c.toNat - '0'.toNat) := by
      have : '0'.toNat = 48 := rfl
      rw [this]; omega
    rw [e]

theorem digitsVal_natDigits (n : Nat) : digitsVal (natDigits n) 0 = some n := by
  unfold natDigits
  rw [digitsVal_map _ (fun c hc => Nat.isDigit_of_mem_toDigits (by decide) (by decide) hc)]
  simp

theorem natDigits_bytes (n : Nat) : ∀ c ∈ natDigits n, 48 ≤ c ∧ c ≤ 57 := by
  intro c hc
  unfold natDigits at hc
  obtain ⟨ch, hch, rfl⟩ := List.mem_map.1 hc
  exact char_isDigit_bounds (Nat.isDigit_of_mem_toDigits (by decide) (by decide) hch)

theorem natDigits_ne_nil (n : Nat) : natDigits n ≠ [] := by
  unfold natDigits
  simp [Nat.toDigits_ne_nil]

theorem itoa_bytes (i : Int) : ∀ c ∈ itoa i, (48 ≤ c ∧ c ≤ 57) ∨ c = 45 := by
  intro c hc
  unfold itoa at hc
  split at hc
  · rcases List.mem_cons.1 hc with e | e
    · exact Or.inr e
    · exact Or.inl (natDigits_bytes _ c e)
  · exact Or.inl (natDigits_bytes _ c hc)

theorem parseInt_itoa (i : Int) (hlo : minInt64 ≤ i) (hhi : i ≤ maxInt64) : parseInt (itoa i) = some i := by
  unfold itoa
  by_cases hneg : i < 0
  · simp only [hneg, ↓reduceIte]
    have hne := natDigits_ne_nil i.natAbs
    simp only [parseInt]
    have : (natDigits i.natAbs).isEmpty = false := by
      cases h : natDigits i.natAbs with
      | nil => exact absurd h hne
      | cons _ _ => rfl
    simp only [this, Bool.false_eq_true, ↓reduceIte, digitsVal_natDigits]
    have h2 : ¬ (-(i.natAbs : Int) < minInt64) := by omega
    simp only [h2, ↓reduceIte]
    congr 1; omega
  · simp only [hneg, ↓reduceIte]
    have hne := natDigits_ne_nil i.natAbs
    have hb := natDigits_bytes i.natAbs
    cases h : natDigits i.natAbs with
    | nil => exact absurd h hne
    | cons d t =>
      have hd : 48 ≤ d ∧ d ≤ 57 := hb d (by rw [h]; simp)
      have hv := digitsVal_natDigits i.natAbs
      rw [h] at hv
      unfold parseInt
      split
      · rename_i heq; cases heq
      · rename_i t' heq
        simp only [List.cons.injEq] at heq
        omega
      · rename_i t' heq
        simp only [List.cons.injEq] at heq
        omega
      · rw [hv]
        have h2 : ¬ ((i.natAbs : Int) > maxInt64) := by omega
        simp only [h2, ↓reduceIte]
        congr 1; omega

/-! ### splitting on a byte -/

theorem split1_ne_nil (c : Nat) (l : Bytes) : split1 c l ≠ [] := by
  induction l with
  | nil => simp [split1]
  | cons d t ih =>
    simp only [split1]
    split
    · simp
    · split <;> simp

theorem split1_noSep (c : Nat) (l : Bytes) (h : c ∉ l) : split1 c l = [l] := by
  induction l with
  | nil => rfl
  | cons d t ih =>
    simp only [List.mem_cons, not_or] at h
    simp only [split1]
    have : ¬ d = c := fun e => h.1 e.symm
    simp only [this, ↓reduceIte, ih h.2]

theorem split1_append_sep (c : Nat) (l rest : Bytes) (h : c ∉ l) :
    split1 c (l ++ c :: rest) = l :: split1 c rest := by
  induction l with
  | nil => simp [split1]
  | cons d t ih =>
    simp only [List.mem_cons, not_or] at h
    simp only [List.cons_append, split1]
    have : ¬ d = c := fun e => h.1 e.symm
    simp only [this, ↓reduceIte, ih h.2]

theorem completeLines_nil : completeLines [] = [] := rfl

theorem completeLines_line (line rest : Bytes) (h : 10 ∉ line) :
    completeLines (line ++ 10 :: rest) = line :: completeLines rest := by
  unfold completeLines
  rw [split1_append_sep 10 line rest h, List.dropLast_cons_of_ne_nil (split1_ne_nil 10 rest)]

/-! ### indexByte -/

theorem indexByte_spec (c : Nat) (l : Bytes) (i : Nat) (h : indexByte c l = some i) : l[i]? = some c := by
  induction l generalizing i with
  | nil => simp [indexByte] at h
  | cons d t ih =>
    simp only [indexByte] at h
    split at h
    · rename_i hd
      simp only [Option.some.injEq] at h
      subst h; simp [hd]
    · simp only [Option.map_eq_some_iff] at h
      obtain ⟨j, hj, rfl⟩ := h
      simp [ih j hj]

end Model.Limiter
