import RrModel.Conc
/-
  Invariants of the interleaving model `Model.Conc` (C12, C13) and their preservation by `step`.

  `Step s s'` lists the leaf transitions of `Model.Conc.step` with explicit result states
  (`step_sound : step s a = some s' → Step s s'`), so that each invariant is proved by one case
  analysis over `Step`.
-/
namespace Model.Conc

/-- past start / lookup / wait: the program counters a lock taker can be at -/
def Pc.active : Pc → Bool
  | .start | .lookedUp _ | .waiting => false
  | _ => true

/-- past the notifier rendezvous -/
def Pc.past : Pc → Bool
  | .sendBody | .cleanup | .done => true
  | .notify k => k == 3
  | _ => false

/-- writer section: between taking the lock and the first release -/
def Pc.inW : Pc → Bool
  | .route _ | .whCreate _ | .write _ | .close _ _ => true
  | _ => false

/-- where an origin fetch is in flight -/
def Pc.fetchPc : Pc → Bool
  | .whCreate _ | .write _ => true
  | _ => false

/-- writing through the shared `<name>.tmp` file -/
def Pc.tmpPc : Pc → Bool
  | .write true | .close true _ => true
  | _ => false

def FileSt.isPub : FileSt → Bool
  | .published _ _ _ => true
  | _ => false

def View.isComplete : View → Bool
  | .complete _ _ => true
  | _ => false

def View.isTruncated : View → Bool
  | .truncated _ => true
  | _ => false

end Model.Conc

namespace Lemmas.Conc
open Model.Conc

@[simp] theorem setT_same (f : Nat → Thread) (i : Nat) (t : Thread) : setT f i t i = t := by
  simp [setT]

theorem setT_other (f : Nat → Thread) (i j : Nat) (t : Thread) (h : j ≠ i) : setT f i t j = f j := by
  simp [setT, h]

/-- the thread may run `storage.Get` / `getReaderOrWriter` (first time, or again after a wake-up) -/
def CanGet (s : Sys) (i : Nat) : Prop :=
  (s.threads i).pc = .start ∨ ((s.threads i).pc = .waiting ∧ (s.threads i).woken = true)

def CanLook (s : Sys) (i : Nat) : Prop :=
  (∃ r, (s.threads i).pc = .lookedUp r) ∨ ((s.threads i).pc = .waiting ∧ (s.threads i).woken = true)

/-- leaf transitions of `step`, result states explicit -/
inductive Step (s : Sys) : Sys → Prop where
  | startAbsent (i : Nat) (hi : i < s.n) (hc : CanGet s i) (w : Bool) (hf : s.file = .absent) :
      Step s { s with threads := setT s.threads i { s.threads i with pc := .lookedUp false, woken := w } }
  | startUnpub (i : Nat) (hi : i < s.n) (hc : CanGet s i) (w : Bool) (hf : s.file = .unpublished) :
      Step s { s with
        file := .absent, liveRemovals := s.liveRemovals + (if (List.range s.n).any (fun j => decide (j ≠ i) && (s.threads j).ownsFile) then 1 else 0), threads := fun j =>
          let u := if j = i then { s.threads i with pc := .lookedUp false, woken := w } else s.threads j
          if u.ownsFile ∧ j ≠ i then { u with fileLost := true } else u }
  | startFresh (i : Nat) (hi : i < s.n) (hc : CanGet s i) (w : Bool) (v : Nat) (whole : Bool)
      (hf : s.file = .published v whole true) :
      Step s { s with threads := setT s.threads i { s.threads i with pc := .done, woken := w, view := if whole then .complete v false else .truncated v } }
  | startStale (i : Nat) (hi : i < s.n) (hc : CanGet s i) (w : Bool) (v : Nat) (whole : Bool)
      (hf : s.file = .published v whole false) :
      Step s { s with threads := setT s.threads i { s.threads i with pc := .lookedUp true, woken := w } }
  | lateWriter (i : Nat) (hi : i < s.n) (hc : CanLook s i) (w : Bool) (hl : s.lock = none) (hf : s.file ≠ .absent) :
      Step s { s with lock := some [], holder := some i, lateWriters := s.lateWriters + 1, threads := setT s.threads i { s.threads i with pc := .notify 3, woken := w, view := .error 500 } }
  | takeLock (i : Nat) (hi : i < s.n) (hc : CanLook s i) (w : Bool) (reval : Bool) (hl : s.lock = none) :
      Step s { s with lock := some [], holder := some i, threads := setT s.threads i { s.threads i with pc := .route reval, woken := w } }
  | enqueue (i : Nat) (hi : i < s.n) (hc : CanLook s i) (ws : List Nat) (hl : s.lock = some ws) :
      Step s { s with lock := some (ws ++ [i]), threads := setT s.threads i { s.threads i with pc := .waiting, woken := false } }
  | routeConnErr (i : Nat) (hi : i < s.n) (reval : Bool) (hpc : (s.threads i).pc = .route reval)
      (hf : (s.threads i).fault = .connectErr) :
      Step s { s with threads := setT s.threads i { s.threads i with pc := .notify 3, view := .error 502 } }
  | routeUncache (i : Nat) (hi : i < s.n) (reval : Bool) (hpc : (s.threads i).pc = .route reval)
      (hf : (s.threads i).fault = .uncacheable) :
      Step s (bumpFetch { s with threads := setT s.threads i { s.threads i with pc := .notify 2, ver := s.originVersion, fetching := false, view := .complete s.originVersion false } })
  | routeFetch (i : Nat) (hi : i < s.n) (reval : Bool) (hpc : (s.threads i).pc = .route reval)
      (hf1 : (s.threads i).fault ≠ .connectErr) (hf2 : (s.threads i).fault ≠ .uncacheable) :
      Step s (bumpFetch { s with threads := setT s.threads i { s.threads i with pc := .whCreate reval, ver := s.originVersion, fetching := true } })
  | whReval (i : Nat) (hi : i < s.n) (hpc : (s.threads i).pc = .whCreate true) :
      Step s { s with tmp := true, threads := setT s.threads i { s.threads i with pc := .write true, view := .headers (s.threads i).ver } }
  | whCreateFile (i : Nat) (hi : i < s.n) (hpc : (s.threads i).pc = .whCreate false) (hf : s.file = .absent) :
      Step s { s with file := .unpublished, threads := setT s.threads i { s.threads i with pc := .write false, view := .headers (s.threads i).ver, ownsFile := true } }
  | whTmp (i : Nat) (hi : i < s.n) (hpc : (s.threads i).pc = .whCreate false) (hf : s.file ≠ .absent) :
      Step s { s with tmp := true, threads := setT s.threads i { s.threads i with pc := .write true, view := .headers (s.threads i).ver } }
  | write (i : Nat) (hi : i < s.n) (reval : Bool) (hpc : (s.threads i).pc = .write reval) :
      Step s { s with threads := setT s.threads i { s.threads i with pc := .close reval (decide ((s.threads i).fault = .readErr)), fetching := false } }
  | closeRevalOk (i : Nat) (hi : i < s.n) (rf : Bool) (hpc : (s.threads i).pc = .close true rf) (ht : s.tmp = true) :
      Step s { s with tmp := false, file := .published (s.threads i).ver (!rf) true, threads := setT s.threads i { s.threads i with pc := .notify (if rf then 1 else 0) } }
  | closeRevalLost (i : Nat) (hi : i < s.n) (rf : Bool) (hpc : (s.threads i).pc = .close true rf) (ht : s.tmp = false) :
      Step s { s with threads := setT s.threads i { s.threads i with pc := .notify 3 } }
  | closeLost (i : Nat) (hi : i < s.n) (rf : Bool) (hpc : (s.threads i).pc = .close false rf)
      (hl : (s.threads i).fileLost = true) :
      Step s { s with threads := setT s.threads i { s.threads i with pc := .notify 3, ownsFile := false } }
  | closePub (i : Nat) (hi : i < s.n) (rf : Bool) (hpc : (s.threads i).pc = .close false rf)
      (hl : (s.threads i).fileLost = false) :
      Step s { s with file := .published (s.threads i).ver (!rf) true, threads := setT s.threads i { s.threads i with pc := .notify (if rf then 1 else 0), ownsFile := false } }
  | notify (i : Nat) (hi : i < s.n) (k : Nat) (hpc : (s.threads i).pc = .notify k) (hn : s.notifier = .idle)
      (p' : Pc)
      (hp : (k = 0 ∧ p' = .sendBody) ∨ (k = 1 ∧ p' = .cleanup) ∨ (k = 2 ∧ p' = .notify 3) ∨ (3 ≤ k ∧ p' = .done)) :
      Step s { s with notifier := .got i, threads := setT s.threads i { s.threads i with pc := p' } }
  | sendPub (i : Nat) (hi : i < s.n) (hpc : (s.threads i).pc = .sendBody) (v : Nat) (whole fr : Bool)
      (hf : s.file = .published v whole fr) :
      Step s { s with threads := setT s.threads i { s.threads i with pc := .notify 3, view := if whole then .complete v false else .truncated v } }
  | sendNone (i : Nat) (hi : i < s.n) (hpc : (s.threads i).pc = .sendBody) (hf : s.file.isPub = false) :
      Step s { s with threads := setT s.threads i { s.threads i with pc := .notify 3 } }
  | cleanup (i : Nat) (hi : i < s.n) (hpc : (s.threads i).pc = .cleanup) :
      Step s { s with file := .absent, threads := setT s.threads i { s.threads i with pc := .notify 3 } }
  | waitDone (i : Nat) (hi : i < s.n) (hpc : (s.threads i).pc = .waiting) (hw : (s.threads i).woken = true)
      (v : Nat) (whole fresh : Bool) (hf : s.file = .published v whole fresh) :
      Step s { s with threads := setT s.threads i { s.threads i with pc := .done, view := if whole then .complete v (!fresh) else .truncated v } }
  | notifier (sender : Nat) (hn : s.notifier = .got sender) :
      Step s { s with notifier := .idle, lock := none, holder := none, staleReleases := s.staleReleases + (match s.holder with | some h => if h = sender then 0 else 1 | none => 0), threads := fun j => if (s.lock.getD []).contains j then { s.threads j with woken := true }
                                          else s.threads j }
  | expire (v : Nat) (whole : Bool) (hf : s.file = .published v whole true) :
      Step s { s with file := .published v whole false }
  | originChange : Step s { s with originVersion := s.originVersion + 1 }

theorem stepStart_sound (s : Sys) (i : Nat) (hi : i < s.n) (hc : CanGet s i) (p : Pc) (w : Bool) :
    Step s (stepStart s i { s.threads i with pc := p, woken := w }) := by
  unfold stepStart
  split
  · next hf => exact Step.startAbsent i hi hc w hf
  · next hf => exact Step.startUnpub i hi hc w hf
  · next v whole fresh hf =>
    cases fresh with
    | true => exact Step.startFresh i hi hc w v whole hf
    | false => exact Step.startStale i hi hc w v whole hf

theorem stepLookedUp_sound (s : Sys) (i : Nat) (hi : i < s.n) (hc : CanLook s i) (p : Pc) (w : Bool) (reval : Bool) :
    Step s (stepLookedUp s i { s.threads i with pc := p, woken := w } reval) := by
  unfold stepLookedUp
  split
  · next hl =>
    split
    · next h => exact Step.lateWriter i hi hc w hl h.1
    · exact Step.takeLock i hi hc w reval hl
  · next ws hl => exact Step.enqueue i hi hc ws hl


theorem stepThread_sound (s s' : Sys) (i : Nat) (h : stepThread s i = some s') : Step s s' := by
  unfold stepThread at h
  simp only at h
  split at h
  · cases h
  next hi =>
  have hi : i < s.n := by omega
  split at h
  · next hpc =>
    cases h
    exact stepStart_sound s i hi (Or.inl hpc) (s.threads i).pc (s.threads i).woken
  · next reval hpc =>
    cases h
    exact stepLookedUp_sound s i hi (Or.inl ⟨reval, hpc⟩) (s.threads i).pc (s.threads i).woken reval
  · next reval hpc =>
    split at h
    · next hf => cases h; exact Step.routeConnErr i hi reval hpc hf
    · next hf => cases h; exact Step.routeUncache i hi reval hpc hf
    · next hf1 hf2 => cases h; exact Step.routeFetch i hi reval hpc hf1 hf2
  · next reval hpc =>
    split at h
    · next hr => cases h; subst hr; exact Step.whReval i hi hpc
    · next hr =>
      have hr : reval = false := by simpa using hr
      subst hr
      split at h
      · next hf => cases h; exact Step.whCreateFile i hi hpc hf
      · next hf => cases h; exact Step.whTmp i hi hpc (by intro h'; exact hf h')
  · next reval hpc => cases h; exact Step.write i hi reval hpc
  · next reval rf hpc =>
    split at h
    · next hr =>
      subst hr
      split at h
      · next ht => cases h; exact Step.closeRevalOk i hi rf hpc ht
      · next ht => cases h; exact Step.closeRevalLost i hi rf hpc (by simpa using ht)
    · next hr =>
      have hr : reval = false := by simpa using hr
      subst hr
      split at h
      · next hl => cases h; exact Step.closeLost i hi rf hpc hl
      · next hl => cases h; exact Step.closePub i hi rf hpc (by simpa using hl)
  · next k hpc =>
    split at h
    · next hn =>
      cases h
      refine Step.notify i hi k hpc hn _ ?_
      split
      · exact Or.inl ⟨rfl, rfl⟩
      · exact Or.inr (Or.inl ⟨rfl, rfl⟩)
      · exact Or.inr (Or.inr (Or.inl ⟨rfl, rfl⟩))
      · next h0 h1 h2 =>
        have h0 : k ≠ 0 := h0
        have h1 : k ≠ 1 := h1
        have h2 : k ≠ 2 := h2
        exact Or.inr (Or.inr (Or.inr ⟨by omega, rfl⟩))
    · cases h
  · next hpc =>
    split at h
    · next v whole fr hf => cases h; exact Step.sendPub i hi hpc v whole fr hf
    · next hf =>
      cases h
      refine Step.sendNone i hi hpc ?_
      cases hfile : s.file with
      | published v w f => exact absurd hfile (hf v w f)
      | _ => rfl
  · next hpc => cases h; exact Step.cleanup i hi hpc
  · next hpc =>
    split at h
    · next hw =>
      split at h
      · next v whole fresh hf =>
        split at h
        · cases h; exact Step.waitDone i hi hpc hw v whole fresh hf
        · cases h; exact stepLookedUp_sound s i hi (Or.inr ⟨hpc, hw⟩) (s.threads i).pc false true
      · cases h; exact stepLookedUp_sound s i hi (Or.inr ⟨hpc, hw⟩) (s.threads i).pc false false
      · cases h; exact stepStart_sound s i hi (Or.inr ⟨hpc, hw⟩) .start false
    · cases h
  · cases h

theorem step_sound (s s' : Sys) (a : Actor) (h : step s a = some s') : Step s s' := by
  cases a with
  | thread i => exact stepThread_sound s s' i h
  | notifier =>
    simp only [step, stepNotifier] at h
    split at h
    · cases h
    · next sender hn => cases h; exact Step.notifier sender hn
  | expire =>
    simp only [step] at h
    split at h
    · next v whole hf => cases h; exact Step.expire v whole hf
    · cases h
  | originChange =>
    simp only [step] at h
    cases h; exact Step.originChange


theorem Pc.fetchPc_inW (p : Pc) (h : p.fetchPc = true) : p.inW = true := by
  cases p <;> simp_all [Pc.fetchPc, Pc.inW]

theorem Pc.past_not_inW (p : Pc) (h : p.past = true) : p.inW = false := by
  cases p <;> simp_all [Pc.past, Pc.inW]

theorem Pc.tmpPc_inW (p : Pc) (h : p.tmpPc = true) : p.inW = true := by
  cases p <;> simp_all [Pc.tmpPc, Pc.inW]

theorem Pc.inW_active (p : Pc) (h : p.inW = true) : p.active = true := by
  cases p <;> simp_all [Pc.active, Pc.inW]

/-- counting: a predicate true of at most one index is true of at most one element of `range n` -/
theorem filter_range_le_one (p : Nat → Bool) (i : Nat) (h : ∀ j, p j = true → j = i) (n : Nat) :
    ((List.range n).filter p).length ≤ if i < n then 1 else 0 := by
  induction n with
  | zero => simp
  | succ n ih =>
    rw [List.range_succ, List.filter_append, List.length_append]
    by_cases hp : p n = true
    · have := h n hp
      subst this
      simp [hp] at ih ⊢
      omega
    · simp [hp]
      split at ih <;> split <;> omega

theorem inFlight_le_one (s : Sys) (i : Nat) (h : ∀ j, (s.threads j).fetching = true → j = i) :
    inFlight s ≤ 1 := by
  have := filter_range_le_one (fun j => (s.threads j).fetching) i h s.n
  unfold inFlight
  split at this <;> omega

/-! ## the lock / notifier / single-flight invariant (all fault assignments) -/

structure Inv (s : Sys) : Prop where
  lockHolder : s.lock.isSome = s.holder.isSome
  holderOk : ∀ h, s.holder = some h →
    h < s.n ∧ (s.threads h).pc.active = true ∧ ((s.threads h).pc = .done → s.notifier ≠ .idle)
  notifierOk : ∀ j, s.notifier = .got j → j < s.n ∧ (s.threads j).pc.past = true
  waiters : ∀ j, (s.threads j).pc = .waiting → (s.threads j).woken = false →
    ∃ ws, s.lock = some ws ∧ j ∈ ws
  fetchOk : ∀ j, (s.threads j).fetching = true → (s.threads j).pc.fetchPc = true
  mutex : s.staleReleases = 0 → ∀ j, (s.threads j).pc.inW = true → s.holder = some j
  flight : s.staleReleases = 0 → s.maxInFlight ≤ 1

theorem inv_init (n : Nat) (f : Nat → Fault) : Inv (init n f) := by
  constructor <;> simp [init, Pc.active, Pc.past, Pc.inW, Pc.fetchPc]

/-- grind with the definitions of the model predicates -/
macro "conc_grind" : tactic =>
  `(tactic| grind [setT, Pc.active, Pc.past, Pc.inW, Pc.fetchPc, CanGet, CanLook, Pc.past_not_inW])

/-- in flight after a `route` step: only the stepping thread can be fetching -/
theorem inFlight_route (s : Sys) (hI : Inv s) (i : Nat) (reval : Bool)
    (hpc : (s.threads i).pc = .route reval) (t' : Thread) (h0 : s.staleReleases = 0) (k : Nat) :
    inFlight { s with threads := setT s.threads i t', fetches := k } ≤ 1 := by
  apply inFlight_le_one _ i
  intro j hj
  by_cases hji : j = i
  · exact hji
  · simp only [setT_other _ _ _ _ hji] at hj
    have hj' := hI.mutex h0 j (Pc.fetchPc_inW _ (hI.fetchOk j hj))
    have hi' := hI.mutex h0 i (by rw [hpc]; rfl)
    rw [hj'] at hi'
    exact Option.some.inj hi'

theorem inv_step_lockHolder (s s' : Sys) (hI : Inv s) (h : Step s s') :
    s'.lock.isSome = s'.holder.isSome := by
  obtain ⟨h1, h2, h3, h4, h5, h6, h7⟩ := hI
  cases h <;> simp only [bumpFetch] <;> conc_grind

theorem inv_step_holderOk (s s' : Sys) (hI : Inv s) (h : Step s s') :
    ∀ h, s'.holder = some h → h < s'.n ∧ (s'.threads h).pc.active = true ∧ ((s'.threads h).pc = .done → s'.notifier ≠ .idle) := by
  obtain ⟨h1, h2, h3, h4, h5, h6, h7⟩ := hI
  cases h <;> simp only [bumpFetch] <;> conc_grind

theorem inv_step_notifierOk (s s' : Sys) (hI : Inv s) (h : Step s s') :
    ∀ j, s'.notifier = .got j → j < s'.n ∧ (s'.threads j).pc.past = true := by
  obtain ⟨h1, h2, h3, h4, h5, h6, h7⟩ := hI
  cases h <;> simp only [bumpFetch] <;> conc_grind

theorem inv_step_waiters (s s' : Sys) (hI : Inv s) (h : Step s s') :
    ∀ j, (s'.threads j).pc = .waiting → (s'.threads j).woken = false → ∃ ws, s'.lock = some ws ∧ j ∈ ws := by
  obtain ⟨h1, h2, h3, h4, h5, h6, h7⟩ := hI
  cases h <;> simp only [bumpFetch] <;> conc_grind

theorem inv_step_fetchOk (s s' : Sys) (hI : Inv s) (h : Step s s') :
    ∀ j, (s'.threads j).fetching = true → (s'.threads j).pc.fetchPc = true := by
  obtain ⟨h1, h2, h3, h4, h5, h6, h7⟩ := hI
  cases h <;> simp only [bumpFetch] <;> conc_grind

theorem inv_step_mutex (s s' : Sys) (hI : Inv s) (h : Step s s') :
    s'.staleReleases = 0 → ∀ j, (s'.threads j).pc.inW = true → s'.holder = some j := by
  obtain ⟨h1, h2, h3, h4, h5, h6, h7⟩ := hI
  cases h <;> simp only [bumpFetch] <;> conc_grind

theorem inv_step_flight (s s' : Sys) (hI : Inv s) (h : Step s s') :
    s'.staleReleases = 0 → s'.maxInFlight ≤ 1 := by
  have hfl := inFlight_route s hI
  obtain ⟨h1, h2, h3, h4, h5, h6, h7⟩ := hI
  cases h with
  | routeUncache i hi reval hpc hf =>
    intro h0
    simp only [bumpFetch] at h0 ⊢
    exact Nat.max_le.mpr ⟨h7 h0, hfl i reval hpc _ h0 _⟩
  | routeFetch i hi reval hpc hf1 hf2 =>
    intro h0
    simp only [bumpFetch] at h0 ⊢
    exact Nat.max_le.mpr ⟨h7 h0, hfl i reval hpc _ h0 _⟩
  | _ => conc_grind

theorem inv_step (s s' : Sys) (hI : Inv s) (h : Step s s') : Inv s' :=
  ⟨inv_step_lockHolder s s' hI h, inv_step_holderOk s s' hI h, inv_step_notifierOk s s' hI h,
   inv_step_waiters s s' hI h, inv_step_fetchOk s s' hI h, inv_step_mutex s s' hI h,
   inv_step_flight s s' hI h⟩


/-- an invariant of `Step` holds along every schedule (disabled steps are skipped by `run`) -/
theorem run_inv (P : Sys → Prop) (hstep : ∀ s s', P s → Step s s' → P s') (s : Sys) (sched : List Actor)
    (h : P s) : P (run s sched) := by
  induction sched generalizing s with
  | nil => exact h
  | cons a as ih =>
    simp only [run]
    cases hs : step s a with
    | none => exact ih s h
    | some s' => exact ih s' (hstep s s' h (step_sound s s' a hs))

theorem inv_run (n : Nat) (f : Nat → Fault) (sched : List Actor) : Inv (run (init n f) sched) :=
  run_inv Inv inv_step _ _ (inv_init n f)

/-! ## no origin read error: nothing truncated is ever published or served -/

structure InvR (s : Sys) : Prop where
  noErr : ∀ j, (s.threads j).fault ≠ .readErr
  fileWhole : ∀ v w fr, s.file = .published v w fr → w = true
  closeOk : ∀ j r rf, (s.threads j).pc = .close r rf → rf = false
  views : ∀ j, (s.threads j).view.isTruncated = false

theorem invR_init (n : Nat) (f : Nat → Fault) (hf : ∀ j, f j ≠ .readErr) : InvR (init n f) := by
  constructor <;> simp [init, View.isTruncated, hf]

theorem invR_step (s s' : Sys) (hI : InvR s) (h : Step s s') : InvR s' := by
  obtain ⟨h1, h2, h3, h4⟩ := hI
  cases h <;> constructor <;> simp only [bumpFetch] <;> grind [setT, View.isTruncated]

theorem invR_run (n : Nat) (f : Nat → Fault) (hf : ∀ j, f j ≠ .readErr) (sched : List Actor) :
    InvR (run (init n f) sched) :=
  run_inv InvR invR_step _ _ (invR_init n f hf)


/-! ## no faults, no live removal, no late writer: every finished request has the complete response -/

/-- what a thread's program counter promises about the file and its view -/
def servedOk (f : FileSt) (t : Thread) : Bool :=
  match t.pc with
  | .notify k => (k == 0 && f.isPub) || (k == 3 && t.view.isComplete)
  | .sendBody => f.isPub
  | .cleanup => false
  | .done => t.view.isComplete
  | _ => true

theorem servedOk_done (f : FileSt) (t : Thread) (hd : t.pc = .done) (h : servedOk f t = true) :
    ∃ v st, t.view = .complete v st := by
  unfold servedOk at h
  rw [hd] at h
  cases hv : t.view <;> simp_all [View.isComplete]

structure InvC (s : Sys) : Prop where
  noFault : ∀ j, (s.threads j).fault = .none
  ownsLt : ∀ j, (s.threads j).ownsFile = true → j < s.n
  fileWhole : ∀ v w fr, s.file = .published v w fr → w = true
  closeOk : ∀ j r rf, (s.threads j).pc = .close r rf → rf = false
  notLost : s.liveRemovals = 0 → ∀ j, (s.threads j).fileLost = false
  /-- without a stale release the writer through `.tmp` is alone, so its tmp file is still there -/
  tmpOk : s.staleReleases = 0 → ∀ j, (s.threads j).pc.tmpPc = true → s.tmp = true
  served : s.liveRemovals = 0 → s.lateWriters = 0 → s.staleReleases = 0 →
    ∀ j, servedOk s.file (s.threads j) = true

theorem invC_init (n : Nat) (f : Nat → Fault) (hf : ∀ j, f j = .none) : InvC (init n f) := by
  constructor <;> simp [init, servedOk, Pc.tmpPc, hf]

theorem any_range_false (n : Nat) (p : Nat → Bool) (h : (List.range n).any p = false) (j : Nat) (hj : j < n) :
    p j = false := by
  rw [List.any_eq_false] at h
  simpa using h j (List.mem_range.mpr hj)

/-- preservation (split in three for build time); `tmpOk` uses the mutex clause of `Inv` -/
theorem invC_step_base (s s' : Sys) (hM : Inv s) (hI : InvC s) (h : Step s s') :
    (∀ j, (s'.threads j).fault = .none) ∧ (∀ j, (s'.threads j).ownsFile = true → j < s'.n) ∧
    (∀ v w fr, s'.file = .published v w fr → w = true) ∧
    (∀ j r rf, (s'.threads j).pc = .close r rf → rf = false) ∧
    (s'.liveRemovals = 0 → ∀ j, (s'.threads j).fileLost = false) := by
  have hm := hM.mutex
  obtain ⟨h1, h2, h3, h4, h5, h6, h7⟩ := hI
  cases h with
  | write i hi reval hpc =>
    cases reval <;> refine ⟨?_, ?_, ?_, ?_, ?_⟩ <;>
      grind [setT, servedOk, FileSt.isPub, View.isComplete, Pc.tmpPc, Pc.inW, Pc.tmpPc_inW]
  | _ =>
    refine ⟨?_, ?_, ?_, ?_, ?_⟩ <;> simp only [bumpFetch] <;>
      grind [setT, servedOk, FileSt.isPub, View.isComplete, Pc.tmpPc, Pc.inW, Pc.tmpPc_inW]

theorem invC_step_tmpOk (s s' : Sys) (hM : Inv s) (hI : InvC s) (h : Step s s') :
    s'.staleReleases = 0 → ∀ j, (s'.threads j).pc.tmpPc = true → s'.tmp = true := by
  have hm := hM.mutex
  obtain ⟨h1, h2, h3, h4, h5, h6, h7⟩ := hI
  cases h with
  | write i hi reval hpc =>
    cases reval <;>
      grind [setT, servedOk, FileSt.isPub, View.isComplete, Pc.tmpPc, Pc.inW, Pc.tmpPc_inW]
  | _ =>
    simp only [bumpFetch] <;>
      grind [setT, servedOk, FileSt.isPub, View.isComplete, Pc.tmpPc, Pc.inW, Pc.tmpPc_inW]

theorem invC_step_served (s s' : Sys) (hM : Inv s) (hI : InvC s) (h : Step s s') :
    s'.liveRemovals = 0 → s'.lateWriters = 0 → s'.staleReleases = 0 →
    ∀ j, servedOk s'.file (s'.threads j) = true := by
  have hm := hM.mutex
  obtain ⟨h1, h2, h3, h4, h5, h6, h7⟩ := hI
  cases h with
  | write i hi reval hpc =>
    cases reval <;>
      grind [setT, servedOk, FileSt.isPub, View.isComplete, Pc.tmpPc, Pc.inW, Pc.tmpPc_inW]
  | _ =>
    simp only [bumpFetch] <;>
      grind [setT, servedOk, FileSt.isPub, View.isComplete, Pc.tmpPc, Pc.inW, Pc.tmpPc_inW]

theorem invC_step (s s' : Sys) (hM : Inv s) (hI : InvC s) (h : Step s s') : InvC s' :=
  have hb := invC_step_base s s' hM hI h
  ⟨hb.1, hb.2.1, hb.2.2.1, hb.2.2.2.1, hb.2.2.2.2, invC_step_tmpOk s s' hM hI h, invC_step_served s s' hM hI h⟩

theorem invC_run (n : Nat) (f : Nat → Fault) (hf : ∀ j, f j = .none) (sched : List Actor) :
    InvC (run (init n f) sched) :=
  (run_inv (fun s => Inv s ∧ InvC s)
    (fun s s' h hs => ⟨inv_step s s' h.1 hs, invC_step s s' h.1 h.2 hs⟩) _ _
    ⟨inv_init n f, invC_init n f hf⟩).2

end Lemmas.Conc
