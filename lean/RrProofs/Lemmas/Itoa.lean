import RrModel.Go.Strconv
/-
  `strconv.ParseInt(strconv.FormatInt(i, 10), 10, 64) = i` for every int64 `i`, and the bytes
  `FormatInt` produces (decimal digits and a leading `-`).
-/
namespace Go

theorem natDigits_eq (n : Nat) :
    natDigits n = if n < 10 then [48 + n] else natDigits (n / 10) ++ [48 + n % 10] := by
  unfold natDigits
  rw [Nat.toDigits_eq_if (by decide : 1 < 10)]
  split
  · rename_i h
    simp [Nat.toNat_digitChar_of_lt_ten h]
  · simp [Nat.toNat_digitChar_of_lt_ten (Nat.mod_lt n (by decide : 0 < 10))]

theorem natDigits_ne_nil (n : Nat) : natDigits n ≠ [] := by
  rw [natDigits_eq]; split <;> simp

theorem mem_natDigits {n c : Nat} (h : c ∈ natDigits n) : 48 ≤ c ∧ c ≤ 57 := by
  induction n using Nat.strongRecOn with
  | _ n ih =>
    rw [natDigits_eq] at h
    split at h
    · simp at h; omega
    · rename_i hn
      simp only [List.mem_append, List.mem_singleton] at h
      rcases h with h | h
      · exact ih (n / 10) (by omega) h
      · have := Nat.mod_lt n (by decide : 0 < 10); omega

theorem digitsVal_append (s : Bytes) (d acc : Nat) :
    digitsVal (s ++ [d]) acc =
      match digitsVal s acc with
      | some v => if isDigit d then some (v * 10 + (d - 48)) else none
      | none => none := by
  induction s generalizing acc with
  | nil => simp [digitsVal]
  | cons c t ih =>
    rw [List.cons_append, digitsVal, digitsVal]
    split
    · exact ih _
    · rfl

theorem digitsVal_natDigits (n : Nat) : digitsVal (natDigits n) 0 = some n := by
  induction n using Nat.strongRecOn with
  | _ n ih =>
    rw [natDigits_eq]
    split
    · rename_i h
      have : isDigit (48 + n) = true := by simp [isDigit]; omega
      simp [digitsVal, this]
    · rename_i h
      have hm := Nat.mod_lt n (by decide : 0 < 10)
      have : isDigit (48 + n % 10) = true := by simp [isDigit]; omega
      rw [digitsVal_append, ih (n / 10) (by omega)]
      simp only [this, if_true]
      congr 1
      omega

/-- the first byte of a decimal rendering is a digit -/
theorem natDigits_head (n : Nat) : ∃ c t, natDigits n = c :: t ∧ 48 ≤ c ∧ c ≤ 57 := by
  cases h : natDigits n with
  | nil => exact absurd h (natDigits_ne_nil n)
  | cons c t => exact ⟨c, t, rfl, mem_natDigits (n := n) (by simp [h])⟩

theorem parseInt_natDigits {n : Nat} (h : (n : Int) ≤ maxInt64) : parseInt (natDigits n) = some (n : Int) := by
  obtain ⟨c, t, hct, h1, h2⟩ := natDigits_head n
  have hv := digitsVal_natDigits n
  rw [hct] at hv ⊢
  unfold parseInt
  split
  · rename_i heq; cases heq
  · rename_i heq; injection heq with e _; omega
  · rename_i heq; injection heq with e _; omega
  · rw [hv]
    have : ¬ ((n : Int) > maxInt64) := by omega
    simp [this]

/-- `ParseInt(FormatInt(i, 10), 10, 64) = i` on the int64 range -/
theorem parseInt_itoa {i : Int} (hlo : minInt64 ≤ i) (hhi : i ≤ maxInt64) : parseInt (itoa i) = some i := by
  unfold itoa
  by_cases hneg : i < 0
  · simp only [hneg, if_true]
    have hne := natDigits_ne_nil i.natAbs
    have hv := digitsVal_natDigits i.natAbs
    unfold parseInt
    simp only
    have hemp : (natDigits i.natAbs).isEmpty = false := by
      cases h : natDigits i.natAbs with
      | nil => exact absurd h hne
      | cons _ _ => rfl
    rw [hemp, hv]
    have h1 : ¬ (-((i.natAbs : Nat) : Int) < minInt64) := by omega
    have h2 : -((i.natAbs : Nat) : Int) = i := by omega
    simp only [Bool.false_eq_true, if_false]
    rw [if_neg h1, h2]
  · simp only [hneg, if_false]
    have : ((i.natAbs : Nat) : Int) = i := by omega
    have h := parseInt_natDigits (n := i.natAbs) (by omega)
    rw [this] at h
    exact h

/-- `FormatInt` writes only decimal digits and `-` -/
theorem mem_itoa {i : Int} {c : Nat} (h : c ∈ itoa i) : c = 45 ∨ (48 ≤ c ∧ c ≤ 57) := by
  unfold itoa at h
  split at h
  · simp only [List.mem_cons] at h
    rcases h with h | h
    · exact Or.inl h
    · exact Or.inr (mem_natDigits h)
  · exact Or.inr (mem_natDigits h)

end Go
