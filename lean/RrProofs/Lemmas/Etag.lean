import RrModel.Go.Strings
/-
  Facts about the Go string functions used by the ETag comparison of `cache.Get`
  (caching.go:239-257): `strings.HasPrefix` / `HasSuffix` as list prefix / suffix,
  a characterisation of `strings.LastIndex` (an occurrence, and the right-most one),
  and the fixed points of the cutset trim `strings.TrimLeft`.
-/
namespace Go

/-! ### `HasPrefix` / `HasSuffix` -/

theorem hasPrefix_iff (s p : Bytes) : hasPrefix s p = true ↔ p <+: s := by
  unfold hasPrefix
  exact List.isPrefixOf_iff_prefix

theorem hasSuffix_iff (s p : Bytes) : hasSuffix s p = true ↔ p <:+ s := by
  unfold hasSuffix
  rw [List.isPrefixOf_iff_prefix, List.reverse_prefix]

theorem hasSuffix_append (x p : Bytes) : hasSuffix (x ++ p) p = true :=
  (hasSuffix_iff _ _).2 ⟨x, rfl⟩

/-- the last byte of a list that ends in a non-empty `tok` is a byte of `tok` -/
theorem mem_of_append_eq_concat {a b tok : Bytes} {z : Nat} (hne : tok ≠ [])
    (h : a ++ tok = b ++ [z]) : z ∈ tok := by
  rcases List.eq_nil_or_concat tok with h0 | ⟨t', w, hw⟩
  · exact absurd h0 hne
  · subst hw
    rw [List.concat_eq_append, ← List.append_assoc] at h
    have := (List.append_inj' h rfl).2
    simp only [List.cons.injEq, and_true] at this
    subst this
    simp

/-- a list that ends both in `[z]` and in a non-empty `tok`: `z` is a byte of `tok` -/
theorem mem_of_suffix_of_suffix {c tok : Bytes} {z : Nat} (hne : tok ≠ [])
    (h1 : tok <:+ c) (h2 : [z] <:+ c) : z ∈ tok := by
  obtain ⟨a, ha⟩ := h1
  obtain ⟨b, hb⟩ := h2
  exact mem_of_append_eq_concat hne (ha.trans hb.symm)

/-! ### `LastIndex` -/

/-- `LastIndex` = -1: there is no occurrence at all -/
theorem lastIndex_none {tok : Bytes} (hne : tok ≠ []) :
    ∀ {c : Bytes}, lastIndex tok c = none → ∀ u v : Bytes, c ≠ u ++ tok ++ v := by
  intro c
  induction c with
  | nil =>
    intro _ u v h
    have h' := h.symm
    simp only [List.append_eq_nil_iff] at h'
    exact hne h'.1.2
  | cons a t ih =>
    intro h u v hc
    unfold lastIndex at h
    cases hl : lastIndex tok t with
    | some i => simp [hl] at h
    | none =>
      simp only [hl] at h
      by_cases hp : tok.isPrefixOf (a :: t) = true
      · simp [hp] at h
      · cases u with
        | nil =>
          apply hp
          rw [List.isPrefixOf_iff_prefix]
          exact ⟨v, by simpa using hc.symm⟩
        | cons b u' =>
          simp only [List.cons_append, List.cons.injEq] at hc
          exact ih hl u' v hc.2

/-- `LastIndex` = `i`: there is an occurrence starting at `i`, and none starts later -/
theorem lastIndex_some {tok : Bytes} (hne : tok ≠ []) :
    ∀ {c : Bytes} {i : Nat}, lastIndex tok c = some i →
      ∃ u v : Bytes, c = u ++ tok ++ v ∧ u.length = i ∧
        ∀ u' v' : Bytes, c = u' ++ tok ++ v' → u'.length ≤ i := by
  intro c
  induction c with
  | nil => intro i h; simp [lastIndex] at h
  | cons a t ih =>
    intro i h
    unfold lastIndex at h
    cases hl : lastIndex tok t with
    | some j =>
      simp only [hl, Option.some.injEq] at h
      subst h
      obtain ⟨u, v, hc, hlen, hmax⟩ := ih hl
      refine ⟨a :: u, v, by simp [hc], by simp [hlen], ?_⟩
      intro u' v' hc'
      cases u' with
      | nil => simp
      | cons b u'' =>
        simp only [List.cons_append, List.cons.injEq] at hc'
        have := hmax u'' v' hc'.2
        simp only [List.length_cons]
        omega
    | none =>
      simp only [hl] at h
      by_cases hp : tok.isPrefixOf (a :: t) = true
      · simp only [hp, ↓reduceIte, Option.some.injEq] at h
        subst h
        obtain ⟨v, hv⟩ := List.isPrefixOf_iff_prefix.1 hp
        refine ⟨[], v, by simpa using hv.symm, rfl, ?_⟩
        intro u' v' hc'
        cases u' with
        | nil => simp
        | cons b u'' =>
          simp only [List.cons_append, List.cons.injEq] at hc'
          exact absurd hc'.2 (lastIndex_none hne hl u'' v')
      · simp [hp] at h

/-- an occurrence found by `LastIndex` fits into the string -/
theorem lastIndex_some_le {tok c : Bytes} {i : Nat} (hne : tok ≠ [])
    (h : lastIndex tok c = some i) : i + tok.length ≤ c.length := by
  obtain ⟨u, v, hc, hlen, _⟩ := lastIndex_some hne h
  subst hc
  simp only [List.length_append]
  omega

/-- **the cut point of caching.go:245.**  `tok` is a non-empty token without the byte `z`;
    `r` is `[]` or `[z]`.  When a string `p ++ c` ends in `tok ++ r` and `LastIndex(c, tok)`
    is `idx ≥ 0`, then `c` itself ends in `tok ++ r` and `idx` is where that final occurrence
    starts. -/
theorem lastIndex_of_suffix {tok p c r : Bytes} {z idx : Nat} (hne : tok ≠ [])
    (hz : z ∉ tok) (hr : r = [] ∨ r = [z]) (hsuf : tok ++ r <:+ p ++ c)
    (hidx : lastIndex tok c = some idx) :
    ∃ x : Bytes, c = x ++ tok ++ r ∧ x.length = idx := by
  obtain ⟨u, v, hc, hlen, hmax⟩ := lastIndex_some hne hidx
  obtain ⟨y, hy⟩ := hsuf
  -- p ++ u ++ tok ++ v = y ++ tok ++ r
  have heq : (p ++ u ++ tok) ++ v = (y ++ tok) ++ r := by
    rw [hc] at hy
    simp only [List.append_assoc] at hy ⊢
    exact hy.symm
  rcases Nat.lt_trichotomy v.length r.length with hlt | heqlen | hgt
  · -- `v` shorter than `r`: `r = [z]`, `v = []`, and `tok` would end in `z`
    exfalso
    rcases hr with hr | hr
    · subst hr; simp at hlt
    · subst hr
      have hv : v = [] := by
        simp only [List.length_cons, List.length_nil] at hlt
        exact List.eq_nil_of_length_eq_zero (by omega)
      subst hv
      rw [List.append_nil] at heq
      exact hz (mem_of_append_eq_concat hne heq)
  · obtain ⟨_, hvr⟩ := List.append_inj' heq heqlen
    subst hvr
    exact ⟨u, hc, hlen⟩
  · -- `v` longer than `r`: the final occurrence lies inside `c` and starts after `idx`
    exfalso
    have hsc : tok ++ r <:+ c := by
      refine List.suffix_of_suffix_length_le (l₃ := p ++ c) ⟨y, hy⟩ ⟨p, rfl⟩ ?_
      rw [hc]
      simp only [List.length_append]
      omega
    obtain ⟨x, hx⟩ := hsc
    have hx' : c = x ++ tok ++ r := by rw [List.append_assoc]; exact hx.symm
    have h1 := hmax x r hx'
    have h2 : c.length = x.length + tok.length + r.length := by
      rw [hx']; simp only [List.length_append]
    have h3 : c.length = u.length + tok.length + v.length := by
      rw [hc]; simp only [List.length_append]
    omega

/-! ### `TrimLeft` -/

theorem length_trimLeft_le (cs : Bytes) : ∀ s : Bytes, (trimLeft cs s).length ≤ s.length := by
  intro s
  induction s with
  | nil => simp [trimLeft]
  | cons a t ih =>
    unfold trimLeft
    by_cases h : cs.contains a = true
    · rw [if_pos h]; simp only [List.length_cons]; omega
    · rw [if_neg h]; exact Nat.le_refl _

/-- `a` string that `TrimLeft` leaves alone is empty or starts with a byte outside the cutset -/
def clean (cs : Bytes) : Bytes → Bool
  | [] => true
  | a :: _ => !cs.contains a

theorem trimLeft_of_clean {cs s : Bytes} (h : clean cs s = true) : trimLeft cs s = s := by
  cases s with
  | nil => rfl
  | cons a t =>
    have h' : ¬ cs.contains a = true := by
      intro hc
      simp only [clean, hc, Bool.not_true, Bool.false_eq_true] at h
    unfold trimLeft
    rw [if_neg h']

theorem clean_of_trimLeft_eq {cs s : Bytes} (h : trimLeft cs s = s) : clean cs s = true := by
  cases s with
  | nil => rfl
  | cons a t =>
    unfold trimLeft at h
    by_cases hc : cs.contains a = true
    · exfalso
      simp only [hc, ↓reduceIte] at h
      have := length_trimLeft_le cs t
      rw [h] at this
      simp only [List.length_cons] at this
      omega
    · simp only [Bool.not_eq_true] at hc
      simp only [clean, hc, Bool.not_false]

theorem trimLeft_eq_self_iff (cs s : Bytes) : trimLeft cs s = s ↔ clean cs s = true :=
  ⟨clean_of_trimLeft_eq, trimLeft_of_clean⟩

/-- a prefix-or-rest of a clean string stays clean when the rest `r` is itself clean -/
theorem clean_append_of_clean {cs x w r : Bytes} (h : clean cs (x ++ w) = true)
    (hr : clean cs r = true) : clean cs (x ++ r) = true := by
  cases x with
  | nil => simpa using hr
  | cons a t => simpa [clean] using h

end Go
