import RrModel.Go.Strings
import RrModel.Go.Strconv
/-
  General lemmas about the Go string / strconv emulation used by the range proofs (C15):
  decimal digits, `parseInt`, `split1`, `split` on the literal `bytes=`.
  Own namespace `Go.RangeParse`: some statements also exist in Lemmas/Itoa.lean and Lemmas/Split.lean
  (written concurrently); keeping them apart avoids name clashes when both are imported.
-/
namespace Go.RangeParse

/-! ### digits -/

theorem digitsVal_all_digits : ∀ (s : Bytes) (acc v : Nat), digitsVal s acc = some v → ∀ c ∈ s, isDigit c = true
  | [], _, _, _ => by intro c hc; cases hc
  | d :: t, acc, v, h => by
    unfold digitsVal at h
    by_cases hd : isDigit d = true
    · rw [if_pos hd] at h
      intro c hc
      cases hc with
      | head => exact hd
      | tail _ hm => exact digitsVal_all_digits t _ v h c hm
    · rw [if_neg hd] at h; cases h

theorem isDigit_bounds {c : Nat} (h : isDigit c = true) : 48 ≤ c ∧ c ≤ 57 := by
  unfold isDigit at h
  simp only [Bool.and_eq_true, decide_eq_true_eq] at h
  exact h

/-- on a digit string `digitsVal` is `Nat.ofDigitChars`-like: value with accumulator -/
theorem digitsVal_map_toNat : ∀ (cs : List Char) (acc : Nat), (∀ c ∈ cs, c.isDigit = true) →
    digitsVal (cs.map (·.toNat)) acc = some (Nat.ofDigitChars 10 cs acc)
  | [], acc, _ => by simp [digitsVal]
  | c :: cs, acc, h => by
    have hc : c.isDigit = true := h c (by simp)
    have hd : isDigit c.toNat = true := by
      unfold isDigit
      simp only [Char.isDigit, Bool.and_eq_true, decide_eq_true_eq, UInt32.le_iff_toNat_le] at hc
      simp only [Bool.and_eq_true, decide_eq_true_eq]
      exact hc
    simp only [List.map_cons, digitsVal, hd, if_true]
    rw [digitsVal_map_toNat cs _ (fun d hd => h d (by simp [hd])), Nat.ofDigitChars_cons]
    congr 2
    simp only [Char.reduceToNat]
    rw [Nat.mul_comm]

theorem natDigits_digits (a : Nat) : ∀ c ∈ natDigits a, isDigit c = true := by
  intro c hc
  unfold natDigits at hc
  rw [List.mem_map] at hc
  obtain ⟨ch, hch, rfl⟩ := hc
  have := Nat.isDigit_of_mem_toDigits (by decide) (by decide) hch
  unfold isDigit
  simp only [Char.isDigit, Bool.and_eq_true, decide_eq_true_eq, UInt32.le_iff_toNat_le] at this
  simp only [Bool.and_eq_true, decide_eq_true_eq]
  exact this

theorem natDigits_ne_nil (a : Nat) : natDigits a ≠ [] := by
  unfold natDigits
  intro h
  exact Nat.toDigits_ne_nil (List.map_eq_nil_iff.1 h)

/-- reading back the decimal rendering -/
theorem digitsVal_natDigits (a : Nat) : digitsVal (natDigits a) 0 = some a := by
  unfold natDigits
  rw [digitsVal_map_toNat _ _ (fun c hc => Nat.isDigit_of_mem_toDigits (by decide) (by decide) hc)]
  simp

theorem itoa_natCast (m : Nat) : itoa (m : Int) = natDigits m := by
  unfold itoa
  have : ¬ ((m : Int) < 0) := by omega
  rw [if_neg this, Int.natAbs_natCast]

/-! ### parseInt -/

/-- a text whose first byte is a digit takes the unsigned branch -/
theorem parseInt_digit_head (c : Nat) (t : Bytes) (hc : isDigit c = true) :
    parseInt (c :: t) =
      match digitsVal (c :: t) 0 with
      | some v => if (v : Int) > maxInt64 then none else some (v : Int)
      | none => none := by
  have hb := isDigit_bounds hc
  unfold parseInt
  split
  · rename_i heq; cases heq
  · rename_i heq; injection heq with h1 h2; omega
  · rename_i heq; injection heq with h1 h2; omega
  · rfl

theorem parseInt_digits (s : Bytes) (v : Nat) (hne : s ≠ []) (h : digitsVal s 0 = some v) :
    parseInt s = if (v : Int) > maxInt64 then none else some (v : Int) := by
  cases s with
  | nil => exact absurd rfl hne
  | cons c t =>
    have hc := digitsVal_all_digits _ _ _ h c (by simp)
    rw [parseInt_digit_head c t hc, h]

theorem parseInt_neg_digits (s : Bytes) (v : Nat) (hne : s ≠ []) (h : digitsVal s 0 = some v) :
    parseInt (45 :: s) = if -(v : Int) < minInt64 then none else some (-(v : Int)) := by
  cases s with
  | nil => exact absurd rfl hne
  | cons c t => simp [parseInt, h]

/-! ### split1 -/

theorem split1_ne_nil (c : Nat) : ∀ s, split1 c s ≠ []
  | [] => by simp [split1]
  | d :: t => by
    unfold split1
    by_cases h : d = c
    · simp [h]
    · rw [if_neg h]
      split <;> simp

theorem split1_no_sep (c : Nat) : ∀ (s : Bytes), c ∉ s → split1 c s = [s]
  | [], _ => by simp [split1]
  | d :: t, h => by
    have hd : d ≠ c := fun e => h (by simp [e])
    have ht : c ∉ t := fun m => h (by simp [m])
    unfold split1
    rw [if_neg hd, split1_no_sep c t ht]

theorem split1_append_sep (c : Nat) : ∀ (a b : Bytes), c ∉ a → split1 c (a ++ c :: b) = a :: split1 c b
  | [], b, _ => by simp [split1]
  | d :: t, b, h => by
    have hd : d ≠ c := fun e => h (by simp [e])
    have ht : c ∉ t := fun m => h (by simp [m])
    simp only [List.cons_append]
    conv => lhs; unfold split1
    rw [if_neg hd, split1_append_sep c t b ht]

/-- inversion: exactly two parts means exactly one separator -/
theorem split1_eq_two (c : Nat) : ∀ (s a b : Bytes), split1 c s = [a, b] → s = a ++ c :: b ∧ c ∉ a ∧ c ∉ b
  | [], a, b, h => by simp [split1] at h
  | d :: t, a, b, h => by
    unfold split1 at h
    by_cases hd : d = c
    · rw [if_pos hd] at h
      simp only [List.cons.injEq] at h
      obtain ⟨rfl, h2⟩ := h
      -- split1 c t = [b] : no separator in t
      have : c ∉ t ∧ t = b := by
        clear hd
        induction t generalizing b with
        | nil => simp [split1] at h2; simp [h2]
        | cons e u ih =>
          unfold split1 at h2
          by_cases he : e = c
          · rw [if_pos he] at h2
            simp only [List.cons.injEq] at h2
            exact absurd h2.2 (split1_ne_nil c u)
          · rw [if_neg he] at h2
            cases hs : split1 c u with
            | nil => exact absurd hs (split1_ne_nil c u)
            | cons p ps =>
              rw [hs] at h2
              simp only [List.cons.injEq] at h2
              obtain ⟨rfl, rfl⟩ := h2
              have := ih p hs
              refine ⟨?_, by rw [this.2]⟩
              intro m
              cases m with
              | head => exact he rfl
              | tail _ m' => exact this.1 m'
      obtain ⟨hn, rfl⟩ := this
      subst hd
      exact ⟨by simp, by simp, hn⟩
    · rw [if_neg hd] at h
      cases hs : split1 c t with
      | nil => exact absurd hs (split1_ne_nil c t)
      | cons p ps =>
        rw [hs] at h
        simp only [List.cons.injEq] at h
        obtain ⟨rfl, rfl⟩ := h
        obtain ⟨e1, e2, e3⟩ := split1_eq_two c t p b hs
        refine ⟨by rw [e1]; simp, ?_, e3⟩
        intro m
        cases m with
        | head => exact hd rfl
        | tail _ m' => exact e2 m'

/-! ### `strings.Split(s, "bytes=")` -/

/-- no `b` in the text: nothing to split at -/
theorem splitGo_bytesEq_none : ∀ (s cur : Bytes), 98 ∉ s → splitGo b!"bytes=" s 0 cur = [cur.reverse ++ s]
  | [], cur, _ => by simp [splitGo]
  | c :: t, cur, h => by
    have hc : ¬ (98 = c) := fun e => h (by simp [e])
    have ht : 98 ∉ t := fun m => h (by simp [m])
    unfold splitGo
    have : List.isPrefixOf b!"bytes=" (c :: t) = false := by
      simp [List.isPrefixOf, hc]
    rw [this]
    simp only [Bool.false_eq_true, if_false]
    rw [splitGo_bytesEq_none t (c :: cur) ht]
    simp

/-- a text with no `b` after its first byte splits only if it starts with the literal -/
theorem split_bytesEq (p : Nat) (t : Bytes) (h : 98 ∉ t) :
    split (p :: t) b!"bytes=" =
      if List.isPrefixOf b!"bytes=" (p :: t) = true then [[], t.drop 5] else [p :: t] := by
  unfold split
  unfold splitGo
  by_cases hp : List.isPrefixOf b!"bytes=" (p :: t) = true
  · rw [if_pos hp, if_pos hp]
    -- t = "ytes=" ++ rest
    match t, h, hp with
    | a1 :: a2 :: a3 :: a4 :: a5 :: rest, h, hp =>
      have hr : 98 ∉ rest := fun m => h (by simp [m])
      simp only [List.length_cons, List.length_nil, splitGo, List.drop_succ_cons, List.drop_zero]
      rw [splitGo_bytesEq_none rest [] hr]
      simp
    | [], _, hp => simp [List.isPrefixOf] at hp
    | [a1], _, hp => simp [List.isPrefixOf] at hp
    | [a1, a2], _, hp => simp [List.isPrefixOf] at hp
    | [a1, a2, a3], _, hp => simp [List.isPrefixOf] at hp
    | [a1, a2, a3, a4], _, hp => simp [List.isPrefixOf] at hp
  · rw [if_neg hp, if_neg hp]
    rw [splitGo_bytesEq_none t [p] h]
    simp

end Go.RangeParse
