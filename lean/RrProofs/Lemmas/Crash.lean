import RrModel.Crash
/-
  General lemmas about the file-system protocol model `RrModel/Crash.lean` (C14):
  `upd`, `applyEffect`, `applyAll`, `appends`, the prefixes of `A ++ B`, locality of effects
  ("an effect on path p leaves every other path alone"), effects that never publish metadata
  (`quiet`), and the state a complete create/append*/setxattr sequence leaves behind.
-/
namespace Model.Crash

/-! ### list prefixes -/

/-- a prefix of `A ++ B` is a prefix of `A`, or all of `A` followed by a prefix of `B` -/
theorem prefix_append_iff {α : Type _} (P A B : List α) :
    P <+: A ++ B ↔ P <+: A ∨ ∃ B', P = A ++ B' ∧ B' <+: B := by
  constructor
  · intro h
    rcases List.prefix_or_prefix_of_prefix h (List.prefix_append A B) with h1 | h1
    · exact Or.inl h1
    · obtain ⟨B', rfl⟩ := h1
      exact Or.inr ⟨B', rfl, (List.prefix_append_right_inj A).1 h⟩
  · rintro (h | ⟨B', rfl, h⟩)
    · exact h.trans (List.prefix_append A B)
    · exact (List.prefix_append_right_inj A).2 h

/-- the prefixes of a one-element list -/
theorem prefix_singleton_iff {α : Type _} (P : List α) (a : α) : P <+: [a] ↔ P = [] ∨ P = [a] := by
  rw [List.prefix_cons_iff]
  constructor
  · rintro (h | ⟨t, rfl, ht⟩)
    · exact Or.inl h
    · rw [List.prefix_nil] at ht; subst ht; exact Or.inr rfl
  · rintro (h | h)
    · exact Or.inl h
    · exact Or.inr ⟨[], h, List.prefix_rfl⟩

/-- the prefixes of a two-element list -/
theorem prefix_pair_iff {α : Type _} (P : List α) (a b : α) :
    P <+: [a, b] ↔ P = [] ∨ P = [a] ∨ P = [a, b] := by
  rw [List.prefix_cons_iff]
  constructor
  · rintro (h | ⟨t, rfl, ht⟩)
    · exact Or.inl h
    · rcases (prefix_singleton_iff t b).1 ht with rfl | rfl
      · exact Or.inr (Or.inl rfl)
      · exact Or.inr (Or.inr rfl)
  · rintro (h | h | h)
    · exact Or.inl h
    · exact Or.inr ⟨[], h, List.nil_prefix⟩
    · exact Or.inr ⟨[b], h, List.prefix_rfl⟩

/-! ### `upd` -/

@[simp] theorem upd_same (fs : FS) (p : Path) (f : Option File) : upd fs p f p = f := by
  simp [upd]

theorem upd_other (fs : FS) {p q : Path} (f : Option File) (h : q ≠ p) : upd fs p f q = fs q := by
  simp [upd, h]

/-! ### `applyAll` -/

@[simp] theorem applyAll_nil (fs : FS) : applyAll fs [] = fs := rfl

@[simp] theorem applyAll_cons (fs : FS) (e : Effect) (es : List Effect) :
    applyAll fs (e :: es) = applyAll (applyEffect fs e) es := rfl

theorem applyAll_append (fs : FS) (as bs : List Effect) :
    applyAll fs (as ++ bs) = applyAll (applyAll fs as) bs := by
  simp [applyAll, List.foldl_append]

@[simp] theorem applyEffect_nop (fs : FS) (s : String) : applyEffect fs (.nop s) = fs := rfl

/-- a trailing `nop` changes nothing -/
theorem applyAll_concat_nop (fs : FS) (es : List Effect) (s : String) :
    applyAll fs (es ++ [.nop s]) = applyAll fs es := by
  simp [applyAll_append]

/-! ### locality: an effect on path p leaves every other path alone -/

/-- the paths an effect can change -/
def writes : Effect → List Path
  | .create p => [p]
  | .append p _ => [p]
  | .setxattr p _ => [p]
  | .rename s d => [s, d]
  | .remove p => [p]
  | .nop _ => []

theorem applyEffect_append_some {fs : FS} {p : Path} {f : File} (b : Bytes) (h : fs p = some f) :
    applyEffect fs (.append p b) = upd fs p (some { f with data := f.data ++ b }) := by
  simp [applyEffect, h]

theorem applyEffect_append_none {fs : FS} {p : Path} (b : Bytes) (h : fs p = none) :
    applyEffect fs (.append p b) = fs := by
  simp [applyEffect, h]

theorem applyEffect_setxattr_some {fs : FS} {p : Path} {f : File} (m : Meta) (h : fs p = some f) :
    applyEffect fs (.setxattr p m) = upd fs p (some { f with xattr := some m }) := by
  simp [applyEffect, h]

theorem applyEffect_setxattr_none {fs : FS} {p : Path} (m : Meta) (h : fs p = none) :
    applyEffect fs (.setxattr p m) = fs := by
  simp [applyEffect, h]

theorem applyEffect_rename_some {fs : FS} {s : Path} {f : File} (d : Path) (h : fs s = some f) :
    applyEffect fs (.rename s d) = upd (upd fs d (some f)) s none := by
  simp [applyEffect, h]

theorem applyEffect_rename_none {fs : FS} {s : Path} (d : Path) (h : fs s = none) :
    applyEffect fs (.rename s d) = fs := by
  simp [applyEffect, h]

theorem applyEffect_other (fs : FS) (e : Effect) (q : Path) (h : q ∉ writes e) :
    applyEffect fs e q = fs q := by
  cases e with
  | create p =>
    have : q ≠ p := by simpa [writes] using h
    simp [applyEffect, upd_other _ _ this]
  | append p b =>
    have : q ≠ p := by simpa [writes] using h
    cases hfp : fs p with
    | none => rw [applyEffect_append_none b hfp]
    | some f => rw [applyEffect_append_some b hfp, upd_other _ _ this]
  | setxattr p m =>
    have : q ≠ p := by simpa [writes] using h
    cases hfp : fs p with
    | none => rw [applyEffect_setxattr_none m hfp]
    | some f => rw [applyEffect_setxattr_some m hfp, upd_other _ _ this]
  | rename s d =>
    have hs : q ≠ s := by intro hh; apply h; simp [writes, hh]
    have hd : q ≠ d := by intro hh; apply h; simp [writes, hh]
    cases hfp : fs s with
    | none => rw [applyEffect_rename_none d hfp]
    | some f => rw [applyEffect_rename_some d hfp, upd_other _ _ hs, upd_other _ _ hd]
  | remove p =>
    have : q ≠ p := by simpa [writes] using h
    simp [applyEffect, upd_other _ _ this]
  | nop s => rfl

theorem applyAll_other (fs : FS) (es : List Effect) (q : Path) (h : ∀ e ∈ es, q ∉ writes e) :
    applyAll fs es q = fs q := by
  induction es generalizing fs with
  | nil => rfl
  | cons e es ih =>
    rw [applyAll_cons, ih _ (fun e' he' => h e' (List.mem_cons_of_mem _ he')),
      applyEffect_other _ _ _ (h e List.mem_cons_self)]

/-- a crash point of a protocol that writes only inside `S` leaves every path outside `S` alone -/
theorem applyAll_prefix_other (fs : FS) (P es : List Effect) (q : Path) (hp : P <+: es)
    (h : ∀ e ∈ es, q ∉ writes e) : applyAll fs P q = fs q :=
  applyAll_other fs P q (fun e he => h e (hp.subset he))

/-! ### `appends` -/

theorem writes_of_mem_appends {p : Path} {chunks : List Bytes} {e : Effect}
    (h : e ∈ appends p chunks) : writes e = [p] := by
  simp only [appends, List.mem_map] at h
  obtain ⟨b, _, rfl⟩ := h
  rfl

/-- prefixes of `appends p chunks` only append to p (they are the appends of a prefix of the chunks) -/
theorem prefix_appends {p : Path} {chunks : List Bytes} {P : List Effect}
    (h : P <+: appends p chunks) : ∃ cs, cs <+: chunks ∧ P = appends p cs := by
  simpa [appends] using List.prefix_map_iff.1 h

/-- `applyAll` of `appends p chunks` on a file at p appends `chunks.flatten` and keeps the xattr -/
theorem applyAll_appends (fs : FS) (p : Path) (f : File) (chunks : List Bytes) (h : fs p = some f) :
    applyAll fs (appends p chunks) p = some { f with data := f.data ++ chunks.flatten } := by
  induction chunks generalizing fs f with
  | nil => simp [appends, h]
  | cons c cs ih =>
    have h1 : applyEffect fs (.append p c) p = some { f with data := f.data ++ c } := by
      simp [applyEffect, h]
    have := ih _ _ h1
    simpa [appends, List.append_assoc] using this

/-- … and nothing happens when there is no file under that name -/
theorem applyAll_appends_none (fs : FS) (p : Path) (chunks : List Bytes) (h : fs p = none) :
    applyAll fs (appends p chunks) = fs := by
  induction chunks with
  | nil => rfl
  | cons c cs ih =>
    have h1 : applyEffect fs (.append p c) = fs := by simp [applyEffect, h]
    simpa [appends, h1] using ih

theorem applyAll_appends_other (fs : FS) (p q : Path) (chunks : List Bytes) (h : q ≠ p) :
    applyAll fs (appends p chunks) q = fs q :=
  applyAll_other fs _ q (fun e he => by rw [writes_of_mem_appends he]; simpa using h)

/-! ### effects that never publish: everything except `setxattr` and `rename` -/

/-- `quiet` effects cannot make a metadata-carrying file appear under a name that had none -/
def quiet : Effect → Bool
  | .setxattr _ _ => false
  | .rename _ _ => false
  | _ => true

/-- the name is free, or the file under it carries no `user.rrrouter` attribute -/
def NoXattr (o : Option File) : Prop := ∀ f, o = some f → f.xattr = none

theorem noXattr_none : NoXattr none := by intro f h; cases h

theorem applyEffect_quiet (fs : FS) (e : Effect) (p : Path) (hq : quiet e = true)
    (h : NoXattr (fs p)) : NoXattr (applyEffect fs e p) := by
  cases e with
  | create p' =>
    by_cases hp : p = p'
    · subst hp
      intro f hf
      simp only [applyEffect, upd_same, Option.some.injEq] at hf
      subst hf
      cases hfp : fs p with
      | none => rfl
      | some g => simpa using h g hfp
    · rw [applyEffect_other _ _ _ (by simpa [writes] using hp)]; exact h
  | append p' b =>
    by_cases hp : p = p'
    · subst hp
      cases hfp : fs p with
      | none => rw [applyEffect_append_none b hfp, hfp]; exact noXattr_none
      | some g =>
        intro f hf
        rw [applyEffect_append_some b hfp, upd_same, Option.some.injEq] at hf
        subst hf
        exact h g hfp
    · rw [applyEffect_other _ _ _ (by simpa [writes] using hp)]; exact h
  | setxattr p' m => simp [quiet] at hq
  | rename s d => simp [quiet] at hq
  | remove p' =>
    by_cases hp : p = p'
    · subst hp; simp only [applyEffect, upd_same]; exact noXattr_none
    · rw [applyEffect_other _ _ _ (by simpa [writes] using hp)]; exact h
  | nop s => exact h

theorem applyAll_quiet (fs : FS) (es : List Effect) (p : Path) (hq : ∀ e ∈ es, quiet e = true)
    (h : NoXattr (fs p)) : NoXattr (applyAll fs es p) := by
  induction es generalizing fs with
  | nil => exact h
  | cons e es ih =>
    rw [applyAll_cons]
    exact ih _ (fun e' he' => hq e' (List.mem_cons_of_mem _ he'))
      (applyEffect_quiet fs e p (hq e List.mem_cons_self) h)

theorem applyAll_prefix_quiet (fs : FS) (P es : List Effect) (p : Path) (hp : P <+: es)
    (hq : ∀ e ∈ es, quiet e = true) (h : NoXattr (fs p)) : NoXattr (applyAll fs P p) :=
  applyAll_quiet fs P p (fun e he => hq e (hp.subset he)) h

theorem quiet_of_mem_appends {p : Path} {chunks : List Bytes} {e : Effect}
    (h : e ∈ appends p chunks) : quiet e = true := by
  simp only [appends, List.mem_map] at h
  obtain ⟨b, _, rfl⟩ := h
  rfl

/-! ### the complete write sequence of one file -/

/-- create, the body in any chunking, fd close, setxattr: whatever was under the name before,
    afterwards it is exactly the whole body with the new metadata -/
theorem applyAll_fill (fs : FS) (p : Path) (chunks : List Bytes) (m : Meta) (a b : String) :
    applyAll fs ([.nop a, .create p] ++ appends p chunks ++ [.nop b, .setxattr p m]) p
      = some { data := chunks.flatten, xattr := some m } := by
  rw [applyAll_append, applyAll_append]
  have h0 : applyAll fs [.nop a, .create p] p = some { data := [], xattr := (fs p).bind (·.xattr) } := by
    simp [applyEffect]
  have h1 := applyAll_appends _ p _ chunks h0
  simp only [applyAll_cons, applyAll_nil, applyEffect_nop] at h1 ⊢
  rw [applyEffect_setxattr_some m h1, upd_same]
  simp

/-! ### `get`, case by case -/

theorem get_none {fs : FS} {k : Nat} (h : fs (.final k) = none) : get fs k = (fs, .miss) := by
  simp [Model.Crash.get, h]

/-- a file without metadata is removed and reported as a miss -/
theorem get_noXattr {fs : FS} {k : Nat} {f : File} (h : fs (.final k) = some f) (hx : f.xattr = none) :
    get fs k = (upd fs (.final k) none, .miss) := by
  simp [Model.Crash.get, h, hx]

/-- stored headers with Content-Length: the size comparison is dead code, always a hit -/
theorem get_found_cl {fs : FS} {k : Nat} {f : File} {m : Meta} (h : fs (.final k) = some f)
    (hx : f.xattr = some m) (hcl : m.hasContentLength = true) : get fs k = (fs, .found f m) := by
  simp [Model.Crash.get, h, hx, hcl]

theorem get_found_size {fs : FS} {k : Nat} {f : File} {m : Meta} (h : fs (.final k) = some f)
    (hx : f.xattr = some m) (hsz : f.data.length = m.size) : get fs k = (fs, .found f m) := by
  by_cases hcl : m.hasContentLength = true
  · exact get_found_cl h hx hcl
  · simp [Model.Crash.get, h, hx, hcl, hsz]

/-- recorded size differs from the file size (and no Content-Length): removed, a miss -/
theorem get_size_mismatch {fs : FS} {k : Nat} {f : File} {m : Meta} (h : fs (.final k) = some f)
    (hx : f.xattr = some m) (hcl : m.hasContentLength = false) (hsz : f.data.length ≠ m.size) :
    get fs k = (upd fs (.final k) none, .miss) := by
  simp [Model.Crash.get, h, hx, hcl, hsz]

/-- the FS `get` leaves behind is the one it found, or that with the entry path freed -/
theorem get_fst (fs : FS) (k : Nat) : (get fs k).1 = fs ∨ (get fs k).1 = upd fs (.final k) none := by
  cases hf : fs (.final k) with
  | none => rw [get_none hf]; exact Or.inl rfl
  | some f =>
    cases hx : f.xattr with
    | none => rw [get_noXattr hf hx]; exact Or.inr rfl
    | some m =>
      by_cases hsz : f.data.length = m.size
      · rw [get_found_size hf hx hsz]; exact Or.inl rfl
      · cases hcl : m.hasContentLength with
        | true => rw [get_found_cl hf hx hcl]; exact Or.inl rfl
        | false => rw [get_size_mismatch hf hx hcl hsz]; exact Or.inr rfl

end Model.Crash
