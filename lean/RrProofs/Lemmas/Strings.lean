import RrModel.Go.Strings
namespace Go

theorem index_eq_some_zero_iff (p s : Bytes) : index p s = some 0 ↔ p.isPrefixOf s = true := by
  cases s with
  | nil =>
    cases p with
    | nil => simp [index]
    | cons a p => simp [index]
  | cons c t =>
    unfold index
    by_cases h : p.isPrefixOf (c :: t) = true
    · simp [h]
    · simp [h]

theorem index_isPrefix_none {p s : Bytes} (h : index p s = none) : p.isPrefixOf s = false := by
  cases hp : p.isPrefixOf s with
  | false => rfl
  | true =>
    have := (index_eq_some_zero_iff p s).2 hp
    simp [this] at h

end Go
