import RrModel.Go.Header
import RrModel.Go.Strings
/-
  Helper lemmas for C06: `http.Header` get-after-update, and list-splitting facts about the
  comma-separated field parser.
-/
namespace Go

namespace Header

theorem vals_delRaw (h : Header) (k k' : Bytes) :
    vals (delRaw h k) k' = if k' = k then [] else vals h k' := by
  induction h with
  | nil => simp [delRaw, vals]
  | cons e t ih =>
    obtain ⟨a, vs⟩ := e
    unfold delRaw at ih ⊢
    by_cases hak : a = k
    · subst hak
      by_cases hk : k' = a
      · subst hk; simpa [List.filter, vals] using ih
      · have hne : ¬ a = k' := fun h => hk h.symm
        simp only [List.filter, ne_eq, not_true_eq_false, decide_false, vals, if_neg hne]
        simpa [hk] using ih
    · by_cases hk : k' = k
      · subst hk
        have : ¬ a = k' := hak
        simp only [List.filter, ne_eq, hak, not_false_eq_true, decide_true, vals]
        simpa using ih
      · simp only [List.filter, ne_eq, hak, not_false_eq_true, decide_true, vals]
        by_cases hak' : a = k'
        · simp [hak', hk]
        · simp only [if_neg hak']; simpa [hk] using ih

theorem vals_setRaw (h : Header) (k v k' : Bytes) :
    vals (setRaw h k v) k' = if k' = k then [v] else vals h k' := by
  unfold setRaw
  by_cases hk : k' = k
  · subst hk; simp [vals]
  · have : ¬ k = k' := fun h => hk h.symm
    simp [vals, this, hk, vals_delRaw]

theorem values_set (h : Header) (k v k' : Bytes) :
    values (set h k v) k' = if canon k' = canon k then [v] else values h k' := by
  simp [values, set, vals_setRaw]

theorem values_del (h : Header) (k k' : Bytes) :
    values (del h k) k' = if canon k' = canon k then [] else values h k' := by
  simp [values, del, vals_delRaw]

theorem get_set (h : Header) (k v k' : Bytes) :
    get (set h k v) k' = if canon k' = canon k then v else get h k' := by
  unfold get; rw [values_set]; split <;> simp

theorem get_del (h : Header) (k k' : Bytes) :
    get (del h k) k' = if canon k' = canon k then [] else get h k' := by
  unfold get; rw [values_del]; split <;> simp

theorem delRaw_delRaw (h : Header) (k : Bytes) : delRaw (delRaw h k) k = delRaw h k := by
  simp [delRaw, List.filter_filter]

theorem del_set_same (h : Header) (k v : Bytes) : del (set h k v) k = del h k := by
  simp [del, set, setRaw, delRaw, List.filter_filter]

end Header

theorem split1_ne_nil (c : Nat) (s : Bytes) : split1 c s ≠ [] := by
  induction s with
  | nil => simp [split1]
  | cons d t ih =>
    unfold split1
    by_cases h : d = c
    · simp [h]
    · rw [if_neg h]
      cases hs : split1 c t with
      | nil => simp
      | cons p ps => simp

/-- splitting distributes over a separator: the parts of `a ++ [c] ++ b` are those of `a`
    followed by those of `b` -/
theorem split1_append (c : Nat) (a b : Bytes) :
    split1 c (a ++ c :: b) = split1 c a ++ split1 c b := by
  induction a with
  | nil => simp [split1]
  | cons d t ih =>
    by_cases h : d = c
    · subst h
      simp [split1, ih]
    · show split1 c (d :: (t ++ c :: b)) = split1 c (d :: t) ++ split1 c b
      rw [split1, if_neg h, ih]
      cases hs : split1 c t with
      | nil => exact absurd hs (split1_ne_nil c t)
      | cons p ps => simp [split1, h, hs]

/-- the first part of a split is a prefix of the string -/
theorem split1_head_prefix (c : Nat) (s p : Bytes) (ps : List Bytes) (h : split1 c s = p :: ps) :
    ∃ post, s = p ++ post := by
  induction s generalizing p ps with
  | nil => simp [split1] at h; exact ⟨[], by simp [h.1]⟩
  | cons d r ih =>
    rw [split1] at h
    by_cases hd : d = c
    · rw [if_pos hd] at h
      simp at h
      exact ⟨d :: r, by simp [← h.1]⟩
    · rw [if_neg hd] at h
      cases hs : split1 c r with
      | nil => exact absurd hs (split1_ne_nil c r)
      | cons q qs =>
        rw [hs] at h
        simp at h
        obtain ⟨post, hp⟩ := ih q qs hs
        exact ⟨post, by rw [← h.1, hp]; simp⟩

/-- every part of a split is an infix of the string -/
theorem mem_split1_infix (c : Nat) (s t : Bytes) (h : t ∈ split1 c s) :
    ∃ pre post, s = pre ++ t ++ post := by
  induction s generalizing t with
  | nil => simp [split1] at h; exact ⟨[], [], by simp [h]⟩
  | cons d r ih =>
    rw [split1] at h
    by_cases hd : d = c
    · rw [if_pos hd] at h
      rcases List.mem_cons.1 h with h | h
      · exact ⟨[], d :: r, by simp [h]⟩
      · obtain ⟨pre, post, hp⟩ := ih t h
        exact ⟨d :: pre, post, by rw [hp]; simp⟩
    · rw [if_neg hd] at h
      cases hs : split1 c r with
      | nil => exact absurd hs (split1_ne_nil c r)
      | cons q qs =>
        rw [hs] at h
        rcases List.mem_cons.1 h with h | h
        · obtain ⟨post, hp⟩ := split1_head_prefix c r q qs hs
          exact ⟨[], post, by rw [h, hp]; simp⟩
        · have : t ∈ split1 c r := by rw [hs]; exact List.mem_cons_of_mem _ h
          obtain ⟨pre, post, hp⟩ := ih t this
          exact ⟨d :: pre, post, by rw [hp]; simp⟩

theorem trimLeft_suffix (cs s : Bytes) : ∃ a, s = a ++ trimLeft cs s := by
  induction s with
  | nil => exact ⟨[], rfl⟩
  | cons d r ih =>
    unfold trimLeft
    by_cases h : cs.contains d = true
    · rw [if_pos h]
      obtain ⟨a, ha⟩ := ih
      exact ⟨d :: a, by rw [List.cons_append, ← ha]⟩
    · rw [if_neg h]; exact ⟨[], rfl⟩

theorem trimRight_prefix (cs s : Bytes) : ∃ b, s = trimRight cs s ++ b := by
  obtain ⟨a, ha⟩ := trimLeft_suffix cs s.reverse
  refine ⟨a.reverse, ?_⟩
  unfold trimRight
  have := congrArg List.reverse ha
  simpa using this

theorem trim_infix (cs s : Bytes) : ∃ a b, s = a ++ trim cs s ++ b := by
  obtain ⟨a, ha⟩ := trimLeft_suffix cs s
  obtain ⟨b, hb⟩ := trimRight_prefix cs (trimLeft cs s)
  refine ⟨a, b, ?_⟩
  unfold trim
  rw [List.append_assoc, ← hb, ← ha]

/-- every element of a joined list is an infix of the joined string -/
theorem mem_join_infix (sep : Bytes) (ps : List Bytes) (t : Bytes) (h : t ∈ ps) :
    ∃ pre post, join sep ps = pre ++ t ++ post := by
  induction ps with
  | nil => cases h
  | cons p qs ih =>
    cases qs with
    | nil =>
      have ht : t = p := by simpa using h
      exact ⟨[], [], by simp [join, ht]⟩
    | cons q rs =>
      rcases List.mem_cons.1 h with h | h
      · exact ⟨[], sep ++ join sep (q :: rs), by simp [join, h]⟩
      · obtain ⟨pre, post, hp⟩ := ih h
        exact ⟨p ++ sep ++ pre, post, by rw [join, hp]; simp⟩

/-- `strings.Index` finds every infix -/
theorem index_isSome_of_infix (sub pre post : Bytes) : (index sub (pre ++ sub ++ post)).isSome = true := by
  induction pre with
  | nil =>
    have hp : sub.isPrefixOf (sub ++ post) = true := by
      rw [List.isPrefixOf_iff_prefix]; exact List.prefix_append _ _
    rw [List.nil_append]
    generalize sub ++ post = l at hp
    cases l with
    | nil =>
      cases sub with
      | nil => simp [index]
      | cons a t => simp [List.isPrefixOf] at hp
    | cons a t => rw [index, if_pos hp]; rfl
  | cons d r ih =>
    rw [List.cons_append, List.cons_append, index]
    split
    · rfl
    · rw [Option.isSome_map]; exact ih

end Go
