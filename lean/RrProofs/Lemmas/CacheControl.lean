import RrModel.CacheControl
import RrModel.Spec.C10
/-
  Helper lemmas relating the Go string functions used by `GetCacheControlDirectives`
  (`split1` on `,`, `trim " \t"`, `toLower`) to the tokeniser of `Spec.C10`, and the
  field-by-field behaviour of `Model.applyPart`.
-/
namespace Go

theorem split1_ne_nil (c : Nat) (s : Bytes) : split1 c s ≠ [] := by
  induction s with
  | nil => simp [split1]
  | cons d t ih =>
    unfold split1
    by_cases h : d = c
    · simp [h]
    · simp only [h, if_false]
      cases hs : split1 c t with
      | nil => simp
      | cons p ps => simp

/-- the parts of a split contain no separator -/
theorem split1_not_mem (c : Nat) (s : Bytes) : ∀ p ∈ split1 c s, c ∉ p := by
  induction s with
  | nil => simp [split1]
  | cons d t ih =>
    unfold split1
    by_cases h : d = c
    · simp only [h, if_true]
      intro p hp
      cases hp with
      | head => simp
      | tail _ hp => exact ih p hp
    · simp only [h, if_false]
      cases hs : split1 c t with
      | nil => exact absurd hs (split1_ne_nil c t)
      | cons q qs =>
        rw [hs] at ih
        intro p hp
        cases hp with
        | head =>
          intro hm
          cases hm with
          | head => exact h rfl
          | tail _ hm => exact ih q (List.mem_cons_self) hm
        | tail _ hp => exact ih p (List.mem_cons_of_mem _ hp)

theorem split1_of_not_mem (c : Nat) (s : Bytes) (h : c ∉ s) : split1 c s = [s] := by
  induction s with
  | nil => simp [split1]
  | cons d t ih =>
    have hd : d ≠ c := fun e => h (e ▸ List.mem_cons_self)
    have ht : c ∉ t := fun m => h (List.mem_cons_of_mem _ m)
    unfold split1
    simp only [hd, if_false, ih ht]

/-- every byte of a part is a byte of the split string -/
theorem split1_subset (c : Nat) (s : Bytes) : ∀ p ∈ split1 c s, ∀ x ∈ p, x ∈ s := by
  induction s with
  | nil => simp [split1]
  | cons d t ih =>
    unfold split1
    by_cases h : d = c
    · simp only [h, if_true]
      intro p hp x hx
      cases hp with
      | head => simp at hx
      | tail _ hp => exact List.mem_cons_of_mem _ (ih p hp x hx)
    · simp only [h, if_false]
      cases hs : split1 c t with
      | nil => exact absurd hs (split1_ne_nil c t)
      | cons q qs =>
        rw [hs] at ih
        intro p hp x hx
        cases hp with
        | head =>
          cases hx with
          | head => exact List.mem_cons_self
          | tail _ hx => exact List.mem_cons_of_mem _ (ih q List.mem_cons_self x hx)
        | tail _ hp => exact List.mem_cons_of_mem _ (ih p (List.mem_cons_of_mem _ hp) x hx)

end Go

namespace Spec.C10
open Go

/-- the spec's tokeniser and Go's `strings.Split(·, ",")` cut at the same places -/
theorem elemsAux_eq (s cur : Bytes) :
    elemsAux s cur = match split1 44 s with
      | [] => []
      | p :: ps => (cur.reverse ++ p) :: ps := by
  induction s generalizing cur with
  | nil => simp [elemsAux, split1]
  | cons d t ih =>
    unfold elemsAux split1
    by_cases h : d = 44
    · simp only [h, if_true]
      rw [ih []]
      cases hs : split1 44 t with
      | nil => exact absurd hs (split1_ne_nil 44 t)
      | cons q qs => simp
    · simp only [h, if_false]
      rw [ih (d :: cur)]
      cases hs : split1 44 t with
      | nil => exact absurd hs (split1_ne_nil 44 t)
      | cons q qs => simp

theorem elems_eq_split1 (v : Bytes) : elems v = split1 44 v := by
  unfold elems
  rw [elemsAux_eq]
  cases hs : split1 44 v with
  | nil => exact absurd hs (split1_ne_nil 44 v)
  | cons q qs => simp

theorem trimLeft_ows (s : Bytes) : trimLeft b!" \t" s = s.dropWhile isOWS := by
  induction s with
  | nil => simp [trimLeft]
  | cons c t ih =>
    unfold trimLeft
    by_cases h : c = 32
    · simp [h, isOWS, ih]
    · by_cases h9 : c = 9
      · simp [h9, isOWS, ih]
      · have : isOWS c = false := by simp [isOWS, h, h9]
        simp [h, h9, this]

/-- `strings.Trim(s, " \t")` = stripping optional white space (SP / HTAB) at both ends -/
theorem trim_ows (s : Bytes) : trim b!" \t" s = stripOWS s := by
  simp only [trim, trimRight, trimLeft_ows, stripOWS, strip]

theorem toLower_eq_lower (s : Bytes) : toLower s = lower s := by
  unfold toLower lower
  congr 1

theorem mem_dropWhile {p : Nat → Bool} {l : Bytes} {x : Nat} (h : x ∈ l.dropWhile p) : x ∈ l :=
  (List.dropWhile_sublist p).subset h

theorem mem_strip {p : Nat → Bool} {l : Bytes} {x : Nat} (h : x ∈ strip p l) : x ∈ l := by
  unfold strip at h
  exact mem_dropWhile (List.mem_reverse.1 (mem_dropWhile (List.mem_reverse.1 h)))

end Spec.C10

namespace Model
open Go

/-! ### `applyPart`, field by field: a part overrides a field or keeps it -/

theorem applyPart_noStore (dirs : Directives) (p : Bytes) :
    (applyPart dirs p).noStore = (dirs.noStore || (applyPart {} p).noStore) := by
  unfold applyPart
  cases partEffect p <;> simp [PartEffect.apply]

theorem applyPart_noCache (dirs : Directives) (p : Bytes) :
    (applyPart dirs p).noCache = (dirs.noCache || (applyPart {} p).noCache) := by
  unfold applyPart
  cases partEffect p <;> simp [PartEffect.apply]

theorem applyPart_priv (dirs : Directives) (p : Bytes) :
    (applyPart dirs p).priv = (dirs.priv || (applyPart {} p).priv) := by
  unfold applyPart
  cases partEffect p <;> simp [PartEffect.apply]

theorem applyPart_maxAge (dirs : Directives) (p : Bytes) :
    (applyPart dirs p).maxAge =
      (match (applyPart {} p).maxAge with | some n => some n | none => dirs.maxAge) := by
  unfold applyPart
  cases partEffect p <;> simp [PartEffect.apply]

theorem applyPart_sMaxAge (dirs : Directives) (p : Bytes) :
    (applyPart dirs p).sMaxAge =
      (match (applyPart {} p).sMaxAge with | some n => some n | none => dirs.sMaxAge) := by
  unfold applyPart
  cases partEffect p <;> simp [PartEffect.apply]

theorem applyPart_vary (dirs : Directives) (p : Bytes) : (applyPart dirs p).vary = dirs.vary := by
  unfold applyPart
  cases partEffect p <;> simp [PartEffect.apply]

/-- a part makes the result "do not cache" only if the directives were so before, or the part
    alone does it -/
theorem applyPart_doNotCache (dirs : Directives) (p : Bytes)
    (h : (applyPart dirs p).doNotCache = true) :
    dirs.doNotCache = true ∨ (applyPart {} p).doNotCache = true := by
  unfold Directives.doNotCache at *
  rw [applyPart_noCache, applyPart_priv, applyPart_noStore, applyPart_sMaxAge, applyPart_maxAge] at h
  cases h1 : (applyPart {} p).sMaxAge <;> cases h2 : (applyPart {} p).maxAge <;>
    simp only [h1, h2] at h ⊢ <;>
    simp only [Bool.or_eq_true, beq_iff_eq] at h ⊢ <;>
    (try simp only [reduceCtorEq, or_false] at h ⊢) <;> grind

/-- the second split on `,` (caching.go:795) finds nothing left to split -/
theorem foldl_split_single (dirs : Directives) (dd : Bytes) (h : 44 ∉ dd) :
    (split1 44 dd).foldl applyPart dirs = applyPart dirs dd := by
  rw [split1_of_not_mem 44 dd h]; rfl

theorem lowerByte_ne_comma (c : Nat) (h : c ≠ 44) : lowerByte c ≠ 44 := by
  unfold lowerByte
  split <;> omega

/-- the normalisation `ToLower(Trim(s, " \t"))` of `allHeaderValues` introduces no comma -/
theorem norm_no_comma (s : Bytes) (h : 44 ∉ s) : 44 ∉ toLower (trim b!" \t" s) := by
  intro hm
  rw [Spec.C10.trim_ows] at hm
  unfold toLower at hm
  obtain ⟨x, hx, hx44⟩ := List.mem_map.1 hm
  have hxs : x ∈ s := Spec.C10.mem_strip hx
  have : x ≠ 44 := fun e => h (e ▸ hxs)
  exact lowerByte_ne_comma x this hx44

theorem allHeaderValues_no_comma (k : Bytes) (h : Header) : ∀ dd ∈ allHeaderValues k h, 44 ∉ dd := by
  intro dd hdd
  unfold allHeaderValues at hdd
  obtain ⟨vs, _, hvs⟩ := List.mem_flatMap.1 hdd
  obtain ⟨s, hs, rfl⟩ := List.mem_map.1 hvs
  exact norm_no_comma s (split1_not_mem 44 vs s hs)

theorem applyValues_eq_foldl (dirs : Directives) (ds : List Bytes) (h : ∀ dd ∈ ds, 44 ∉ dd) :
    applyValues dirs ds = ds.foldl applyPart dirs := by
  unfold applyValues
  induction ds generalizing dirs with
  | nil => rfl
  | cons d t ih =>
    simp only [List.foldl_cons]
    rw [foldl_split_single dirs d (h d List.mem_cons_self)]
    exact ih _ (fun dd hdd => h dd (List.mem_cons_of_mem _ hdd))

/-- the element-wise normalisation the parser applies before looking at a list element -/
def norm (e : Bytes) : Bytes := toLower (trim b!" \t" e)

/-- `allHeaderValues "cache-control"` = the spec's list elements, each normalised -/
theorem allHeaderValues_cc (h : Header) :
    allHeaderValues b!"cache-control" h = (Spec.C10.elements h).map norm := by
  unfold allHeaderValues Spec.C10.elements
  rw [List.map_flatMap]
  congr 1
  funext v
  rw [Spec.C10.elems_eq_split1]
  rfl

/-- the directive fields of `GetCacheControlDirectives` as ONE left fold of `applyPart` over
    the spec's list elements -/
def parsed (h : Header) : Directives := ((Spec.C10.elements h).map norm).foldl applyPart {}

theorem getCacheControlDirectives_doNotCache (h : Header) :
    (getCacheControlDirectives h).doNotCache = (parsed h).doNotCache := by
  unfold getCacheControlDirectives parsed
  rw [applyValues_eq_foldl _ _ (allHeaderValues_no_comma _ h), allHeaderValues_cc]
  rfl

end Model
