import RrModel.Forward
import RrModel.Spec.Headers
import RrProofs.Lemmas.Header
/-
  What `filterHeader` / `copyHeader` / `delAll` / `preprocessHeaders` do to the value lists,
  for every association list; the representation invariant `Normal` (distinct raw keys, each a
  fixed point of `canon` — what every header built through `Add`/`Set` satisfies) and the
  bridge between Go's canonical lookup (`Header.values`) and the specification's
  case-insensitive view (`Spec.valuesOf`).
-/
namespace Model
open Go Go.Header Spec

/-- distinct raw keys, each in canonical form: the shape of a map filled through `Add`/`Set` -/
def Normal (h : Header) : Prop := (rawKeys h).Nodup ∧ ∀ k ∈ rawKeys h, canon k = k

theorem normal_nil : Normal [] := ⟨List.nodup_nil, by simp⟩

theorem Normal.delRaw {h : Header} (hn : Normal h) (k : Bytes) : Normal (delRaw h k) :=
  ⟨nodup_rawKeys_delRaw k hn.1, fun a ha => hn.2 a (mem_rawKeys_delRaw.1 ha).1⟩

theorem Normal.set {h : Header} (hn : Normal h) (k v : Bytes) : Normal (h.set k v) := by
  refine ⟨nodup_rawKeys_setRaw _ _ hn.1, fun a ha => ?_⟩
  rcases mem_rawKeys_setRaw.1 ha with rfl | ha
  · exact canon_canon k
  · exact hn.2 a ha

theorem Normal.add {h : Header} (hn : Normal h) (k v : Bytes) : Normal (h.add k v) := by
  refine ⟨nodup_rawKeys_addRaw _ _ hn.1, fun a ha => ?_⟩
  rcases mem_rawKeys_addRaw.1 ha with rfl | ha
  · exact canon_canon k
  · exact hn.2 a ha

theorem Normal.del {h : Header} (hn : Normal h) (k : Bytes) : Normal (h.del k) := hn.delRaw _

/-! ### the loops of `filterHeader` -/

theorem vals_addAll (acc : Header) (k : Bytes) (vs : List Bytes) (c : Bytes) :
    vals (addAll acc k vs) c = if canon k = c then vals acc c ++ vs else vals acc c := by
  induction vs generalizing acc with
  | nil => simp [addAll]
  | cons v vs ih =>
    rw [addAll, ih]
    by_cases hk : canon k = c
    · subst hk; simp [Header.add]
    · simp [hk, Header.add]

theorem normal_addAll {acc : Header} (hn : Normal acc) (k : Bytes) (vs : List Bytes) :
    Normal (addAll acc k vs) := by
  induction vs generalizing acc with
  | nil => exact hn
  | cons v vs ih => exact ih (hn.add k v)

/-- the copy loop appends, under each canonical key, the values of all entries with that
    canonical key, in order -/
theorem vals_copyHeader (h acc : Header) (c : Bytes) :
    vals (copyHeader h acc) c = vals acc c ++ (h.filter fun e => canon e.1 = c).flatMap (·.2) := by
  induction h generalizing acc with
  | nil => simp [copyHeader]
  | cons e t ih =>
    obtain ⟨k, vs⟩ := e
    rw [copyHeader, ih, vals_addAll]
    by_cases hk : canon k = c
    · simp [hk]
    · simp [hk]

theorem normal_copyHeader {acc : Header} (hn : Normal acc) (h : Header) : Normal (copyHeader h acc) := by
  induction h generalizing acc with
  | nil => exact hn
  | cons e t ih => exact ih (normal_addAll hn e.1 e.2)

theorem vals_delAll (h : Header) (names : List Bytes) (c : Bytes) :
    vals (delAll h names) c = if c ∈ names.map canon then [] else vals h c := by
  induction names generalizing h with
  | nil => simp [delAll]
  | cons n ns ih =>
    rw [delAll, ih]
    by_cases h1 : c ∈ ns.map canon
    · simp [h1]
    · by_cases h2 : canon n = c
      · simp [h2, Header.del]
      · have : ¬ c = canon n := fun h => h2 h.symm
        simp [h1, h2, this, Header.del]

theorem normal_delAll {h : Header} (hn : Normal h) (names : List Bytes) : Normal (delAll h names) := by
  induction names generalizing h with
  | nil => exact hn
  | cons n ns ih => exact ih (hn.del n)

/-- `filterHeader`, raw view: under a canonical key that is not deleted, the values of all
    original entries with that canonical key, in order; nothing under a deleted key -/
theorem vals_filterHeader (h : Header) (names : List Bytes) (c : Bytes) :
    vals (filterHeader h names) c =
      if c ∈ names.map canon then [] else (h.filter fun e => canon e.1 = c).flatMap (·.2) := by
  unfold filterHeader
  rw [vals_delAll, vals_copyHeader]
  simp

theorem normal_filterHeader (h : Header) (names : List Bytes) : Normal (filterHeader h names) :=
  normal_delAll (normal_copyHeader normal_nil h) names

/-! ### Go's canonical lookup vs the case-insensitive view -/

theorem sameName_iff (a b : Bytes) : sameName a b = true ↔ toLower a = toLower b := by
  simp [sameName]

theorem sameName_comm (a b : Bytes) : sameName a b = sameName b a := by
  simp [sameName, Bool.beq_comm]

/-- for a token name: an entry has the same canonical key iff it has the same name up to case -/
theorem canon_eq_canon_iff_sameName {n : Bytes} (ht : tokenName n = true) (k : Bytes) :
    canon k = canon n ↔ sameName k n = true := by
  rw [sameName_iff]
  constructor
  · intro h; rw [← toLower_canon k, h, toLower_canon]
  · intro h; exact (canon_congr ht h.symm).symm

theorem filter_canon_eq_filter_sameName {n : Bytes} (ht : tokenName n = true) (h : Header) :
    (h.filter fun e => canon e.1 = canon n) = h.filter fun e => sameName e.1 n := by
  apply List.filter_congr
  intro e _
  by_cases hs : sameName e.1 n = true
  · simp [hs, (canon_eq_canon_iff_sameName ht e.1).2 hs]
  · have : ¬ canon e.1 = canon n := fun hc => hs ((canon_eq_canon_iff_sameName ht e.1).1 hc)
    simp [hs, this]

/-- on a `Normal` header, Go's `Values` is the case-insensitive view (for token names) -/
theorem valuesOf_eq_values {h : Header} (hn : Normal h) {n : Bytes} (ht : tokenName n = true) :
    valuesOf h n = h.values n := by
  unfold valuesOf Header.values
  rw [← allVals_eq_vals hn.1]
  unfold allVals
  congr 1
  apply List.filter_congr
  intro e he
  have hk : canon e.1 = e.1 := hn.2 e.1 (List.mem_map.2 ⟨e, he, rfl⟩)
  by_cases hs : sameName e.1 n = true
  · have := (canon_eq_canon_iff_sameName ht e.1).2 hs
    rw [hk] at this
    rw [hs]; simp [this]
  · have : ¬ e.1 = canon n := by
      intro heq
      apply hs
      apply (canon_eq_canon_iff_sameName ht e.1).1
      rw [hk, heq]
    rw [Bool.not_eq_true] at hs
    rw [hs]; simp [this]

theorem firstOf_eq_get {h : Header} (hn : Normal h) {n : Bytes} (ht : tokenName n = true) :
    firstOf h n = h.get n := by
  unfold firstOf Header.get
  rw [valuesOf_eq_values hn ht]

/-- `filterHeader` in the case-insensitive view: a token name that is not deleted keeps
    exactly its values (all casings merged, in order); a deleted one has none — for EVERY
    association list, whatever the casing of its raw keys -/
theorem valuesOf_filterHeader (h : Header) (names : List Bytes) {n : Bytes} (ht : tokenName n = true) :
    valuesOf (filterHeader h names) n =
      if canon n ∈ names.map canon then [] else valuesOf h n := by
  rw [valuesOf_eq_values (normal_filterHeader h names) ht]
  unfold Header.values
  rw [vals_filterHeader, filter_canon_eq_filter_sameName ht]
  rfl

/-! ### which raw keys can occur -/

/-- every raw key is in canonical form -/
def CanonKeys (h : Header) : Prop := ∀ k ∈ rawKeys h, canon k = k

/-- every raw key is an RFC 7230 token -/
def TokenKeys (h : Header) : Prop := ∀ k ∈ rawKeys h, tokenName k = true

theorem Normal.canonKeys {h : Header} (hn : Normal h) : CanonKeys h := hn.2

theorem tokenName_canon {k : Bytes} (ht : tokenName k = true) : tokenName (canon k) = true := by
  unfold tokenName at *; rw [all_token_canon]; exact ht

theorem CanonKeys.delRaw {h : Header} (hc : CanonKeys h) (k : Bytes) : CanonKeys (delRaw h k) :=
  fun a ha => hc a (mem_rawKeys_delRaw.1 ha).1

theorem CanonKeys.set {h : Header} (hc : CanonKeys h) (k v : Bytes) : CanonKeys (h.set k v) := by
  intro a ha
  rcases mem_rawKeys_setRaw.1 ha with rfl | ha
  · exact canon_canon k
  · exact hc a ha

theorem CanonKeys.del {h : Header} (hc : CanonKeys h) (k : Bytes) : CanonKeys (h.del k) := hc.delRaw _

theorem TokenKeys.delRaw {h : Header} (hc : TokenKeys h) (k : Bytes) : TokenKeys (delRaw h k) :=
  fun a ha => hc a (mem_rawKeys_delRaw.1 ha).1

theorem TokenKeys.del {h : Header} (hc : TokenKeys h) (k : Bytes) : TokenKeys (h.del k) := hc.delRaw _

theorem TokenKeys.set {h : Header} (hc : TokenKeys h) {k : Bytes} (ht : tokenName k = true) (v : Bytes) :
    TokenKeys (h.set k v) := by
  intro a ha
  rcases mem_rawKeys_setRaw.1 ha with rfl | ha
  · exact tokenName_canon ht
  · exact hc a ha

theorem TokenKeys.add {h : Header} (hc : TokenKeys h) {k : Bytes} (ht : tokenName k = true) (v : Bytes) :
    TokenKeys (h.add k v) := by
  intro a ha
  rcases mem_rawKeys_addRaw.1 ha with rfl | ha
  · exact tokenName_canon ht
  · exact hc a ha

theorem tokenKeys_addAll {acc : Header} (hc : TokenKeys acc) {k : Bytes} (ht : tokenName k = true)
    (vs : List Bytes) : TokenKeys (addAll acc k vs) := by
  induction vs generalizing acc with
  | nil => exact hc
  | cons v vs ih => exact ih (hc.add ht v)

theorem tokenKeys_copyHeader {h acc : Header} (hh : TokenKeys h) (hc : TokenKeys acc) :
    TokenKeys (copyHeader h acc) := by
  induction h generalizing acc with
  | nil => exact hc
  | cons e t ih =>
    apply ih (fun k hk => hh k (List.mem_cons_of_mem _ hk))
    exact tokenKeys_addAll hc (hh e.1 (by simp)) e.2

theorem tokenKeys_delAll {h : Header} (hc : TokenKeys h) (names : List Bytes) : TokenKeys (delAll h names) := by
  induction names generalizing h with
  | nil => exact hc
  | cons n ns ih => exact ih (hc.del n)

theorem tokenKeys_filterHeader {h : Header} (hh : TokenKeys h) (names : List Bytes) :
    TokenKeys (filterHeader h names) :=
  tokenKeys_delAll (tokenKeys_copyHeader hh (fun _ hk => by cases hk)) names

theorem canonKeys_preprocess {h : Header} (hc : CanonKeys h) (ovs : List (Bytes × Option Bytes)) :
    CanonKeys (preprocessHeaders h ovs) := by
  induction ovs generalizing h with
  | nil => exact hc
  | cons o rest ih =>
    obtain ⟨k, v⟩ := o
    cases v with
    | none => exact ih (hc.del k)
    | some v => exact ih (hc.set k v)

theorem tokenKeys_preprocess {h : Header} (hc : TokenKeys h) {ovs : List (Bytes × Option Bytes)}
    (ho : ∀ o ∈ ovs, tokenName o.1 = true) : TokenKeys (preprocessHeaders h ovs) := by
  induction ovs generalizing h with
  | nil => exact hc
  | cons o rest ih =>
    obtain ⟨k, v⟩ := o
    have hk : tokenName k = true := ho (k, v) (by simp)
    have hrest : ∀ o ∈ rest, tokenName o.1 = true := fun o h => ho o (List.mem_cons_of_mem _ h)
    cases v with
    | none => exact ih (hc.del k) hrest
    | some v => exact ih (hc.set hk v) hrest

/-! ### `preprocessHeaders`: what one name ends up with -/

/-- a name no override mentions (up to canonical form) is untouched -/
theorem values_preprocess_other (h : Header) (ovs : List (Bytes × Option Bytes)) (n : Bytes)
    (hn : ∀ o ∈ ovs, canon o.1 ≠ canon n) : (preprocessHeaders h ovs).values n = h.values n := by
  induction ovs generalizing h with
  | nil => rfl
  | cons o rest ih =>
    obtain ⟨k, v⟩ := o
    have hk : canon k ≠ canon n := hn (k, v) (by simp)
    have hrest : ∀ o ∈ rest, canon o.1 ≠ canon n := fun o h => hn o (List.mem_cons_of_mem _ h)
    cases v with
    | none => rw [preprocessHeaders, ih _ hrest]; simp [hk]
    | some v => rw [preprocessHeaders, ih _ hrest]; simp [hk]

end Model
