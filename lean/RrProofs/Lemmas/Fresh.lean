import RrModel.Freshness
/-
  Structure lemmas for `Model.Freshness` (not specific to one property): the age pair, the
  value of `shouldRevalidate` as a disjunction of its three tests, `Time.expiresUnix` by parse
  outcome, and the value of `Freshness.decide` on either side of `shouldRevalidate`.
-/
namespace Go.Time

theorem expiresUnix_of_rfc1123 {e : Bytes} {t : Int} (h : parseRFC1123 e = some t) :
    expiresUnix e = t := by
  unfold expiresUnix; rw [h]

theorem expiresUnix_of_rfc1123z {e : Bytes} {t : Int} (h1 : parseRFC1123 e = none)
    (h2 : parseRFC1123Z e = some t) : expiresUnix e = t := by
  unfold expiresUnix; rw [h1, h2]

theorem expiresUnix_of_invalid {e : Bytes} (h1 : parseRFC1123 e = none)
    (h2 : parseRFC1123Z e = none) : expiresUnix e = zeroTimeUnix := by
  unfold expiresUnix; rw [h1, h2]

end Go.Time

namespace Model.Freshness
open Go Model

theorem ageOf_fst (m : Entry) (now : Int) :
    (ageOf m now).1 = now - (if m.revalidated ≠ 0 then m.revalidated else m.created) := by
  unfold ageOf
  by_cases h : m.revalidated ≠ 0
  · rw [if_pos h, if_pos h]
  · rw [if_neg h, if_neg h]

theorem ageOf_snd (m : Entry) (now : Int) :
    (ageOf m now).2 = Decidable.decide (m.revalidated ≠ 0) := by
  unfold ageOf
  by_cases h : m.revalidated ≠ 0
  · rw [if_pos h, decide_eq_true h]
  · rw [if_neg h, decide_eq_false h]

/-- the three tests of caching.go:208-236 are a plain disjunction: each later test runs only
    when the earlier ones said "no", and can only turn the flag on -/
theorem shouldRevalidate_eq (m : Entry) (now : Int) (force : Nat) :
    shouldRevalidate m now force =
      (staleByForce force (ageOf m now).1
        || staleByDirectives (getCacheControlDirectives m.header) (ageOf m now).1
        || staleByExpires (m.header.get b!"expires") (ageOf m now).2 now) := by
  unfold shouldRevalidate
  generalize ageOf m now = p
  obtain ⟨age, fr⟩ := p
  simp only
  cases staleByForce force age <;>
    cases staleByDirectives (getCacheControlDirectives m.header) age <;> simp

theorem staleByForce_eq_true_iff (force : Nat) (age : Int) :
    staleByForce force age = true ↔ force ≠ 0 ∧ (force : Int) ≤ age := by
  unfold staleByForce
  by_cases h : force ≠ 0
  · rw [if_pos h]; simp [h]
  · rw [if_neg h]; simp [h]

/-- no revalidation due: the client validators decide between 304 and the fresh copy -/
theorem decide_of_not_stale {m : Entry} {now : Int} {force : Nat} (skip : Bool)
    (inm ims : Bytes) (suffix : Option Bytes) (h : shouldRevalidate m now force = false) :
    Freshness.decide m now force skip inm ims suffix =
      match clientCheck suffix inm ims m.header with
      | .panic s => .panic s
      | .ok true => .ok .notModified304
      | .ok false => .ok (.fresh (ageOf m now).1) := by
  unfold Freshness.decide
  simp only [h]
  rfl

/-- revalidation due: the stale copy when the caller asked for it, else "revalidate" -/
theorem decide_of_stale {m : Entry} {now : Int} {force : Nat} (skip : Bool)
    (inm ims : Bytes) (suffix : Option Bytes) (h : shouldRevalidate m now force = true) :
    Freshness.decide m now force skip inm ims suffix =
      if skip = true then .ok (.staleServe (ageOf m now).1)
      else .ok (.revalidate
        ((getCacheControlDirectives m.header).canStaleWhileRevalidate (ageOf m now).1)
        (ageOf m now).1) := by
  unfold Freshness.decide
  simp only [h]
  cases skip <;> simp

/-- `get` when no revalidation is due: the lock plays no part -/
theorem get_of_not_stale {m : Entry} {now : Int} {force : Nat} (lock skip : Bool)
    (inm ims : Bytes) (suffix : Option Bytes) (h : shouldRevalidate m now force = false) :
    get lock m now force skip inm ims suffix =
      match clientCheck suffix inm ims m.header with
      | .panic s => .panic s
      | .ok true => .ok (.found304 (ageOf m now).1)
      | .ok false => .ok (.foundFresh (ageOf m now).1) := by
  unfold get
  rw [decide_of_not_stale skip inm ims suffix h]
  cases clientCheck suffix inm ims m.header with
  | panic s => rfl
  | ok b => cases b <;> rfl

/-- `get` when revalidation is due -/
theorem get_of_stale {m : Entry} {now : Int} {force : Nat} (lock skip : Bool)
    (inm ims : Bytes) (suffix : Option Bytes) (h : shouldRevalidate m now force = true) :
    get lock m now force skip inm ims suffix =
      if skip = true then .ok (.foundStale (ageOf m now).1)
      else if lock = true then
        if (getCacheControlDirectives m.header).canStaleWhileRevalidate (ageOf m now).1 = true then
          match Freshness.decide m now 0 true inm ims suffix with
          | .panic s => .panic s
          | .ok (.fresh _) => .ok (.foundFresh (ageOf m now).1)
          | .ok .notModified304 => .ok (.foundNoReader (ageOf m now).1)
          | .ok (.staleServe _) => .ok (.foundStale (ageOf m now).1)
          | .ok (.revalidate _ _) => .ok (.revalidatingReader (ageOf m now).1)
        else .ok (.revalidatingReader (ageOf m now).1)
      else .ok (.revalidatingWriter (ageOf m now).1) := by
  unfold get
  rw [decide_of_stale skip inm ims suffix h]
  by_cases hc : skip = true
  · rw [if_pos hc, if_pos hc]
  · rw [if_neg hc, if_neg hc]
    cases lock <;>
      cases (getCacheControlDirectives m.header).canStaleWhileRevalidate (ageOf m now).1 <;> rfl

/-- the re-entry of caching.go:299 (`forceRevalidate = 0`, `skipRevalidate = true`) never asks
    for a revalidation: line 150 of the model's `get` is unreachable -/
theorem decide_reentry_ne_revalidate (m : Entry) (now : Int) (inm ims : Bytes)
    (suffix : Option Bytes) (c : Bool) (a : Int) :
    Freshness.decide m now 0 true inm ims suffix ≠ .ok (.revalidate c a) := by
  cases h : shouldRevalidate m now 0 with
  | false =>
    rw [decide_of_not_stale true inm ims suffix h]
    cases clientCheck suffix inm ims m.header with
    | panic s => intro hh; cases hh
    | ok b => cases b <;> (intro hh; cases hh)
  | true =>
    rw [decide_of_stale true inm ims suffix h]
    intro hh; simp at hh

end Model.Freshness
