import RrModel.Spec.C07
import RrProofs.Lemmas.Split
import RrProofs.Lemmas.Itoa
/-
  Lemmas for C07: header maps as association lists (lookup after `set`/`del`, key enumeration,
  sorting keeps membership), `join` membership, and the header half of the codec round trip:
  `sToHeader (headerToS h)` for every representable header map `h`.
-/
namespace Go

/-! ### association-list header maps -/

theorem vals_delRaw (h : Header) (k' k : Bytes) :
    Header.vals (Header.delRaw h k') k = if k = k' then [] else Header.vals h k := by
  induction h with
  | nil => simp [Header.delRaw, Header.vals]
  | cons e t ih =>
    obtain ⟨k0, vs⟩ := e
    unfold Header.delRaw at ih ⊢
    by_cases h0 : k0 = k'
    · subst h0
      simp only [List.filter, ne_eq, not_true_eq_false, decide_false]
      rw [ih]
      by_cases hk : k = k0
      · simp [hk]
      · have : k0 ≠ k := fun e => hk e.symm
        simp [hk, Header.vals, this]
    · simp only [List.filter, ne_eq, h0, not_false_eq_true, decide_true, Header.vals]
      rw [ih]
      by_cases hk : k0 = k
      · have : k ≠ k' := fun e => h0 (hk.trans e)
        simp [hk, this]
      · simp [hk]

theorem vals_setRaw (h : Header) (k' v k : Bytes) :
    Header.vals (Header.setRaw h k' v) k = if k = k' then [v] else Header.vals h k := by
  unfold Header.setRaw
  simp only [Header.vals]
  by_cases hk : k' = k
  · simp [hk]
  · have : k ≠ k' := fun e => hk e.symm
    simp [hk, this, vals_delRaw]

theorem vals_set (h : Header) (k' v k : Bytes) :
    Header.vals (Header.set h k' v) k = if k = canon k' then [v] else Header.vals h k := by
  unfold Header.set; exact vals_setRaw _ _ _ _

theorem vals_del (h : Header) (k' k : Bytes) :
    Header.vals (Header.del h k') k = if k = canon k' then [] else Header.vals h k := by
  unfold Header.del; exact vals_delRaw _ _ _

theorem vals_of_not_mem {h : Header} {k : Bytes} (hk : k ∉ h.map (·.1)) : Header.vals h k = [] := by
  induction h with
  | nil => rfl
  | cons e t ih =>
    obtain ⟨k0, vs⟩ := e
    simp only [List.map_cons, List.mem_cons, not_or] at hk
    have : k0 ≠ k := fun e => hk.1 e.symm
    simp only [Header.vals, this, if_false]
    exact ih hk.2

end Go

namespace Model.Codec
open Go

theorem mem_mapKeys {h : Header} {k : Bytes} : k ∈ mapKeys h ↔ k ∈ h.map (·.1) := by
  induction h with
  | nil => simp [mapKeys]
  | cons e t ih =>
    obtain ⟨k0, vs⟩ := e
    simp only [mapKeys, List.mem_cons, List.mem_filter, ih, List.map_cons, bne_iff_ne, ne_eq]
    by_cases hk : k = k0
    · simp [hk]
    · simp [hk]

end Model.Codec

namespace Go

theorem mem_insertSorted {x y : Bytes} {l : List Bytes} : y ∈ insertSorted x l ↔ y = x ∨ y ∈ l := by
  induction l with
  | nil => simp [insertSorted]
  | cons z t ih =>
    unfold insertSorted
    split
    · simp only [List.mem_cons, ih]
      constructor
      · rintro (h | h | h)
        · exact Or.inr (Or.inl h)
        · exact Or.inl h
        · exact Or.inr (Or.inr h)
      · rintro (h | h | h)
        · exact Or.inr (Or.inl h)
        · exact Or.inl h
        · exact Or.inr (Or.inr h)
    · simp

theorem mem_sortBytes {y : Bytes} {l : List Bytes} : y ∈ sortBytes l ↔ y ∈ l := by
  induction l with
  | nil => simp [sortBytes]
  | cons x t ih =>
    have : sortBytes (x :: t) = insertSorted x (sortBytes t) := rfl
    rw [this, mem_insertSorted, ih]
    simp

theorem insertSorted_ne_nil (x : Bytes) (l : List Bytes) : insertSorted x l ≠ [] := by
  cases l with
  | nil => simp [insertSorted]
  | cons y t => unfold insertSorted; split <;> simp

theorem sortBytes_eq_nil {l : List Bytes} (h : sortBytes l = []) : l = [] := by
  cases l with
  | nil => rfl
  | cons x t =>
    have : sortBytes (x :: t) = insertSorted x (sortBytes t) := rfl
    rw [this] at h
    exact absurd h (insertSorted_ne_nil _ _)

/-! ### `join` -/

theorem mem_join {c : Nat} {sep : Bytes} : ∀ {ps : List Bytes}, c ∈ join sep ps → c ∈ sep ∨ ∃ p ∈ ps, c ∈ p
  | [], h => by simp [join] at h
  | [p], h => by simp only [join] at h; exact Or.inr ⟨p, by simp, h⟩
  | p :: q :: ps, h => by
    simp only [join, List.mem_append] at h
    rcases h with (h | h) | h
    · exact Or.inr ⟨p, by simp, h⟩
    · exact Or.inl h
    · rcases mem_join h with h | ⟨x, hx, hc⟩
      · exact Or.inl h
      · exact Or.inr ⟨x, by simp [hx], hc⟩

theorem mem_join_of_mem {c : Nat} {sep : Bytes} : ∀ {ps : List Bytes} {p : Bytes}, p ∈ ps → c ∈ p → c ∈ join sep ps
  | [], _, h, _ => by simp at h
  | [q], p, h, hc => by
    simp only [List.mem_singleton] at h
    simp only [join]; rw [← h]; exact hc
  | q :: r :: ps, p, h, hc => by
    simp only [join, List.mem_append]
    simp only [List.mem_cons] at h
    rcases h with h | h
    · exact Or.inl (Or.inl (h ▸ hc))
    · exact Or.inr (mem_join_of_mem (ps := r :: ps) (by simpa using h) hc)

end Go

namespace Model.Codec
open Go Spec.C07

/-! ### the header half of the round trip -/

/-- neither the first nor the last byte is in the cutset -/
def EndsFree (cs v : Bytes) : Prop :=
  (∀ c, v.head? = some c → cs.contains c = false) ∧ (∀ c, v.getLast? = some c → cs.contains c = false)

/-- a part without its closing bracket: `k:[v` -/
def pre (val : Bytes → Bytes) (k : Bytes) : Bytes := k ++ 58 :: 91 :: val k

/-- the parts `strings.Split(ts, "],")` finds: every part lost its `]` to the separator, except the last -/
def closeLast : List Bytes → List Bytes
  | [] => []
  | [q] => [q ++ [93]]
  | q :: q' :: qs => q :: closeLast (q' :: qs)

theorem closeLast_length : ∀ qs : List Bytes, (closeLast qs).length = qs.length
  | [] => rfl
  | [_] => rfl
  | _ :: q' :: qs => by simp [closeLast, closeLast_length (q' :: qs)]

theorem closeLast_ne_nil : ∀ {qs : List Bytes}, qs ≠ [] → closeLast qs ≠ []
  | [], h => absurd rfl h
  | [_], _ => by simp [closeLast]
  | _ :: _ :: _, _ => by simp [closeLast]

theorem mem_closeLast : ∀ {qs : List Bytes} {p : Bytes}, p ∈ closeLast qs → ∃ q ∈ qs, p = q ∨ p = q ++ [93]
  | [], _, h => by simp [closeLast] at h
  | [q], p, h => by
    simp only [closeLast, List.mem_singleton] at h
    exact ⟨q, by simp, Or.inr h⟩
  | q :: q' :: qs, p, h => by
    simp only [closeLast, List.mem_cons] at h
    rcases h with h | h
    · exact ⟨q, by simp, Or.inl h⟩
    · obtain ⟨x, hx, hp⟩ := mem_closeLast (qs := q' :: qs) (by simpa using h)
      exact ⟨x, by simp only [List.mem_cons] at hx ⊢; exact Or.inr hx, hp⟩

/-- `k1:[v1],k2:[v2],…` read as a `],`-joined list -/
theorem join_close : ∀ qs : List Bytes, join [44] (qs.map (· ++ [93])) = join [93, 44] (closeLast qs)
  | [] => rfl
  | [_] => rfl
  | q :: q' :: qs => by
    have ih := join_close (q' :: qs)
    simp only [List.map_cons] at ih
    simp only [List.map_cons, closeLast, join, ih]
    cases hc : closeLast (q' :: qs) with
    | nil => exact absurd hc (closeLast_ne_nil (by simp))
    | cons a b => simp [join]

theorem item_eq (h : Header) (k : Bytes) : item h k = pre h.get k ++ [93] := by
  simp [item, pre]

theorem item_getLast (h : Header) (k : Bytes) : (item h k).getLast? = some 93 := by
  rw [item_eq]; simp

theorem setPart_pre {val : Bytes → Bytes} {k : Bytes} (acc : Header) (hk : 58 ∉ k)
    (hv : EndsFree b!"[]" (val k)) : setPart acc (pre val k) = .val (acc.set k (val k)) := by
  unfold setPart pre
  rw [show b!":" = [58] from rfl, splitN2_singleton _ hk]
  have : 91 :: val k = [91] ++ val k ++ [] := by simp
  simp only
  rw [this, trim_wrapped (by decide) (by simp) hv.1 hv.2]

theorem setPart_item {val : Bytes → Bytes} {k : Bytes} (acc : Header) (hk : 58 ∉ k)
    (hv : EndsFree b!"[]" (val k)) : setPart acc (pre val k ++ [93]) = .val (acc.set k (val k)) := by
  unfold setPart pre
  rw [show b!":" = [58] from rfl, List.append_assoc, List.cons_append, List.cons_append,
    splitN2_singleton _ hk]
  have : 91 :: (val k ++ [93]) = [91] ++ val k ++ [93] := by simp
  simp only
  rw [this, trim_wrapped (by decide) (by decide) hv.1 hv.2]

theorem chopLast_snoc (p : Bytes) (c : Nat) : chopLast (p ++ [c]) = .ok p := by
  unfold chopLast
  simp

/-- the decoding loop over the parts of an encoded map sets every key to its emitted value -/
theorem loop_closeLast (val : Bytes → Bytes) (n : Nat) :
    ∀ (ks : List Bytes) (acc : Header) (i : Nat),
      (∀ k ∈ ks, 58 ∉ k ∧ EndsFree b!"[]" (val k)) → i + ks.length = n →
      sToHeaderLoop n acc i (closeLast (ks.map (pre val)))
        = .ok (.val (ks.foldl (fun a k => a.set k (val k)) acc))
  | [], acc, i, _, _ => by simp [closeLast, sToHeaderLoop]
  | [k], acc, i, hk, hn => by
    obtain ⟨h1, h2⟩ := hk k (by simp)
    simp only [List.map_cons, List.map_nil, closeLast, sToHeaderLoop, List.foldl_cons, List.foldl_nil]
    by_cases hi : i = 0
    · simp [hi, setPart_item acc h1 h2]
    · have : i = n - 1 := by simp at hn; omega
      simp [hi, this.symm, chopLast_snoc, setPart_pre acc h1 h2]
  | k :: k' :: ks, acc, i, hk, hn => by
    obtain ⟨h1, h2⟩ := hk k (by simp)
    have ih := loop_closeLast val n (k' :: ks) (acc.set k (val k)) (i + 1)
      (fun x hx => hk x (by simp only [List.mem_cons] at hx ⊢; exact Or.inr hx))
      (by simp only [List.length_cons] at hn ⊢; omega)
    simp only [List.map_cons] at ih
    simp only [List.map_cons, closeLast, sToHeaderLoop, List.foldl_cons]
    have hne : i ≠ n - 1 := by simp only [List.length_cons] at hn; omega
    by_cases hi : i = 0
    · simp only [hi, if_true, setPart_pre acc h1 h2]
      rw [hi] at ih; exact ih
    · simp only [hi, hne, if_false, setPart_pre acc h1 h2]
      exact ih

end Model.Codec

namespace Go

theorem join_cons_exists (sep p : Bytes) (ps : List Bytes) : ∃ r, join sep (p :: ps) = p ++ r := by
  cases ps with
  | nil => exact ⟨[], by simp [join]⟩
  | cons q qs => exact ⟨sep ++ join sep (q :: qs), by simp [join]⟩

theorem getLast?_join {sep : Bytes} {z : Nat} : ∀ {ps : List Bytes}, ps ≠ [] →
    (∀ p ∈ ps, p.getLast? = some z) → (join sep ps).getLast? = some z
  | [], h, _ => absurd rfl h
  | [p], _, hp => by simpa [join] using hp p (by simp)
  | p :: q :: ps, _, hp => by
    have ih := getLast?_join (sep := sep) (ps := q :: ps) (by simp)
      (fun x hx => hp x (by simp only [List.mem_cons] at hx ⊢; exact Or.inr hx))
    simp only [join, List.getLast?_append, ih, Option.some_or]

end Go

namespace Model.Codec
open Go Spec.C07

theorem contains_false_iff {l : Bytes} {c : Nat} : (!l.contains c) = true ↔ c ∉ l := by simp

structure GoodKey (k : Bytes) : Prop where
  canon : canon k = k
  colon : 58 ∉ k
  pipe : 124 ∉ k
  pair : noPair 93 44 k = true
  head : ∀ c, k.head? = some c → b!"{}".contains c = false

structure GoodVal (v : Bytes) : Prop where
  pipe : 124 ∉ v
  pair : noPair 93 44 v = true
  ends : EndsFree b!"[]" v

theorem goodKey_iff {k : Bytes} (h : goodKey k = true) : GoodKey k := by
  simp only [goodKey, Bool.and_eq_true, beq_iff_eq, Bool.not_eq_true', List.contains_eq_mem,
    decide_eq_false_iff_not, beq_eq_false_iff_ne, ne_eq] at h
  obtain ⟨⟨⟨⟨⟨h1, h2⟩, h3⟩, h4⟩, h5⟩, h6⟩ := h
  refine ⟨h1, h2, h3, h4, ?_⟩
  intro c hc
  rw [hc] at h5 h6
  have a : c ≠ 123 := fun e => h5 (by rw [e])
  have b : c ≠ 125 := fun e => h6 (by rw [e])
  simp [a, b]

theorem goodVal_iff {v : Bytes} (h : goodVal v = true) : GoodVal v := by
  simp only [goodVal, Bool.and_eq_true, Bool.not_eq_true', List.contains_eq_mem,
    decide_eq_false_iff_not, beq_eq_false_iff_ne, ne_eq] at h
  obtain ⟨⟨⟨⟨⟨h1, h2⟩, h3⟩, h4⟩, h5⟩, h6⟩ := h
  refine ⟨h1, h2, ?_, ?_⟩
  · intro c hc
    rw [hc] at h3 h4
    have a : c ≠ 91 := fun e => h3 (by rw [e])
    have b : c ≠ 93 := fun e => h4 (by rw [e])
    simp [a, b]
  · intro c hc
    rw [hc] at h5 h6
    have a : c ≠ 91 := fun e => h5 (by rw [e])
    have b : c ≠ 93 := fun e => h6 (by rw [e])
    simp [a, b]

/-- in a representable map every key is good and holds exactly one good value -/
theorem good_of_mem {h : Header} (hg : goodHeader h = true) {k : Bytes} (hk : k ∈ h.map (·.1)) :
    GoodKey k ∧ ∃ v, Header.vals h k = [v] ∧ GoodVal v := by
  induction h with
  | nil => simp at hk
  | cons e t ih =>
    obtain ⟨k0, vs⟩ := e
    simp only [goodHeader, List.all_cons, Bool.and_eq_true] at hg
    obtain ⟨⟨hk0, hvs⟩, ht⟩ := hg
    by_cases h0 : k0 = k
    · subst h0
      refine ⟨goodKey_iff hk0, ?_⟩
      match vs, hvs with
      | [v], hv => exact ⟨v, by simp [Header.vals], goodVal_iff hv⟩
    · have hk' : k ∈ t.map (·.1) := by
        simp only [List.map_cons, List.mem_cons] at hk
        rcases hk with hk | hk
        · exact absurd hk.symm h0
        · exact hk
      obtain ⟨g1, v, hv, g2⟩ := ih (by simpa [goodHeader] using ht) hk'
      exact ⟨g1, v, by simp [Header.vals, h0, hv], g2⟩

theorem get_of_good {h : Header} (hg : goodHeader h = true) {k : Bytes} (hk : k ∈ h.map (·.1)) :
    Header.vals h k = [h.get k] ∧ GoodVal (h.get k) := by
  obtain ⟨g1, v, hv, g2⟩ := good_of_mem hg hk
  have : h.get k = v := by simp [Header.get, Header.values, g1.canon, hv]
  rw [this]; exact ⟨hv, g2⟩

theorem noPair_pre {val : Bytes → Bytes} {k : Bytes} (hk : noPair 93 44 k = true)
    (hv : noPair 93 44 (val k) = true) : noPair 93 44 (pre val k) = true := by
  unfold pre
  apply noPair_append hk
  · rw [noPair_cons_of_ne (by decide), noPair_cons_of_ne (by decide)]; exact hv
  · simp

theorem noPair_pre_close {val : Bytes → Bytes} {k : Bytes} (hk : noPair 93 44 k = true)
    (hv : noPair 93 44 (val k) = true) : noPair 93 44 (pre val k ++ [93]) = true := by
  apply noPair_append (noPair_pre hk hv)
  · simp [noPair]
  · simp

/-- **header half of the round trip**: decoding the string `headerToS` writes for a representable
    map sets every key of the map to its value, in sorted key order -/
theorem sToHeader_headerToS {h : Header} (hg : goodHeader h = true) :
    sToHeader [] (headerToS h)
      = .ok (.val ((sortBytes (mapKeys h)).foldl (fun a k => a.set k (h.get k)) [])) := by
  unfold headerToS
  by_cases he : (mapKeys h).isEmpty = true
  · have : mapKeys h = [] := by simpa using he
    rw [this]
    rfl
  · simp only [he, Bool.false_eq_true, if_false]
    have hks : ∀ k ∈ sortBytes (mapKeys h), GoodKey k ∧ GoodVal (h.get k) := by
      intro k hk
      have hm : k ∈ h.map (·.1) := mem_mapKeys.1 (mem_sortBytes.1 hk)
      exact ⟨(good_of_mem hg hm).1, (get_of_good hg hm).2⟩
    generalize hksdef : sortBytes (mapKeys h) = ks at hks
    have hne : ks ≠ [] := by
      intro e; rw [e] at hksdef
      exact he (by simp [sortBytes_eq_nil hksdef])
    -- the body between the braces, read as a `],`-joined list
    have hbody : join b!"," (ks.map (item h)) = join [93, 44] (closeLast (ks.map (pre h.get))) := by
      rw [← join_close, List.map_map]
      congr 1
      apply List.map_congr_left
      intro k _; simp [item_eq]
    have hpne : ks.map (pre h.get) ≠ [] := by simpa using hne
    have hparts : split (join [93, 44] (closeLast (ks.map (pre h.get)))) [93, 44]
        = closeLast (ks.map (pre h.get)) := by
      apply split_join2 (by decide) (closeLast_ne_nil hpne)
      intro p hp
      obtain ⟨q, hq, hpq⟩ := mem_closeLast hp
      obtain ⟨k, hk, rfl⟩ := List.mem_map.1 hq
      obtain ⟨gk, gv⟩ := hks k hk
      rcases hpq with rfl | rfl
      · exact noPair_pre gk.pair gv.pair
      · exact noPair_pre_close gk.pair gv.pair
    -- the braces are trimmed and nothing else
    have hends : EndsFree b!"{}" (join b!"," (ks.map (item h))) := by
      constructor
      · intro c hc
        cases hk : ks with
        | nil => exact absurd hk hne
        | cons k0 ks' =>
          obtain ⟨gk, _⟩ := hks k0 (by simp [hk])
          rw [hk, List.map_cons] at hc
          obtain ⟨r, hr⟩ := join_cons_exists b!"," (item h k0) (ks'.map (item h))
          rw [hr] at hc
          cases hk0 : k0 with
          | nil =>
            rw [hk0] at hc
            simp [item] at hc
            rw [← hc]; decide
          | cons d t =>
            rw [hk0] at hc
            simp [item] at hc
            exact gk.head c (by simp [hk0, hc])
      · intro c hc
        have : (join b!"," (ks.map (item h))).getLast? = some 93 := by
          apply getLast?_join (by simpa using hne)
          intro p hp
          obtain ⟨k, _, rfl⟩ := List.mem_map.1 hp
          exact item_getLast h k
        rw [this] at hc
        cases hc; decide
    have hlen : (join b!"," (ks.map (item h))).length ≠ 0 := by
      intro e
      have : (join b!"," (ks.map (item h))).getLast? = some 93 := by
        apply getLast?_join (by simpa using hne)
        intro p hp
        obtain ⟨k, _, rfl⟩ := List.mem_map.1 hp
        exact item_getLast h k
      rw [List.length_eq_zero_iff.1 e] at this
      simp at this
    unfold sToHeader
    have hpre : hasPrefix (b!"{" ++ join b!"," (ks.map (item h)) ++ b!"}") b!"{" = true := by
      simp [hasPrefix, List.isPrefixOf]
    rw [hpre]
    simp only [Bool.not_true, Bool.false_eq_true, if_false]
    rw [trim_wrapped (by decide) (by decide) hends.1 hends.2]
    simp only [hlen, if_false]
    rw [hbody, show b!"]," = [93, 44] from rfl, hparts]
    apply loop_closeLast
    · intro k hk
      obtain ⟨gk, gv⟩ := hks k hk
      exact ⟨gk.colon, gv.ends⟩
    · simp [closeLast_length]

end Model.Codec

namespace Model.Codec
open Go Spec.C07

theorem vals_foldl_set (val : Bytes → Bytes) : ∀ (ks : List Bytes) (acc : Header) (k : Bytes),
    (∀ x ∈ ks, canon x = x) →
    Header.vals (ks.foldl (fun a x => a.set x (val x)) acc) k
      = if k ∈ ks then [val k] else Header.vals acc k
  | [], acc, k, _ => by simp
  | x :: xs, acc, k, hc => by
    have hx : canon x = x := hc x (by simp)
    rw [List.foldl_cons, vals_foldl_set val xs _ k (fun y hy => hc y (by simp [hy])), vals_set, hx]
    by_cases h1 : k ∈ xs
    · simp [h1]
    · by_cases h2 : k = x
      · simp [h2]
      · simp [h1, h2]

/-- the map `sToHeader` rebuilds from `headerToS h` has, under every key, the value list of `h` -/
theorem vals_decoded {h : Header} (hg : goodHeader h = true) (k : Bytes) :
    Header.vals ((sortBytes (mapKeys h)).foldl (fun a x => a.set x (h.get x)) []) k = Header.vals h k := by
  rw [vals_foldl_set]
  · by_cases hk : k ∈ h.map (·.1)
    · have : k ∈ sortBytes (mapKeys h) := mem_sortBytes.2 (mem_mapKeys.2 hk)
      simp only [this, if_true]
      exact (get_of_good hg hk).1.symm
    · have : k ∉ sortBytes (mapKeys h) := fun e => hk (mem_mapKeys.1 (mem_sortBytes.1 e))
      simp only [this, if_false]
      rw [vals_of_not_mem hk]; rfl
  · intro x hx
    exact (good_of_mem hg (mem_mapKeys.1 (mem_sortBytes.1 hx))).1.canon

theorem sameHeader_iff {a b : Header} : sameHeader a b = true ↔ ∀ k, Header.vals a k = Header.vals b k := by
  unfold sameHeader
  simp only [List.all_eq_true, List.mem_append, beq_iff_eq]
  constructor
  · intro h k
    by_cases ha : k ∈ a.map (·.1)
    · exact h k (Or.inl ha)
    · by_cases hb : k ∈ b.map (·.1)
      · exact h k (Or.inr hb)
      · rw [vals_of_not_mem ha, vals_of_not_mem hb]
  · intro h k _; exact h k

/-- no `|` in what `headerToS` writes for a representable map -/
theorem pipe_not_mem_headerToS {h : Header} (hg : goodHeader h = true) : 124 ∉ headerToS h := by
  unfold headerToS
  split
  · decide
  · intro hc
    simp only [List.mem_append, List.mem_cons, List.not_mem_nil, or_false] at hc
    rcases hc with (hc | hc) | hc
    · omega
    · rcases mem_join hc with hc | ⟨p, hp, hc⟩
      · simp at hc
      · obtain ⟨k, hk, rfl⟩ := List.mem_map.1 hp
        have hm : k ∈ h.map (·.1) := mem_mapKeys.1 (mem_sortBytes.1 hk)
        have gk := (good_of_mem hg hm).1
        have gv := (get_of_good hg hm).2
        simp only [item, List.mem_append, List.mem_cons, List.not_mem_nil, or_false] at hc
        rcases hc with ((hc | hc) | hc) | hc
        · exact gk.pipe hc
        · omega
        · exact gv.pipe hc
        · omega
    · omega

end Model.Codec

namespace Model.Codec
open Go Spec.C07

/-! ### the decoder never panics on what the encoder wrote -/

/-- the loop only slices the last part (when it is not also the first): it cannot panic when that
    part is not empty -/
theorem loop_no_panic (n : Nat) : ∀ (parts : List Bytes) (acc : Header) (i : Nat),
    i + parts.length = n → (∀ p, parts.getLast? = some p → p ≠ []) →
    ∃ r, sToHeaderLoop n acc i parts = .ok r
  | [], acc, i, _, _ => ⟨_, rfl⟩
  | p :: rest, acc, i, hn, hl => by
    rw [sToHeaderLoop]
    have hp : ∃ p', (if i = 0 then Res.ok p else if i = n - 1 then chopLast p else Res.ok p) = Res.ok p' := by
      by_cases hi : i = 0
      · exact ⟨p, by simp [hi]⟩
      · by_cases hi2 : i = n - 1
        · have hrest : rest = [] := by
            simp only [List.length_cons] at hn
            exact List.length_eq_zero_iff.1 (by omega)
          have hpne : p ≠ [] := hl p (by simp [hrest])
          have : p.length ≠ 0 := fun e => hpne (List.length_eq_zero_iff.1 e)
          exact ⟨p.take (p.length - 1), by simp [hi, hi2.symm, chopLast, this]⟩
        · exact ⟨p, by simp [hi, hi2]⟩
    obtain ⟨p', hp'⟩ := hp
    rw [hp']
    simp only
    cases hs : setPart acc p' with
    | err e => exact ⟨_, rfl⟩
    | val h' =>
      simp only
      apply loop_no_panic n rest h' (i + 1) (by simp only [List.length_cons] at hn; omega)
      intro q hq
      cases rest with
      | nil => simp at hq
      | cons r rs => exact hl q (by rw [List.getLast?_cons_cons]; exact hq)

/-- `sToHeader` does not panic on any string `headerToS` writes, whatever the map holds -/
theorem sToHeader_headerToS_no_panic (acc h : Header) : ∃ r, sToHeader acc (headerToS h) = .ok r := by
  unfold headerToS
  split
  · exact ⟨.val acc, rfl⟩
  · rename_i hne
    have hks : sortBytes (mapKeys h) ≠ [] := by
      intro e
      exact hne (by simp [sortBytes_eq_nil e])
    have hlast : (join b!"," ((sortBytes (mapKeys h)).map (item h))).getLast? = some 93 := by
      apply getLast?_join (by simpa using hks)
      intro p hp
      obtain ⟨k, _, rfl⟩ := List.mem_map.1 hp
      exact item_getLast h k
    obtain ⟨x, hx⟩ := List.getLast?_eq_some_iff.1 hlast
    unfold sToHeader
    split
    · exact ⟨_, rfl⟩
    · simp only
      split
      · exact ⟨_, rfl⟩
      · obtain ⟨y, hy⟩ := trim_ends (cs := b!"{}") (x := b!"{" ++ x) (z := 93) (r := b!"}") (by decide) (by decide)
        have hts : trim b!"{}" (b!"{" ++ join b!"," ((sortBytes (mapKeys h)).map (item h)) ++ b!"}") = y ++ [93] := by
          rw [hx]; rw [← hy]; simp
        rw [hts]
        apply loop_no_panic _ _ _ _ (by simp)
        intro p hp
        exact splitGo2_last_ne_nil (by decide : (93 : Nat) ≠ 44) _ (y ++ [93]) [] rfl
          (Or.inl (by simp)) p hp

end Model.Codec
