import RrModel.Limiter
/-
  Helper lemmas for the size-limiter proofs (C16, C17): point updates, finite sums over key
  lists, the `walk` of purgeableItemNames, the bookkeeping folds of the purge pass.
-/
namespace Model.Limiter
open Go

/-! ### point update -/

@[simp] theorem upd_same {V} (f : Name → Option V) (n : Name) (v : Option V) : upd f n v n = v := by
  simp [upd]

theorem upd_other {V} (f : Name → Option V) {n m : Name} (v : Option V) (h : m ≠ n) : upd f n v m = f m := by
  simp [upd, h]

/-! ### sums over a key list -/

def total (f : Name → Int) : List Name → Int
  | [] => 0
  | a :: t => f a + total f t

theorem total_append (f : Name → Int) (l₁ l₂ : List Name) :
    total f (l₁ ++ l₂) = total f l₁ + total f l₂ := by
  induction l₁ with
  | nil => simp [total]
  | cons a t ih => simp only [List.cons_append, total, ih]; omega

theorem total_congr {f g : Name → Int} {l : List Name} (h : ∀ n ∈ l, f n = g n) : total f l = total g l := by
  induction l with
  | nil => rfl
  | cons a t ih =>
    simp only [total]
    rw [h a (by simp), ih (fun n hn => h n (by simp [hn]))]

theorem total_add (f g : Name → Int) (l : List Name) :
    total (fun n => f n + g n) l = total f l + total g l := by
  induction l with
  | nil => rfl
  | cons a t ih => simp only [total, ih]; omega

/-- changing a function at one point of a duplicate-free list -/
theorem total_point {f g : Name → Int} {l : List Name} {a : Name} (hl : l.Nodup) (ha : a ∈ l)
    (h : ∀ n, n ≠ a → g n = f n) : total g l = total f l - f a + g a := by
  induction l with
  | nil => simp at ha
  | cons b t ih =>
    simp only [total]
    rw [List.nodup_cons] at hl
    by_cases hb : b = a
    · subst hb
      have : total g t = total f t := total_congr fun n hn => h n (fun e => hl.1 (e ▸ hn))
      rw [this]; omega
    · have hat : a ∈ t := by
        rcases List.mem_cons.1 ha with e | e
        · exact absurd e.symm hb
        · exact e
      rw [ih hl.2 hat, h b hb]; omega

theorem total_notMem {f g : Name → Int} {l : List Name} {a : Name} (ha : a ∉ l)
    (h : ∀ n, n ≠ a → g n = f n) : total g l = total f l :=
  total_congr fun n hn => h n (fun e => ha (e ▸ hn))

theorem total_nonneg {f : Name → Int} {l : List Name} (h : ∀ n, 0 ≤ f n) : 0 ≤ total f l := by
  induction l with
  | nil => simp [total]
  | cons a t ih => simp only [total]; have := h a; omega

/-- zeroing a duplicate-free sub-list of keys -/
theorem total_zeroed {f : Name → Int} {l d : List Name} (hl : l.Nodup) (hd : d.Nodup) (hsub : ∀ n ∈ d, n ∈ l) :
    total (fun n => if n ∈ d then 0 else f n) l = total f l - total f d := by
  induction d with
  | nil => simp [total]
  | cons a t ih =>
    rw [List.nodup_cons] at hd
    have hal : a ∈ l := hsub a (by simp)
    have ih' := ih hd.2 (fun n hn => hsub n (by simp [hn]))
    have := total_point (f := fun n => if n ∈ t then 0 else f n)
      (g := fun n => if n ∈ a :: t then 0 else f n) hl hal
      (by intro n hn; simp [hn])
    rw [this, ih']
    simp only [total, List.mem_cons, true_or, ↓reduceIte, hd.1]
    omega

/-! ### nodupB / isEnumOf -/

theorem nodupB_iff (l : List Name) : nodupB l = true ↔ l.Nodup := by
  induction l with
  | nil => simp [nodupB]
  | cons a t ih => simp [nodupB, ih, List.nodup_cons]

theorem isEnumOf_iff (l d : List Name) :
    isEnumOf l d = true ↔ l.Nodup ∧ ∀ n, n ∈ l ↔ n ∈ d := by
  unfold isEnumOf
  simp only [Bool.and_eq_true, nodupB_iff, List.all_eq_true, List.contains_iff_mem]
  constructor
  · rintro ⟨⟨h1, h2⟩, h3⟩
    exact ⟨h1, fun n => ⟨h3 n, h2 n⟩⟩
  · rintro ⟨h1, h2⟩
    exact ⟨⟨h1, fun n hn => (h2 n).2 hn⟩, fun n hn => (h2 n).1 hn⟩

theorem dedup_mem (l : List Name) (n : Name) : n ∈ dedup l ↔ n ∈ l := by
  induction l with
  | nil => simp [dedup]
  | cons a t ih =>
    simp only [dedup]
    split
    · rename_i h
      rw [List.contains_iff_mem] at h
      rw [ih]; simp only [List.mem_cons]
      constructor
      · exact Or.inr
      · rintro (e | e)
        · exact e ▸ h
        · exact e
    · simp [ih]

theorem dedup_nodup (l : List Name) : (dedup l).Nodup := by
  induction l with
  | nil => simp [dedup]
  | cons a t ih =>
    simp only [dedup]
    split
    · exact ih
    · rename_i h
      rw [List.contains_iff_mem] at h
      rw [List.nodup_cons]
      exact ⟨fun hm => h ((dedup_mem t a).1 hm), ih⟩

/-! ### accounted bytes of an item -/

def acctA (st : LState) (n : Name) : Int := kbBytes (kbWithA st n)
def acctU (st : LState) (n : Name) : Int := kbBytes (kbWithout st n)

theorem kbBytes_nonneg (kb : Nat) : 0 ≤ kbBytes kb := by unfold kbBytes; omega

theorem kbBytes_zero : kbBytes 0 = 0 := by decide

/-! ### walk -/

theorem walk_prefix (kbOf : Name → Nat) (pb : Int) (l : List Name) (found : Int) :
    (walk kbOf pb l found).1 <+: l := by
  induction l generalizing found with
  | nil => simp [walk]
  | cons a t ih =>
    simp only [walk]
    split
    · exact ⟨t, by simp⟩
    · obtain ⟨r, hr⟩ := ih (found + kbBytes (kbOf a))
      exact ⟨r, by simp [hr]⟩

theorem walk_found (kbOf : Name → Nat) (pb : Int) (l : List Name) (found : Int) :
    (walk kbOf pb l found).2.1 = found + total (fun n => kbBytes (kbOf n)) (walk kbOf pb l found).1 := by
  induction l generalizing found with
  | nil => simp [walk, total]
  | cons a t ih =>
    simp only [walk]
    split
    · simp [total]
    · simp only [total]
      rw [ih]; omega

theorem walk_sat (kbOf : Name → Nat) (pb : Int) (l : List Name) (found : Int)
    (h : (walk kbOf pb l found).2.2 = true) : (walk kbOf pb l found).2.1 ≥ pb := by
  induction l generalizing found with
  | nil => simp [walk] at h
  | cons a t ih =>
    simp only [walk] at h ⊢
    split
    · rename_i hc; simpa using hc
    · rename_i hc
      simp only [hc, ↓reduceIte] at h
      exact ih _ h

theorem walk_unsat (kbOf : Name → Nat) (pb : Int) (l : List Name) (found : Int)
    (h : (walk kbOf pb l found).2.2 = false) : (walk kbOf pb l found).1 = l := by
  induction l generalizing found with
  | nil => simp [walk]
  | cons a t ih =>
    simp only [walk] at h ⊢
    split
    · rename_i hc; simp [hc] at h
    · rename_i hc
      simp only [hc, ↓reduceIte] at h
      simp [ih _ h]

/-! ### the folds of the purge pass -/

theorem rmFiles_get (fs : FS) (l : List Name) (n : Name) :
    (rmFiles fs l).files.get n = if n ∈ l then none else fs.files.get n := by
  induction l generalizing fs with
  | nil => simp [rmFiles]
  | cons a t ih =>
    simp only [rmFiles, ih, KMap.del, List.mem_cons]
    by_cases h1 : n ∈ t
    · simp [h1]
    · by_cases h2 : n = a
      · simp [h2]
      · simp [h1, h2, upd]

theorem rmFiles_keys (fs : FS) (l : List Name) : (rmFiles fs l).files.keys = fs.files.keys := by
  induction l generalizing fs with
  | nil => rfl
  | cons a t ih => simp [rmFiles, ih, KMap.del]

theorem rmFiles_atimes (fs : FS) (l : List Name) : (rmFiles fs l).atimes = fs.atimes := by
  induction l generalizing fs with
  | nil => rfl
  | cons a t ih => simp [rmFiles, ih]

theorem subtractWith_get (st : LState) (l : List Name) (n : Name) :
    (subtractWith st l).withA.get n = if n ∈ l then none else st.withA.get n := by
  induction l generalizing st with
  | nil => simp [subtractWith]
  | cons a t ih =>
    simp only [subtractWith, ih, KMap.del, List.mem_cons]
    by_cases h1 : n ∈ t
    · simp [h1]
    · by_cases h2 : n = a
      · simp [h2]
      · simp [h1, h2, upd]

theorem subtractWith_frame (st : LState) (l : List Name) :
    (subtractWith st l).without = st.without ∧ (subtractWith st l).storable = st.storable ∧
    (subtractWith st l).startedAt = st.startedAt ∧ (subtractWith st l).max = st.max ∧
    (subtractWith st l).lastRun = st.lastRun := by
  induction l generalizing st with
  | nil => simp [subtractWith]
  | cons a t ih => simp only [subtractWith]; exact ih _

theorem subtractWith_size (st : LState) (l : List Name) (hl : l.Nodup) :
    (subtractWith st l).sizeBytes = st.sizeBytes - total (acctA st) l := by
  induction l generalizing st with
  | nil => simp [subtractWith, total]
  | cons a t ih =>
    rw [List.nodup_cons] at hl
    simp only [subtractWith, total]
    rw [ih _ hl.2]
    have : total (acctA { st with sizeBytes := st.sizeBytes - kbBytes (kbWithA st a), withA := st.withA.del a }) t
         = total (acctA st) t := by
      apply total_congr
      intro n hn
      have : n ≠ a := fun e => hl.1 (e ▸ hn)
      simp [acctA, kbWithA, KMap.del, upd, this]
    rw [this]; simp only [acctA]; omega

theorem subtractWith_keys (st : LState) (l : List Name) : (subtractWith st l).withA.keys = st.withA.keys := by
  induction l generalizing st with
  | nil => rfl
  | cons a t ih => simp only [subtractWith]; rw [ih]; rfl

theorem subtractWithout_keys (st : LState) (l : List Name) : (subtractWithout st l).without.keys = st.without.keys := by
  induction l generalizing st with
  | nil => rfl
  | cons a t ih => simp only [subtractWithout]; rw [ih]; rfl

theorem subtractWithout_get (st : LState) (l : List Name) (n : Name) :
    (subtractWithout st l).without.get n = if n ∈ l then none else st.without.get n := by
  induction l generalizing st with
  | nil => simp [subtractWithout]
  | cons a t ih =>
    simp only [subtractWithout, ih, KMap.del, List.mem_cons]
    by_cases h1 : n ∈ t
    · simp [h1]
    · by_cases h2 : n = a
      · simp [h2]
      · simp [h1, h2, upd]

theorem subtractWithout_frame (st : LState) (l : List Name) :
    (subtractWithout st l).withA = st.withA ∧ (subtractWithout st l).storable = st.storable ∧
    (subtractWithout st l).startedAt = st.startedAt ∧ (subtractWithout st l).max = st.max ∧
    (subtractWithout st l).lastRun = st.lastRun := by
  induction l generalizing st with
  | nil => simp [subtractWithout]
  | cons a t ih => simp only [subtractWithout]; exact ih _

theorem subtractWithout_size (st : LState) (l : List Name) (hl : l.Nodup) :
    (subtractWithout st l).sizeBytes = st.sizeBytes - total (acctU st) l := by
  induction l generalizing st with
  | nil => simp [subtractWithout, total]
  | cons a t ih =>
    rw [List.nodup_cons] at hl
    simp only [subtractWithout, total]
    rw [ih _ hl.2]
    have : total (acctU { st with sizeBytes := st.sizeBytes - kbBytes (kbWithout st a), without := st.without.del a }) t
         = total (acctU st) t := by
      apply total_congr
      intro n hn
      have : n ≠ a := fun e => hl.1 (e ▸ hn)
      simp [acctU, kbWithout, KMap.del, upd, this]
    rw [this]; simp only [acctU]; omega

/-! ### purgeableItemNames -/

theorem mem_dom {V} (m : KMap V) (n : Name) : n ∈ m.dom ↔ n ∈ m.keys ∧ m.get n ≠ none := by
  simp [KMap.dom, Option.isSome_iff_ne_none]

theorem total_zero (l : List Name) : total (fun _ => 0) l = 0 := by
  induction l with
  | nil => rfl
  | cons a t ih => simp [total, ih]

/-- the bound `purgeableItemNames` works with -/
def purgeBound (purgeBytes : Int) : Int :=
  if purgeBytes > (Facts.maxPurgeBytes : Int) then (Facts.maxPurgeBytes : Int) else purgeBytes

/-- what `purgeableItemNames` returns, for every state and every order: prefixes of the two
    enumerations, the known items only after ALL unknown ones, `size` = the accounted bytes of
    the selection, and either enough bytes or everything -/
theorem purgeable_facts (st : LState) (purgeBytes : Int) (h : Hints) :
    let sel := purgeableItemNames st purgeBytes h
    sel.without <+: h.uorder ∧ sel.withA <+: h.korder ∧
    sel.size = total (acctU st) sel.without + total (acctA st) sel.withA ∧
    (sel.size ≥ purgeBound purgeBytes ∨ (sel.without = h.uorder ∧ sel.withA = h.korder)) ∧
    (sel.withA ≠ [] → sel.without = h.uorder) := by
  intro sel
  have hsel : sel = purgeableItemNames st purgeBytes h := rfl
  unfold purgeableItemNames at hsel
  simp only [] at hsel
  have hp1 := walk_prefix (kbWithout st) (purgeBound purgeBytes) h.uorder 0
  have hf1 := walk_found (kbWithout st) (purgeBound purgeBytes) h.uorder 0
  have eU : (fun n => kbBytes (kbWithout st n)) = acctU st := rfl
  have eA : (fun n => kbBytes (kbWithA st n)) = acctA st := rfl
  rw [eU] at hf1
  cases hs : (walk (kbWithout st) (purgeBound purgeBytes) h.uorder 0).2.2 with
  | true =>
    have hsat := walk_sat _ _ _ _ hs
    have : sel = { without := (walk (kbWithout st) (purgeBound purgeBytes) h.uorder 0).1,
                   size := (walk (kbWithout st) (purgeBound purgeBytes) h.uorder 0).2.1 } := by
      rw [hsel]; unfold purgeBound at hs ⊢; simp [hs]
    rw [this]
    refine ⟨hp1, ⟨h.korder, by simp⟩, ?_, Or.inl hsat, fun hne => absurd rfl hne⟩
    simp only [total]
    rw [hf1]; omega
  | false =>
    have hall := walk_unsat _ _ _ _ hs
    have hp2 := walk_prefix (kbWithA st) (purgeBound purgeBytes) h.korder (walk (kbWithout st) (purgeBound purgeBytes) h.uorder 0).2.1
    have hf2 := walk_found (kbWithA st) (purgeBound purgeBytes) h.korder (walk (kbWithout st) (purgeBound purgeBytes) h.uorder 0).2.1
    have : sel = { withA := (walk (kbWithA st) (purgeBound purgeBytes) h.korder (walk (kbWithout st) (purgeBound purgeBytes) h.uorder 0).2.1).1,
                   without := (walk (kbWithout st) (purgeBound purgeBytes) h.uorder 0).1,
                   size := (walk (kbWithA st) (purgeBound purgeBytes) h.korder (walk (kbWithout st) (purgeBound purgeBytes) h.uorder 0).2.1).2.1 } := by
      rw [hsel]; unfold purgeBound at hs ⊢; simp [hs]
    rw [this]
    refine ⟨hp1, hp2, ?_, ?_, fun _ => hall⟩
    · simp only []
      rw [eA] at hf2
      rw [hf2, hf1]; omega
    · cases hs2 : (walk (kbWithA st) (purgeBound purgeBytes) h.korder (walk (kbWithout st) (purgeBound purgeBytes) h.uorder 0).2.1).2.2 with
      | true => exact Or.inl (walk_sat _ _ _ _ hs2)
      | false => exact Or.inr ⟨hall, walk_unsat _ _ _ _ hs2⟩

theorem validHints_parts {st : LState} {h : Hints} (hv : validHints st h = true) :
    (h.uorder.Nodup ∧ ∀ n, n ∈ h.uorder ↔ n ∈ st.without.dom) ∧
    (h.korder.Nodup ∧ ∀ n, n ∈ h.korder ↔ n ∈ st.withA.dom) ∧
    sortedBy (atimeWithA st) h.korder = true ∧
    (h.forder.Nodup ∧ ∀ n, n ∈ h.forder ↔ n ∈ st.storable.dom) := by
  unfold validHints at hv
  simp only [Bool.and_eq_true] at hv
  exact ⟨(isEnumOf_iff _ _).1 hv.1.1.1, (isEnumOf_iff _ _).1 hv.1.1.2, hv.1.2, (isEnumOf_iff _ _).1 hv.2⟩

/-- the selection of a pass under valid orders: duplicate-free lists of present items -/
theorem passSel_members {st : LState} {h : Hints} (hv : validHints st h = true) :
    (passSel st h).without.Nodup ∧ (∀ n ∈ (passSel st h).without, st.without.get n ≠ none) ∧
    (passSel st h).withA.Nodup ∧ (∀ n ∈ (passSel st h).withA, st.withA.get n ≠ none) := by
  obtain ⟨⟨hun, hum⟩, ⟨hkn, hkm⟩, _, _⟩ := validHints_parts hv
  unfold passSel
  split
  · obtain ⟨hp1, hp2, _, _, _⟩ := purgeable_facts st (st.sizeBytes - st.max) h
    refine ⟨hp1.sublist.nodup hun, fun n hn => ?_, hp2.sublist.nodup hkn, fun n hn => ?_⟩
    · exact ((mem_dom _ _).1 ((hum n).1 (hp1.subset hn))).2
    · exact ((mem_dom _ _).1 ((hkm n).1 (hp2.subset hn))).2
  · simp

/-! ### the canonical orders are valid ones -/

theorem mem_insertBy (f : Name → Nat) (n x : Name) (l : List Name) : x ∈ insertBy f n l ↔ x = n ∨ x ∈ l := by
  induction l with
  | nil => simp [insertBy]
  | cons a t ih =>
    simp only [insertBy]
    split
    · simp
    · simp only [List.mem_cons, ih]
      constructor
      · rintro (h | h | h)
        · exact Or.inr (Or.inl h)
        · exact Or.inl h
        · exact Or.inr (Or.inr h)
      · rintro (h | h | h)
        · exact Or.inr (Or.inl h)
        · exact Or.inl h
        · exact Or.inr (Or.inr h)

theorem insertBy_nodup (f : Name → Nat) (n : Name) (l : List Name) (hn : n ∉ l) (hl : l.Nodup) :
    (insertBy f n l).Nodup := by
  induction l with
  | nil => simp [insertBy]
  | cons a t ih =>
    simp only [insertBy]
    split
    · exact List.nodup_cons.2 ⟨hn, hl⟩
    · rw [List.nodup_cons] at hl ⊢
      simp only [List.mem_cons, not_or] at hn
      refine ⟨?_, ih hn.2 hl.2⟩
      rw [mem_insertBy]
      rintro (e | e)
      · exact hn.1 e.symm
      · exact hl.1 e

theorem mem_sortBy (f : Name → Nat) (x : Name) (l : List Name) : x ∈ sortBy f l ↔ x ∈ l := by
  induction l with
  | nil => simp [sortBy]
  | cons a t ih => simp [sortBy, mem_insertBy, ih]

theorem sortBy_nodup (f : Name → Nat) (l : List Name) (hl : l.Nodup) : (sortBy f l).Nodup := by
  induction l with
  | nil => simp [sortBy]
  | cons a t ih =>
    rw [List.nodup_cons] at hl
    exact insertBy_nodup f a _ (fun h => hl.1 ((mem_sortBy f a t).1 h)) (ih hl.2)

theorem sortedBy_cons (f : Name → Nat) (a : Name) (l : List Name) :
    sortedBy f (a :: l) = true ↔ (∀ b, l.head? = some b → f a ≤ f b) ∧ sortedBy f l = true := by
  cases l with
  | nil => simp [sortedBy]
  | cons b t => simp [sortedBy]

theorem insertBy_head (f : Name → Nat) (n : Name) (l : List Name) (b : Name)
    (h : (insertBy f n l).head? = some b) : b = n ∨ l.head? = some b := by
  cases l with
  | nil => simp [insertBy] at h; exact Or.inl h.symm
  | cons a t =>
    simp only [insertBy] at h
    split at h
    · simp at h; exact Or.inl h.symm
    · simp at h; exact Or.inr (by simp [h])

theorem insertBy_sorted (f : Name → Nat) (n : Name) (l : List Name) (hl : sortedBy f l = true) :
    sortedBy f (insertBy f n l) = true := by
  induction l with
  | nil => simp [insertBy, sortedBy]
  | cons a t ih =>
    simp only [insertBy]
    rw [sortedBy_cons] at hl
    split
    · rename_i hlt
      rw [sortedBy_cons]
      refine ⟨fun b hb => ?_, (sortedBy_cons f a t).2 hl⟩
      simp at hb; subst hb; omega
    · rename_i hge
      rw [sortedBy_cons]
      refine ⟨fun b hb => ?_, ih hl.2⟩
      rcases insertBy_head f n t b hb with e | e
      · subst e; omega
      · exact hl.1 b e

theorem sortBy_sorted (f : Name → Nat) (l : List Name) : sortedBy f (sortBy f l) = true := by
  induction l with
  | nil => rfl
  | cons a t ih => exact insertBy_sorted f a _ ih

/-- Go could have chosen the canonical orders: the hypothesis `Sched.Valid` is satisfiable -/
theorem canonical_valid : Sched.Valid canonicalHints := by
  intro st
  unfold validHints canonicalHints
  simp only [Bool.and_eq_true]
  refine ⟨⟨⟨?_, ?_⟩, sortBy_sorted _ _⟩, ?_⟩
  · exact (isEnumOf_iff _ _).2 ⟨dedup_nodup _, dedup_mem _⟩
  · exact (isEnumOf_iff _ _).2 ⟨sortBy_nodup _ _ (dedup_nodup _), fun n => by rw [mem_sortBy, dedup_mem]⟩
  · exact (isEnumOf_iff _ _).2 ⟨dedup_nodup _, dedup_mem _⟩

/-! ### flush: what it leaves alone -/

theorem flush_st (st : LState) (fs : FS) (ml : Int) (fo : List Name) :
    (flush st fs ml fo).1 = { st with storable := KMap.empty } := by
  unfold flush
  split
  · rfl
  · simp only []
    cases trimLog (fs.atimes.getD [] ++ logLines st.storable fo) ((fs.atimes.getD []).length : Int) ml <;> rfl

theorem flush_files (st : LState) (fs : FS) (ml : Int) (fo : List Name) :
    (flush st fs ml fo).2.files = fs.files ∨ (flush st fs ml fo).2.files = fs.files.del truncatedName := by
  unfold flush
  split
  · exact Or.inl rfl
  · simp only []
    cases trimLog (fs.atimes.getD [] ++ logLines st.storable fo) ((fs.atimes.getD []).length : Int) ml
    · exact Or.inl rfl
    · exact Or.inr rfl

/-! ### KMap.toList, readFiles -/

theorem mem_toList {V} (m : KMap V) (n : Name) (v : V) : (n, v) ∈ m.toList ↔ n ∈ m.keys ∧ m.get n = some v := by
  unfold KMap.toList
  simp only [List.mem_filterMap, Option.map_eq_some_iff, Prod.mk.injEq]
  constructor
  · rintro ⟨a, ha, b, hb, rfl, rfl⟩; exact ⟨ha, hb⟩
  · rintro ⟨h1, h2⟩; exact ⟨n, h1, v, h2, rfl, rfl⟩

theorem toList_fst_sublist {V} (m : KMap V) : (m.toList.map (·.1)).Sublist m.keys := by
  unfold KMap.toList
  induction m.keys with
  | nil => simp
  | cons a t ih =>
    simp only [List.filterMap_cons]
    cases h : m.get a with
    | none => simpa [h] using ih.trans (List.sublist_cons_self a t)
    | some v => simpa [h] using ih

def sumSizes : List (Name × Nat) → Int
  | [] => 0
  | x :: t => (x.2 : Int) + sumSizes t

theorem sumSizes_toList (m : KMap Nat) :
    sumSizes m.toList = total (fun n => (((m.get n).getD 0 : Nat) : Int)) m.keys := by
  unfold KMap.toList
  induction m.keys with
  | nil => rfl
  | cons a t ih =>
    simp only [List.filterMap_cons, total]
    cases h : m.get a with
    | none => simp [ih]
    | some v => simp [sumSizes, ih]

theorem kbExact_roundtrip {size : Nat} (h1 : size % 1024 = 0) (h2 : size < 4294967296) :
    kbBytes (kbOfSize size) = (size : Int) := by
  unfold kbBytes kbOfSize two32
  have : Facts.kbDivisor = 1024 := rfl
  rw [this]
  have : (size / 1024 % 4294967296 * 1024) % 4294967296 = size := by omega
  rw [this]

theorem KMap.set_get {V} (m : KMap V) (n : Name) (v : V) (k : Name) :
    (m.set n v).get k = if k = n then some v else m.get k := by
  simp [KMap.set, upd]

theorem KMap.set_wf {V} (m : KMap V) (n : Name) (v : V) (h : ∀ k, m.get k ≠ none → k ∈ m.keys) :
    ∀ k, (m.set n v).get k ≠ none → k ∈ (m.set n v).keys := by
  intro k hk
  rw [KMap.set_get] at hk
  simp only [KMap.set]
  by_cases hkn : k = n
  · subst hkn
    split
    · assumption
    · simp
  · simp only [hkn, ↓reduceIte] at hk
    have := h k hk
    split
    · exact this
    · simp [this]

theorem KMap.set_keys_nodup {V} (m : KMap V) (n : Name) (v : V) (h : m.keys.Nodup) : (m.set n v).keys.Nodup := by
  simp only [KMap.set]
  split
  · exact h
  · rename_i hn
    rw [List.nodup_append]
    refine ⟨h, by simp, ?_⟩
    intro a ha b hb
    simp only [List.mem_singleton] at hb
    subst hb
    exact fun e => hn (e ▸ ha)

/-- `readFiles` over a list of files that all sit at their item path, each path once -/
theorem readFilesL_spec (l : List (Name × Nat)) (hshape : ∀ x ∈ l, itemNameOfPath x.1 = .ok x.1)
    (hnd : (l.map (·.1)).Nodup) (st : LState) (hwf : ∀ k, st.without.get k ≠ none → k ∈ st.without.keys) :
    ∃ st', readFilesL st l = .ok st' ∧ st'.sizeBytes = st.sizeBytes + sumSizes l ∧ st'.withA = st.withA ∧
      st'.max = st.max ∧
      (∀ n sz, (n, sz) ∈ l → st'.without.get n = some (kbOfSize sz)) ∧
      (∀ n, n ∉ l.map (·.1) → st'.without.get n = st.without.get n) ∧
      (∀ k, st'.without.get k ≠ none → k ∈ st'.without.keys) := by
  induction l generalizing st with
  | nil => exact ⟨st, rfl, by simp [sumSizes], rfl, rfl, by simp, by simp, hwf⟩
  | cons x t ih =>
    obtain ⟨p, sz⟩ := x
    have hp : itemNameOfPath p = .ok p := hshape (p, sz) (by simp)
    simp only [List.map_cons, List.nodup_cons] at hnd
    have hrf : readFile st p sz = .ok { st with sizeBytes := st.sizeBytes + sz, without := st.without.set p (kbOfSize sz) } := by
      unfold readFile; rw [hp]
    obtain ⟨st', h1, h2, h3, h4, h5, h6, h7⟩ := ih (fun y hy => hshape y (by simp [hy])) hnd.2
      { st with sizeBytes := st.sizeBytes + sz, without := st.without.set p (kbOfSize sz) }
      (KMap.set_wf _ _ _ hwf)
    refine ⟨st', ?_, ?_, h3, h4, ?_, ?_, h7⟩
    · simp only [readFilesL, hrf]; exact h1
    · rw [h2]; simp only [sumSizes]; omega
    · intro n s hm
      rcases List.mem_cons.1 hm with e | e
      · simp only [Prod.mk.injEq] at e
        obtain ⟨rfl, rfl⟩ := e
        rw [h6 n hnd.1]
        simp [KMap.set_get]
      · exact h5 n s e
    · intro n hn
      simp only [List.map_cons, List.mem_cons, not_or] at hn
      rw [h6 n hn.2]
      simp [KMap.set_get, hn.1]

end Model.Limiter
