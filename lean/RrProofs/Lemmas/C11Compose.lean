import RrModel.KeySys
import RrModel.Spec.C11Sys
import RrProofs.Props.C11
import RrProofs.Props.C11Sys
import RrProofs.Lemmas.UrlSplit
/-
  Helper definitions and lemmas for the composition of the two C11 layers
  (`Props.C11SysCompose`).
-/
namespace Lemmas.C11Compose
open Go Model Model.KeySys Spec.C11 Props.C11 Props.C11Sys

/-! ## Vocabulary -/

/-- the echo a response carries: the `Tag` of the request it was generated for, field by field -/
def echoOf (t : Tag) : Spec.C11Sys.Echo :=
  { host := t.host, uri := t.uri, method := t.method, ae := t.ae, auth := t.auth, origin := t.origin }

/-- "the response varies by Origin" exactly as the harness driver computes it for the oracle
    (`Driver/H/SysK.lean`, `judge`): the response says so, or the origin is known to vary the
    echoed URL by Origin -/
def variesOf (resp : Resp) (t : Tag) : Bool :=
  Spec.C11Sys.variesByOrigin [resp.vary, varyOf t.uri]

/-- the routed requests of a history, each with the client request it stands for -/
def ctxs (rules : List Rule) (hist : List CReq) : List (CReq × Ctx) :=
  hist.filterMap fun g => (route rules g).map fun c => (g, c)

/-- all keys of all routed requests of a history -/
def histKeys (rules : List Rule) (hist : List CReq) : List Key :=
  (ctxs rules hist).flatMap fun gc => gc.2.keys

/-- some key of `a` and some key of `b` have the same entry name (`FsName`) -/
def sharesName (a b : Ctx) : Bool :=
  a.keys.any fun ka => b.keys.any fun kb => nameOf ka == nameOf kb


/-! ## A. The own keys of a routed request, as far as the re-keying loop reads them -/

/-- either no key `HasFullOrigin()` and no key carries the opaque-origin flag (a request without
    Origin), or exactly one key `HasFullOrigin()` and it does not carry the flag -/
def KeysOk (keys : List Key) : Prop :=
  (keys.filter (·.hasFullOrigin) = [] ∧ ∀ k ∈ keys, k.opaqueOrigin = false) ∨
  (∃ kf, keys.filter (·.hasFullOrigin) = [kf] ∧ kf.opaqueOrigin = false)

theorem keysOk_keysFromRequest (r : Req) : KeysOk (keysFromRequest r) := by
  cases h : originPresent r.header with
  | true =>
    obtain ⟨hk, h1, _, _, h2, _⟩ := vary_origin_keys r h
    right
    refine ⟨kindKey r .full, ?_, rfl⟩
    rw [hk]
    simp [List.filter, h1, h2]
  | false =>
    obtain ⟨hk, h1, _, _⟩ := plain_key r h
    left
    rw [hk]
    refine ⟨by simp [List.filter, h1], ?_⟩
    intro k hk'
    have : k = kindKey r .plain := by simpa using hk'
    rw [this]; rfl

theorem keysOk_route {rules : List Rule} {r : CReq} {x : Ctx} (h : route rules r = some x) :
    KeysOk x.keys := by
  rw [(route_keys h).2.1]
  exact keysOk_keysFromRequest _

/-! ## B. The system model once more, with the Origin bookkeeping

  `Props.C11Sys.holds_model` says WHICH requests can share a response: those that share an entry
  name in one storage.  For the `Vary: Origin` clause of the oracle this is not enough — two
  requests with different Origin values legitimately share the name of their opaque-origin keys;
  what keeps them apart is that a response that varies by Origin is never left under that name.
  The invariant below records exactly what the model guarantees about this, unconditionally:

    an entry whose response varies by Origin lies under a name that is the name of a key WITHOUT
    the opaque-origin flag of some request of the history (`PlainNamed`) — the filling request's
    own plain or full-origin key, or, after a coalescing wait, the key the notifier delivered,
    which belongs to the writer the request waited for — in WHATEVER storage that writer works
    (the lock table is keyed by the entry name only). -/

/-- the model's `dirs.VaryByOrigin()` for the response the scripted origin gives to `uri` -/
def modelVaries (uri : Bytes) : Bool := (getCacheControlDirectives (originHeader uri)).varyByOrigin

/-- some routed request of the history (any storage) has a key without the opaque-origin flag
    whose entry name is `n` -/
def PlainNamed (rules : List Rule) (hist : List CReq) (n : Bytes) : Prop :=
  ∃ z ∈ hist, ∃ cz, route rules z = some cz ∧ ∃ kz ∈ cz.keys, nameOf kz = n ∧ kz.opaqueOrigin = false

def Prov' (rules : List Rule) (hist : List CReq) (c n : Bytes) (e : Entry) : Prop :=
  Prov rules hist c n e ∧ (modelVaries e.tag.uri = true → PlainNamed rules hist n)

def Inv' (rules : List Rule) (hist : List CReq) (s : St) : Prop :=
  ∀ c n e, ((c, n), e) ∈ s.disk → Prov' rules hist c n e

/-- `Props.C11Sys.Shared` plus: when the response varies by Origin, the shared name is
    `PlainNamed` -/
def Shared' (rules : List Rule) (hist : List CReq) (x : Ctx) (t : Tag) : Prop :=
  ∃ y ∈ hist, ∃ cy, route rules y = some cy ∧ cy.tag = t ∧ cy.cache = x.cache ∧
    ∃ kx ∈ x.keys, ∃ ky ∈ cy.keys, nameOf kx = nameOf ky ∧
      (modelVaries t.uri = true → PlainNamed rules hist (nameOf kx))

/-- what a response may carry (`Props.C11Sys.Served`, strengthened); the response's own `Vary`
    is that of the echoed URL -/
def Served' (rules : List Rule) (hist : List CReq) (r : CReq) (resp : Resp) : Prop :=
  ∀ t, resp.tag = some t → resp.vary = varyOf t.uri ∧
    ∃ x, route rules r = some x ∧ (t = x.tag ∨ Shared' rules hist x t)

theorem PlainNamed.mono {rules : List Rule} {hist hist' : List CReq} {n : Bytes}
    (h : PlainNamed rules hist n) (hs : ∀ y ∈ hist, y ∈ hist') : PlainNamed rules hist' n := by
  obtain ⟨z, hz, rest⟩ := h
  exact ⟨z, hs z hz, rest⟩

theorem Inv'.mono {rules : List Rule} {hist hist' : List CReq} {s : St}
    (hi : Inv' rules hist s) (hs : ∀ y ∈ hist, y ∈ hist') : Inv' rules hist' s := by
  intro c n e hm
  obtain ⟨⟨y, hy, rest⟩, hp⟩ := hi c n e hm
  exact ⟨⟨y, hs y hy, rest⟩, fun hv => (hp hv).mono hs⟩

theorem Served'.mono {rules : List Rule} {hist hist' : List CReq} {r : CReq} {resp : Resp}
    (h : Served' rules hist r resp) (hs : ∀ y ∈ hist, y ∈ hist') : Served' rules hist' r resp := by
  intro t ht
  obtain ⟨hv, x, hx, h⟩ := h t ht
  refine ⟨hv, x, hx, ?_⟩
  rcases h with h | ⟨y, hy, cy, h1, h2, h3, kx, hkx, ky, hky, hn, hp⟩
  · exact Or.inl h
  · exact Or.inr ⟨y, hs y hy, cy, h1, h2, h3, kx, hkx, ky, hky, hn, fun hv => (hp hv).mono hs⟩

theorem served'_of_none {rules : List Rule} {hist : List CReq} {r : CReq} {resp : Resp}
    (h : resp.tag = none) : Served' rules hist r resp := by
  intro t ht; rw [h] at ht; simp at ht

theorem hitResp_tag' {s : St} {x : Ctx} {e : Entry} {t : Tag} (h : (hitResp s x e).tag = some t) :
    e.tag = t ∧ (hitResp s x e).vary = varyOf t.uri := by
  unfold hitResp at h ⊢
  split at h
  · rename_i hf
    simp only [hf, ↓reduceIte]
    simp only [Option.some.injEq] at h
    exact ⟨h, by rw [h]⟩
  · simp [marker] at h

/-! ### the writer branch -/

/-- the two shapes of the writer after the re-keying loop -/
theorem rekeyWriter_shape (x : Ctx) (inHand : Key) (v : Bool) (hk : KeysOk x.keys) :
    ((rekeyWriter x inHand v).key = inHand ∧ (rekeyWriter x inHand v).oldKey = none) ∨
    ((rekeyWriter x inHand v).key ∈ x.keys ∧
      (rekeyWriter x inHand v).oldKey = some { inHand with method := [] }) := by
  unfold rekeyWriter
  split
  · rcases hk with ⟨hf, _⟩ | ⟨kf, hf, _⟩
    · left; rw [hf]; exact ⟨rfl, rfl⟩
    · right
      have hm : kf ∈ x.keys.filter (·.hasFullOrigin) := by rw [hf]; exact List.mem_cons_self
      rw [hf]
      exact ⟨(List.mem_filter.1 hm).1, rfl⟩
  · left; exact ⟨rfl, rfl⟩

/-- where a response that varies by Origin is written -/
theorem rekeyWriter_plain {rules : List Rule} {hist : List CReq} {r : CReq} {x : Ctx}
    (hr : r ∈ hist) (hx : route rules r = some x) (inHand : Key)
    (hown : OwnName x (nameOf inHand))
    (hin : inHand.opaqueOrigin = false → PlainNamed rules hist (nameOf inHand)) :
    PlainNamed rules hist (nameOf (rekeyWriter x inHand true).key) := by
  have hk := keysOk_route hx
  unfold rekeyWriter
  cases hop : inHand.opaqueOrigin with
  | false =>
    simp only [Key.hasOpaqueOrigin, hop, Bool.and_false, Bool.false_eq_true, ↓reduceIte]
    exact hin hop
  | true =>
    simp only [Key.hasOpaqueOrigin, hop, Bool.and_self, ↓reduceIte]
    rcases hk with ⟨hf, hall⟩ | ⟨kf, hf, hkf⟩
    · rw [hf]
      obtain ⟨k, hkm, hkn⟩ := hown
      exact ⟨r, hr, x, hx, k, hkm, hkn, hall k hkm⟩
    · have hm : kf ∈ x.keys.filter (·.hasFullOrigin) := by rw [hf]; exact List.mem_cons_self
      rw [hf]
      exact ⟨r, hr, x, hx, kf, (List.mem_filter.1 hm).1, rfl, hkf⟩

/-- what `fill` does, as far as provenance and the Origin bookkeeping go -/
structure FillSpec' (rules : List Rule) (hist : List CReq) (s : St) (x : Ctx) (f : FillOut) : Prop where
  tag : ∀ t, f.resp.tag = some t → t = x.tag ∧ f.resp.vary = varyOf t.uri
  disk : ∀ m ∈ f.st.disk, m ∈ s.disk ∨ ∃ n, OwnName x n ∧ m.1 = (x.cache, n) ∧ m.2.tag = x.tag ∧
    (modelVaries x.tag.uri = true → PlainNamed rules hist n)

theorem fill_spec' {rules : List Rule} {hist : List CReq} {r : CReq} (s : St) {x : Ctx}
    (hr : r ∈ hist) (hx : route rules r = some x) (inHand : Key)
    (h : OwnName x (nameOf inHand))
    (hin : inHand.opaqueOrigin = false → PlainNamed rules hist (nameOf inHand)) :
    FillSpec' rules hist s x (fill s x inHand) := by
  unfold fill
  simp only []
  split
  · exact ⟨fun t ht => by
      simp only [Option.some.injEq] at ht; subst ht; exact ⟨rfl, rfl⟩, fun m hm => Or.inl hm⟩
  · split
    · exact ⟨fun t ht => by
        simp only [Option.some.injEq] at ht; subst ht; exact ⟨rfl, rfl⟩, fun m hm => Or.inl hm⟩
    · split
      · exact ⟨fun t ht => by
          simp only [Option.some.injEq] at ht; subst ht; exact ⟨rfl, rfl⟩, fun m hm => Or.inl hm⟩
      · refine ⟨fun t ht => by
          simp only [Option.some.injEq] at ht; subst ht; exact ⟨rfl, rfl⟩, fun m hm => ?_⟩
        rcases put_mem hm with hm | hm
        · right
          refine ⟨_, rekeyWriter_key x inHand _ h, by rw [hm], by rw [hm], ?_⟩
          intro hv
          have hv' : (getCacheControlDirectives (originHeader x.tag.uri)).varyByOrigin = true := hv
          rw [hv']
          exact rekeyWriter_plain hr hx inHand h hin
        · exact Or.inl hm

/-- the notifications a writer sends: the key in hand, one of its own keys, or the key in hand
    without its method (`ChangeKey`'s `oldKey`) -/
theorem fill_notes (s : St) (x : Ctx) (inHand : Key) (hk : KeysOk x.keys) :
    ∀ d ∈ (fill s x inHand).notes, d = inHand ∨ d ∈ x.keys ∨ d = { inHand with method := [] } := by
  unfold fill
  simp only []
  split
  · intro d hd; simp only [List.mem_cons, List.not_mem_nil, or_false, or_self] at hd; exact Or.inl hd
  · split
    · intro d hd; simp only [List.mem_cons, List.not_mem_nil, or_false] at hd; exact Or.inl hd
    · split
      · intro d hd; simp only [List.mem_cons, List.not_mem_nil, or_false] at hd; exact Or.inl hd
      · intro d hd
        simp only [List.mem_append, List.mem_cons, List.not_mem_nil, or_false, Option.mem_toList] at hd
        rcases rekeyWriter_shape x inHand
          (getCacheControlDirectives (originHeader x.tag.uri)).varyByOrigin hk with ⟨h1, h2⟩ | ⟨h1, h2⟩
        · rcases hd with (hd | hd) | hd
          · left; rw [hd, h1]
          · rw [h2] at hd; simp at hd
          · exact Or.inl hd
        · rcases hd with (hd | hd) | hd
          · right; left; rw [hd]; exact h1
          · rw [h2] at hd
            right; right
            simpa using hd.symm
          · exact Or.inl hd

/-! ### one request -/

theorem start_done' {s : St} {x : Ctx} {locks : List Bytes} {r : Resp} {t : Tag}
    (h : start s x locks = .done r) (ht : r.tag = some t) :
    r.vary = varyOf t.uri ∧ ∃ k ∈ x.keys, ∃ e, ((x.cache, nameOf k), e) ∈ s.disk ∧ e.tag = t := by
  unfold start at h
  split at h
  · simp only [Start.done.injEq] at h
    rw [← h] at ht; simp [marker] at ht
  · split at h
    · rename_i k e hl
      simp only [Start.done.injEq] at h
      rw [← h] at ht ⊢
      obtain ⟨h1, h2⟩ := lookup_some hl
      obtain ⟨h3, h4⟩ := hitResp_tag' ht
      exact ⟨h4, k, h1, e, h2, h3⟩
    · split at h
      · simp only [Start.done.injEq] at h
        rw [← h] at ht; simp [marker] at ht
      · split at h <;> simp at h

theorem start_waiter' {s : St} {x : Ctx} {locks : List Bytes} {n : Bytes}
    (h : start s x locks = .waiter n) : OwnName x n ∧ n ∈ locks := by
  unfold start at h
  split at h
  · simp at h
  · split at h
    · simp at h
    · split at h
      · simp at h
      · rename_i k' hp
        split at h
        · rename_i hc
          simp only [Start.waiter.injEq] at h
          refine ⟨⟨k', preferred_mem hp, h⟩, ?_⟩
          rw [← h]
          simpa using hc
        · simp at h

theorem served'_of_entry {rules : List Rule} {hist : List CReq} {s : St} {r : CReq} {x : Ctx} {resp : Resp}
    (hi : Inv' rules hist s) (hx : route rules r = some x)
    (h : ∀ t, resp.tag = some t → resp.vary = varyOf t.uri ∧
      ∃ k ∈ x.keys, ∃ e, ((x.cache, nameOf k), e) ∈ s.disk ∧ e.tag = t) :
    Served' rules hist r resp := by
  intro t ht
  obtain ⟨hv, k, hk, e, hm, he⟩ := h t ht
  obtain ⟨⟨y, hy, cy, h1, h2, h3, ky, hky, hn⟩, hp⟩ := hi _ _ _ hm
  exact ⟨hv, x, hx, Or.inr ⟨y, hy, cy, h1, by rw [h2, he], h3, k, hk, ky, hky, hn.symm,
    fun hvar => hp (by rw [he]; exact hvar)⟩⟩

theorem inv'_of_fill {rules : List Rule} {hist : List CReq} {s : St} {r : CReq} {x : Ctx} {f : FillOut}
    (hi : Inv' rules hist s) (hr : r ∈ hist) (hx : route rules r = some x) (hf : FillSpec' rules hist s x f) :
    Inv' rules hist f.st := by
  intro c n e hm
  rcases hf.disk _ hm with h | ⟨n', hn', h1, h2, h3⟩
  · exact hi c n e h
  · simp only [Prod.mk.injEq] at h1
    obtain ⟨hc, hn⟩ := h1
    subst hc; subst hn
    simp only at h2
    exact ⟨⟨r, hr, x, hx, h2.symm, rfl, hn'⟩, fun hv => h3 (by rw [← h2]; exact hv)⟩

theorem served'_of_fill {rules : List Rule} {hist : List CReq} {s : St} {r : CReq} {x : Ctx} {f : FillOut}
    (hx : route rules r = some x) (hf : FillSpec' rules hist s x f) : Served' rules hist r f.resp :=
  fun t ht => ⟨(hf.tag t ht).2, x, hx, Or.inl (hf.tag t ht).1⟩

/-- an own key in hand: if it is not flagged, its name is `PlainNamed` through the request itself -/
theorem own_plain {rules : List Rule} {hist : List CReq} {r : CReq} {x : Ctx} {k : Key}
    (hr : r ∈ hist) (hx : route rules r = some x) (hk : k ∈ x.keys) :
    k.opaqueOrigin = false → PlainNamed rules hist (nameOf k) :=
  fun hf => ⟨r, hr, x, hx, k, hk, rfl, hf⟩

theorem single_spec' {rules : List Rule} {hist : List CReq} {s : St} {r : CReq}
    (hi : Inv' rules hist s) (hr : r ∈ hist) :
    Inv' rules hist (single s r (route rules r)).st ∧
    Served' rules hist r (single s r (route rules r)).resp := by
  unfold single
  cases hx : route rules r with
  | none => exact ⟨hi, served'_of_none (unrouted_tag r)⟩
  | some x =>
    simp only []
    cases hs : start s x [] with
    | done resp => exact ⟨hi, served'_of_entry hi hx fun t ht => start_done' hs ht⟩
    | writer k =>
      have hf := fill_spec' s hr hx k ⟨k, start_writer hs, rfl⟩ (own_plain hr hx (start_writer hs))
      exact ⟨inv'_of_fill hi hr hx hf, served'_of_fill hx hf⟩
    | waiter n => exact ⟨hi, served'_of_none (marker_tag _)⟩

theorem resume_spec' {rules : List Rule} {hist : List CReq} {s : St} {r : CReq} {x : Ctx} {d : Key}
    (hi : Inv' rules hist s) (hr : r ∈ hist) (hx : route rules r = some x) (hd : OwnName x (nameOf d))
    (hdp : d.opaqueOrigin = false → PlainNamed rules hist (nameOf d)) :
    Inv' rules hist (resume s x d).st ∧ Served' rules hist r (resume s x d).resp := by
  unfold resume
  cases hl : lookup s x.cache [d] with
  | some ke =>
    obtain ⟨k, e⟩ := ke
    simp only []
    refine ⟨hi, served'_of_entry hi hx fun t ht => ?_⟩
    obtain ⟨h1, h2⟩ := lookup_some hl
    have hk : k = d := by simpa using h1
    subst hk
    obtain ⟨k', hk', hn⟩ := hd
    obtain ⟨h3, h4⟩ := hitResp_tag' ht
    exact ⟨h4, k', hk', e, by rw [hn]; exact h2, h3⟩
  | none =>
    simp only []
    have hf := fill_spec' s hr hx d hd hdp
    exact ⟨inv'_of_fill hi hr hx hf, served'_of_fill hx hf⟩

theorem pair_spec' {rules : List Rule} {hist : List CReq} {s : St} {r1 r2 : CReq}
    (hi : Inv' rules hist s) (h1 : r1 ∈ hist) (h2 : r2 ∈ hist) :
    let p := pair s r1 (route rules r1) r2 (route rules r2)
    Inv' rules hist p.st ∧ Served' rules hist r1 p.r1 ∧ Served' rules hist r2 p.r2 := by
  simp only []
  unfold pair
  cases hx1 : route rules r1 with
  | none =>
    simp only []
    have hs := single_spec' (rules := rules) hi h2
    exact ⟨hs.1, served'_of_none (unrouted_tag r1), hs.2⟩
  | some c1 =>
    simp only []
    cases hs1 : start s c1 [] with
    | done resp1 =>
      simp only []
      have hs := single_spec' (rules := rules) hi h2
      exact ⟨hs.1, served'_of_entry hi hx1 fun t ht => start_done' hs1 ht, hs.2⟩
    | waiter n => exact ⟨hi, served'_of_none (marker_tag _), served'_of_none (marker_tag _)⟩
    | writer k1 =>
      simp only []
      have hk1m : k1 ∈ c1.keys := start_writer hs1
      have hk1 : OwnName c1 (nameOf k1) := ⟨k1, hk1m, rfl⟩
      have hp1 := own_plain h1 hx1 hk1m
      cases hx2 : route rules r2 with
      | none =>
        simp only []
        have hf := fill_spec' s h1 hx1 k1 hk1 hp1
        exact ⟨inv'_of_fill hi h1 hx1 hf, served'_of_fill hx1 hf, served'_of_none (unrouted_tag r2)⟩
      | some c2 =>
        simp only []
        cases hs2 : start s c2 [nameOf k1] with
        | done resp2 =>
          simp only []
          have hf := fill_spec' s h1 hx1 k1 hk1 hp1
          exact ⟨inv'_of_fill hi h1 hx1 hf, served'_of_fill hx1 hf,
                 served'_of_entry hi hx2 fun t ht => start_done' hs2 ht⟩
        | writer k2 =>
          simp only []
          have hk2m : k2 ∈ c2.keys := start_writer hs2
          have hf2 := fill_spec' s h2 hx2 k2 ⟨k2, hk2m, rfl⟩ (own_plain h2 hx2 hk2m)
          have hi2 := inv'_of_fill hi h2 hx2 hf2
          have hf1 := fill_spec' (fill s c2 k2).st h1 hx1 k1 hk1 hp1
          exact ⟨inv'_of_fill hi2 h1 hx1 hf1, served'_of_fill hx1 hf1, served'_of_fill hx2 hf2⟩
        | waiter n =>
          simp only []
          have hf1 := fill_spec' s h1 hx1 k1 hk1 hp1
          have hi1 := inv'_of_fill hi h1 hx1 hf1
          cases hfd : (fill s c1 k1).notes.find? (fun k => nameOf k == n) with
          | none => exact ⟨hi1, served'_of_fill hx1 hf1, served'_of_none (marker_tag _)⟩
          | some d =>
            simp only []
            have hn : nameOf d = n := by simpa using List.find?_some hfd
            obtain ⟨hown, hlock⟩ := start_waiter' hs2
            have hnk : n = nameOf k1 := by simpa using hlock
            have hd : OwnName c2 (nameOf d) := by rw [hn]; exact hown
            -- the delivered key belongs to the writer the request waited for
            have hdp : d.opaqueOrigin = false → PlainNamed rules hist (nameOf d) := by
              intro hflag
              rcases fill_notes s c1 k1 (keysOk_route hx1) d (List.mem_of_find?_eq_some hfd) with hd' | hd' | hd'
              · rw [hd'] at hflag ⊢; exact hp1 hflag
              · exact own_plain h1 hx1 hd' hflag
              · have hflag1 : k1.opaqueOrigin = false := by rw [hd'] at hflag; exact hflag
                rw [hn, hnk]
                exact hp1 hflag1
            have hr := resume_spec' hi1 h2 hx2 hd hdp
            exact ⟨hr.1, served'_of_fill hx1 hf1, hr.2⟩

/-! ### histories -/

def AllServed' (rules : List Rule) (hist : List CReq) (outs : List Out) : Prop :=
  ∀ o ∈ outs, ∀ p ∈ o.served, Served' rules hist p.1 p.2

theorem AllServed'.mono {rules : List Rule} {hist hist' : List CReq} {outs : List Out}
    (h : AllServed' rules hist outs) (hs : ∀ y ∈ hist, y ∈ hist') : AllServed' rules hist' outs :=
  fun o ho p hp => (h o ho p hp).mono hs

theorem step_spec' {rules : List Rule} {hist : List CReq} {acc : RunOut} (st : Step)
    (hi : Inv' rules hist acc.st) (ha : AllServed' rules hist acc.outs) :
    Inv' rules (hist ++ st.requests) (step rules acc st).st ∧
    AllServed' rules (hist ++ st.requests) (step rules acc st).outs := by
  have hsub : ∀ y ∈ hist, y ∈ hist ++ st.requests := fun y hy => List.mem_append_left _ hy
  cases st with
  | tick dt => exact ⟨by simpa [step, Step.requests, Inv'] using hi, by simpa [step, Step.requests] using ha⟩
  | one r =>
    have hr : r ∈ hist ++ (Step.one r).requests := by simp [Step.requests]
    have hs := single_spec' (rules := rules) (hi.mono hsub) hr
    refine ⟨hs.1, ?_⟩
    intro o ho p hp
    simp only [step, List.mem_append, List.mem_singleton] at ho
    rcases ho with ho | ho
    · exact (ha o ho p hp).mono hsub
    · subst ho
      simp only [Out.served, List.mem_singleton] at hp
      subst hp
      exact hs.2
  | two r1 r2 =>
    have hr1 : r1 ∈ hist ++ (Step.two r1 r2).requests := by simp [Step.requests]
    have hr2 : r2 ∈ hist ++ (Step.two r1 r2).requests := by simp [Step.requests]
    have hs := pair_spec' (rules := rules) (hi.mono hsub) hr1 hr2
    simp only [] at hs
    refine ⟨hs.1, ?_⟩
    intro o ho p hp
    simp only [step, List.mem_append, List.mem_singleton] at ho
    rcases ho with ho | ho
    · exact (ha o ho p hp).mono hsub
    · subst ho
      simp only [Out.served, List.mem_cons, List.not_mem_nil, or_false] at hp
      rcases hp with hp | hp
      · subst hp; exact hs.2.1
      · subst hp; exact hs.2.2

theorem foldl_spec' {rules : List Rule} (steps : List Step) {hist : List CReq} {acc : RunOut}
    (hi : Inv' rules hist acc.st) (ha : AllServed' rules hist acc.outs) :
    AllServed' rules (hist ++ requestsOf steps) (steps.foldl (step rules) acc).outs := by
  induction steps generalizing hist acc with
  | nil => simpa [requestsOf] using ha
  | cons st t ih =>
    have hs := step_spec' st hi ha
    have := ih hs.1 hs.2
    simpa [requestsOf, List.append_assoc] using this

/-- **the system model with the Origin bookkeeping**: every response carries the receiver's own
    echo, or the echo of a request of the history that shares an entry name with the receiver in
    the same storage — and if that response varies by Origin, the shared name is the name of a
    key WITHOUT the opaque-origin flag of some request of the history. -/
theorem served_strong (rules : List Rule) (steps : List Step) :
    ∀ o ∈ (run rules steps).outs, ∀ p ∈ o.served, Served' rules (requestsOf steps) p.1 p.2 := by
  intro o ho p hp
  have h := foldl_spec' (rules := rules) steps (hist := []) (acc := {})
    (by intro c n e hm; simp at hm) (by intro o ho; simp at ho)
  rw [List.nil_append] at h
  exact h o ho p hp


/-! ## C. `KeySys.contact` (what the origin is asked, hence the echo) versus `Spec.C11.dest` -/

/-- the tag of a routed request: the client's method and key headers, and what `contact` says
    the destination is asked -/
theorem route_tag {rules : List Rule} {r : CReq} {x : Ctx} (h : route rules r = some x) :
    ∃ hh u, contact x.rule b!"http" r.host r.target = some (hh, u) ∧
      x.tag = { host := hh, uri := u, method := r.method,
                ae := Header.values r.header b!"Accept-Encoding",
                auth := Header.values r.header b!"Authorization",
                origin := Header.values r.header b!"Origin" } := by
  unfold route at h
  split at h
  · simp at h
  · split at h
    · simp at h
    · split at h
      · simp at h
      · rename_i hh u hc
        simp only [Option.some.injEq] at h
        subst h
        exact ⟨hh, u, hc, rfl⟩

/-- the query the destination is asked with -/
def sentQuery (r : CReq) : Bytes := Url.queryAfterReparse (clientQuery r.target)

/-- **the exact relation**: `contact` and `dest` read the same substituted destination string,
    take the same authority, the same escaped path and the same (client) query; `contact` renders
    path and query into one request-target; `dest` ADDITIONALLY refuses a destination string
    whose fragment (what follows its first `#`) carries a malformed `%` escape — `url.Parse`
    fails on it in `OverrideOnRequest`/`createOutgoingURLs` — which `contact` does not look at
    (it overwrites the fragment). -/
theorem contact_dest (rule : Rule) (r : CReq) (hh u : Bytes)
    (hc : contact rule b!"http" r.host r.target = some (hh, u)) :
    ∃ u0 p, target ⟨r.toReq, rule, b!"http", r.host, r.target⟩ = some u0 ∧
      UrlEsc.escapedPath u0.path = some p ∧
      hh = UrlEsc.hostOfAuthority (u0.authority.getD []) ∧
      u = UrlEsc.wirePath p ++ (if sentQuery r = [] then [] else b!"?" ++ sentQuery r) ∧
      dest ⟨r.toReq, rule, b!"http", r.host, r.target⟩ =
        if Url.escapesOk u0.fragment then some ⟨hh, UrlEsc.wirePath p, sentQuery r⟩ else none := by
  unfold contact at hc
  unfold dest target
  cases hm : attemptMatch rule b!"http" r.host r.target with
  | none => simp [hm] at hc
  | some t =>
    simp only [hm] at hc ⊢
    unfold outgoingURL at hc
    cases hs : Url.split t with
    | none => simp [hs] at hc
    | some u0 =>
      simp only [hs, Option.map_some] at hc ⊢
      cases hp : UrlEsc.escapedPath u0.path with
      | none => simp [hp] at hc
      | some p =>
        simp only [hp, Option.some.injEq, Prod.mk.injEq] at hc ⊢
        obtain ⟨h1, h2⟩ := hc
        refine ⟨u0, p, rfl, hp, h1.symm, ?_, ?_⟩
        · rw [← h2]; rfl
        · by_cases hf : Url.escapesOk u0.fragment = true
          · simp only [hf, not_true_eq_false, ↓reduceIte, Option.some.injEq]
            rw [← h1]; rfl
          · simp [hf]

/-- cutting the rendered request-target at its first `?` gives back path and query -/
theorem cut_rendered (a q : Bytes) (h : 63 ∉ a) :
    (Url.cut1 63 (a ++ (if q = [] then [] else b!"?" ++ q))).1 = a ∧
    (Url.cut1 63 (a ++ (if q = [] then [] else b!"?" ++ q))).2.1 = q := by
  rw [Go.cut1_append_of_not_mem 63 a _ h]
  by_cases hq : q = []
  · simp [hq, Url.cut1, indexByte]
  · simp [hq, Url.cut1, indexByte]

/-- `dest` is defined as soon as the substituted destination string has no `#` — the side
    condition under which `contact` and `dest` agree completely -/
theorem dest_isSome_of_no_hash (rule : Rule) (r : CReq) (hh u t : Bytes)
    (hc : contact rule b!"http" r.host r.target = some (hh, u))
    (hm : attemptMatch rule b!"http" r.host r.target = some t) (hno : 35 ∉ t) :
    dest ⟨r.toReq, rule, b!"http", r.host, r.target⟩ = some ⟨hh, (Url.cut1 63 u).1, (Url.cut1 63 u).2.1⟩ := by
  obtain ⟨u0, p, ht, hp, _, h2, h3⟩ := contact_dest rule r hh u hc
  have hfrag : u0.fragment = [] := by
    unfold target at ht
    simp only [hm] at ht
    have hcut : Url.cut1 35 t = (t, [], false) := by
      unfold Url.cut1
      have : indexByte 35 t = none := by
        have := Go.indexByte_append_of_not_mem 35 t [] hno
        simpa [indexByte] using this
      rw [this]
    unfold Url.split at ht
    rw [hcut] at ht
    simp only at ht
    repeat' split at ht
    all_goals first
      | (simp at ht; done)
      | (simp only [Option.some.injEq] at ht; rw [← ht])
  have hq := Go.UrlEsc.not_mem_wirePath _ (Go.UrlEsc.not_mem_escapedPath _ _ hp)
  obtain ⟨c1, c2⟩ := cut_rendered (UrlEsc.wirePath p) (sentQuery r) hq
  rw [h3, hfrag, h2, c1, c2]
  rfl

/-! ## D. From `Spec.C11.holds` to the field tests of `Spec.C11Sys.mismatch` -/

theorem mem_zip_map_of_mem {α β : Type} (f : α → β) (l : List α) (k : α) (h : k ∈ l) :
    (f k, k) ∈ (l.map f).zip l := by
  induction l with
  | nil => simp at h
  | cons x t ih =>
    simp only [List.map_cons, List.zip_cons_cons, List.mem_cons, Prod.mk.injEq]
    rcases List.mem_cons.1 h with h | h
    · left; rw [h]; exact ⟨rfl, rfl⟩
    · right; exact ih h

/-- **unpacking the function-level oracle**: when it accepts the model's names (the hashed
    strings) of two routed requests of one storage, two of their keys with the same hashed string
    stand for the same resource -/
theorem holds_unpack (a b : Routed) (h : Spec.C11.holds a b (modelNames a) (modelNames b) = true)
    (hc : a.rule.cacheId = b.rule.cacheId) (ka kb : KeyKind)
    (hka : ka ∈ kinds a.req.header) (hkb : kb ∈ kinds b.req.header)
    (hn : keyString (kindKey (ov a) ka) = keyString (kindKey (ov b) kb)) :
    resourceId a ka = resourceId b kb := by
  unfold Spec.C11.holds at h
  simp only [Bool.and_eq_true, List.isEmpty_iff] at h
  have hcl := h.2
  unfold clashes at hcl
  rw [if_neg (by simpa using hc)] at hcl
  rw [List.flatMap_eq_nil_iff] at hcl
  have ma : (keyString (kindKey (ov a) ka), ka) ∈ tagged a (modelNames a) := by
    unfold tagged modelNames
    rw [modelKeys_eq, List.map_map]
    exact mem_zip_map_of_mem (keyString ∘ kindKey (ov a)) _ ka hka
  have mb : (keyString (kindKey (ov b) kb), kb) ∈ tagged b (modelNames b) := by
    unfold tagged modelNames
    rw [modelKeys_eq, List.map_map]
    exact mem_zip_map_of_mem (keyString ∘ kindKey (ov b)) _ kb hkb
  have h1 := hcl _ ma
  rw [List.filterMap_eq_nil_iff] at h1
  have h2 := h1 _ mb
  simp only [ite_eq_right_iff, reduceCtorEq, imp_false, not_and, Decidable.not_not] at h2
  exact h2 hn

/-- a key of a routed request is the key of one of the kinds the request consults -/
theorem mem_modelKeys (x : Routed) (k : Key) (h : k ∈ modelKeys x) :
    ∃ kind, kind ∈ kinds x.req.header ∧ k = kindKey (ov x) kind := by
  rw [modelKeys_eq] at h
  obtain ⟨kind, hk, rfl⟩ := List.mem_map.1 h
  exact ⟨kind, hk, rfl⟩

/-- equal Origin identities of two consulted entries: the requests agree on the presence of an
    Origin, and — unless the entries are the opaque-origin ones, which every Origin shares — on
    its value -/
theorem origin_of_originId (hg hr : Header) (kg kr : KeyKind)
    (hkg : kg ∈ kinds hg) (hkr : kr ∈ kinds hr) (h : originId hg kg = originId hr kr) :
    originPresent hg = originPresent hr ∧
    (kr ≠ .opaqueOrigin →
      Spec.C11Sys.originIdentity (originValues hg) = Spec.C11Sys.originIdentity (originValues hr)) := by
  unfold kinds at hkg hkr
  have hid : ∀ hd : Header, originPresent hd = false → Spec.C11Sys.originIdentity (originValues hd) = [] := by
    intro hd hp
    unfold originPresent Header.get at hp
    unfold Spec.C11Sys.originIdentity originValues
    rw [hp]; rfl
  cases hpg : originPresent hg <;> cases hpr : originPresent hr <;>
    simp only [hpg, hpr, ↓reduceIte, List.mem_cons, List.not_mem_nil, or_false, Bool.false_eq_true] at hkg hkr
  · subst hkg; subst hkr
    exact ⟨rfl, fun _ => by rw [hid _ hpg, hid _ hpr]⟩
  · subst hkg
    rcases hkr with hkr | hkr <;> subst hkr <;> simp [originId] at h
  · subst hkr
    rcases hkg with hkg | hkg <;> subst hkg <;> simp [originId] at h
  · refine ⟨rfl, fun hne => ?_⟩
    rcases hkr with hkr | hkr
    · subst hkr
      rcases hkg with hkg | hkg <;> subst hkg
      · simp only [originId, OriginId.value.injEq] at h
        rw [h]
      · simp [originId] at h
    · exact absurd hkr hne

/-- the field tests of the system oracle, from the agreements the function level provides -/
theorem mismatch_none_of_agreement {rules : List Rule} {g r : CReq} {cg x : Ctx}
    (hg : route rules g = some cg) (varies : Bool)
    (hd : dest (routedOf g cg) = dest (routedOf r x))
    (hdef : dest (routedOf r x) ≠ none)
    (hm : methodClass g.method = methodClass r.method)
    (hae : acceptEncoding g.header = acceptEncoding r.header)
    (hau : authorization g.header = authorization r.header)
    (hop : originPresent g.header = originPresent r.header)
    (hov : varies = true →
      Spec.C11Sys.originIdentity (originValues g.header) = Spec.C11Sys.originIdentity (originValues r.header)) :
    Spec.C11Sys.mismatch (routedOf r x) (echoOf cg.tag) varies = none := by
  obtain ⟨hh, u, hc, htag⟩ := route_tag hg
  obtain ⟨u0, p, _, hp, _, h2, h3⟩ := contact_dest cg.rule g hh u hc
  have hdg : dest (routedOf g cg) =
      if Url.escapesOk u0.fragment then some ⟨hh, UrlEsc.wirePath p, sentQuery g⟩ else none := h3
  have hq := Go.UrlEsc.not_mem_wirePath _ (Go.UrlEsc.not_mem_escapedPath _ _ hp)
  obtain ⟨c1, c2⟩ := cut_rendered (UrlEsc.wirePath p) (sentQuery g) hq
  rw [← h2] at c1 c2
  cases hdr : dest (routedOf r x) with
  | none => exact absurd hdr hdef
  | some d =>
    rw [hdr] at hd
    rw [hd] at hdg
    have hdd : d = ⟨hh, UrlEsc.wirePath p, sentQuery g⟩ := by
      by_cases hf : Url.escapesOk u0.fragment = true
      · simpa [hf] using hdg
      · simp [hf] at hdg
    unfold Spec.C11Sys.mismatch
    rw [hdr]
    have e1 : (echoOf cg.tag).host = d.authority := by rw [htag, hdd]; rfl
    have e2 : Spec.C11Sys.echoPath (echoOf cg.tag) = d.path := by
      rw [htag, hdd]; exact c1
    have e3 : Spec.C11Sys.echoQuery (echoOf cg.tag) = d.query := by
      rw [htag, hdd]; exact c2
    have e4 : methodClass (echoOf cg.tag).method = methodClass (routedOf r x).req.method := by
      rw [htag]; exact hm
    have e5 : (echoOf cg.tag).ae = acceptEncoding (routedOf r x).req.header := by
      rw [htag]; exact hae
    have e6 : (echoOf cg.tag).auth = authorization (routedOf r x).req.header := by
      rw [htag]; exact hau
    have e7 : Spec.C11Sys.echoOriginPresent (echoOf cg.tag) = originPresent (routedOf r x).req.header := by
      rw [htag]; exact hop
    have e8 : varies = true → Spec.C11Sys.originIdentity (echoOf cg.tag).origin =
        Spec.C11Sys.originIdentity (originValues (routedOf r x).req.header) := by
      rw [htag]; exact hov
    simp only [e1, e2, e3, e4, e5, e6, e7, ne_eq, not_true_eq_false, ↓reduceIte]
    by_cases hv : varies = true
    · simp [e8 hv]
    · simp [hv]

/-! ### the oracle's `varies` and the model's `VaryByOrigin()` -/

def hdrOf (cc vary : Bytes) : Header :=
  let h : Header := []
  let h := if cc = [] then h else Header.set h b!"Cache-Control" cc
  if vary = [] then h else Header.set h b!"Vary" vary

theorem originHeader_eq (uri : Bytes) : originHeader uri = hdrOf (ccOf uri) (varyOf uri) := rfl

def ccVals : List Bytes := [b!"no-store", [], b!"public, max-age=600", b!"max-age=60"]
def varyVals : List Bytes := [b!"Accept-Encoding, Origin", b!"Origin", b!"Accept-Encoding", []]

theorem ccOf_mem (uri : Bytes) : ccOf uri ∈ ccVals := by
  unfold ccOf ccVals
  repeat' split
  all_goals simp

theorem varyOf_mem (uri : Bytes) : varyOf uri ∈ varyVals := by
  unfold varyOf varyVals
  repeat' split
  all_goals simp

theorem varies_table : ∀ cc ∈ ccVals, ∀ v ∈ varyVals,
    (getCacheControlDirectives (hdrOf cc v)).varyByOrigin = Spec.C11Sys.variesByOrigin [v, v] := by
  decide

/-- on the scripted origin of stream `sysk`, the oracle's "varies by Origin" is the model's
    `dirs.VaryByOrigin()` -/
theorem varies_model (uri : Bytes) :
    Spec.C11Sys.variesByOrigin [varyOf uri, varyOf uri] = modelVaries uri := by
  unfold modelVaries
  rw [originHeader_eq]
  exact (varies_table _ (ccOf_mem uri) _ (varyOf_mem uri)).symm

end Lemmas.C11Compose
