import RrModel.Generated.Facts
import RrModel.Spec.Tables
/-
  Fact pins: the tables regenerated from /repo's working tree (RrModel/Generated/Facts.lean)
  equal the specification tables the property statements are written against.  A change to a
  table in the Go source makes the corresponding `decide` fail at `lake build`.
-/
namespace Pins
open Go

theorem nonForwarded : Facts.nonForwarded = Spec.hopByHopAndHost := by rfl
theorem internalHeaderNames : Facts.internalHeaderNames = Spec.richieHeaders := by rfl
theorem retryableExcludedMethod : Facts.retryableExcludedMethod = b!"POST" := by rfl
theorem is4xx : (Facts.is4xxLo, Facts.is4xxHi) = (400, 499) := by rfl
theorem userErrorCodes : Facts.userErrorCodes = Spec.userErrorCodes := by rfl
theorem knownMethods : Facts.knownMethods = Spec.knownMethods := by rfl
theorem knownTypes : Facts.knownTypes = Spec.knownTypes := by rfl
theorem matchLoopShape : Facts.matchLoopShape = Spec.matchLoopShape := by rfl
theorem keyClientHeaders : Facts.keyClientHeaders = Spec.keyClientHeaders := by rfl
theorem cacheableError : (Facts.cacheableErrorLo, Facts.cacheableErrorHi) = (400, 404) := by rfl
theorem headersAllowedIn304 : Facts.headersAllowedIn304 = Spec.headersAllowedIn304 := by rfl
theorem redirectStatuses : Facts.redirectStatuses = Spec.redirectStatuses := by rfl
theorem waitSeconds : Facts.waitSeconds = [30, 10, 5] := by rfl

end Pins
