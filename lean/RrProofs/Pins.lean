import RrModel.Generated.Facts
import RrModel.Spec.Tables
import RrModel.Spec.LimiterTables
/-
  Fact pins: the tables regenerated from /repo's working tree (RrModel/Generated/Facts.lean)
  equal the specification tables the property statements are written against.  A change to a
  table in the Go source makes the corresponding `decide` fail at `lake build`.
-/
namespace Pins
open Go

theorem nonForwarded : Facts.nonForwarded = Spec.hopByHopAndHost := by rfl
theorem internalHeaderNames : Facts.internalHeaderNames = Spec.richieHeaders := by rfl
theorem retryableExcludedMethod : Facts.retryableExcludedMethod = b!"POST" := by rfl
theorem is4xx : (Facts.is4xxLo, Facts.is4xxHi) = (400, 499) := by rfl
theorem userErrorCodes : Facts.userErrorCodes = Spec.userErrorCodes := by rfl
theorem knownMethods : Facts.knownMethods = Spec.knownMethods := by rfl
theorem knownTypes : Facts.knownTypes = Spec.knownTypes := by rfl
theorem matchLoopShape : Facts.matchLoopShape = Spec.matchLoopShape := by rfl
theorem keyClientHeaders : Facts.keyClientHeaders = Spec.keyClientHeaders := by rfl
theorem cacheableError : (Facts.cacheableErrorLo, Facts.cacheableErrorHi) = (400, 404) := by rfl
theorem headersAllowedIn304 : Facts.headersAllowedIn304 = Spec.headersAllowedIn304 := by rfl
theorem redirectStatuses : Facts.redirectStatuses = Spec.redirectStatuses := by rfl
theorem waitSeconds : Facts.waitSeconds = [30, 10, 5] := by rfl
theorem maxRedirects : Facts.maxRedirects = Spec.maxRedirects := by rfl
theorem effectsClose : Facts.effectsClose = Spec.effectsClose := by rfl
theorem effectsWriteHeader : Facts.effectsWriteHeader = Spec.effectsWriteHeader := by rfl
theorem effectsWrite : Facts.effectsWrite = Spec.effectsWrite := by rfl
theorem effectsDelete : Facts.effectsDelete = Spec.effectsDelete := by rfl
theorem effectsChangeKey : Facts.effectsChangeKey = Spec.effectsChangeKey := by rfl
theorem effectsFinishAndNotify : Facts.effectsFinishAndNotify = Spec.effectsFinishAndNotify := by rfl
theorem effectsCreateIfNotExists : Facts.effectsCreateIfNotExists = Spec.effectsCreateIfNotExists := by rfl
theorem recompressTable : Facts.recompressTable = Spec.recompressTable := by rfl
theorem cacheable4xxCacheControl : Facts.cacheable4xxCacheControl = Spec.cacheable4xxCacheControl := by rfl
theorem cacheStatusHeader : Facts.cacheStatusHeader = Spec.cacheStatusHeader := by rfl
theorem storePrepShape : Facts.storePrepShape = Spec.storePrepShape := by rfl
theorem reloadSteps : Facts.reloadSteps = Spec.reloadSteps := by rfl
theorem purgeIntervalSec : Facts.purgeIntervalSec = Spec.purgeIntervalSec := by rfl
theorem maxPurgeBytes : Facts.maxPurgeBytes = Spec.maxPurgeBytes := by rfl
theorem kbDivisor : Facts.kbDivisor = Spec.kbDivisor := by rfl
theorem limiterArith : Facts.limiterArith = Spec.limiterArith := by rfl
theorem atimeFlushShape : Facts.atimeFlushShape = Spec.atimeFlushShape := by rfl
theorem limiterOpSwitch : Facts.limiterOpSwitch = Spec.limiterOpSwitch := by rfl
theorem closeFinisherShape : Facts.closeFinisherShape = Spec.closeFinisherShape := by rfl
theorem finishAndNotifyShape : Facts.finishAndNotifyShape = Spec.finishAndNotifyShape := by rfl
theorem setAccessTimeShape : Facts.setAccessTimeShape = Spec.setAccessTimeShape := by rfl
theorem getAccessCall : Facts.getAccessCall = Spec.getAccessCall := by rfl
theorem getStorageMetadataShape : Facts.getStorageMetadataShape = Spec.getStorageMetadataShape := by rfl
theorem sendBodySites : Facts.sendBodySites = Spec.sendBodySites := by rfl
theorem runSizeLimiterShape : Facts.runSizeLimiterShape = Spec.runSizeLimiterShape := by rfl
theorem cachingFuncCalls : Facts.cachingFuncCalls = Spec.cachingFuncCalls := by rfl
theorem readMappingShape : Facts.readMappingShape = Spec.readMappingShape := by rfl

theorem readerNotifierShape : Facts.readerNotifierShape = Spec.readerNotifierShape := by rfl
theorem retryableShape : Facts.retryableShape = Spec.retryableShape := by rfl
theorem writeErrorShape : Facts.writeErrorShape = Spec.writeErrorShape := by rfl
theorem writeBodyShape : Facts.writeBodyShape = Spec.writeBodyShape := by rfl
theorem newRouterShape : Facts.newRouterShape = Spec.newRouterShape := by rfl
end Pins
