import RrModel.Spec.C06
import RrModel.Generated.Facts
import RrProofs.Lemmas.Recompress
/-
  C06 — Recompression never changes the decoded content.
  Only property theorems, their non-vacuity examples, and the lemmas local to them.
-/
namespace Props.C06
open Go Model.Recompress Spec.C06

/-! ### the table -/

/-- the rows read off util/compress.go equal the rows computed by the model functions on class
    representatives -/
theorem table_pinned : Facts.recompressTable = renderedTable := by rfl

/-- Every triple of byte strings falls in exactly one class (the three classifiers are total
    functions into finite types) and `GetRecompression` depends only on the class: this lifts
    the finite 4 × 5 × 3 table to ALL strings. -/
theorem classification (ae ce ct : Bytes) :
    getRecompression ae ce ct = table (acceptsEncodingFromString ae) (ceClass ce) (ctClass ct) := by
  unfold getRecompression fallbackCompressionWithDefault ceClass ctClass
  cases acceptsEncodingFromString ae <;>
    by_cases h1 : ce = [] <;> by_cases h2 : ce = b!"identity" <;> by_cases h3 : ce = b!"gzip" <;>
    by_cases h4 : ce = b!"br" <;> by_cases h5 : ct = b!"application/json" <;>
    by_cases h6 : hasPrefix ct b!"text/" = true <;>
    simp_all [table, compressible]

/-- the classes are inhabited: each of the 60 cells has a representative triple -/
def repCE : CeClass → Bytes
  | .empty => [] | .identity => b!"identity" | .gzip => b!"gzip" | .br => b!"br" | .other => b!"deflate"
def repCT : CtClass → Bytes
  | .json => b!"application/json" | .text => b!"text/html" | .other => b!"image/png"

theorem classes_inhabited :
    (∀ a ∈ allAccepts, acceptsEncodingFromString (repAE a) = a) ∧
    (∀ c ∈ allCe, ceClass (repCE c) = c) ∧ (∀ t ∈ allCt, ctClass (repCT t) = t) := by decide

theorem allClasses_complete (a : Accepts) (c : CeClass) (t : CtClass) :
    a ∈ allAccepts ∧ c ∈ allCe ∧ t ∈ allCt := by
  cases a <;> cases c <;> cases t <;> decide

/-- two triples in the same class get the same decision -/
theorem same_class_same_decision (ae ce ct ae' ce' ct' : Bytes)
    (ha : acceptsEncodingFromString ae = acceptsEncodingFromString ae')
    (hc : ceClass ce = ceClass ce') (ht : ctClass ct = ctClass ct') :
    getRecompression ae ce ct = getRecompression ae' ce' ct' := by
  rw [classification, classification, ha, hc, ht]

example : getRecompression b!"abracadabra" [] b!"text/css" = getRecompression b!"gzip, deflate, br" [] b!"text/html" :=
  same_class_same_decision _ _ _ _ _ _ (by decide) (by decide) (by decide)

/-! ### header facts about the response path -/

theorem canon_CE : canon kContentEncoding = b!"Content-Encoding" := by decide
theorem canon_CL : canon kContentLength = b!"Content-Length" := by decide
theorem canon_Vary : canon kVary = b!"Vary" := by decide
theorem canon_CS : canon kCacheStatus = b!"Richie-Edge-Cache" := by decide
theorem canon_CC : canon kCacheControl = b!"Cache-Control" := by decide
theorem canon_CT : canon kContentType = b!"Content-Type" := by decide

/-- the header map before the rewrite: the origin's plus the cache-status marker -/
def copied (x : Input) : Header := clearAndCopyHeaders x.originHeaders [(kCacheStatus, b!"pass")]

theorem copied_eq (x : Input) : copied x = x.originHeaders.set kCacheStatus b!"pass" := rfl

/-- the delivered Content-Encoding as a function of the decision -/
theorem delivered_CE (rc : Recompression) (x : Input) :
    (rewriteAdd rc (rewriteRemove rc (copied x))).get kContentEncoding =
      if rc.add ≠ .none then contentEncodingFromCompressionType rc.add
      else if rc.remove = .gzip then [] else x.originHeaders.get kContentEncoding := by
  unfold rewriteAdd rewriteRemove
  rw [copied_eq]
  by_cases ha : rc.add = .none <;> by_cases hr : rc.remove = .gzip <;>
    simp [ha, hr, Header.get_set, Header.get_del, canon_CE, canon_CL, canon_Vary, canon_CS]

/-- what the decision can be, and what it says about the origin's Content-Encoding -/
theorem decision_cases (x : Input) :
    decision x = ⟨.none, .none⟩ ∨
    (x.originHeaders.get kContentEncoding = b!"gzip" ∧ (decision x = ⟨.brotli, .gzip⟩ ∨ decision x = ⟨.none, .gzip⟩)) ∨
    ((x.originHeaders.get kContentEncoding = [] ∨ x.originHeaders.get kContentEncoding = b!"identity") ∧
      (decision x = ⟨.gzip, .none⟩ ∨ decision x = ⟨.brotli, .none⟩)) := by
  unfold decision
  by_cases hg : (x.flag && canTransform (cacheControlOf x.originHeaders)) = true
  · rw [if_pos hg]
    generalize x.originHeaders.get kContentEncoding = ce
    generalize x.originHeaders.get kContentType = ct
    unfold getRecompression acceptsEncodingFromString fallbackCompressionWithDefault
    by_cases s1 : contains x.ae b!";" = true <;> by_cases s2 : contains x.ae b!"br" = true <;>
      by_cases s3 : contains x.ae b!"gzip" = true <;>
      by_cases h1 : ce = [] <;> by_cases h2 : ce = b!"identity" <;> by_cases h3 : ce = b!"gzip" <;>
      by_cases h4 : ce = b!"br" <;>
      by_cases h5 : (ct = b!"application/json" ∨ hasPrefix ct b!"text/" = true) <;>
      simp_all
  · simp [hg]

/-! ### clause 1: the decoded content -/

theorem toyExt_lawful : toyExt.Lawful := ⟨fun _ => rfl, fun _ => rfl⟩

/-- full statement: for every lawful codec and every exchange, decoding what is delivered under
    the delivered label gives the origin's decoded content -/
def StatementContent : Prop :=
  ∀ (E : Ext), E.Lawful → ∀ x : Input, contentOk E x (respond E x) = true

theorem respond_eq (E : Ext) (x : Input) (rc : Recompression) (h : decision x = rc) :
    respond E x =
      match (if rc.remove = .gzip then E.gzipDec x.originBody else some x.originBody) with
      | none => { status := 500, headers := copied x, body := [] }
      | some plain =>
        { status := 200, headers := rewriteAdd rc (rewriteRemove rc (copied x)), body := encode E rc.add plain } := by
  unfold respond handle; rw [h]; rfl

/-- **Clause 1 at full strength** (no class excluded since the repair of C06-a): the content is
    preserved for all strings, all bodies and every codec satisfying the round-trip laws. -/
theorem content_preserved : StatementContent := by
  intro E hE x
  unfold contentOk
  cases hdec : decoded E (x.originHeaders.get kContentEncoding) x.originBody with
  | none => rfl
  | some c =>
    simp only
    rcases decision_cases x with h | ⟨hce, h | h⟩ | ⟨hce, h | h⟩
    · -- pass-through
      rw [respond_eq E x _ h]
      simp [delivered_CE, encode, hdec]
    · -- gunzip, then brotli
      rw [hce] at hdec
      rw [respond_eq E x _ h]
      cases hg : E.gzipDec x.originBody with
      | none => simp [decoded, coding, toLower, lowerByte, hg] at hdec
      | some p =>
        have hc : c = ([], p) := by simpa [decoded, coding, toLower, lowerByte, hg] using hdec.symm
        simp [delivered_CE, encode, contentEncodingFromCompressionType, decoded, coding, toLower, lowerByte, hE.br, hc]
    · -- gunzip only (broken client)
      rw [hce] at hdec
      rw [respond_eq E x _ h]
      cases hg : E.gzipDec x.originBody with
      | none => simp [decoded, coding, toLower, lowerByte, hg] at hdec
      | some p =>
        have hc : c = ([], p) := by simpa [decoded, coding, toLower, lowerByte, hg] using hdec.symm
        simp [delivered_CE, encode, decoded, coding, toLower, hc]
    · -- gzip added to an identity body
      have hc : c = ([], x.originBody) := by
        rcases hce with hce | hce <;> rw [hce] at hdec <;>
          simpa [decoded, coding, toLower, lowerByte] using hdec.symm
      rw [respond_eq E x _ h]
      simp [delivered_CE, encode, contentEncodingFromCompressionType, decoded, coding, toLower, lowerByte, hE.gzip, hc]
    · -- brotli added to an identity body
      have hc : c = ([], x.originBody) := by
        rcases hce with hce | hce <;> rw [hce] at hdec <;>
          simpa [decoded, coding, toLower, lowerByte] using hdec.symm
      rw [respond_eq E x _ h]
      simp [delivered_CE, encode, contentEncodingFromCompressionType, decoded, coding, toLower, lowerByte, hE.br, hc]

/-- regression instance (the former finding C06-a, repaired by a `fix:` commit):
    `Accept-Encoding: gzip`, origin `Content-Encoding: br`, rule flag on -/
def witnessA : Input :=
  { flag := true, ae := b!"gzip",
    originHeaders := Header.add (Header.add [] kContentType b!"text/html") kContentEncoding b!"br",
    originBody := toyExt.brEnc b!"hello" }

/-- the model (like the repaired code) passes the origin's Brotli stream through, labelled `br`
    once (it used to deliver Brotli-of-Brotli under that label); the whole oracle accepts it -/
example : decision witnessA = ⟨.none, .none⟩ ∧
    (respond toyExt witnessA).body = toyExt.brEnc b!"hello" ∧
    (respond toyExt witnessA).headers.get kContentEncoding = b!"br" ∧
    contentOk toyExt witnessA (respond toyExt witnessA) = true ∧
    holds toyExt witnessA (respond toyExt witnessA) = true := by decide

-- the same cell for any Content-Type and a longer gzip-class Accept-Encoding
example :
    let x := { witnessA with ae := b!"gzip, deflate", originHeaders := Header.add (Header.add [] kContentType b!"image/png") kContentEncoding b!"br" }
    decision x = ⟨.none, .none⟩ ∧ (respond toyExt x).body = x.originBody ∧ contentOk toyExt x (respond toyExt x) = true := by decide

-- non-vacuity: the theorem speaks about transformed exchanges (gunzip + Brotli; gzip added)
example : toyExt.Lawful ∧
    decision { witnessA with ae := b!"gzip, br", originHeaders := Header.add [] kContentEncoding b!"gzip" } = ⟨.brotli, .gzip⟩ ∧
    decision { witnessA with originHeaders := Header.add [] kContentType b!"text/html" } = ⟨.gzip, .none⟩ :=
  ⟨toyExt_lawful, by decide, by decide⟩

/-! ### clause 2: the delivered encoding -/

/-- full statement: the delivered coding is the origin's own or one the client listed -/
def StatementEncoding : Prop := ∀ (E : Ext) (x : Input), encodingOk x (respond E x) = true

/-- which Accept-Encoding values lead to which added coding -/
theorem decision_add (x : Input) :
    ((decision x).add = .gzip →
      gateOpen x = true ∧ contains x.ae b!";" = false ∧ contains x.ae b!"br" = false ∧ contains x.ae b!"gzip" = true) ∧
    ((decision x).add = .brotli →
      gateOpen x = true ∧ contains x.ae b!";" = false ∧ contains x.ae b!"br" = true) := by
  unfold decision gateOpen
  by_cases hg : (x.flag && canTransform (cacheControlOf x.originHeaders)) = true
  · rw [if_pos hg, hg]
    generalize x.originHeaders.get kContentEncoding = ce
    generalize x.originHeaders.get kContentType = ct
    unfold getRecompression acceptsEncodingFromString fallbackCompressionWithDefault
    by_cases s1 : contains x.ae b!";" = true <;> by_cases s2 : contains x.ae b!"br" = true <;>
      by_cases s3 : contains x.ae b!"gzip" = true <;>
      by_cases h1 : ce = [] <;> by_cases h2 : ce = b!"identity" <;>
      by_cases h3 : ce = b!"gzip" <;> by_cases h4 : ce = b!"br" <;>
      by_cases h5 : (ct = b!"application/json" ∨ hasPrefix ct b!"text/" = true) <;>
      simp_all
  · simp [hg]

/-- the headers of the response whatever the reader did -/
theorem respond_CE (E : Ext) (x : Input) :
    (respond E x).headers.get kContentEncoding = x.originHeaders.get kContentEncoding ∨
    ((respond E x).status = 200 ∧
      (respond E x).headers = rewriteAdd (decision x) (rewriteRemove (decision x) (copied x))) := by
  rw [respond_eq E x _ rfl]
  cases (if (decision x).remove = .gzip then E.gzipDec x.originBody else some x.originBody) with
  | none => left; simp [copied_eq, Header.get_set, canon_CE, canon_CS]
  | some p => right; simp

/-- C06-c excluded: if every substring hit is also a token hit, the delivered coding is the
    origin's own, identity, or one the client listed. -/
theorem delivered_encoding_allowed_partial (E : Ext) (x : Input)
    (hcls : inClass_C06_c x = false) : encodingOk x (respond E x) = true := by
  unfold encodingOk
  rcases respond_CE E x with h | ⟨_, h⟩
  · simp [h]
  · rw [h, delivered_CE]
    have hadd := decision_add x
    cases hA : (decision x).add with
    | none =>
      by_cases hr : (decision x).remove = .gzip
      · simp [hr, coding, clientLists, toLower]
      · simp [hr]
    | gzip =>
      obtain ⟨hg, h1, h2, h3⟩ := hadd.1 hA
      have : clientLists x.ae b!"gzip" = true := by
        simp only [inClass_C06_c, hg, h1, h2, h3] at hcls
        simpa using hcls
      simp [contentEncodingFromCompressionType, coding, toLower, lowerByte, this]
    | brotli =>
      obtain ⟨hg, h1, h2⟩ := hadd.2 hA
      have : clientLists x.ae b!"br" = true := by
        simp only [inClass_C06_c, hg, h1, h2] at hcls
        simpa using hcls
      simp [contentEncodingFromCompressionType, coding, toLower, lowerByte, this]

/-- witness of C06-c: `Accept-Encoding: abracadabra` counts as Brotli support -/
def witnessC : Input :=
  { flag := true, ae := b!"abracadabra",
    originHeaders := Header.add [] kContentType b!"text/html", originBody := b!"hello" }

theorem encoding_fails_witness : encodingOk witnessC (respond toyExt witnessC) = false := by decide

theorem witnessC_delivered :
    (respond toyExt witnessC).headers.get kContentEncoding = b!"br" ∧ clientLists witnessC.ae b!"br" = false := by decide

theorem StatementEncoding_false : ¬ StatementEncoding := fun h => by
  have := h toyExt witnessC
  rw [encoding_fails_witness] at this
  cases this

example : inClass_C06_c { witnessC with ae := b!"gzip, deflate, br" } = false ∧
    (decision { witnessC with ae := b!"gzip, deflate, br" }).add = .brotli := by decide

/-! ### clause 3: recompression off / no-transform -/

/-- full statement: rule flag off, or the origin says no-transform (on any Cache-Control line)
    ⇒ bytes and headers are the origin's, up to the documented cache-status header -/
def StatementOff : Prop := ∀ (E : Ext) (x : Input), offOk x (respond E x) = true

theorem respond_gate_closed (E : Ext) (x : Input) (h : gateOpen x = false) :
    respond E x = { status := 200, headers := copied x, body := x.originBody } := by
  have hd : decision x = ⟨.none, .none⟩ := by
    unfold decision; unfold gateOpen at h; simp [h]
  rw [respond_eq E x _ hd]
  simp [rewriteAdd, rewriteRemove, encode]

/-- the gate's substring test sees every no-transform directive of a line that is part of the
    string it looks at: token-level `no-transform` (any case, OWS around it) on `line`, and
    `line` an infix of `s` ⇒ `canTransform s = false` -/
theorem gate_sees_infix (s pre post line : Bytes) (hs : s = pre ++ line ++ post)
    (h : (listMembers line).contains b!"no-transform" = true) : canTransform s = false := by
  have hm : b!"no-transform" ∈ listMembers line := by simpa using h
  unfold listMembers at hm
  rw [List.mem_filter, List.mem_map] at hm
  obtain ⟨⟨t, ht, hn⟩, _⟩ := hm
  obtain ⟨pre', post', hl⟩ := mem_split1_infix 44 line t ht
  obtain ⟨a, b, htr⟩ := trim_infix ows t
  have hlow : toLower s = toLower (pre ++ pre' ++ a) ++ b!"no-transform" ++ toLower (b ++ post' ++ post) := by
    unfold norm at hn
    rw [hs, hl, htr, ← hn]
    simp [toLower]
  have hidx : (index b!"no-transform" (toLower s)).isSome = true := by
    rw [hlow]; exact index_isSome_of_infix _ _ _
  have hlen : s.length > 0 := by
    cases s with
    | nil => simp [toLower] at hlow
    | cons c r => simp
  unfold canTransform
  rw [if_pos hlen]
  cases hi : index b!"no-transform" (toLower s) with
  | none => rw [hi] at hidx; cases hidx
  | some i => rfl

/-- the single-line form: a directive on a line makes `canTransform` false for that line -/
theorem gate_sees_line (line : Bytes) (h : (listMembers line).contains b!"no-transform" = true) :
    canTransform line = false :=
  gate_sees_infix line [] [] line (by simp) h

example : (listMembers b!"public,\tNo-Transform ").contains b!"no-transform" = true ∧
    canTransform b!"public,\tNo-Transform " = false := by decide

/-- the gate (proxy.go:272, all Cache-Control lines joined with ", ") sees a no-transform
    directive on ANY Cache-Control line of the origin's response -/
theorem gate_sees_any_line (h : Header) (hnt : noTransform h = true) :
    canTransform (cacheControlOf h) = false := by
  unfold noTransform at hnt
  rw [List.any_eq_true] at hnt
  obtain ⟨line, hmem, hdir⟩ := hnt
  obtain ⟨pre, post, hj⟩ := mem_join_infix b!", " (h.values kCacheControl) line hmem
  exact gate_sees_infix _ pre post line hj hdir

/-- **Clause 3 at full strength** (no class excluded since the repair of C06-d): with the rule
    flag off, or with a no-transform directive on any Cache-Control line, the response is the
    origin's, up to the documented cache-status header. -/
theorem identity_when_off : StatementOff := by
  intro E x
  unfold offOk
  by_cases hoff : (!x.flag || noTransform x.originHeaders) = true
  · rw [if_pos hoff]
    have hg : gateOpen x = false := by
      cases hf : x.flag with
      | false => simp [gateOpen, hf]
      | true =>
        have : noTransform x.originHeaders = true := by simpa [hf] using hoff
        simp [gateOpen, gate_sees_any_line x.originHeaders this]
    rw [respond_gate_closed E x hg]
    simp [withoutAdditions, copied_eq, Header.del_set_same]
  · simp [hoff]

/-- the two sub-cases, stated directly -/
theorem identity_when_flag_off (E : Ext) (x : Input) (h : x.flag = false) :
    respond E x = { status := 200, headers := copied x, body := x.originBody } :=
  respond_gate_closed E x (by simp [gateOpen, h])

theorem identity_when_gate_sees_no_transform (E : Ext) (x : Input)
    (h : canTransform (cacheControlOf x.originHeaders) = false) :
    respond E x = { status := 200, headers := copied x, body := x.originBody } :=
  respond_gate_closed E x (by simp [gateOpen, h])

/-- the origin says no-transform (token level, any Cache-Control line) ⇒ the response is the
    origin's plus the cache-status header, whatever the rule flag and the client -/
theorem identity_when_no_transform (E : Ext) (x : Input) (h : noTransform x.originHeaders = true) :
    respond E x = { status := 200, headers := copied x, body := x.originBody } :=
  identity_when_gate_sees_no_transform E x (gate_sees_any_line x.originHeaders h)

/-- regression instance (the former finding C06-d, repaired by a `fix:` commit):
    `Cache-Control: max-age=60` and `Cache-Control: no-transform` as two lines -/
def witnessD : Input :=
  { flag := true, ae := b!"gzip",
    originHeaders := Header.add (Header.add (Header.add [] kContentType b!"text/html")
      kCacheControl b!"max-age=60") kCacheControl b!"no-transform",
    originBody := b!"hello" }

/-- the model (like the repaired code) tests the joined lines and leaves the response alone (it
    used to be gzip-compressed: only the first line was looked at) -/
example : cacheControlOf witnessD.originHeaders = b!"max-age=60, no-transform" ∧
    witnessD.originHeaders.get kCacheControl = b!"max-age=60" ∧
    noTransform witnessD.originHeaders = true ∧
    decision witnessD = ⟨.none, .none⟩ ∧
    (respond toyExt witnessD).body = b!"hello" ∧
    (respond toyExt witnessD).headers.get kContentEncoding = [] := by decide

example : offOk witnessD (respond toyExt witnessD) = true := identity_when_off toyExt witnessD

/-- the directive on a third line, in another case and with OWS, behind a Brotli client -/
def witnessD3 : Input :=
  { flag := true, ae := b!"gzip, br",
    originHeaders := Header.add (Header.add (Header.add (Header.add [] kContentType b!"application/json")
      kCacheControl b!"public") kCacheControl b!"max-age=60") kCacheControl b!"immutable,\tNo-Transform ",
    originBody := b!"{}" }

example : noTransform witnessD3.originHeaders = true ∧ decision witnessD3 = ⟨.none, .none⟩ ∧
    (respond toyExt witnessD3).body = witnessD3.originBody := by decide

-- non-vacuity: the clause is about exchanges that WOULD be transformed without the directive
-- (same exchange, directive removed: gzip is added), and about a single-line directive too
example : decision { witnessD with originHeaders := Header.add (Header.add [] kContentType b!"text/html") kCacheControl b!"max-age=60" } = ⟨.gzip, .none⟩ ∧
    noTransform (Header.add [] kCacheControl b!"public, No-Transform") = true ∧
    canTransform (cacheControlOf (Header.add [] kCacheControl b!"public, No-Transform")) = false := by decide

/-! ### clause 4: no stale Content-Length -/

theorem delivered_CL (rc : Recompression) (x : Input) (h : rc.add ≠ .none ∨ rc.remove = .gzip) :
    (rewriteAdd rc (rewriteRemove rc (copied x))).values kContentLength = [] := by
  unfold rewriteAdd rewriteRemove
  by_cases ha : rc.add = .none <;> by_cases hr : rc.remove = .gzip <;>
    simp_all [Header.values_set, Header.values_del, canon_CE, canon_CL, canon_Vary]

/-- whenever the handler removes or adds a coding, the headers it writes carry no Content-Length -/
theorem no_stale_content_length (E : Ext) (x : Input)
    (h : (decision x).add ≠ .none ∨ (decision x).remove = .gzip) (hs : (respond E x).status = 200) :
    (respond E x).headers.values kContentLength = [] := by
  rw [respond_eq E x _ rfl] at hs ⊢
  cases hr : (if (decision x).remove = .gzip then E.gzipDec x.originBody else some x.originBody) with
  | none => rw [hr] at hs; simp at hs
  | some p => simpa using delivered_CL _ x h

/-- full statement in oracle form: on the property's domain a transformed response has no
    Content-Length -/
def StatementLength : Prop := ∀ (E : Ext) (x : Input), inDomain E x = true → lengthOk x (respond E x) = true

theorem length_holds_model : StatementLength := by
  intro E x hdom
  unfold lengthOk
  rcases decision_cases x with h | ⟨hce, h⟩ | ⟨_, h⟩
  · -- pass-through: nothing transformed
    have : transformed x (respond E x) = false := by
      rw [respond_eq E x _ h]
      simp [transformed, delivered_CE, encode]
    simp [this]
  · -- the origin's gzip stream decodes (domain), so the reader exists
    have hrem : (decision x).remove = .gzip := by rcases h with h | h <;> simp [h]
    unfold inDomain at hdom
    rw [hce] at hdom
    cases hg : E.gzipDec x.originBody with
    | none => simp [decoded, coding, toLower, lowerByte, hg] at hdom
    | some p =>
      have h200 : (respond E x).status = 200 := by
        rw [respond_eq E x _ rfl]; simp [hrem, hg]
      have := no_stale_content_length E x (Or.inr hrem) h200
      simp [this]
  · have hadd : (decision x).add ≠ .none := by rcases h with h | h <;> simp [h]
    have hrem : (decision x).remove ≠ .gzip := by rcases h with h | h <;> simp [h]
    have h200 : (respond E x).status = 200 := by
      rw [respond_eq E x _ rfl]; simp [hrem]
    have := no_stale_content_length E x (Or.inl hadd) h200
    simp [this]

example : (decision witnessC).add ≠ .none ∧ (respond toyExt witnessC).status = 200 ∧
    inDomain toyExt witnessC = true := by decide

/-! ### clause 5: Vary -/

/-- full statement: when an encoding was applied, the delivered Vary entries contain the
    origin's (all lines) and accept-encoding -/
def StatementVary : Prop := ∀ (E : Ext) (x : Input), inDomain E x = true → varyOk x (respond E x) = true

theorem listMembers_append_AE (v : Bytes) :
    listMembers (v ++ b!", " ++ kAcceptEncoding) = listMembers v ++ [acceptEncodingEntry] := by
  have h : v ++ b!", " ++ kAcceptEncoding = v ++ 44 :: (32 :: kAcceptEncoding) := by simp
  have h2 : split1 44 (32 :: kAcceptEncoding) = [32 :: kAcceptEncoding] := by decide
  have h3 : norm (32 :: kAcceptEncoding) = acceptEncodingEntry := by decide
  unfold listMembers
  rw [h, split1_append, h2, List.map_append, List.filter_append]
  simp [h3, acceptEncodingEntry]

theorem listMembers_AE : listMembers kAcceptEncoding = [acceptEncodingEntry] := by decide

/-- the delivered Vary lines after an add: one line, the rewritten FIRST origin line -/
theorem delivered_Vary (rc : Recompression) (x : Input) (h : rc.add ≠ .none) :
    (rewriteAdd rc (rewriteRemove rc (copied x))).values kVary =
      [varyRewrite (x.originHeaders.get kVary)] := by
  unfold rewriteAdd rewriteRemove
  rw [copied_eq]
  by_cases hr : rc.remove = .gzip <;>
    simp [h, hr, Header.values_set, Header.get_set, Header.get_del, canon_CE, canon_CL, canon_Vary, canon_CS]

theorem varyRewrite_eq (first : Bytes) :
    varyRewrite first = if first ≠ [] ∧ ¬ mentionsAE first = true then first ++ b!", " ++ kAcceptEncoding
      else kAcceptEncoding := by
  unfold varyRewrite mentionsAE
  have : toLower kAcceptEncoding = b!"accept-encoding" := by decide
  rw [this]
  cases first with
  | nil => simp
  | cons a t => simp

/-- C06-b excluded: if every origin Vary entry other than accept-encoding sits on a first line
    that survives the rewrite, the delivered Vary keeps the origin's entries and adds
    accept-encoding. -/
theorem vary_kept_partial (E : Ext) (x : Input) (hdom : inDomain E x = true)
    (hcls : inClass_C06_b x = false) : varyOk x (respond E x) = true := by
  unfold varyOk
  by_cases hadd : (decision x).add = .none
  · -- nothing added: the response does not count as "encoding applied"
    have : applied x (respond E x) = false := by
      rcases decision_cases x with h | ⟨hce, h⟩ | ⟨_, h⟩
      · rw [respond_eq E x _ h]; simp [applied, delivered_CE, encode]
      · rcases h with h | h
        · rw [h] at hadd; cases hadd
        · unfold inDomain at hdom
          rw [hce] at hdom
          cases hg : E.gzipDec x.originBody with
          | none => simp [decoded, coding, toLower, lowerByte, hg] at hdom
          | some p =>
            rw [respond_eq E x _ h]
            simp [applied, delivered_CE, hg, coding, toLower]
      · rcases h with h | h <;> rw [h] at hadd <;> cases hadd
    simp [this]
  · -- an encoding is added: the subset holds whether or not the oracle counts it as applied
    have hrem : (decision x).remove = .gzip → ∃ p, E.gzipDec x.originBody = some p := by
      intro hr
      rcases decision_cases x with h | ⟨hce, _⟩ | ⟨_, h⟩
      · rw [h] at hr; cases hr
      · unfold inDomain at hdom
        rw [hce] at hdom
        cases hg : E.gzipDec x.originBody with
        | none => simp [decoded, coding, toLower, lowerByte, hg] at hdom
        | some p => exact ⟨p, rfl⟩
      · rcases h with h | h <;> rw [h] at hr <;> cases hr
    have hh : (respond E x).headers = rewriteAdd (decision x) (rewriteRemove (decision x) (copied x)) := by
      rw [respond_eq E x _ rfl]
      by_cases hr : (decision x).remove = .gzip
      · obtain ⟨p, hp⟩ := hrem hr
        simp [hr, hp]
      · simp [hr]
    have hsub : subsetOf (varyEntries x.originHeaders ++ [acceptEncodingEntry]) (varyEntries (respond E x).headers) = true := by
      have hv : varyEntries (respond E x).headers = listMembers (varyRewrite (x.originHeaders.get kVary)) := by
        unfold varyEntries; rw [hh, delivered_Vary _ x hadd]; simp
      rw [hv, varyRewrite_eq]
      have hcls' : ∀ e ∈ varyEntries x.originHeaders, e = acceptEncodingEntry ∨
          e ∈ (if (x.originHeaders.values kVary).headD [] ≠ [] ∧ ¬ mentionsAE ((x.originHeaders.values kVary).headD []) = true
                then listMembers ((x.originHeaders.values kVary).headD []) else []) := by
        intro e he
        unfold inClass_C06_b at hcls
        have hadd' : ((decision x).add != .none) = true := by simpa using hadd
        rw [hadd', Bool.true_and] at hcls
        have := (List.any_eq_false.1 hcls) e he
        by_cases hea : e = acceptEncodingEntry
        · left; exact hea
        · right
          simp only [bne_iff_ne, ne_eq, hea, not_false_eq_true, Bool.not_eq_true,
            List.contains_eq_mem, Bool.and_eq_true] at this
          simpa using this
      have hget : x.originHeaders.get kVary = (x.originHeaders.values kVary).headD [] := rfl
      rw [hget]
      generalize (x.originHeaders.values kVary).headD [] = first at hcls' ⊢
      unfold subsetOf
      rw [List.all_eq_true]
      intro e he
      rw [List.mem_append] at he
      by_cases hc : first ≠ [] ∧ ¬ mentionsAE first = true
      · rw [if_pos hc] at hcls' ⊢
        rw [listMembers_append_AE]
        rcases he with he | he
        · rcases hcls' e he with h | h
          · simp [h]
          · simp [h]
        · simp at he; simp [he]
      · rw [if_neg hc] at hcls' ⊢
        rw [listMembers_AE]
        rcases he with he | he
        · rcases hcls' e he with h | h
          · simp [h]
          · cases h
        · simp at he; simp [he]
    simp [hsub]

/-- witness of C06-b: `Vary: Origin, Accept-Encoding` comes back as `Vary: Accept-Encoding` -/
def witnessB : Input :=
  { flag := true, ae := b!"gzip",
    originHeaders := Header.add (Header.add [] kContentType b!"text/html") kVary b!"Origin, Accept-Encoding",
    originBody := b!"hello" }

theorem vary_fails_witness : varyOk witnessB (respond toyExt witnessB) = false := by decide

theorem witnessB_delivered :
    (respond toyExt witnessB).headers.values kVary = [b!"Accept-Encoding"] ∧
    varyEntries witnessB.originHeaders = [b!"origin", b!"accept-encoding"] := by decide

theorem StatementVary_false : ¬ StatementVary := fun h => by
  have := h toyExt witnessB (by decide)
  rw [vary_fails_witness] at this
  cases this

-- non-vacuity: a lossless rewrite with two origin lines lies outside the class
example :
    let x := { witnessB with originHeaders := Header.add (Header.add (Header.add [] kContentType b!"text/html") kVary b!"Origin") kVary b!"Accept-Encoding" }
    inClass_C06_b x = false ∧ (decision x).add = .gzip ∧
      (respond toyExt x).headers.values kVary = [b!"Origin, Accept-Encoding"] := by decide

/-! ### the whole oracle -/

/-- the property at full strength: for every lawful codec and every exchange, the oracle accepts
    the model's response -/
def Statement : Prop := ∀ (E : Ext), E.Lawful → ∀ x : Input, holds E x (respond E x) = true

/-- outside the two remaining finding classes (C06-b, C06-c; C06-a and C06-d are repaired) the
    oracle accepts the model's response, for all inputs and every codec satisfying the laws -/
theorem holds_partial (E : Ext) (hE : E.Lawful) (x : Input)
    (hb : inClass_C06_b x = false) (hc : inClass_C06_c x = false) :
    holds E x (respond E x) = true := by
  unfold holds
  cases hdom : inDomain E x with
  | false => rfl
  | true =>
    simp [content_preserved E hE x, delivered_encoding_allowed_partial E x hc,
      identity_when_off E x, length_holds_model E x hdom, vary_kept_partial E x hdom hb]

theorem Statement_false : ¬ Statement := fun h => by
  have := h toyExt toyExt_lawful witnessB
  have hf : holds toyExt witnessB (respond toyExt witnessB) = false := by decide
  rw [hf] at this
  cases this

/-- non-vacuity of `holds_partial`: a gunzip + Brotli exchange outside both classes -/
def okExchange : Input :=
  { flag := true, ae := b!"gzip, deflate, br",
    originHeaders := Header.add (Header.add (Header.add [] kContentEncoding b!"gzip") kVary b!"Origin") kContentLength b!"26",
    originBody := toyExt.gzipEnc b!"hello" }

example : inClass_C06_b okExchange = false ∧ inClass_C06_c okExchange = false ∧
    inDomain toyExt okExchange = true ∧ decision okExchange = ⟨.brotli, .gzip⟩ ∧
    holds toyExt okExchange (respond toyExt okExchange) = true := by decide

-- the former witness of C06-d (no-transform on the second Cache-Control line) is outside both
-- remaining classes and the whole oracle accepts the model's (= the repaired code's) response
example : holds toyExt witnessD (respond toyExt witnessD) = true :=
  holds_partial toyExt toyExt_lawful witnessD (by decide) (by decide)

end Props.C06
