import RrModel.Conc
import RrProofs.Lemmas.Conc
import RrProofs.Lemmas.ConcTorn
/-
  C07 in schedules: the client view pairs headers and body of ONE stored response, on the
  interleaving model `Model.Conc`.
  A thread that fetched version `ver` itself (the writer) sends ITS status line and headers before the
  body and later streams the body from the re-opened path (`Pc.sendBody`); every other way of being
  served (hit, woken waiter) reads metadata and body through one descriptor. So the only torn views
  are those of a writer whose `view` names another version than its own `ver`.

  False in full (finding C07-b: the entry expires between the writer's release and its `sendBody`,
  another request refreshes it); proved for every schedule without entry expiry and without a stale
  release; both exclusions are needed (`torn_witness`, `torn_witness_stale`).
-/
namespace Props.C07Sched
open Model.Conc Lemmas.Conc Lemmas.ConcTorn

/-- the client of thread t holds headers of version `t.ver` and was streamed bytes of another version -/
def Torn (t : Thread) : Prop :=
  match t.view with
  | .complete v _ => t.ver ≠ 0 ∧ t.ver ≠ v
  | .truncated v => t.ver ≠ 0 ∧ t.ver ≠ v
  | _ => False

instance (t : Thread) : Decidable (Torn t) := by unfold Torn; split <;> infer_instance

/-- full strength: no schedule, fault assignment or thread count ever produces a torn view -/
def NoTornStatement : Prop :=
  ∀ (n : Nat) (faults : Nat → Fault) (sched : List Actor) (i : Nat), i < n → ¬ Torn ((run (init n faults) sched).threads i)

/-- FALSE of the code and of the model (finding C07-b): t0 fills and releases, the entry expires, t1
    refreshes it with the next origin version, then t0 streams its body. Prove by `decide` on: -/
def witnessSched : List Actor :=
  [.thread 0, .thread 0, .thread 0, .thread 0, .thread 0, .thread 0, .thread 0, .notifier, .expire, .originChange,
   .thread 1, .thread 1, .thread 1, .thread 1, .thread 1, .thread 1, .thread 0]

/-- the partial statement: without entry expiry in the schedule and without a stale release
    (finding C12-b: two writers at once) no view is torn — whatever the faults, the thread count,
    origin changes, self-healing removals (C12-a) and late writers (C12-c) -/
def NoTornPartial : Prop :=
  ∀ (n : Nat) (faults : Nat → Fault) (sched : List Actor) (i : Nat), i < n →
    (∀ a ∈ sched, a ≠ Actor.expire) → (run (init n faults) sched).staleReleases = 0 →
    ¬ Torn ((run (init n faults) sched).threads i)

/-! ### the full statement is false: finding C07-b -/

theorem torn_witness : Torn ((run (init 2 (fun _ => .none)) witnessSched).threads 0) := by decide

/-- the witness is of the expiry class only: no stale release, live removal or late writer in it;
    thread 0 sent the headers of version 1 and streamed the complete body of version 2 -/
theorem torn_witness_class :
    let s := run (init 2 (fun _ => .none)) witnessSched
    (s.threads 0).ver = 1 ∧ (s.threads 0).view = .complete 2 false ∧
    s.staleReleases = 0 ∧ s.liveRemovals = 0 ∧ s.lateWriters = 0 := by decide

theorem NoTornStatement_false : ¬ NoTornStatement := by
  intro h
  exact h 2 (fun _ => .none) witnessSched 0 (by decide) torn_witness

/-! ### the partial statement -/

/-- the invariant `InvT` says that a view naming a version is the thread's own, if it fetched one -/
theorem not_torn_of_invT (s : Sys) (hT : InvT s) (i : Nat) : ¬ Torn (s.threads i) := by
  intro ht
  unfold Torn at ht
  split at ht
  · next v st hv =>
    cases hT.vComplete i v st hv with
    | inl h => exact ht.1 h
    | inr h => exact ht.2 h
  · next v hv =>
    cases hT.vTrunc i v hv with
    | inl h => exact ht.1 h
    | inr h => exact ht.2 h
  · exact ht

/-- no torn view in any schedule (any thread count, any fault assignment, origin changes, live
    removals and late writers included) that contains no `.expire` and ends with `staleReleases = 0` -/
theorem no_torn_partial : NoTornPartial := by
  intro n faults sched i _ hne h0
  exact not_torn_of_invT _ (invT_run n faults sched hne h0) i

/-! ### the second exclusion is needed too: a stale release (finding C12-b) tears a view without expiry -/

abbrev T (i : Nat) : Actor := .thread i

/-- thread 0's origin body read fails -/
def faultsS : Nat → Fault := fun i => if i = 0 then .readErr else .none

/-- thread 0 publishes a truncated body, releases, deletes it (errCleanup); thread 1 takes the lock;
    thread 0's deferred Finish deletes thread 1's lock entry (stale release), so thread 2 takes the
    lock too; the origin changes between their fetches; thread 1 creates and publishes version 1 at
    the final name, thread 2 — finding the name taken — writes version 2 through `.tmp` and renames it
    over the entry; thread 1 then streams version 2 under its headers of version 1 -/
def schedS : List Actor :=
  [T 0, T 0, T 0, T 0, T 0, T 0, T 0, .notifier, T 0, T 1, T 1, T 0, .notifier, T 2, T 2,
   T 1, .originChange, T 2, T 1, T 2, T 1, T 1, T 1, T 2, T 2, T 1]

theorem torn_witness_stale :
    let s := run (init 3 faultsS) schedS
    Torn (s.threads 1) ∧ (s.threads 1).ver = 1 ∧ (s.threads 1).view = .complete 2 false ∧
    (∀ a ∈ schedS, a ≠ Actor.expire) ∧ s.staleReleases = 1 ∧ s.liveRemovals = 0 ∧ s.lateWriters = 0 := by
  decide

/-- without `staleReleases = 0` the partial statement fails -/
theorem NoTorn_false_stale :
    ¬ (∀ (n : Nat) (faults : Nat → Fault) (sched : List Actor) (i : Nat), i < n →
        (∀ a ∈ sched, a ≠ Actor.expire) → ¬ Torn ((run (init n faults) sched).threads i)) := by
  intro h
  exact h 3 faultsS schedS 1 (by decide) torn_witness_stale.2.2.2.1 torn_witness_stale.1

/-- without the exclusion of `.expire` it fails as well (`torn_witness` has no stale release) -/
theorem NoTorn_false_expire :
    ¬ (∀ (n : Nat) (faults : Nat → Fault) (sched : List Actor) (i : Nat), i < n →
        (run (init n faults) sched).staleReleases = 0 → ¬ Torn ((run (init n faults) sched).threads i)) := by
  intro h
  exact h 2 (fun _ => .none) witnessSched 0 (by decide) torn_witness_class.2.2.1 torn_witness

/-! ### non-vacuity -/

/-- three requests, two origin changes (one before, one after the writer's fetch), thread 1 waits on
    thread 0's lock and is woken, thread 2 hits: the hypotheses of `no_torn_partial` hold and every
    thread ends served the complete version 2 — the writer with its own headers (`ver = 2`) -/
def schedG : List Actor :=
  [T 0, T 0, T 1, T 1, .originChange, T 0, .originChange, T 0, T 0, T 0, T 0, .notifier, T 1, T 0, T 0,
   .notifier, T 2]

example :
    let s := run (init 3 (fun _ => .none)) schedG
    (∀ a ∈ schedG, a ≠ Actor.expire) ∧ s.staleReleases = 0 ∧
    (∀ i, i < 3 → (s.threads i).pc = .done ∧ (s.threads i).view = .complete 2 false ∧ ¬ Torn (s.threads i)) ∧
    (s.threads 0).ver = 2 ∧ (s.threads 1).woken = true ∧ s.originVersion = 3 ∧ s.fetches = 1 ∧
    s.lock = none := by decide

/-- a waiter parked while the writer fetches, mid-schedule -/
example :
    let s := run (init 3 (fun _ => .none)) (schedG.take 6)
    (s.threads 1).pc = .waiting ∧ (s.threads 1).woken = false ∧ s.lock = some [1] ∧
    (s.threads 0).pc = .whCreate false ∧ (s.threads 0).ver = 2 := by decide

/-- faulty origins are within the hypotheses too: a writer whose body read fails publishes a truncated
    entry and deletes it; its waiter is served the truncated version 1 — not torn (one descriptor) -/
example :
    let s := run (init 2 faultsS) [T 0, T 0, T 0, T 1, T 1, T 0, T 0, T 0, T 0, .notifier, T 1, T 0, T 0, .notifier]
    s.staleReleases = 0 ∧ (s.threads 1).view = .truncated 1 ∧ ¬ Torn (s.threads 1) ∧
    (s.threads 0).pc = .done ∧ ¬ Torn (s.threads 0) := by decide

end Props.C07Sched
