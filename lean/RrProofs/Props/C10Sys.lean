import RrProofs.Props.SysCache
import RrProofs.Props.C10
import RrProofs.Lemmas.Header
import RrProofs.Lemmas.Forward
import RrProofs.Lemmas.CopyHeaders
/-
  C10 at SYSTEM level: "responses that must not be cached are never stored or shared", on the
  sequential system model of the cached request path (`Model.SysCache`).  Every theorem is for an
  ARBITRARY disk / clock / origin / request / fuel, hence for every state of every history.
-/
namespace Props.C10Sys
open Go Model Model.SysCache Props.SysCache

/-! ### general helpers -/

/-- the disk an activation leaves behind (of the answer, or handed to the re-entry) -/
def Step.disk : Step → Disk
  | .done a => a.disk
  | .reenter d _ _ _ _ _ => d
  | .reenterLocked d _ _ _ _ => d

def kAuth : Bytes := b!"authorization"

/-! ### 1. methods other than GET / HEAD bypass the cache -/

/-- one activation for a method other than GET/HEAD: the uncached row -/
theorem stepOnce_other_methods (cfg : Config) (origin : Bytes → Option Origin) (now : Int) (req : Request)
    (hm : req.method ≠ b!"GET" ∧ req.method ≠ b!"HEAD")
    (d : Disk) (client ai : Header) (skip : Bool) (cs : List Contact) :
    stepOnce cfg origin now req d client ai skip cs =
      match ask cfg origin req cs client with
      | none => .done { disk := d, out := errorJSON 502 b!"Destination unreachable",
                        contacts := logged cfg cs client, label := "u:err" }
      | some resp => .done { disk := d, out := plainOut cfg resp (ai.set kStatus b!"pass") none,
                             contacts := logged cfg cs client, label := "u:pass" } := by
  unfold stepOnce
  rw [if_pos hm]
  cases ask cfg origin req cs client <;> rfl

/-- **C10 (1)** a request with a method other than GET/HEAD never touches the cache: whatever the fuel
    (≥ 1), the disk is returned as it was, the label is `u:pass` (the origin answered: the client is
    sent `plainOut` of that answer, nothing that was read from the disk) or `u:err` (the performer
    refused the contact), and the performer's log is the old one plus this one contact. -/
theorem other_methods_bypass (cfg : Config) (origin : Bytes → Option Origin) (now : Int) (req : Request)
    (hm : req.method ≠ b!"GET" ∧ req.method ≠ b!"HEAD")
    (fuel : Nat) (d : Disk) (client ai : Header) (skip : Bool) (cs : List Contact) :
    let a := cachingFunc cfg origin now req (fuel + 1) d client ai skip cs
    a.disk = d ∧
    a.contacts = logged cfg cs client ∧
    (cs.length < cfg.contactLimit → a.contacts = cs ++ [contactOf client]) ∧
    ((ask cfg origin req cs client = none ∧ a.label = "u:err" ∧
        a.out = errorJSON 502 b!"Destination unreachable") ∨
     (∃ resp, ask cfg origin req cs client = some resp ∧ a.label = "u:pass" ∧
        a.out = plainOut cfg resp (ai.set kStatus b!"pass") none)) := by
  intro a
  have ha : a = cachingFunc cfg origin now req (fuel + 1) d client ai skip cs := rfl
  unfold cachingFunc at ha
  rw [stepOnce_other_methods cfg origin now req hm] at ha
  clear_value a
  cases hask : ask cfg origin req cs client with
  | none =>
    rw [hask] at ha; dsimp only at ha; subst ha
    exact ⟨rfl, rfl, fun hl => logged_of_lt client hl, Or.inl ⟨rfl, rfl, rfl⟩⟩
  | some resp =>
    rw [hask] at ha; dsimp only at ha; subst ha
    exact ⟨rfl, rfl, fun hl => logged_of_lt client hl, Or.inr ⟨resp, rfl, rfl, rfl⟩⟩

/-- what the origin's answer is when the contact is not refused: the scripted origin's answer to the
    CLIENT's own header (nothing of the cache's is added to it) -/
theorem other_methods_answer (cfg : Config) (origin : Bytes → Option Origin) (req : Request)
    (client : Header) (cs : List Contact) (hl : cs.length < cfg.contactLimit) :
    ask cfg origin req cs client =
      (origin req.path).map fun o => originAnswer o req.method client (cancelAtOf origin req) := by
  unfold ask; rw [if_neg (by omega)]

/-- non-vacuity: a POST for a scripted path -/
example :
    let o : Origin := { status := 200, headers := [(b!"Cache-Control", b!"max-age=60")], body := b!"hello" }
    let req : Request := { method := b!"POST", path := b!"a", header := [] }
    (req.method ≠ b!"GET" ∧ req.method ≠ b!"HEAD") ∧
    (cachingFunc {} (fun _ => some o) 0 req 1 Disk.empty [] [] false []).label = "u:pass" := by
  decide

/-! ### 2. a request with Authorization never stores -/

/-- a header name whose canonical form is not `Authorization` -/
def NotAuth (k : Bytes) : Prop := canon k ≠ canon kAuth

theorem notAuth_nil : NotAuth [] := by unfold NotAuth; decide
theorem notAuth_inm : NotAuth Conditional.kINM := by unfold NotAuth; decide
theorem notAuth_ims : NotAuth Conditional.kIMS := by unfold NotAuth; decide
theorem notAuth_range : NotAuth Conditional.kRange := by unfold NotAuth; decide

theorem get_auth_set {k : Bytes} (hk : NotAuth k) (h : Header) (v : Bytes) :
    (h.set k v).get kAuth = h.get kAuth := by
  rw [Header.get_set, if_neg hk]

theorem get_auth_del {k : Bytes} (hk : NotAuth k) (h : Header) :
    (h.del k).get kAuth = h.get kAuth := by
  rw [Header.get_del, if_neg hk]

/-- `util.RevalidateHeaders` names If-None-Match or If-Modified-Since, or nothing -/
theorem revalidateHeaders_fst (h : Header) : NotAuth (Conditional.revalidateHeaders h).1 := by
  unfold Conditional.revalidateHeaders
  repeat' split
  all_goals first | exact notAuth_inm | exact notAuth_ims | exact notAuth_nil

/-- the header surgery before the origin is asked only touches Range / If-None-Match /
    If-Modified-Since: the Authorization header goes to the origin as the client sent it, and the
    names the surgery remembers are never `Authorization` -/
theorem surgery_auth (kind : Conditional.WriterKind) (rp : Bool) (client stored : Header) :
    (Conditional.surgery kind rp client stored).req.get kAuth = client.get kAuth ∧
    NotAuth (Conditional.surgery kind rp client stored).used ∧
    NotAuth (Conditional.surgery kind rp client stored).clientKey := by
  have h0 : (if rp then client.del Conditional.kRange else client).get kAuth = client.get kAuth := by
    split
    · exact get_auth_del notAuth_range _
    · rfl
  unfold Conditional.surgery
  cases kind with
  | notFound =>
    dsimp only
    refine ⟨?_, notAuth_nil, revalidateHeaders_fst _⟩
    rw [get_auth_del notAuth_ims, get_auth_del notAuth_inm, h0]
  | revalidating =>
    dsimp only
    split
    · refine ⟨?_, revalidateHeaders_fst _, revalidateHeaders_fst _⟩
      dsimp only
      rw [get_auth_set (revalidateHeaders_fst _), h0]
    · exact ⟨h0, notAuth_nil, revalidateHeaders_fst _⟩

theorem surgeryOf_auth (rr : Option Range.ReqRange) (client : Header) (reval : Option (Key × Stored × Int)) :
    (surgeryOf rr client reval).req.get kAuth = client.get kAuth ∧
    NotAuth (surgeryOf rr client reval).used ∧ NotAuth (surgeryOf rr client reval).clientKey := by
  unfold surgeryOf
  exact surgery_auth _ _ _ _

/-- `storageWriter.ChangeKey` does nothing on a writer whose disk writes are disabled -/
theorem rekey_disabled (dirs : Directives) (keys : List Key) (d : Disk) (w : Writer)
    (hw : w.diskWritesDisabled = true) : rekey dirs keys d w = (d, w) := by
  unfold rekey
  split
  · induction keys with
    | nil => rfl
    | cons k ks ih =>
      rw [List.foldl_cons]
      have : (if k.hasFullOrigin = true then changeKey (d, w).1 (d, w).2 k else (d, w)) = (d, w) := by
        split
        · unfold changeKey; rw [if_pos hw]
        · rfl
      rw [this]; exact ih
  · rfl

/-- the activation left the disk `d` as it is, and a re-entry carries the Authorization value `auth` -/
def Step.AuthKept (d : Disk) (auth : Bytes) : Step → Prop
  | .done a => a.disk = d
  | .reenter d' c' _ _ _ _ => d' = d ∧ c'.get kAuth = auth
  | .reenterLocked d' c' _ _ _ => d' = d ∧ c'.get kAuth = auth

/-- the row `w:304` of a writer whose disk writes are disabled: nothing is written, the key stays held -/
theorem row304_disabled (d : Disk) (ai : Header) (cs : List Contact) (w : Writer) (sg : Conditional.Surgery)
    (resp : Resp) (now : Int) (hw : w.diskWritesDisabled = true) (hu : NotAuth sg.used) (hk : NotAuth sg.clientKey) :
    Step.AuthKept d (sg.req.get kAuth) (row304 d ai cs w sg resp now) := by
  unfold row304
  simp only [hw, if_true]
  refine ⟨rfl, ?_⟩
  repeat' split
  all_goals first
    | rfl
    | exact get_auth_del hu _
    | (rw [get_auth_set hk]; try exact get_auth_del hu _)

/-- a writer row whose writer has disk writes disabled (the request carries Authorization) leaves the
    disk exactly as it found it, and a re-entry keeps the Authorization header -/
theorem afterAnswer_disabled (cfg : Config) (now : Int) (keys : List Key) (rr : Option Range.ReqRange) (d : Disk)
    (ai : Header) (cs : List Contact) (reval : Option (Key × Stored × Int)) (w : Writer)
    (sg : Conditional.Surgery) (resp : Resp) (hw : w.diskWritesDisabled = true)
    (hu : NotAuth sg.used) (hk : NotAuth sg.clientKey) :
    Step.AuthKept d (sg.req.get kAuth) (afterAnswer cfg now keys rr d ai cs reval w sg resp) := by
  unfold afterAnswer
  simp only [rekey_disabled _ _ _ _ hw, hw, if_true]
  repeat' first | split | (dsimp only; split)
  all_goals first
    | exact rfl
    | exact ⟨rfl, rfl⟩
    | exact row304_disabled _ _ cs w sg resp now hw hu hk
    | exact ⟨rfl, get_auth_del hu _⟩

/-- the activation only removed files from `d`, and a re-entry carries the Authorization value `auth` -/
def Step.ShrinksKeeping (d : Disk) (auth : Bytes) : Step → Prop
  | .done a => Shrinks a.disk d
  | .reenter d' c' _ _ _ _ => Shrinks d' d ∧ c'.get kAuth = auth
  | .reenterLocked d' c' _ _ _ => Shrinks d' d ∧ c'.get kAuth = auth

theorem Step.AuthKept.shrinksKeeping {d1 d : Disk} {auth : Bytes} {s : Step} (h : Step.AuthKept d1 auth s)
    (hs : Shrinks d1 d) : Step.ShrinksKeeping d auth s := by
  cases s with
  | done a =>
    have h' : a.disk = d1 := h
    show Shrinks a.disk d
    rw [h']; exact hs
  | reenter d' c' ai sk cs tag =>
    have h' : d' = d1 ∧ c'.get kAuth = auth := h
    show Shrinks d' d ∧ c'.get kAuth = auth
    rw [h'.1]; exact ⟨hs, h'.2⟩
  | reenterLocked d' c' ai cs tag =>
    have h' : d' = d1 ∧ c'.get kAuth = auth := h
    show Shrinks d' d ∧ c'.get kAuth = auth
    rw [h'.1]; exact ⟨hs, h'.2⟩

theorem writerOf_disabled (keys : List Key) (client : Header) (reval : Option (Key × Stored × Int))
    (ha : (client.get kAuth).length > 0) : (writerOf keys client reval).diskWritesDisabled = true := by
  unfold writerOf; exact decide_eq_true ha

theorem writerRow_auth (cfg : Config) (origin : Bytes → Option Origin) (now : Int) (req : Request)
    (keys : List Key) (rr : Option Range.ReqRange) (d : Disk) (client ai : Header) (cs : List Contact)
    (reval : Option (Key × Stored × Int)) (ha : (client.get kAuth).length > 0) :
    Step.AuthKept d (client.get kAuth) (writerRow cfg origin now req keys rr d client ai cs reval) := by
  unfold writerRow
  dsimp only
  split
  · exact rfl
  · have hs := surgeryOf_auth rr client reval
    rw [← hs.1]
    exact afterAnswer_disabled cfg now keys rr d ai _ reval _ _ _ (writerOf_disabled keys client reval ha) hs.2.1 hs.2.2

/-- one activation for a request with Authorization: files may disappear (`storage.Get`'s clean-up),
    nothing is written or changed; a re-entry carries the same Authorization value -/
theorem stepOnce_auth (cfg : Config) (origin : Bytes → Option Origin) (now : Int) (req : Request)
    (d : Disk) (client ai : Header) (skip : Bool) (cs : List Contact)
    (ha : (client.get kAuth).length > 0) :
    Step.ShrinksKeeping d (client.get kAuth) (stepOnce cfg origin now req d client ai skip cs) := by
  have hl := lookup_shrinks cfg now (keysOf cfg req client) d client skip
  unfold stepOnce
  split
  · split <;> exact Shrinks.refl d
  · dsimp only
    split
    all_goals (rename_i heq; rw [heq] at hl)
    · exact hl
    · exact hl
    · exact hl
    · exact (writerRow_auth cfg origin now req _ _ _ client ai cs _ ha).shrinksKeeping hl

/-- the activation that finds the key held by its own request returns the disk `storage.Get` left -/
theorem lockedReentry_disk (cfg : Config) (origin : Bytes → Option Origin) (now : Int) (req : Request)
    (d : Disk) (client ai : Header) (cs : List Contact) :
    (lockedReentry cfg origin now req d client ai cs).disk = (storageGet d (keysOf cfg req client)).1 := by
  unfold lockedReentry
  dsimp only
  generalize storageGet d (keysOf cfg req client) = r
  rcases r with ⟨d', g⟩
  cases g with
  | panic s => rfl
  | notFound => rfl
  | found k s =>
    dsimp only
    repeat' first | split | (dsimp only; split)
    all_goals rfl

theorem lockedReentry_shrinks (cfg : Config) (origin : Bytes → Option Origin) (now : Int) (req : Request)
    (d : Disk) (client ai : Header) (cs : List Contact) :
    Shrinks (lockedReentry cfg origin now req d client ai cs).disk d := by
  rw [lockedReentry_disk]; exact storageGet_shrinks _ _

/-- **C10 (2)** a request that carries Authorization never writes to the cache: whatever the fuel, every
    cell of the disk afterwards is the cell before or empty (files only disappear through `storage.Get`'s
    clean-up of corrupt entries) -/
theorem authorization_never_stores (cfg : Config) (origin : Bytes → Option Origin) (now : Int) (req : Request) :
    ∀ (fuel : Nat) (d : Disk) (client ai : Header) (skip : Bool) (cs : List Contact),
      (client.get b!"authorization").length > 0 →
      Shrinks (cachingFunc cfg origin now req fuel d client ai skip cs).disk d := by
  intro fuel
  induction fuel with
  | zero => intro d client ai skip cs _; exact Shrinks.refl d
  | succ n ih =>
    intro d client ai skip cs ha
    have hs := stepOnce_auth cfg origin now req d client ai skip cs ha
    unfold cachingFunc
    split
    · rename_i a heq; rw [heq] at hs; exact hs
    · rename_i d' c' ai' s' cs' tag heq
      rw [heq] at hs
      have ha' : (c'.get b!"authorization").length > 0 := by
        have := hs.2; unfold kAuth at this; rw [this]; exact ha
      exact Shrinks.trans (ih d' c' ai' s' cs' ha') hs.1
    · rename_i d' c' ai' cs' tag heq
      rw [heq] at hs
      exact Shrinks.trans (lockedReentry_shrinks cfg origin now req d' c' ai' cs') hs.1

/-- non-vacuity: a GET with Authorization for a cacheable answer: nothing is stored -/
example :
    let o : Origin := { status := 200, headers := [(b!"Cache-Control", b!"max-age=60")], body := b!"hello" }
    let req : Request := { method := b!"GET", path := b!"a", header := [(b!"Authorization", [b!"x"])] }
    (req.header.get b!"authorization").length > 0 ∧
    (cachingFunc {} (fun _ => some o) 0 req 2 Disk.empty req.header [] false []).label = "w:pass" := by
  decide

/-! ### 3. an answer that forbids storing leaves the disk alone -/

/-- **C10 (3)** in a writer row, an origin answer whose directives say `DoNotCache` (whatever its status,
    a 304 included) ends the activation (no re-entry) with the disk exactly as it was: either the early
    `416` (a parsed Range that the origin's 200 cannot satisfy) or the row `w:uncacheable`, which sends
    the client `plainOut` of the origin's answer. -/
theorem doNotCache_answer_never_stored (cfg : Config) (now : Int) (keys : List Key) (rr : Option Range.ReqRange)
    (d : Disk) (ai : Header) (cs : List Contact) (reval : Option (Key × Stored × Int)) (w : Writer)
    (sg : Conditional.Surgery) (resp : Resp)
    (hd : (getCacheControlDirectives resp.header).doNotCache = true) :
    ∃ a, afterAnswer cfg now keys rr d ai cs reval w sg resp = .done a ∧ a.disk = d ∧ a.contacts = cs ∧
      ((a.label = "w:416" ∧ ∃ s2, (rangeAdjust rr resp ai).1 = some s2 ∧ a.out = { status := s2 }) ∨
       (a.label = "w:uncacheable" ∧ (rangeAdjust rr resp ai).1 = none ∧
          a.out = plainOut cfg resp ((rangeAdjust rr resp ai).2.2.set kStatus b!"uncacheable")
                    (rangeAdjust rr resp ai).2.1)) := by
  unfold afterAnswer
  generalize rangeAdjust rr resp ai = ra
  rcases ra with ⟨_ | s2, so, ai'⟩
  · dsimp only
    rw [if_neg (by simp [hd]), if_pos hd]
    exact ⟨_, rfl, rfl, rfl, Or.inr ⟨rfl, rfl, rfl⟩⟩
  · exact ⟨_, rfl, rfl, rfl, Or.inl ⟨rfl, s2, rfl, rfl⟩⟩

/-- non-vacuity: a 304 that says `No-Store` (after a `max-age`) to a revalidating writer that sent a validator:
    the row `w:uncacheable`, not `w:304` -/
example :
    let w : Writer := { key := ⟨[], b!"h", b!"/a", false, []⟩, path := b!"h/a", revalidating := true }
    let sg : Conditional.Surgery := { req := [], clientKey := [], clientVal := [], used := b!"if-none-match" }
    let resp : Resp := { status := 304, header := SysCache.addAll [(b!"Cache-Control", b!"max-age=5, No-Store")],
                         contentLength := 0, body := [] }
    (getCacheControlDirectives resp.header).doNotCache = true ∧
    ∃ a, afterAnswer {} 0 [] none Disk.empty [] [] none w sg resp = .done a ∧ a.label = "w:uncacheable" := by
  intro w sg resp
  exact ⟨by decide, _, rfl, rfl⟩

/-! ### 4. what the caching stack can do to the disk -/

theorem upd_apply (d : Disk) (k : Bytes) (f : Option File) (p : Bytes) :
    d.upd k f p = if p = k then f else d p := rfl

theorem upd_self (d : Disk) (k : Bytes) (f : Option File) : d.upd k f k = f := by
  rw [upd_apply, if_pos rfl]

theorem upd_other (d : Disk) (k : Bytes) (f : Option File) {p : Bytes} (hp : p ≠ k) : d.upd k f p = d p := by
  rw [upd_apply, if_neg hp]

/-- the metadata `storageWriter.Close` rewrites on a revalidating writer without a file of its own:
    the stored one with `Revalidated := now` and (after a 304) the 304's headers merged in -/
def republishedMeta (m : Codec.Meta) (now : Int) (h304 : Option Header) : Codec.Meta :=
  { m with revalidated := now,
           respHeader := match h304 with
             | some h => Conditional.merge304 m.respHeader h
             | none => m.respHeader }

theorem republishedMeta_none (m : Codec.Meta) (now : Int) :
    republishedMeta m now none = { m with revalidated := now } := rfl

/-- **republish** changes at most the cell `w.path`: it stays, or is removed (`Close` failed), or keeps its
    BODY and gets a re-encoded xattr (the stored metadata with `Revalidated := now`, headers merged) -/
theorem republish_spec (d : Disk) (w : Writer) (now : Int) (h304 : Option Header) :
    (republish d w now h304 = (d, false) ∧ d w.path = none) ∨
    republish d w now h304 = (d.upd w.path none, false) ∨
    ∃ f x m, d w.path = some f ∧ f.xattr = some x ∧ Codec.decode x = .ok (some m) ∧
      (f.body.length : Int) = m.size ∧
      republish d w now h304 =
        (d.upd w.path (some { body := f.body, xattr := some (Codec.encode (republishedMeta m now h304)) }), true) := by
  unfold republish
  cases hf : d w.path with
  | none => exact Or.inl ⟨rfl, rfl⟩
  | some f =>
    dsimp only
    cases hx : f.xattr with
    | none => exact Or.inr (Or.inl rfl)
    | some x =>
      dsimp only [Option.map]
      cases hm : Codec.decode x with
      | panic s => exact Or.inr (Or.inl rfl)
      | ok om =>
        cases om with
        | none => exact Or.inr (Or.inl rfl)
        | some m =>
          dsimp only
          split
          · exact Or.inr (Or.inl rfl)
          · split
            · exact Or.inr (Or.inl rfl)
            · rename_i hsz _
              refine Or.inr (Or.inr ⟨f, x, m, rfl, hx, hm, ?_, rfl⟩)
              exact Decidable.of_not_not hsz

theorem republish_other (d : Disk) (w : Writer) (now : Int) (h304 : Option Header) {p : Bytes}
    (hp : p ≠ w.path) : (republish d w now h304).1 p = d p := by
  rcases republish_spec d w now h304 with ⟨h, _⟩ | h | ⟨f, x, m, _, _, _, _, h⟩
  · rw [h]
  · rw [h]; exact upd_other _ _ _ hp
  · rw [h]; exact upd_other _ _ _ hp

/-- per cell: `republish` leaves a cell as it is, or empties it, or (cell `w.path` only) keeps the body and
    re-encodes the xattr of the file that was there -/
theorem republish_cell (d : Disk) (w : Writer) (now : Int) (h304 : Option Header) (p : Bytes) :
    (republish d w now h304).1 p = d p ∨ (republish d w now h304).1 p = none ∨
    (p = w.path ∧ (republish d w now h304).2 = true ∧
      ∃ f x m, d p = some f ∧ f.xattr = some x ∧ Codec.decode x = .ok (some m) ∧
        (republish d w now h304).1 p =
          some { body := f.body, xattr := some (Codec.encode (republishedMeta m now h304)) }) := by
  by_cases hp : p = w.path
  · subst hp
    rcases republish_spec d w now h304 with ⟨h, _⟩ | h | ⟨f, x, m, hf, hx, hm, _, h⟩
    · rw [h]; exact Or.inl rfl
    · rw [h]; exact Or.inr (Or.inl (upd_self _ _ _))
    · rw [h]; exact Or.inr (Or.inr ⟨rfl, rfl, f, x, m, hf, hx, hm, upd_self _ _ _⟩)
  · exact Or.inl (republish_other d w now h304 hp)

/-- `cachingResponseWriter.WriteHeader`: a 206 is stored as 200 -/
def stStatusOf (status : Nat) : Nat := if status = 206 then 200 else status

/-- … with the total length of its Content-Range as Content-Length and without Content-Range -/
def stHeaderOf (status : Nat) (clientHeader : Header) : Header :=
  if status = 206 then
    let cl := Range.contentLengthFromRange (clientHeader.get b!"content-range")
    let h := Codec.denyHeaders clientHeader [b!"content-range"]
    if cl.length > 0 then h.set b!"content-length" cl else h
  else clientHeader

/-- the metadata of a fill -/
def fillMeta (cfg : Config) (w : Writer) (now : Int) (status : Nat) (clientHeader : Header) (resp : Resp)
    (redirect : Bytes) : Codec.Meta :=
  { host := w.key.host, path := w.key.path, reqHeader := w.key.storedHeaders,
    respHeader := Codec.storePrep cfg.sfx (stStatusOf status) (stHeaderOf status clientHeader),
    status := stStatusOf status, redirect := redirect, created := now,
    revalidated := if w.revalidating then now else 0, size := resp.body.length }

theorem fillMeta_respHeader (cfg : Config) (w : Writer) (now : Int) (status : Nat) (clientHeader : Header)
    (resp : Resp) (redirect : Bytes) :
    (fillMeta cfg w now status clientHeader resp redirect).respHeader =
      Codec.storePrep cfg.sfx (stStatusOf status) (stHeaderOf status clientHeader) := rfl

theorem fillMeta_status (cfg : Config) (w : Writer) (now : Int) (status : Nat) (clientHeader : Header)
    (resp : Resp) (redirect : Bytes) :
    (fillMeta cfg w now status clientHeader resp redirect).status = stStatusOf status := rfl

theorem fillMeta_size (cfg : Config) (w : Writer) (now : Int) (status : Nat) (clientHeader : Header)
    (resp : Resp) (redirect : Bytes) :
    (fillMeta cfg w now status clientHeader resp redirect).size = resp.body.length := rfl

/-- the cell holds a file PUBLISHED by this fill: only for a status inside the storage gate, a header map
    (the one the client was sent) whose directives do not say `DoNotCache`, and a body that was read to
    its end; the file is the origin's body with the metadata of this response -/
def Published (cfg : Config) (w : Writer) (now : Int) (status : Nat) (clientHeader : Header) (resp : Resp)
    (redirect : Bytes) (cell : Option File) : Prop :=
  inGate (stStatusOf status) = true ∧
  (getCacheControlDirectives (stHeaderOf status clientHeader)).doNotCache = false ∧
  resp.readErr = false ∧
  (resp.body.length = 0 → emptyAllowed w.key.method (stStatusOf status) = true) ∧
  cell = some { body := resp.body,
                xattr := some (Codec.encode (fillMeta cfg w now status clientHeader resp redirect)) }

/-- the cell holds the OLD file of a revalidating writer, re-published with `Revalidated := now` although
    the origin's answer was outside the storage gate (e.g. a 500) with an empty body: the known defect
    C09-e (row `w:nogate-oldbody`: the old body is then sent under the new status). The body and the
    stored response header (hence its directives) are those of the file that was there. -/
def RepublishedOld (d : Disk) (w : Writer) (now : Int) (status : Nat) (resp : Resp) (cell : Option File) : Prop :=
  w.revalidating = true ∧ inGate (stStatusOf status) = false ∧ resp.body.length = 0 ∧ resp.readErr = false ∧
  ∃ f x m, d w.path = some f ∧ f.xattr = some x ∧ Codec.decode x = .ok (some m) ∧
    cell = some { body := f.body, xattr := some (Codec.encode { m with revalidated := now }) }

/-- `cachingFill` outside the storage gate (the writer never gets a file of its own) -/
def fillNoGate (d : Disk) (w : Writer) (now : Int) (resp : Resp) (rr : Option Range.ReqRange) : FillRes :=
  if resp.body.length > 0 then
    let d1 := if w.revalidating then (republish d w now none).1 else d
    { disk := d1.upd w.path none, toClient := [], label := "w:nogate-body" }
  else if resp.readErr then
    let d1 := if w.revalidating then (republish d w now none).1 else d
    { disk := d1.upd w.path none, toClient := [], label := "w:nogate-readerr" }
  else
    if w.revalidating then
      let (d1, ok) := republish d w now none
      if ok then
        match d1 w.path with
        | some f => { disk := d1, toClient := sendBody rr f.body.length f.body, label := "w:nogate-oldbody" }
        | none => { disk := d1, toClient := [], label := "w:nogate-empty" }
      else { disk := d1, toClient := [], label := "w:nogate-empty" }
    else { disk := d, toClient := [], label := "w:nogate-empty" }

/-- `cachingFill` inside the storage gate (`storageWriter.WriteHeader` onwards) -/
def fillInGate (cfg : Config) (d : Disk) (w : Writer) (now : Int) (status : Nat) (clientHeader : Header)
    (resp : Resp) (redirect : Bytes) (rr : Option Range.ReqRange) : FillRes :=
  if (getCacheControlDirectives (stHeaderOf status clientHeader)).doNotCache then
    { disk := if w.revalidating then d.upd w.path none else d, toClient := [], label := "w:invalidated" }
  else
    let file : File := { body := resp.body,
                         xattr := some (Codec.encode (fillMeta cfg w now status clientHeader resp redirect)) }
    if resp.readErr then
      { disk := d.upd w.path none, toClient := [], label := "w:fill-readerr" }
    else if resp.body.length = 0 ∧ !emptyAllowed w.key.method (stStatusOf status) then
      { disk := if (d w.path).isSome then d else d.upd w.path none, toClient := [], label := "w:fill-empty" }
    else
      { disk := d.upd w.path (some file), toClient := sendBody rr resp.body.length resp.body, label := "w:fill" }

/-- `cachingFill` is these two halves (definitional: the same text) -/
theorem cachingFill_eq (cfg : Config) (d : Disk) (w : Writer) (now : Int) (status : Nat) (clientHeader : Header)
    (resp : Resp) (redirect : Bytes) (rr : Option Range.ReqRange) :
    cachingFill cfg d w now status clientHeader resp redirect rr =
      if !inGate (stStatusOf status) then fillNoGate d w now resp rr
      else fillInGate cfg d w now status clientHeader resp redirect rr := rfl

theorem cell_upd_none (d d1 : Disk) (k p : Bytes) (h1 : ∀ q, q ≠ k → d1 q = d q) :
    (d1.upd k none) p = d p ∨ (d1.upd k none) p = none := by
  by_cases hp : p = k
  · right; rw [hp]; exact upd_self _ _ _
  · left; rw [upd_other _ _ _ hp]; exact h1 p hp

theorem fillNoGate_cell (d : Disk) (w : Writer) (now : Int) (resp : Resp) (rr : Option Range.ReqRange) (p : Bytes) :
    (fillNoGate d w now resp rr).disk p = d p ∨ (fillNoGate d w now resp rr).disk p = none ∨
    (p = w.path ∧ w.revalidating = true ∧ resp.body.length = 0 ∧ resp.readErr = false ∧
      ∃ f x m, d w.path = some f ∧ f.xattr = some x ∧ Codec.decode x = .ok (some m) ∧
        (fillNoGate d w now resp rr).disk p =
          some { body := f.body, xattr := some (Codec.encode { m with revalidated := now }) }) := by
  have hrep : ∀ q, q ≠ w.path → (if w.revalidating = true then (republish d w now none).1 else d) q = d q := by
    intro q hq
    split
    · exact republish_other d w now none hq
    · rfl
  unfold fillNoGate
  by_cases hb : resp.body.length > 0
  · rw [if_pos hb]
    rcases cell_upd_none d _ w.path p hrep with h | h
    · exact Or.inl h
    · exact Or.inr (Or.inl h)
  · rw [if_neg hb]
    by_cases he : resp.readErr = true
    · rw [if_pos he]
      rcases cell_upd_none d _ w.path p hrep with h | h
      · exact Or.inl h
      · exact Or.inr (Or.inl h)
    · rw [if_neg he]
      by_cases hr : w.revalidating = true
      · rw [if_pos hr]
        rcases republish_spec d w now none with ⟨h, _⟩ | h | ⟨f, x, m, hf, hx, hm, _, h⟩
        · rw [h]; exact Or.inl rfl
        · rw [h]
          rcases cell_upd_none d d w.path p (fun _ _ => rfl) with h | h
          · exact Or.inl h
          · exact Or.inr (Or.inl h)
        · rw [h]; dsimp only
          rw [if_pos rfl, upd_self]
          dsimp only
          by_cases hp : p = w.path
          · refine Or.inr (Or.inr ⟨hp, hr, by omega, by simpa using he, f, x, m, hf, hx, hm, ?_⟩)
            rw [hp, upd_self]; rfl
          · exact Or.inl (upd_other _ _ _ hp)
      · rw [if_neg hr]; exact Or.inl rfl

theorem fillInGate_cell (cfg : Config) (d : Disk) (w : Writer) (now : Int) (status : Nat) (clientHeader : Header)
    (resp : Resp) (redirect : Bytes) (rr : Option Range.ReqRange) (p : Bytes) :
    (fillInGate cfg d w now status clientHeader resp redirect rr).disk p = d p ∨
    (fillInGate cfg d w now status clientHeader resp redirect rr).disk p = none ∨
    (p = w.path ∧
      (getCacheControlDirectives (stHeaderOf status clientHeader)).doNotCache = false ∧
      resp.readErr = false ∧
      (resp.body.length = 0 → emptyAllowed w.key.method (stStatusOf status) = true) ∧
      (fillInGate cfg d w now status clientHeader resp redirect rr).disk p =
        some { body := resp.body,
               xattr := some (Codec.encode (fillMeta cfg w now status clientHeader resp redirect)) }) := by
  have hnone := cell_upd_none d d w.path p (fun _ _ => rfl)
  have hnone' : ∀ P : Prop, d.upd w.path none p = d p ∨ d.upd w.path none p = none ∨ P :=
    fun _ => hnone.elim Or.inl (fun h => Or.inr (Or.inl h))
  unfold fillInGate
  by_cases hdn : (getCacheControlDirectives (stHeaderOf status clientHeader)).doNotCache = true
  · rw [if_pos hdn]; dsimp only
    split
    · exact hnone' _
    · exact Or.inl rfl
  · rw [if_neg hdn]; dsimp only
    by_cases hre : resp.readErr = true
    · rw [if_pos hre]; exact hnone' _
    · rw [if_neg hre]
      by_cases hem : resp.body.length = 0 ∧ (!emptyAllowed w.key.method (stStatusOf status)) = true
      · rw [if_pos hem]; dsimp only
        split
        · exact Or.inl rfl
        · exact hnone' _
      · rw [if_neg hem]; dsimp only
        by_cases hp : p = w.path
        · refine Or.inr (Or.inr ⟨hp, by simpa using hdn, by simpa using hre, ?_, ?_⟩)
          · intro hz
            have := not_and.1 hem hz
            simpa using this
          · rw [hp, upd_self]
        · exact Or.inl (upd_other _ _ _ hp)

/-- **C10 (4)** the caching stack for one origin response: every cell of the disk is afterwards what it was,
    or empty, or (the writer's own cell only) a file published under the gate conditions, or the
    re-published old file (C09-e). -/
theorem cachingFill_gate (cfg : Config) (d : Disk) (w : Writer) (now : Int) (status : Nat) (clientHeader : Header)
    (resp : Resp) (redirect : Bytes) (rr : Option Range.ReqRange) (p : Bytes) :
    (cachingFill cfg d w now status clientHeader resp redirect rr).disk p = d p ∨
    (cachingFill cfg d w now status clientHeader resp redirect rr).disk p = none ∨
    (p = w.path ∧ Published cfg w now status clientHeader resp redirect
        ((cachingFill cfg d w now status clientHeader resp redirect rr).disk p)) ∨
    (p = w.path ∧ RepublishedOld d w now status resp
        ((cachingFill cfg d w now status clientHeader resp redirect rr).disk p)) := by
  rw [cachingFill_eq]
  by_cases hg : inGate (stStatusOf status) = true
  · rw [if_neg (by simp [hg])]
    rcases fillInGate_cell cfg d w now status clientHeader resp redirect rr p with h | h | ⟨hp, h1, h2, h3, h4⟩
    · exact Or.inl h
    · exact Or.inr (Or.inl h)
    · exact Or.inr (Or.inr (Or.inl ⟨hp, hg, h1, h2, h3, h4⟩))
  · rw [if_pos (by simp [hg])]
    rcases fillNoGate_cell d w now resp rr p with h | h | ⟨hp, h1, h2, h3, h4⟩
    · exact Or.inl h
    · exact Or.inr (Or.inl h)
    · exact Or.inr (Or.inr (Or.inr ⟨hp, h1, by simpa using hg, h2, h3, h4⟩))

/-- nothing is ever PUBLISHED from a response whose header map (as sent to the client) says `DoNotCache`
    or whose body was cut short: then every cell is the old one, empty, or C09-e's re-published old file -/
theorem cachingFill_no_publish (cfg : Config) (d : Disk) (w : Writer) (now : Int) (status : Nat)
    (clientHeader : Header) (resp : Resp) (redirect : Bytes) (rr : Option Range.ReqRange)
    (h : (getCacheControlDirectives (stHeaderOf status clientHeader)).doNotCache = true ∨ resp.readErr = true)
    (p : Bytes) :
    (cachingFill cfg d w now status clientHeader resp redirect rr).disk p = d p ∨
    (cachingFill cfg d w now status clientHeader resp redirect rr).disk p = none ∨
    (p = w.path ∧ RepublishedOld d w now status resp
        ((cachingFill cfg d w now status clientHeader resp redirect rr).disk p)) := by
  rcases cachingFill_gate cfg d w now status clientHeader resp redirect rr p with
    h1 | h1 | ⟨_, _, h2, h3, _⟩ | h1
  · exact Or.inl h1
  · exact Or.inr (Or.inl h1)
  · rcases h with h | h
    · rw [h] at h2; cases h2
    · rw [h] at h3; cases h3
  · exact Or.inr (Or.inr h1)

/-- non-vacuity: a cacheable 200 IS published … -/
example :
    let w : Writer := { key := ⟨[], b!"h", b!"/a", false, []⟩, path := b!"h/a", revalidating := false }
    let resp : Resp := { status := 200, header := [], contentLength := 2, body := b!"hi" }
    Published {} w 0 200 [] resp [] ((cachingFill {} Disk.empty w 0 200 [] resp [] none).disk w.path) := by
  refine ⟨by decide, by decide, rfl, by decide, by decide⟩

/-- … and the defect C09-e is reachable: a revalidating writer, an empty 500: the OLD file is re-published
    with `Revalidated := now` -/
example :
    let m : Codec.Meta := { host := b!"h", path := b!"/a", status := 200, size := 2 }
    let f : File := { body := b!"hi", xattr := some (Codec.encode m) }
    let d : Disk := Disk.empty.upd b!"h/a" (some f)
    let w : Writer := { key := ⟨[], b!"h", b!"/a", false, []⟩, path := b!"h/a", revalidating := true }
    let resp : Resp := { status := 500, header := [], contentLength := 0, body := [] }
    RepublishedOld d w 7 500 resp ((cachingFill {} d w 7 500 [] resp [] none).disk w.path) := by
  intro m f d w resp
  exact ⟨rfl, by decide, rfl, rfl, f, Codec.encode m, m, by decide, rfl, by decide, by decide⟩

/-! ### 5. provenance of every stored byte -/

theorem Step.AuthKept.disk_eq {d : Disk} {auth : Bytes} {s : Step} (h : Step.AuthKept d auth s) :
    Step.disk s = d := by
  cases s with
  | done a => exact h
  | reenter d' c' ai sk cs tag => exact h.1
  | reenterLocked d' c' ai cs tag => exact h.1

/-- the shape of one activation: it only removed files (every row but the writer rows with an answer), or it
    is a writer row in which the origin answered, continued by `afterAnswer` on the disk `cache.Get` left -/
theorem stepOnce_shape (cfg : Config) (origin : Bytes → Option Origin) (now : Int) (req : Request)
    (d : Disk) (client ai : Header) (skip : Bool) (cs : List Contact) :
    (∃ a, stepOnce cfg origin now req d client ai skip cs = .done a ∧ Shrinks a.disk d) ∨
    ((req.method = b!"GET" ∨ req.method = b!"HEAD") ∧
     ∃ d1 reval resp,
      lookup cfg now (keysOf cfg req client) d client skip = (d1, .writer reval) ∧
      ask cfg origin req cs (surgeryOf (Range.getRange client) client reval).req = some resp ∧
      stepOnce cfg origin now req d client ai skip cs =
        afterAnswer cfg now (keysOf cfg req client) (Range.getRange client) d1 ai
          (logged cfg cs (surgeryOf (Range.getRange client) client reval).req) reval
          (writerOf (keysOf cfg req client) client reval)
          (surgeryOf (Range.getRange client) client reval) resp) := by
  have hl := lookup_shrinks cfg now (keysOf cfg req client) d client skip
  unfold stepOnce
  split
  · left; split <;> exact ⟨_, rfl, Shrinks.refl d⟩
  · rename_i hm
    dsimp only
    split
    all_goals (rename_i heq; rw [heq] at hl)
    · exact Or.inl ⟨_, rfl, hl⟩
    · exact Or.inl ⟨_, rfl, hl⟩
    · exact Or.inl ⟨_, rfl, hl⟩
    · rename_i d1 reval
      unfold writerRow
      dsimp only
      cases hask : ask cfg origin req cs (surgeryOf (Range.getRange client) client reval).req with
      | none => exact Or.inl ⟨_, rfl, hl⟩
      | some resp =>
        right
        refine ⟨?_, d1, reval, resp, heq, hask, rfl⟩
        by_cases h1 : req.method = b!"GET"
        · exact Or.inl h1
        · by_cases h2 : req.method = b!"HEAD"
          · exact Or.inr h2
          · exact absurd ⟨h1, h2⟩ hm

theorem ask_some_lt {cfg : Config} {origin : Bytes → Option Origin} {req : Request} {cs : List Contact}
    {h : Header} {resp : Resp} (ha : ask cfg origin req cs h = some resp) : cs.length < cfg.contactLimit := by
  unfold ask at ha
  split at ha
  · cases ha
  · omega

/-- **C10 (5), one activation** if after ONE activation of `cachingFunc` some cell of the disk is non-empty
    and differs from what it was, then the request is a GET or HEAD without Authorization, the activation is
    a writer row in which the origin WAS contacted, and the directives of the origin's answer do not say
    `DoNotCache`. -/
theorem store_provenance (cfg : Config) (origin : Bytes → Option Origin) (now : Int) (req : Request)
    (d : Disk) (client ai : Header) (skip : Bool) (cs : List Contact)
    (h : ∃ p, Step.disk (stepOnce cfg origin now req d client ai skip cs) p ≠ d p ∧
              Step.disk (stepOnce cfg origin now req d client ai skip cs) p ≠ none) :
    (req.method = b!"GET" ∨ req.method = b!"HEAD") ∧
    (client.get b!"authorization").length = 0 ∧
    cs.length < cfg.contactLimit ∧
    ∃ d1 reval resp,
      lookup cfg now (keysOf cfg req client) d client skip = (d1, .writer reval) ∧
      ask cfg origin req cs (surgeryOf (Range.getRange client) client reval).req = some resp ∧
      (getCacheControlDirectives resp.header).doNotCache = false := by
  obtain ⟨p, hp1, hp2⟩ := h
  have hno : ¬ Shrinks (Step.disk (stepOnce cfg origin now req d client ai skip cs)) d := by
    intro hs
    rcases hs p with e | e
    · exact hp1 e
    · exact hp2 e
  rcases stepOnce_shape cfg origin now req d client ai skip cs with
    ⟨a, hea, hs⟩ | ⟨hm, d1, reval, resp, hlk, hask, heq⟩
  · rw [hea] at hno; exact absurd hs hno
  · have hl := lookup_shrinks cfg now (keysOf cfg req client) d client skip
    rw [hlk] at hl
    rw [heq] at hno
    refine ⟨hm, ?_, ask_some_lt hask, d1, reval, resp, hlk, hask, ?_⟩
    · -- Authorization ⇒ the writer's disk writes are disabled
      apply Decidable.byContradiction
      intro hne
      have ha : (client.get kAuth).length > 0 := by unfold kAuth; omega
      have hs := surgeryOf_auth (Range.getRange client) client reval
      have := (afterAnswer_disabled cfg now (keysOf cfg req client) (Range.getRange client) d1 ai
        (logged cfg cs (surgeryOf (Range.getRange client) client reval).req) reval _ _ resp
        (writerOf_disabled (keysOf cfg req client) client reval ha) hs.2.1 hs.2.2).disk_eq
      rw [this] at hno
      exact hno hl
    · cases hd : (getCacheControlDirectives resp.header).doNotCache with
      | false => rfl
      | true =>
        exfalso
        obtain ⟨a, hea, had, _⟩ := doNotCache_answer_never_stored cfg now (keysOf cfg req client)
          (Range.getRange client) d1 ai (logged cfg cs (surgeryOf (Range.getRange client) client reval).req)
          reval (writerOf (keysOf cfg req client) client reval)
          (surgeryOf (Range.getRange client) client reval) resp hd
        rw [hea] at hno
        have : Step.disk (Step.done a) = d1 := had
        rw [this] at hno
        exact hno hl

/-- non-vacuity: a GET without Authorization for a cacheable answer on an empty disk DOES change a cell -/
example :
    let o : Origin := { status := 200, headers := [(b!"Cache-Control", b!"max-age=60")], body := b!"hello" }
    let req : Request := { method := b!"GET", path := b!"a", header := [] }
    ∃ p, Step.disk (stepOnce {} (fun _ => some o) 0 req Disk.empty [] [] false []) p ≠ Disk.empty p ∧
         Step.disk (stepOnce {} (fun _ => some o) 0 req Disk.empty [] [] false []) p ≠ none :=
  ⟨b!"h1.test/a", by decide, by decide⟩

theorem cachingFunc_succ_done {cfg : Config} {origin : Bytes → Option Origin} {now : Int} {req : Request}
    {d : Disk} {client ai : Header} {skip : Bool} {cs : List Contact} {a : Ans}
    (h : stepOnce cfg origin now req d client ai skip cs = .done a) (fuel : Nat) :
    cachingFunc cfg origin now req (fuel + 1) d client ai skip cs = a := by
  unfold cachingFunc; rw [h]

theorem cachingFunc_succ_reenter {cfg : Config} {origin : Bytes → Option Origin} {now : Int} {req : Request}
    {d : Disk} {client ai : Header} {skip : Bool} {cs : List Contact}
    {d' : Disk} {c' ai' : Header} {s' : Bool} {cs' : List Contact} {tag : String}
    (h : stepOnce cfg origin now req d client ai skip cs = .reenter d' c' ai' s' cs' tag) (fuel : Nat) :
    cachingFunc cfg origin now req (fuel + 1) d client ai skip cs =
      { cachingFunc cfg origin now req fuel d' c' ai' s' cs' with
        label := tag ++ (cachingFunc cfg origin now req fuel d' c' ai' s' cs').label } := by
  conv => lhs; unfold cachingFunc
  rw [h]

theorem cachingFunc_succ_reenterLocked {cfg : Config} {origin : Bytes → Option Origin} {now : Int} {req : Request}
    {d : Disk} {client ai : Header} {skip : Bool} {cs : List Contact}
    {d' : Disk} {c' ai' : Header} {cs' : List Contact} {tag : String}
    (h : stepOnce cfg origin now req d client ai skip cs = .reenterLocked d' c' ai' cs' tag) (fuel : Nat) :
    cachingFunc cfg origin now req (fuel + 1) d client ai skip cs =
      { lockedReentry cfg origin now req d' c' ai' cs' with
        label := tag ++ (lockedReentry cfg origin now req d' c' ai' cs').label } := by
  conv => lhs; unfold cachingFunc
  rw [h]

/-- if a request changed the disk other than by removing files, then some activation of it contacted the
    origin (so the log grew), and SOME contacted answer's directives did not say `DoNotCache` -/
theorem cachingFunc_store_contact (cfg : Config) (origin : Bytes → Option Origin) (now : Int) (req : Request) :
    ∀ (fuel : Nat) (d : Disk) (client ai : Header) (skip : Bool) (cs : List Contact),
      ¬ Shrinks (cachingFunc cfg origin now req fuel d client ai skip cs).disk d →
      cs.length < cfg.contactLimit ∧
      cs.length < (cachingFunc cfg origin now req fuel d client ai skip cs).contacts.length ∧
      ∃ cs' h resp, ask cfg origin req cs' h = some resp ∧
        (getCacheControlDirectives resp.header).doNotCache = false := by
  intro fuel
  induction fuel with
  | zero => intro d client ai skip cs hno; exact absurd (Shrinks.refl d) hno
  | succ n ih =>
    intro d client ai skip cs hno
    have hpre := stepOnce_contacts_prefix cfg origin now req d client ai skip cs
    -- a cell that witnesses a change in this activation gives the provenance of this activation
    have hprov : ¬ Shrinks (Step.disk (stepOnce cfg origin now req d client ai skip cs)) d →
        cs.length < cfg.contactLimit ∧
        cs.length < (Step.contacts (stepOnce cfg origin now req d client ai skip cs)).length ∧
        ∃ cs' h resp, ask cfg origin req cs' h = some resp ∧
          (getCacheControlDirectives resp.header).doNotCache = false := by
      intro hns
      have hex : ∃ p, Step.disk (stepOnce cfg origin now req d client ai skip cs) p ≠ d p ∧
          Step.disk (stepOnce cfg origin now req d client ai skip cs) p ≠ none := by
        apply Classical.byContradiction
        intro hne
        apply hns
        intro p
        by_cases h1 : Step.disk (stepOnce cfg origin now req d client ai skip cs) p = d p
        · exact Or.inl h1
        · by_cases h2 : Step.disk (stepOnce cfg origin now req d client ai skip cs) p = none
          · exact Or.inr h2
          · exact absurd ⟨p, h1, h2⟩ hne
      obtain ⟨_, _, hlt, d1, reval, resp, hlk, hask, hdn⟩ :=
        store_provenance cfg origin now req d client ai skip cs hex
      refine ⟨hlt, ?_, cs, _, resp, hask, hdn⟩
      rcases stepOnce_shape cfg origin now req d client ai skip cs with
        ⟨a, hea, hs⟩ | ⟨_, d1', reval', resp', hlk', _, heq⟩
      · rw [hea] at hns; exact absurd hs hns
      · rw [hlk] at hlk'
        cases hlk'
        rw [heq, afterAnswer_contacts, logged_of_lt _ hlt]
        simp
    cases hs : stepOnce cfg origin now req d client ai skip cs with
    | done a =>
      rw [cachingFunc_succ_done hs] at hno ⊢
      rw [hs] at hprov
      exact hprov hno
    | reenter d' c' ai' s' cs' tag =>
      rw [cachingFunc_succ_reenter hs] at hno ⊢
      rw [hs] at hprov hpre
      dsimp only at hno ⊢
      have hpre' := cachingFunc_contacts_prefix cfg origin now req n d' c' ai' s' cs'
      by_cases hsd : Shrinks d' d
      · have hno' : ¬ Shrinks (cachingFunc cfg origin now req n d' c' ai' s' cs').disk d' :=
          fun h => hno (Shrinks.trans h hsd)
        obtain ⟨h1, h2, h3⟩ := ih d' c' ai' s' cs' hno'
        have hle : cs.length ≤ cs'.length := hpre.length_le
        exact ⟨by omega, by omega, h3⟩
      · obtain ⟨h1, h2, h3⟩ := hprov hsd
        have hle : cs'.length ≤ _ := hpre'.length_le
        have h2' : cs.length < cs'.length := h2
        exact ⟨h1, by omega, h3⟩
    | reenterLocked d' c' ai' cs' tag =>
      rw [cachingFunc_succ_reenterLocked hs] at hno ⊢
      rw [hs] at hprov hpre
      dsimp only at hno ⊢
      have hpre' := lockedReentry_contacts_prefix cfg origin now req d' c' ai' cs'
      have hsd : ¬ Shrinks d' d := fun h =>
        hno (Shrinks.trans (lockedReentry_shrinks cfg origin now req d' c' ai' cs') h)
      obtain ⟨h1, h2, h3⟩ := hprov hsd
      have hle : cs'.length ≤ _ := hpre'.length_le
      have h2' : cs.length < cs'.length := h2
      exact ⟨h1, by omega, h3⟩

/-- **C10 (5), whole request** whatever the fuel: if the disk after the request is not the old one with
    some files removed (something was written, changed or moved), then the request is a GET or HEAD
    without Authorization, the origin was contacted (the performer's log grew), and some answer of the
    origin in this request had directives that do not say `DoNotCache`. -/
theorem cachingFunc_store_provenance (cfg : Config) (origin : Bytes → Option Origin) (now : Int) (req : Request)
    (fuel : Nat) (d : Disk) (client ai : Header) (skip : Bool) (cs : List Contact)
    (hno : ¬ Shrinks (cachingFunc cfg origin now req fuel d client ai skip cs).disk d) :
    (req.method = b!"GET" ∨ req.method = b!"HEAD") ∧
    (client.get b!"authorization").length = 0 ∧
    cs.length < cfg.contactLimit ∧
    cs.length < (cachingFunc cfg origin now req fuel d client ai skip cs).contacts.length ∧
    ∃ cs' h resp, ask cfg origin req cs' h = some resp ∧
      (getCacheControlDirectives resp.header).doNotCache = false := by
  refine ⟨?_, ?_, cachingFunc_store_contact cfg origin now req fuel d client ai skip cs hno⟩
  · apply Decidable.byContradiction
    intro hm
    have hm' : req.method ≠ b!"GET" ∧ req.method ≠ b!"HEAD" := ⟨fun h => hm (Or.inl h), fun h => hm (Or.inr h)⟩
    cases fuel with
    | zero => exact hno (Shrinks.refl d)
    | succ n =>
      have := (other_methods_bypass cfg origin now req hm' n d client ai skip cs).1
      rw [this] at hno
      exact hno (Shrinks.refl d)
  · apply Decidable.byContradiction
    intro ha
    exact hno (authorization_never_stores cfg origin now req fuel d client ai skip cs (by omega))

theorem obsOf_contacts (req : Request) (a : Ans) : (obsOf req a).contacts = a.contacts := by
  unfold obsOf
  generalize wire req.method a.out = r
  rcases r with ⟨_, _, _, _⟩
  rfl

/-- **C10 (5), histories** in every state of every history: a request after which the disk is not the old one
    with files removed is a GET or HEAD without Authorization for which the origin was contacted -/
theorem step_store_provenance (cfg : Config) (s : State) (r : Request)
    (hno : ¬ Shrinks (step cfg s (.req r)).1.disk s.disk) :
    (r.method = b!"GET" ∨ r.method = b!"HEAD") ∧
    (r.header.get b!"authorization").length = 0 ∧
    ∃ o, (step cfg s (.req r)).2 = some o ∧ o.contacts ≠ [] := by
  have h := cachingFunc_store_provenance cfg s.origin s.now r defaultFuel s.disk r.header [] false [] hno
  refine ⟨h.1, h.2.1, _, rfl, ?_⟩
  rw [obsOf_contacts]
  intro he
  have := h.2.2.2.1
  rw [he] at this
  exact absurd this (by simp)

/-- the other direction of C10 for histories: a request with another method, or with Authorization, leaves
    every cell as it was or empty -/
theorem step_uncacheable_request (cfg : Config) (s : State) (r : Request)
    (h : (r.method ≠ b!"GET" ∧ r.method ≠ b!"HEAD") ∨ (r.header.get b!"authorization").length > 0) :
    Shrinks (step cfg s (.req r)).1.disk s.disk := by
  apply Classical.byContradiction
  intro hno
  obtain ⟨hm, ha, _⟩ := step_store_provenance cfg s r hno
  rcases h with ⟨h1, h2⟩ | h
  · rcases hm with hm | hm
    · exact h1 hm
    · exact h2 hm
  · omega

/-! ### 6. the header map the client is sent carries the origin's directives -/

/-- `alwaysInclude` is a map built through `Set` that has no value for Cache-Control or Vary -/
def AiClean (ai : Header) : Prop :=
  Normal ai ∧ ai.values b!"cache-control" = [] ∧ ai.values b!"vary" = []

theorem aiClean_nil : AiClean [] := ⟨normal_nil, rfl, rfl⟩

/-- a header name that is neither Cache-Control nor Vary (in any casing) -/
def Harmless (k : Bytes) : Prop := canon k ≠ canon b!"cache-control" ∧ canon k ≠ canon b!"vary"

theorem harmless_status : Harmless kStatus := by unfold Harmless; decide
theorem harmless_age : Harmless b!"Age" := by unfold Harmless; decide
theorem harmless_cl : Harmless b!"content-length" := by unfold Harmless; decide
theorem harmless_cr : Harmless b!"content-range" := by unfold Harmless; decide
theorem harmless_etag : Harmless Conditional.kEtag := by unfold Harmless; decide

theorem AiClean.set {ai : Header} (h : AiClean ai) {k : Bytes} (hk : Harmless k) (v : Bytes) :
    AiClean (ai.set k v) := by
  refine ⟨h.1.set k v, ?_, ?_⟩
  · rw [Header.values_set, if_neg hk.1]; exact h.2.1
  · rw [Header.values_set, if_neg hk.2]; exact h.2.2

theorem withRange_clean {ai : Header} (h : AiClean ai) (set : Option (Bytes × Bytes)) :
    AiClean (withRange ai set) := by
  unfold withRange
  split
  · exact (h.set harmless_cl _).set harmless_cr _
  · exact h

/-- the `alwaysInclude` map that `rangeAdjust` hands on is still clean -/
theorem rangeAdjust_clean (rr : Option Range.ReqRange) (resp : Resp) {ai : Header} (h : AiClean ai) :
    AiClean (rangeAdjust rr resp ai).2.2 := by
  unfold rangeAdjust
  split
  · dsimp only
    split
    · exact h
    · exact withRange_clean h _
  · exact h

/-- **C10 (6)** what the client is sent — `requestHandler`'s header map: the origin's headers ⊕ alwaysInclude,
    ETag suffixed — has exactly the directives (`Cache-Control` AND `Vary` reading) of the origin's header
    map, PROVIDED the origin's map is `Normal` (distinct raw keys in canonical form, which every parsed
    `http.Response.Header` is) and `alwaysInclude` is clean. -/
theorem client_header_directives {o : Header} (hn : Normal o) (sfx : Option Bytes) {ai : Header}
    (hc : AiClean ai) :
    getCacheControlDirectives (Conditional.suffixETag sfx (Conditional.copyHeaders o ai)) =
      getCacheControlDirectives o :=
  getCacheControlDirectives_congr
    (Conditional.values_clientHeader hn sfx hc.1 _ harmless_etag.1 hc.2.1)
    (Conditional.values_clientHeader hn sfx hc.1 _ harmless_etag.2 hc.2.2)

/-- the form asked for: `DoNotCache` of what the client is sent = `DoNotCache` of the origin's answer; only
    Cache-Control matters: `alwaysInclude` (a `Normal` map) must have no value under `Cache-Control` -/
theorem client_header_doNotCache {o : Header} (hn : Normal o) (sfx : Option Bytes) {ai : Header}
    (ha : Normal ai) (hc : Header.vals ai (canon b!"cache-control") = []) :
    (getCacheControlDirectives (Conditional.suffixETag sfx (Conditional.copyHeaders o ai))).doNotCache =
      (getCacheControlDirectives o).doNotCache :=
  doNotCache_congr (Conditional.values_clientHeader hn sfx ha _ harmless_etag.1 hc)

/-- the hypothesis `Normal` on the origin's map is NEEDED: an association list with a raw key that is not
    in canonical form (no parsed response has one) is invisible to `Values("cache-control")` but
    `clearAndCopyHeaders` canonicalises it -/
example :
    let o : Header := [(b!"cache-control", [b!"no-store"])]
    (getCacheControlDirectives o).doNotCache = false ∧
    (getCacheControlDirectives (Conditional.suffixETag none (Conditional.copyHeaders o []))).doNotCache = true := by
  decide

/-- … and so is the one on `alwaysInclude` -/
example :
    let o : Header := [(b!"Cache-Control", [b!"max-age=5"])]
    let ai : Header := [(b!"Cache-Control", [b!"no-store"])]
    (getCacheControlDirectives o).doNotCache = false ∧
    (getCacheControlDirectives (Conditional.suffixETag none (Conditional.copyHeaders o ai))).doNotCache = true := by
  decide

/-- non-vacuity of the hypotheses: the scripted origin's maps are `Normal`, the handler's `alwaysInclude`
    maps are clean -/
example : Normal (SysCache.addAll [(b!"cache-control", b!"No-Store"), (b!"ETag", b!"\"v1\"")]) ∧
    AiClean ((Header.set [] kStatus b!"miss").set b!"Age" b!"0") :=
  ⟨((normal_nil.add _ _).add _ _), (aiClean_nil.set harmless_status _).set harmless_age _⟩

theorem plainOut_directives (cfg : Config) (resp : Resp) {ai : Header} (so : Option Nat)
    (hn : Normal resp.header) (hc : AiClean ai) :
    getCacheControlDirectives (plainOut cfg resp ai so).header = getCacheControlDirectives resp.header := by
  unfold plainOut
  dsimp only
  split <;> exact client_header_directives hn cfg.sfx hc

/-- the answer's header map is empty (bare status: 416, 500) or has the directives of `o`; a re-entry gets a
    clean `alwaysInclude` -/
def Step.HeaderOK (o : Header) : Step → Prop
  | .done a => a.out.header = [] ∨ getCacheControlDirectives a.out.header = getCacheControlDirectives o
  | .reenter _ _ ai' _ _ _ => AiClean ai'
  | .reenterLocked _ _ ai' _ _ => AiClean ai'

theorem row304_header (o : Header) (d : Disk) {ai : Header} (cs : List Contact) (w : Writer) (sg : Conditional.Surgery)
    (resp : Resp) (now : Int) (hc : AiClean ai) : Step.HeaderOK o (row304 d ai cs w sg resp now) := by
  unfold row304
  dsimp only
  repeat' split
  all_goals first
    | exact Or.inl rfl
    | exact hc.set harmless_status _

/-- every exit of a writer row after the origin's answer: the client is sent a bare status, or a header map
    with exactly the origin's directives (in particular `DoNotCache` is passed on to downstream caches as
    the origin said it); the `alwaysInclude` map of a re-entry is clean again -/
theorem afterAnswer_header (cfg : Config) (now : Int) (keys : List Key) (rr : Option Range.ReqRange) (d : Disk)
    (ai : Header) (cs : List Contact) (reval : Option (Key × Stored × Int)) (w : Writer)
    (sg : Conditional.Surgery) (resp : Resp) (hn : Normal resp.header) (hc : AiClean ai) :
    Step.HeaderOK resp.header (afterAnswer cfg now keys rr d ai cs reval w sg resp) := by
  have hra := rangeAdjust_clean rr resp hc
  unfold afterAnswer
  generalize rangeAdjust rr resp ai = ra at hra
  rcases ra with ⟨_ | s2, so, ai'⟩
  · dsimp only at hra ⊢
    repeat' first | split | (dsimp only; split)
    all_goals (simp only [Step.HeaderOK])
    all_goals first
      | exact Or.inl trivial
      | exact row304_header _ _ cs w sg resp now hra
      | (rw [plainOut_directives cfg resp _ hn]
         · exact Or.inr rfl
         · repeat' (first | exact hra | exact harmless_status | exact harmless_age | apply AiClean.set))
      | (rw [client_header_directives hn]
         · exact Or.inr rfl
         · repeat' (first | exact hra | exact harmless_status | exact harmless_age | apply AiClean.set))
      | (repeat' (first | exact hra | exact harmless_status | exact harmless_age | apply AiClean.set))
  · exact Or.inl rfl

/-! #### every answer of the scripted origin has a `Normal` header map -/

theorem normal_addAll (lines : List (Bytes × Bytes)) : Normal (SysCache.addAll lines) := by
  unfold SysCache.addAll
  have : ∀ (h : Header), Normal h → Normal (lines.foldl (fun h kv => h.add kv.1 kv.2) h) := by
    induction lines with
    | nil => intro h hn; exact hn
    | cons kv t ih => intro h hn; rw [List.foldl_cons]; exact ih _ (hn.add _ _)
  exact this [] normal_nil

theorem originAnswer_normal (o : Origin) (method : Bytes) (req : Header) (cancelAt : Option Nat) :
    Normal (originAnswer o method req cancelAt).header := by
  unfold originAnswer
  repeat' first | split | (dsimp only; split)
  all_goals first
    | exact normal_addAll _
    | exact (normal_addAll _).del _
    | exact (normal_addAll _).set _ _

theorem ask_normal {cfg : Config} {origin : Bytes → Option Origin} {req : Request} {cs : List Contact}
    {h : Header} {resp : Resp} (ha : ask cfg origin req cs h = some resp) : Normal resp.header := by
  unfold ask at ha
  split at ha
  · cases ha
  · cases ho : origin req.path with
    | none => rw [ho] at ha; cases ha
    | some o =>
      rw [ho] at ha
      simp only [Option.map_some, Option.some.injEq] at ha
      rw [← ha]; exact originAnswer_normal _ _ _ _

/-- **C10 (6), one activation** with a clean `alwaysInclude` (the handler starts every request with an empty
    one): the rows that pass an origin answer on — the uncached row `u:pass` and every exit of a writer row —
    send the client a bare status or a header map with exactly the directives of THAT origin answer; the
    `alwaysInclude` map of a re-entry is clean again. -/
theorem stepOnce_header (cfg : Config) (origin : Bytes → Option Origin) (now : Int) (req : Request)
    (d : Disk) (client ai : Header) (skip : Bool) (cs : List Contact) (hc : AiClean ai) :
    (∃ a, stepOnce cfg origin now req d client ai skip cs = .done a ∧
        (a.label = "u:err" ∨ a.label = "g:panic" ∨ a.label = "w:err" ∨
         (∃ resp, ask cfg origin req cs client = some resp ∧ a.label = "u:pass" ∧
            getCacheControlDirectives a.out.header = getCacheControlDirectives resp.header) ∨
         (∃ d1 s, (∃ age stale, lookup cfg now (keysOf cfg req client) d client skip = (d1, .serve s age stale)) ∨
                  lookup cfg now (keysOf cfg req client) d client skip = (d1, .notModified s)))) ∨
    (∃ d1 reval resp,
      lookup cfg now (keysOf cfg req client) d client skip = (d1, .writer reval) ∧
      ask cfg origin req cs (surgeryOf (Range.getRange client) client reval).req = some resp ∧
      Step.HeaderOK resp.header (stepOnce cfg origin now req d client ai skip cs)) := by
  by_cases hm : req.method ≠ b!"GET" ∧ req.method ≠ b!"HEAD"
  · left
    rw [stepOnce_other_methods cfg origin now req hm]
    cases hask : ask cfg origin req cs client with
    | none => exact ⟨_, rfl, Or.inl rfl⟩
    | some resp =>
      refine ⟨_, rfl, Or.inr (Or.inr (Or.inr (Or.inl ⟨resp, rfl, rfl, ?_⟩)))⟩
      exact plainOut_directives cfg resp none (ask_normal hask) (hc.set harmless_status _)
  · unfold stepOnce
    rw [if_neg hm]
    dsimp only
    split
    · exact Or.inl ⟨_, rfl, Or.inr (Or.inl rfl)⟩
    · rename_i d1 s heq
      exact Or.inl ⟨_, rfl, Or.inr (Or.inr (Or.inr (Or.inr ⟨d1, s, Or.inr heq⟩)))⟩
    · rename_i d1 s age stale heq
      exact Or.inl ⟨_, rfl, Or.inr (Or.inr (Or.inr (Or.inr ⟨d1, s, Or.inl ⟨age, stale, heq⟩⟩)))⟩
    · rename_i d1 reval heq
      unfold writerRow
      dsimp only
      cases hask : ask cfg origin req cs (surgeryOf (Range.getRange client) client reval).req with
      | none => exact Or.inl ⟨_, rfl, Or.inr (Or.inr (Or.inl rfl))⟩
      | some resp =>
        exact Or.inr ⟨d1, reval, resp, heq, hask, afterAnswer_header cfg now _ _ d1 ai _ reval _ _ resp (ask_normal hask) hc⟩

/-- the `alwaysInclude` map stays clean along the re-entries of a request -/
theorem stepOnce_reenter_clean (cfg : Config) (origin : Bytes → Option Origin) (now : Int) (req : Request)
    (d : Disk) (client ai : Header) (skip : Bool) (cs : List Contact) (hc : AiClean ai) :
    match stepOnce cfg origin now req d client ai skip cs with
    | .done _ => True
    | .reenter _ _ ai' _ _ _ => AiClean ai'
    | .reenterLocked _ _ ai' _ _ => AiClean ai' := by
  rcases stepOnce_header cfg origin now req d client ai skip cs hc with ⟨a, hea, _⟩ | ⟨_, _, _, _, _, hok⟩
  · rw [hea]; trivial
  · cases hs : stepOnce cfg origin now req d client ai skip cs with
    | done a => trivial
    | reenter d' c' ai' s' cs' tag => rw [hs] at hok; exact hok
    | reenterLocked d' c' ai' cs' tag => rw [hs] at hok; exact hok

/-- `cachingResponseWriter.WriteHeader`'s 206 → 200 rewriting (drop Content-Range, set Content-Length) does not
    touch Cache-Control or Vary: the directive test of `storageWriter.WriteHeader` sees the directives of the
    header map the client was sent — for EVERY header map -/
theorem stHeaderOf_directives (status : Nat) (h : Header) :
    getCacheControlDirectives (stHeaderOf status h) = getCacheControlDirectives h := by
  have hdeny : ∀ k : Bytes, canon b!"content-range" ≠ canon k →
      Header.values (Codec.denyHeaders h [b!"content-range"]) k = Header.values h k := by
    intro k hne
    unfold Header.values
    apply Codec.vals_denyHeaders_ne
    intro x hx
    simp only [List.contains_eq_mem, List.mem_singleton, decide_eq_true_eq] at hx
    rw [canon_of_toLower hx (by decide)]
    exact hne
  unfold stHeaderOf
  split
  · dsimp only
    split
    · apply getCacheControlDirectives_congr
      · rw [Header.values_set, if_neg harmless_cl.1]
        exact hdeny _ (by decide)
      · rw [Header.values_set, if_neg harmless_cl.2]
        exact hdeny _ (by decide)
    · apply getCacheControlDirectives_congr
      · exact hdeny _ (by decide)
      · exact hdeny _ (by decide)
  · rfl

/-- the directive test of `storageWriter.WriteHeader` (on the header map the client was sent, 206 rewritten) reads
    the ORIGIN's directives: on the filling rows of `afterAnswer` — which are only reached when the origin's
    directives do not say `DoNotCache` — the branch `w:invalidated` of `cachingFill` is dead, and `Published`'s
    clause about `stHeaderOf` is a clause about the origin's answer -/
theorem fill_header_directives {o : Header} (hn : Normal o) (sfx : Option Bytes) {ai : Header} (hc : AiClean ai)
    (status : Nat) :
    getCacheControlDirectives (stHeaderOf status (Conditional.suffixETag sfx (Conditional.copyHeaders o ai))) =
      getCacheControlDirectives o := by
  rw [stHeaderOf_directives, client_header_directives hn sfx hc]

end Props.C10Sys
