import RrProofs.Lemmas.C11Compose
/-
  C11 — the two layers composed.

    function level  `Props.C11.key_determines_resource_partial`: outside the classes C11-a/b/c two
                    routed requests with an equal entry name (names = hashed strings) stand for
                    the same resource;
    system level    `Props.C11Sys.holds_model`: every response of the reference keyed cache
                    carries the receiver's own echo or the echo of a request of the history that
                    shares an entry name with the receiver in the same storage.

  Corollary proved here (`response_passes_oracle`): every response the system model gives passes
  the system oracle `Spec.C11Sys.mismatch` — the response was generated for the combination the
  receiver asked for — under four explicit hypotheses about the receiver and the history:

    `NamesInjectiveOn`     SHA-1 does not collide on the key strings involved (receiver's keys
                           against the keys of the history);
    `OutsideClasses`       every request of the history that shares an entry name with the
                           receiver in the receiver's storage forms, with the receiver, a pair
                           outside C11-a, C11-b, C11-c;
    `DestDefined`          the receiver has a destination URL in the sense of `Spec.C11.dest`
                           (`KeySys.contact` ignores the fragment of the substituted destination
                           string, `dest` rejects a malformed `%` escape in it);
    `NoForeignFlagClash`   NOT in the brief, and NECESSARY (`foreign_flag_clash_needed`,
                           `briefStatement_false`): no request
                           routed to ANOTHER storage has a key without the opaque-origin flag under
                           the entry name of a flagged key of the receiver.  The classes C11-a/b/c
                           only speak about requests of one storage, but the lock table of the
                           coalescing wait is keyed by the entry name alone: a request parked
                           behind a writer of another storage continues with THAT writer's key, and
                           `Vary: Origin` re-keying looks at the flag of the key in hand.

  Without `NoForeignFlagClash` everything except the Origin-VALUE test still holds
  (`response_passes_oracle_up_to_origin_value`).
-/
namespace Props.C11SysCompose
open Go Model Model.KeySys Spec.C11 Props.C11 Props.C11Sys Lemmas.C11Compose

/-! ## Hypotheses -/

/-- **SHA-1 injectivity where it is used**: for a key of `xs` and a key of `ys`, equal entry
    names (`FsName` = hex SHA-1 of the key string behind a fixed prefix) come from equal key
    strings.  Nothing is proved about `Go.Sha1`; this is the trusted assumption, made explicit. -/
def NamesInjectiveOn (xs ys : List Key) : Prop :=
  ∀ kx ∈ xs, ∀ ky ∈ ys, nameOf kx = nameOf ky → keyString kx = keyString ky

/-- every request of the history that shares an entry name with the receiver `r` in the
    receiver's storage is, paired with it (generator, receiver), outside C11-a, C11-b, C11-c -/
def OutsideClasses (rules : List Rule) (hist : List CReq) (r : CReq) (x : Ctx) : Prop :=
  ∀ gc ∈ ctxs rules hist, gc.2.cache = x.cache → sharesName gc.2 x = true →
    inClass_C11_a (routedOf gc.1 gc.2) (routedOf r x) = false ∧
    inClass_C11_b (routedOf gc.1 gc.2) (routedOf r x) = false ∧
    inClass_C11_c (routedOf gc.1 gc.2) (routedOf r x) = false

/-- no request of the history routed to ANOTHER storage has a key without the opaque-origin flag
    whose entry name is that of a flagged key of the receiver -/
def NoForeignFlagClash (rules : List Rule) (hist : List CReq) (x : Ctx) : Prop :=
  ∀ gc ∈ ctxs rules hist, gc.2.cache ≠ x.cache →
    ∀ kg ∈ gc.2.keys, ∀ kx ∈ x.keys, nameOf kg = nameOf kx → kg.opaqueOrigin = false → kx.opaqueOrigin = false

/-- the receiver has a destination URL (`Spec.C11.dest`); see `Lemmas.C11Compose.contact_dest`
    for the exact relation to `KeySys.contact` and `dest_isSome_of_no_hash` for the sufficient
    condition "no `#` in the substituted destination string" -/
def DestDefined (r : CReq) (x : Ctx) : Prop := dest (routedOf r x) ≠ none

instance (xs ys : List Key) : Decidable (NamesInjectiveOn xs ys) := by
  unfold NamesInjectiveOn; infer_instance
instance (rules : List Rule) (hist : List CReq) (r : CReq) (x : Ctx) :
    Decidable (OutsideClasses rules hist r x) := by unfold OutsideClasses; infer_instance
instance (rules : List Rule) (hist : List CReq) (x : Ctx) : Decidable (NoForeignFlagClash rules hist x) := by
  unfold NoForeignFlagClash; infer_instance
instance (r : CReq) (x : Ctx) : Decidable (DestDefined r x) := by unfold DestDefined; infer_instance

/-! ## Small facts about the vocabulary -/

theorem mem_ctxs {rules : List Rule} {hist : List CReq} {g : CReq} {cg : Ctx}
    (hg : g ∈ hist) (h : route rules g = some cg) : (g, cg) ∈ ctxs rules hist := by
  unfold ctxs
  rw [List.mem_filterMap]
  exact ⟨g, hg, by rw [h]; rfl⟩

theorem route_of_mem_ctxs {rules : List Rule} {hist : List CReq} {gc : CReq × Ctx}
    (h : gc ∈ ctxs rules hist) : gc.1 ∈ hist ∧ route rules gc.1 = some gc.2 := by
  unfold ctxs at h
  rw [List.mem_filterMap] at h
  obtain ⟨g, hg, he⟩ := h
  cases hr : route rules g with
  | none => simp [hr] at he
  | some c =>
    simp only [hr, Option.map_some, Option.some.injEq] at he
    subst he
    exact ⟨hg, hr⟩

theorem mem_histKeys {rules : List Rule} {hist : List CReq} {g : CReq} {cg : Ctx} {k : Key}
    (hg : g ∈ hist) (h : route rules g = some cg) (hk : k ∈ cg.keys) : k ∈ histKeys rules hist := by
  unfold histKeys
  rw [List.mem_flatMap]
  exact ⟨(g, cg), mem_ctxs hg h, hk⟩

theorem sharesName_of {a b : Ctx} {ka kb : Key} (ha : ka ∈ a.keys) (hb : kb ∈ b.keys)
    (h : nameOf ka = nameOf kb) : sharesName a b = true := by
  unfold sharesName
  simp only [List.any_eq_true, beq_iff_eq]
  exact ⟨ka, ha, kb, hb, h⟩

/-! ## One generator / receiver pair -/

/-- **unpacking for one pair**: generator `g` and receiver `r`, routed to one storage, a key of
    each with the same KEY STRING, the pair outside C11-a/b/c, the receiver's destination
    defined.  Then the echo of `g` passes the system oracle for `r` — with the Origin values
    compared (`varies`) provided the receiver's key is not the opaque-origin one. -/
theorem pair_passes {rules : List Rule} {g r : CReq} {cg x : Ctx}
    (hg : route rules g = some cg) (hx : route rules r = some x) (hcache : cg.cache = x.cache)
    {kg kx : Key} (hkg : kg ∈ cg.keys) (hkx : kx ∈ x.keys) (hstr : keyString kg = keyString kx)
    (ha : inClass_C11_a (routedOf g cg) (routedOf r x) = false)
    (hb : inClass_C11_b (routedOf g cg) (routedOf r x) = false)
    (hc : inClass_C11_c (routedOf g cg) (routedOf r x) = false)
    (hdef : DestDefined r x) (varies : Bool) (hflag : varies = true → kx.opaqueOrigin = false) :
    Spec.C11Sys.mismatch (routedOf r x) (echoOf cg.tag) varies = none := by
  have hholds := key_determines_resource_partial (routedOf g cg) (routedOf r x) ha hb hc
  rw [(route_keys hg).2.1] at hkg
  rw [(route_keys hx).2.1] at hkx
  obtain ⟨kindg, hkindg, ekg⟩ := mem_modelKeys _ kg hkg
  obtain ⟨kindx, hkindx, ekx⟩ := mem_modelKeys _ kx hkx
  have hres := holds_unpack (routedOf g cg) (routedOf r x) hholds hcache kindg kindx hkindg hkindx
    (by rw [← ekg, ← ekx]; exact hstr)
  simp only [resourceId, ResourceId.mk.injEq] at hres
  obtain ⟨hd, hm, hae, hau, hor⟩ := hres
  obtain ⟨hop, hov⟩ := origin_of_originId _ _ kindg kindx hkindg hkindx hor
  refine mismatch_none_of_agreement hg varies hd hdef hm hae hau hop fun hv => hov ?_
  intro hk
  have := hflag hv
  rw [ekx, hk] at this
  simp [kindKey, newKey, flagOf] at this

/-! ## The corollary -/

/-- a key of the receiver whose entry name is `PlainNamed` does not carry the opaque-origin flag -/
theorem flag_of_plainNamed {rules : List Rule} {hist : List CReq} {r : CReq} {x : Ctx}
    (hx : route rules r = some x)
    (hinj : NamesInjectiveOn x.keys (histKeys rules hist))
    (hcls : OutsideClasses rules hist r x) (hlock : NoForeignFlagClash rules hist x)
    {kx : Key} (hkx : kx ∈ x.keys) (hp : PlainNamed rules hist (nameOf kx)) :
    kx.opaqueOrigin = false := by
  obtain ⟨z, hz, cz, hcz, kz, hkz, hn, hflag⟩ := hp
  by_cases hcache : cz.cache = x.cache
  · obtain ⟨ha, _, _⟩ := hcls (z, cz) (mem_ctxs hz hcz) hcache (sharesName_of hkz hkx hn)
    have hstr := hinj kx hkx kz (mem_histKeys hz hcz hkz) hn.symm
    have hf := fields_of_not_class_a (routedOf z cz) (routedOf r x) ha hcache kz kx
      (by rw [← (route_keys hcz).2.1]; exact hkz) (by rw [← (route_keys hx).2.1]; exact hkx) hstr.symm
    have : kz.opaqueOrigin = kx.opaqueOrigin := by
      simp only [Key.fields, KeyFields.mk.injEq] at hf
      exact hf.2.2.2.2
    rw [← this]; exact hflag
  · exact hlock (z, cz) (mem_ctxs hz hcz) hcache kz hkz kx hkx hn hflag

/-- **C11, the two layers composed.**  For every rule set and every history, every response the
    system model gives to a request `r` (= `p.1`, routed to `x`) that carries an echo `t` passes
    the system oracle — it was generated for the combination `r` asked for — provided SHA-1 is
    injective on the key strings involved, every request of the history sharing an entry name with
    `r` in `r`'s storage is outside C11-a/b/c when paired with `r`, no request of another storage
    clashes with a flagged key of `r` (lock table), and `r` has a destination.  `variesOf` is the
    "varies by Origin" of the harness driver. -/
theorem response_passes_oracle (rules : List Rule) (steps : List Step)
    (o : Out) (ho : o ∈ (run rules steps).outs) (p : CReq × Resp) (hp : p ∈ o.served)
    (t : Tag) (ht : p.2.tag = some t) (x : Ctx) (hx : route rules p.1 = some x)
    (hinj : NamesInjectiveOn x.keys (histKeys rules (requestsOf steps)))
    (hcls : OutsideClasses rules (requestsOf steps) p.1 x)
    (hlock : NoForeignFlagClash rules (requestsOf steps) x)
    (hdef : DestDefined p.1 x) :
    Spec.C11Sys.mismatch (routedOf p.1 x) (echoOf t) (variesOf p.2 t) = none := by
  obtain ⟨hv, x', hx', h⟩ := served_strong rules steps o ho p hp t ht
  rw [hx] at hx'
  simp only [Option.some.injEq] at hx'
  subst hx'
  rcases h with h | ⟨y, hy, cy, hcy, htag, hcache, kx, hkx, ky, hky, hn, hpl⟩
  · rw [h]
    exact mismatch_none_of_agreement hx _ rfl hdef rfl rfl rfl rfl fun _ => rfl
  · rw [← htag]
    obtain ⟨ha, hb, hc⟩ := hcls (y, cy) (mem_ctxs hy hcy) hcache (sharesName_of hky hkx hn.symm)
    have hstr := hinj kx hkx ky (mem_histKeys hy hcy hky) hn
    refine pair_passes hcy hx hcache hky hkx hstr.symm ha hb hc hdef _ fun hvar => ?_
    apply flag_of_plainNamed hx hinj hcls hlock hkx
    apply hpl
    rw [← varies_model, ← htag]
    unfold variesOf at hvar
    rw [hv, htag] at hvar
    rw [htag]
    exact hvar

/-- the same, as the oracle's verdict -/
theorem response_holds (rules : List Rule) (steps : List Step)
    (o : Out) (ho : o ∈ (run rules steps).outs) (p : CReq × Resp) (hp : p ∈ o.served)
    (t : Tag) (ht : p.2.tag = some t) (x : Ctx) (hx : route rules p.1 = some x)
    (hinj : NamesInjectiveOn x.keys (histKeys rules (requestsOf steps)))
    (hcls : OutsideClasses rules (requestsOf steps) p.1 x)
    (hlock : NoForeignFlagClash rules (requestsOf steps) x)
    (hdef : DestDefined p.1 x) :
    Spec.C11Sys.holds (routedOf p.1 x) (echoOf t) (variesOf p.2 t) = true := by
  unfold Spec.C11Sys.holds
  rw [response_passes_oracle rules steps o ho p hp t ht x hx hinj hcls hlock hdef]
  rfl

/-- **without the lock-table hypothesis** every test of the oracle except the comparison of the
    Origin VALUES still passes: destination host, path, query, GET versus HEAD, Accept-Encoding,
    Authorization, presence of an Origin -/
theorem response_passes_oracle_up_to_origin_value (rules : List Rule) (steps : List Step)
    (o : Out) (ho : o ∈ (run rules steps).outs) (p : CReq × Resp) (hp : p ∈ o.served)
    (t : Tag) (ht : p.2.tag = some t) (x : Ctx) (hx : route rules p.1 = some x)
    (hinj : NamesInjectiveOn x.keys (histKeys rules (requestsOf steps)))
    (hcls : OutsideClasses rules (requestsOf steps) p.1 x)
    (hdef : DestDefined p.1 x) :
    Spec.C11Sys.mismatch (routedOf p.1 x) (echoOf t) false = none := by
  obtain ⟨_, x', hx', h⟩ := served_strong rules steps o ho p hp t ht
  rw [hx] at hx'
  simp only [Option.some.injEq] at hx'
  subst hx'
  rcases h with h | ⟨y, hy, cy, hcy, htag, hcache, kx, hkx, ky, hky, hn, _⟩
  · rw [h]
    exact mismatch_none_of_agreement hx _ rfl hdef rfl rfl rfl rfl fun _ => rfl
  · rw [← htag]
    obtain ⟨ha, hb, hc⟩ := hcls (y, cy) (mem_ctxs hy hcy) hcache (sharesName_of hky hkx hn.symm)
    have hstr := hinj kx hkx ky (mem_histKeys hy hcy hky) hn
    exact pair_passes hcy hx hcache hky hkx hstr.symm ha hb hc hdef false (fun h => by simp at h)

/-! ## Where `NoForeignFlagClash` comes from -/

/-- C11-a without its same-storage clause: some key of `a` and some key of `b` are hashed from
    the same string although their fields differ — in whatever storages the two requests work -/
def clashAnyStorage (a b : Routed) : Bool :=
  (modelKeys a).any fun ka => (modelKeys b).any fun kb =>
    keyString ka == keyString kb && ka.fields != kb.fields

/-- the lock-table hypothesis follows from SHA-1 injectivity and the absence of ambiguous
    concatenations ACROSS storages -/
theorem noForeignFlagClash_of_no_clash {rules : List Rule} {hist : List CReq} {r : CReq} {x : Ctx}
    (hx : route rules r = some x)
    (hinj : NamesInjectiveOn x.keys (histKeys rules hist))
    (h : ∀ gc ∈ ctxs rules hist, gc.2.cache ≠ x.cache →
      clashAnyStorage (routedOf gc.1 gc.2) (routedOf r x) = false) :
    NoForeignFlagClash rules hist x := by
  intro gc hgc hne kg hkg kx hkx hn hflag
  obtain ⟨hg, hroute⟩ := route_of_mem_ctxs hgc
  have hstr := hinj kx hkx kg (mem_histKeys hg hroute hkg) hn.symm
  have hcl := h gc hgc hne
  by_cases hf : kg.fields = kx.fields
  · have : kg.opaqueOrigin = kx.opaqueOrigin := by
      simp only [Key.fields, KeyFields.mk.injEq] at hf
      exact hf.2.2.2.2
    rw [← this]; exact hflag
  · exfalso
    have : clashAnyStorage (routedOf gc.1 gc.2) (routedOf r x) = true := by
      unfold clashAnyStorage
      simp only [List.any_eq_true]
      refine ⟨kg, by rw [← (route_keys hroute).2.1]; exact hkg, kx,
        by rw [← (route_keys hx).2.1]; exact hkx, ?_⟩
      simp [hstr, hf]
    rw [hcl] at this
    exact absurd this (by decide)

/-! ## The hypotheses at a request of a concrete history (decidable) -/

/-- the three hypotheses of the brief at request `r` of a history: SHA-1 injective on the keys
    involved, outside C11-a/b/c, destination defined -/
def BriefHypsAt (rules : List Rule) (hist : List CReq) (r : CReq) : Prop :=
  match route rules r with
  | none => False
  | some x =>
    NamesInjectiveOn x.keys (histKeys rules hist) ∧ OutsideClasses rules hist r x ∧ DestDefined r x

/-- the lock-table hypothesis at request `r` of a history -/
def LockHypAt (rules : List Rule) (hist : List CReq) (r : CReq) : Prop :=
  match route rules r with
  | none => False
  | some x => NoForeignFlagClash rules hist x

instance (rules : List Rule) (hist : List CReq) (r : CReq) : Decidable (BriefHypsAt rules hist r) := by
  unfold BriefHypsAt; split <;> infer_instance
instance (rules : List Rule) (hist : List CReq) (r : CReq) : Decidable (LockHypAt rules hist r) := by
  unfold LockHypAt; split <;> infer_instance

/-- the oracle's verdict on a response of the model (`none` = passes or carries no echo) -/
def verdict (rules : List Rule) (r : CReq) (resp : Resp) : Option String :=
  match route rules r, resp.tag with
  | some x, some t => Spec.C11Sys.mismatch (routedOf r x) (echoOf t) (variesOf resp t)
  | _, _ => none

/-- one line of the tables below: is the receiver the request in question, the cache status, the
    Origin values of the echo, the oracle's verdict -/
structure Row where
  isIt : Bool
  status : Bytes
  echoOrigin : Option (List Bytes)
  verdict : Option String
  deriving DecidableEq, Repr

/-! ## `NoForeignFlagClash` is necessary

  Two rules with the same destination and DIFFERENT storages.  `/a/xvoopaqueOrigin` without an
  Origin (storage c1) and `/b/xvo` with `Origin: https://a.example` (storage c2) are overlapped:
  the plain key of the first and the opaque-origin key of the second are hashed from the same
  string (`h/xvoopaqueOrigin`), the second is parked behind the first, is handed the first one's
  UNFLAGGED key, fetches (nothing under that name in c2) and — the key in hand not being flagged
  — is not re-keyed although the response says `Vary: Origin`: its response stays in c2 under the
  name of the opaque-origin key, which every Origin shares.  `/b/xvo` with
  `Origin: https://b.example` is then served site A's response.  No request of storage c1 is a
  generator for it; the only request of its own storage it shares a name with differs from it in
  nothing but the Origin value and is outside C11-a/b/c. -/

def ruleC1 : Rule := { path := b!"/a/*", wci := some 3, dest := b!"http://d0.test/$1", cacheId := b!"c1" }
def ruleC2 : Rule := { path := b!"/b/*", wci := some 3, dest := b!"http://d0.test/$1", cacheId := b!"c2" }
def lockHolder : CReq := { method := b!"GET", host := b!"h", target := b!"/a/xvoopaqueOrigin", lines := [] }
def siteA2 : CReq := { method := b!"GET", host := b!"h", target := b!"/b/xvo", lines := [(b!"Origin", b!"https://a.example")] }
def siteB2 : CReq := { method := b!"GET", host := b!"h", target := b!"/b/xvo", lines := [(b!"Origin", b!"https://b.example")] }

def clashSteps : List Step := [.two lockHolder siteA2, .one siteB2]

/-- the corollary WITHOUT `NoForeignFlagClash` is false: at the last request of `clashSteps` the
    three hypotheses of the brief hold (SHA-1 injective on the keys, outside C11-a/b/c, destination
    defined) and only the lock-table hypothesis fails; its response — a hit — carries site A's
    echo and fails `origin-value` -/
theorem foreign_flag_clash_needed :
    BriefHypsAt [ruleC1, ruleC2] (requestsOf clashSteps) siteB2 ∧
    ¬ LockHypAt [ruleC1, ruleC2] (requestsOf clashSteps) siteB2 ∧
    (run [ruleC1, ruleC2] clashSteps).outs.map (fun o => o.served.map fun p =>
        (⟨decide (p.1 = siteB2), p.2.cacheStatus, p.2.tag.map (·.origin), verdict [ruleC1, ruleC2] p.1 p.2⟩ : Row)) =
      [[⟨false, b!"miss", some [], none⟩, ⟨false, b!"miss", some [b!"https://a.example"], none⟩],
       [⟨true, b!"hit", some [b!"https://a.example"], some "origin-value"⟩]] := by
  decide +kernel

/-- the corollary with the three hypotheses of the brief only -/
def BriefStatement : Prop :=
  ∀ (rules : List Rule) (steps : List Step) (o : Out), o ∈ (run rules steps).outs →
    ∀ (p : CReq × Resp), p ∈ o.served → ∀ (t : Tag), p.2.tag = some t →
      ∀ (x : Ctx), route rules p.1 = some x →
        NamesInjectiveOn x.keys (histKeys rules (requestsOf steps)) →
        OutsideClasses rules (requestsOf steps) p.1 x →
        DestDefined p.1 x →
        Spec.C11Sys.mismatch (routedOf p.1 x) (echoOf t) (variesOf p.2 t) = none

/-- … is FALSE on the system model -/
theorem briefStatement_false : ¬ BriefStatement := by
  intro hB
  obtain ⟨hyps, _, htab⟩ := foreign_flag_clash_needed
  simp only [List.map_eq_cons_iff, List.map_eq_nil_iff] at htab
  obtain ⟨o1, os, hO1, _, o, _, hO, ho, _⟩ := htab
  obtain ⟨p, _, hS, hp, _⟩ := ho
  simp only [Row.mk.injEq, decide_eq_true_eq] at hp
  obtain ⟨hp1, _, _, hver⟩ := hp
  have hmem : o ∈ (run [ruleC1, ruleC2] clashSteps).outs := by
    rw [hO1, hO]; simp
  have hpm : p ∈ o.served := by rw [hS]; simp
  unfold verdict at hver
  unfold BriefHypsAt at hyps
  rw [← hp1] at hyps
  cases hr : route [ruleC1, ruleC2] p.1 with
  | none => simp [hr] at hyps
  | some x =>
    cases ht : p.2.tag with
    | none => simp [hr, ht] at hver
    | some t =>
      simp only [hr, ht] at hver hyps
      have := hB _ _ o hmem p hpm t ht x hr hyps.1 hyps.2.1 hyps.2.2
      rw [this] at hver
      exact absurd hver (by simp)

/-- a routed request of these examples, written out -/
def rt (rule : Rule) (r : CReq) : Routed := ⟨r.toReq, rule, b!"http", r.host, r.target⟩

/-- the pair (site A, site B) of that history is outside every class; so is (lock holder,
    site B), because the two work in different storages — their keys do clash -/
example :
    Spec.C11Sys.pairClasses (rt ruleC2 siteA2) (rt ruleC2 siteB2) = [] ∧
    Spec.C11Sys.pairClasses (rt ruleC1 lockHolder) (rt ruleC2 siteB2) = [] ∧
    ruleC1.cacheId ≠ ruleC2.cacheId ∧
    clashAnyStorage (rt ruleC1 lockHolder) (rt ruleC2 siteB2) = true := by
  decide +kernel

/-! ## Non-vacuity

  Two storages, five requests: an overlapped pair of two sites on a URL that varies by Origin (the
  second is parked, both fetch, both entries are re-keyed), two sites on a URL that does NOT vary
  by Origin (the second is served the first one's response through the shared opaque-origin entry
  — legitimately: a cross-served response that passes), and a request in the other storage whose
  keys have the very names of site A's (same flags: no clash).  Every hypothesis holds at every
  request, every response carries an echo, and — as the corollary says — passes. -/

def ruleS1 : Rule := { path := b!"/a/*", wci := some 3, dest := b!"http://d0.test/$1", cacheId := b!"c1" }
def ruleS2 : Rule := { path := b!"/b/*", wci := some 3, dest := b!"http://d0.test/$1", cacheId := b!"c2" }
def varyA : CReq := { method := b!"GET", host := b!"h", target := b!"/a/vo", lines := [(b!"Origin", b!"https://a.example")] }
def varyB : CReq := { method := b!"GET", host := b!"h", target := b!"/a/vo", lines := [(b!"Origin", b!"https://b.example")] }
def plainA : CReq := { method := b!"GET", host := b!"h", target := b!"/a/x", lines := [(b!"Origin", b!"https://a.example")] }
def plainB : CReq := { method := b!"GET", host := b!"h", target := b!"/a/x", lines := [(b!"Origin", b!"https://b.example")] }
def otherA : CReq := { method := b!"GET", host := b!"h", target := b!"/b/vo", lines := [(b!"Origin", b!"https://a.example")] }

def okSteps : List Step := [.two varyA varyB, .one plainA, .one plainB, .one otherA]

example :
    (∀ r ∈ requestsOf okSteps, BriefHypsAt [ruleS1, ruleS2] (requestsOf okSteps) r ∧
      LockHypAt [ruleS1, ruleS2] (requestsOf okSteps) r) := by
  decide +kernel

example :
    (run [ruleS1, ruleS2] okSteps).anyRekey = true ∧
    (run [ruleS1, ruleS2] okSteps).outs.map (fun o => o.served.map fun p =>
        (p.2.cacheStatus, p.2.tag.map (·.origin), verdict [ruleS1, ruleS2] p.1 p.2)) =
      [[(b!"miss", some [b!"https://a.example"], none), (b!"miss", some [b!"https://b.example"], none)],
       [(b!"miss", some [b!"https://a.example"], none)],
       [(b!"hit", some [b!"https://a.example"], none)],
       [(b!"miss", some [b!"https://a.example"], none)]] := by
  decide +kernel

/-- the foreign request does share entry names with site A (so `NoForeignFlagClash` is not
    vacuous in the example above) -/
example : (keysFromRequest (overrideOnRequest ruleS2 otherA.toReq)).map keyString =
    (keysFromRequest (overrideOnRequest ruleS1 varyA.toReq)).map keyString := by
  decide +kernel

end Props.C11SysCompose
