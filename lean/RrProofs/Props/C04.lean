import RrModel.Forward
import RrModel.Spec.C04
import RrProofs.Lemmas.Forward
/-
  C04 — Routing-secret firewall between internal and external destinations.
  Function level: `ensureInternalHeaders` for every header map, secret list, uuid and
  `readIP` outcome; `createProxyRequest`'s "no secrets configured ⇒ external" rule; and the
  statement that the oracle `Spec.C04.holds` accepts the model on all inputs.
-/
set_option linter.unusedSimpArgs false

namespace Props.C04
open Go Go.Header Model Spec Spec.C04

/-! ### names -/

/-- the model's three constants are the ones read from the Go source -/
theorem internalHeaders_pinned : Model.internalHeaders = Facts.internalHeaderNames := by decide

/-- … and the ones the specification talks about -/
theorem internalHeaders_spec : Model.internalHeaders = [secretName, idName, ipName] := by decide

theorem spec_names : [secretName, idName, ipName] = Spec.richieHeaders := by decide

theorem canon_secret_ne_id : canon hdrRoutingSecret ≠ canon hdrRequestID := by decide
theorem canon_secret_ne_ip : canon hdrRoutingSecret ≠ canon hdrOriginatingIP := by decide
theorem canon_id_ne_ip : canon hdrRequestID ≠ canon hdrOriginatingIP := by decide
theorem canon_id_ne_secret : canon hdrRequestID ≠ canon hdrRoutingSecret := by decide
theorem canon_ip_ne_secret : canon hdrOriginatingIP ≠ canon hdrRoutingSecret := by decide
theorem canon_ip_ne_id : canon hdrOriginatingIP ≠ canon hdrRequestID := by decide

theorem stringInSlice_iff (l : List Bytes) (s : Bytes) : stringInSlice l s = true ↔ s ∈ l := by
  induction l with
  | nil => simp [stringInSlice]
  | cons a t ih =>
    unfold stringInSlice
    by_cases h : s = a
    · simp [h]
    · simp [h, ih]

theorem stringInSlice_false_iff (l : List Bytes) (s : Bytes) : stringInSlice l s = false ↔ s ∉ l := by
  rw [← stringInSlice_iff]; simp

/-! ### `ensureInternalHeaders`, branch by branch -/

section branches
variable (h : Header) (secrets : List Bytes) (uuid : Bytes) (rip : Res Bytes)

/-- first statement: a non-empty first secret value that is not configured ⇒ 407, whatever
    the destination class -/
theorem ensure_bad_secret (pass : Bool) (hS : h.get hdrRoutingSecret ≠ [])
    (hv : h.get hdrRoutingSecret ∉ secrets) :
    ensureInternalHeaders h pass secrets uuid rip = .ok (.error .badSecret) := by
  have := (stringInSlice_false_iff secrets _).2 hv
  simp [ensureInternalHeaders, hS, this]

/-- external: the three `Del`s -/
theorem ensure_external (hok : h.get hdrRoutingSecret = [] ∨ h.get hdrRoutingSecret ∈ secrets) :
    ensureInternalHeaders h false secrets uuid rip =
      .ok (.ok (((h.del hdrRoutingSecret).del hdrRequestID).del hdrOriginatingIP)) := by
  rcases hok with hS | hv
  · simp [ensureInternalHeaders, hS]
  · have := (stringInSlice_iff secrets _).2 hv
    simp [ensureInternalHeaders, this]

/-- internal, valid client secret: missing id / IP are filled in, present ones pass -/
theorem ensure_internal_valid (hS : h.get hdrRoutingSecret ≠ []) (hv : h.get hdrRoutingSecret ∈ secrets) :
    ensureInternalHeaders h true secrets uuid rip =
      (let h1 := if h.get hdrRequestID = [] then h.set hdrRequestID uuid else h
       if h.get hdrOriginatingIP = [] then
         match rip with
         | .panic s => .panic s
         | .ok ip => .ok (.ok (h1.set hdrOriginatingIP ip))
       else .ok (.ok h1)) := by
  have := (stringInSlice_iff secrets _).2 hv
  cases rip <;> simp [ensureInternalHeaders, hS, this]

/-- internal, no client secret, but an id or an IP ⇒ 407 -/
theorem ensure_internal_unaccompanied (hS : h.get hdrRoutingSecret = [])
    (hx : h.get hdrRequestID ≠ [] ∨ h.get hdrOriginatingIP ≠ []) :
    ensureInternalHeaders h true secrets uuid rip = .ok (.error .idOrIpWithoutSecret) := by
  simp [ensureInternalHeaders, hS, hx]

/-- internal, nothing supplied: mint id, IP and `secrets[0]` (in that statement order) -/
theorem ensure_internal_mint (hS : h.get hdrRoutingSecret = []) (hI : h.get hdrRequestID = [])
    (hP : h.get hdrOriginatingIP = []) :
    ensureInternalHeaders h true secrets uuid rip =
      (match rip with
       | .panic s => .panic s
       | .ok ip =>
         match secrets with
         | [] => .panic panicSecrets0
         | s0 :: _ =>
           .ok (.ok (((h.set hdrRequestID uuid).set hdrOriginatingIP ip).set hdrRoutingSecret s0))) := by
  cases rip <;> cases secrets <;> simp [ensureInternalHeaders, hS, hI, hP]

end branches

/-- the outcome is decided by the first statement whenever the client secret is unknown -/
theorem not_bad_of_ok {h : Header} {pass : Bool} {secrets : List Bytes} {uuid : Bytes} {rip : Res Bytes}
    {h' : Header} (hr : ensureInternalHeaders h pass secrets uuid rip = .ok (.ok h')) :
    h.get hdrRoutingSecret = [] ∨ h.get hdrRoutingSecret ∈ secrets := by
  by_cases hS : h.get hdrRoutingSecret = []
  · exact .inl hS
  · by_cases hv : h.get hdrRoutingSecret ∈ secrets
    · exact .inr hv
    · rw [ensure_bad_secret h secrets uuid rip pass hS hv] at hr
      cases hr

/-! ### the firewall theorems (all at full strength: every header map, secret list, uuid, readIP outcome) -/

/-- **external_strips** — an external destination never receives any of the three headers,
    whatever the client sent. -/
theorem external_strips (h : Header) (secrets : List Bytes) (uuid : Bytes) (rip : Res Bytes) (h' : Header)
    (hr : ensureInternalHeaders h false secrets uuid rip = .ok (.ok h')) :
    ∀ n ∈ Model.internalHeaders, h'.values n = [] := by
  rw [ensure_external h secrets uuid rip (not_bad_of_ok hr)] at hr
  injection hr with hr; injection hr with hr; subst hr
  intro n hn
  simp only [Model.internalHeaders, List.mem_cons, List.not_mem_nil, or_false] at hn
  rcases hn with rfl | rfl | rfl <;>
    simp [canon_secret_ne_id, canon_secret_ne_ip, canon_id_ne_ip]

example : ensureInternalHeaders
    [(canon hdrRoutingSecret, [b!"s1"]), (canon hdrRequestID, [b!"id", b!"id2"]), (b!"Accept", [b!"*/*"])]
    false [b!"s0", b!"s1"] b!"U" (.ok b!"1.2.3.4") = .ok (.ok [(b!"Accept", [b!"*/*"])]) := by rfl

/-- **internal_complete** — an internal destination always receives a configured secret, a
    non-empty request id and an originating-IP header (non-empty whenever the router could
    determine an address or the client's own one passed). -/
theorem internal_complete (h : Header) (secrets : List Bytes) (uuid : Bytes) (rip : Res Bytes) (h' : Header)
    (hu : uuid ≠ []) (hr : ensureInternalHeaders h true secrets uuid rip = .ok (.ok h')) :
    h'.get hdrRoutingSecret ∈ secrets ∧ h'.get hdrRequestID ≠ [] ∧ h'.values hdrOriginatingIP ≠ [] ∧
      (∀ ip, rip = .ok ip → ip ≠ [] → h'.get hdrOriginatingIP ≠ []) := by
  by_cases hS : h.get hdrRoutingSecret = []
  · by_cases hI : h.get hdrRequestID = []
    · by_cases hP : h.get hdrOriginatingIP = []
      · rw [ensure_internal_mint h secrets uuid rip hS hI hP] at hr
        cases rip with
        | panic s => cases hr
        | ok ip =>
          cases secrets with
          | nil => cases hr
          | cons s0 rest =>
            injection hr with hr; injection hr with hr; subst hr
            simp [canon_secret_ne_id, canon_secret_ne_ip, canon_id_ne_ip, canon_id_ne_secret,
              canon_ip_ne_secret, canon_ip_ne_id, hu]
      · rw [ensure_internal_unaccompanied h secrets uuid rip hS (.inr hP)] at hr; cases hr
    · rw [ensure_internal_unaccompanied h secrets uuid rip hS (.inl hI)] at hr; cases hr
  · have hv : h.get hdrRoutingSecret ∈ secrets := (not_bad_of_ok hr).resolve_left hS
    rw [ensure_internal_valid h secrets uuid rip hS hv] at hr
    by_cases hI : h.get hdrRequestID = [] <;> by_cases hP : h.get hdrOriginatingIP = []
    all_goals simp only [hI, hP, if_true, if_false] at hr
    all_goals
      first
      | (cases rip with
         | panic s => cases hr
         | ok ip =>
           injection hr with hr; injection hr with hr; subst hr
           simp [canon_secret_ne_id, canon_secret_ne_ip, canon_id_ne_ip, canon_id_ne_secret,
             canon_ip_ne_secret, canon_ip_ne_id, hu, hv, hI])
      | (injection hr with hr; injection hr with hr; subst hr
         simp [canon_secret_ne_id, canon_secret_ne_ip, canon_id_ne_ip, canon_id_ne_secret,
           canon_ip_ne_secret, canon_ip_ne_id, hu, hv, hI, hP, values_ne_nil_of_get_ne hP])

example : ensureInternalHeaders [(canon hdrRoutingSecret, [b!"s1"]), (b!"Accept", [b!"*/*"])]
    true [b!"s0", b!"s1"] b!"U" (.ok b!"1.2.3.4") =
    .ok (.ok [(canon hdrOriginatingIP, [b!"1.2.3.4"]), (canon hdrRequestID, [b!"U"]),
              (canon hdrRoutingSecret, [b!"s1"]), (b!"Accept", [b!"*/*"])]) := by rfl

/-- **internal_mints_first** — if the client supplied no secret, the secret sent is the first
    configured one, the id is the minted one and the IP the one the router determined; all
    three as single values. -/
theorem internal_mints_first (h : Header) (secrets : List Bytes) (uuid : Bytes) (rip : Res Bytes) (h' : Header)
    (hS : h.get hdrRoutingSecret = [])
    (hr : ensureInternalHeaders h true secrets uuid rip = .ok (.ok h')) :
    ∃ s0 rest ip, secrets = s0 :: rest ∧ rip = .ok ip ∧ h'.values hdrRoutingSecret = [s0] ∧
      h'.values hdrRequestID = [uuid] ∧ h'.values hdrOriginatingIP = [ip] := by
  by_cases hI : h.get hdrRequestID = []
  · by_cases hP : h.get hdrOriginatingIP = []
    · rw [ensure_internal_mint h secrets uuid rip hS hI hP] at hr
      cases rip with
      | panic s => cases hr
      | ok ip =>
        cases secrets with
        | nil => cases hr
        | cons s0 rest =>
          injection hr with hr; injection hr with hr; subst hr
          exact ⟨s0, rest, ip, rfl, rfl, by
            simp [canon_secret_ne_id, canon_secret_ne_ip, canon_id_ne_ip, canon_id_ne_secret,
              canon_ip_ne_secret, canon_ip_ne_id]⟩
    · rw [ensure_internal_unaccompanied h secrets uuid rip hS (.inr hP)] at hr; cases hr
  · rw [ensure_internal_unaccompanied h secrets uuid rip hS (.inl hI)] at hr; cases hr

example : ensureInternalHeaders [(b!"Accept", [b!"*/*"])] true [b!"s0", b!"s1"] b!"U" (.ok b!"1.2.3.4") =
    .ok (.ok [(canon hdrRoutingSecret, [b!"s0"]), (canon hdrOriginatingIP, [b!"1.2.3.4"]),
              (canon hdrRequestID, [b!"U"]), (b!"Accept", [b!"*/*"])]) := by rfl

/-- a valid client secret is passed on unchanged (all its values), so "the first configured
    one unless the client supplied a valid one" -/
theorem internal_valid_secret_passed (h : Header) (secrets : List Bytes) (uuid : Bytes) (rip : Res Bytes)
    (h' : Header) (hS : h.get hdrRoutingSecret ≠ [])
    (hr : ensureInternalHeaders h true secrets uuid rip = .ok (.ok h')) :
    h.get hdrRoutingSecret ∈ secrets ∧ h'.values hdrRoutingSecret = h.values hdrRoutingSecret := by
  have hv : h.get hdrRoutingSecret ∈ secrets := (not_bad_of_ok hr).resolve_left hS
  refine ⟨hv, ?_⟩
  rw [ensure_internal_valid h secrets uuid rip hS hv] at hr
  by_cases hI : h.get hdrRequestID = [] <;> by_cases hP : h.get hdrOriginatingIP = []
  all_goals simp only [hI, hP, if_true, if_false] at hr
  all_goals
    first
    | (cases rip with
       | panic s => cases hr
       | ok ip =>
         injection hr with hr; injection hr with hr; subst hr
         simp [canon_id_ne_secret, canon_ip_ne_secret])
    | (injection hr with hr; injection hr with hr; subst hr
       simp [canon_id_ne_secret, canon_ip_ne_secret])

/-- **client_values_kept_only_with_valid_secret** — for the request id and for the
    originating IP: if the client supplied a value and the request goes out to an internal
    destination at all, then the client also supplied a configured secret, and the values go
    out exactly as supplied.  (Without a valid secret the outcome is the 407: see
    `bad_secret_407`, `id_or_ip_without_secret_407_internal`; to an external destination they
    never go: `external_strips`.) -/
theorem client_values_kept_only_with_valid_secret (h : Header) (secrets : List Bytes) (uuid : Bytes)
    (rip : Res Bytes) (h' : Header) (n : Bytes) (hn : n = hdrRequestID ∨ n = hdrOriginatingIP)
    (hc : h.get n ≠ []) (hr : ensureInternalHeaders h true secrets uuid rip = .ok (.ok h')) :
    (h.get hdrRoutingSecret ≠ [] ∧ h.get hdrRoutingSecret ∈ secrets) ∧ h'.values n = h.values n := by
  by_cases hS : h.get hdrRoutingSecret = []
  · exfalso
    have hx : h.get hdrRequestID ≠ [] ∨ h.get hdrOriginatingIP ≠ [] := by
      rcases hn with rfl | rfl
      · exact .inl hc
      · exact .inr hc
    rw [ensure_internal_unaccompanied h secrets uuid rip hS hx] at hr; cases hr
  · have hv : h.get hdrRoutingSecret ∈ secrets := (not_bad_of_ok hr).resolve_left hS
    refine ⟨⟨hS, hv⟩, ?_⟩
    rw [ensure_internal_valid h secrets uuid rip hS hv] at hr
    by_cases hI : h.get hdrRequestID = [] <;> by_cases hP : h.get hdrOriginatingIP = []
    all_goals simp only [hI, hP, if_true, if_false] at hr
    all_goals rcases hn with rfl | rfl
    all_goals first | exact absurd hI hc | exact absurd hP hc | skip
    all_goals
      first
      | (cases rip with
         | panic s => cases hr
         | ok ip =>
           injection hr with hr; injection hr with hr; subst hr
           simp [canon_id_ne_ip, canon_ip_ne_id])
      | (injection hr with hr; injection hr with hr; subst hr
         simp [canon_id_ne_ip, canon_ip_ne_id])

/-- the iff form of the design note: a client-supplied id (or IP) survives iff the client's
    secret is a configured one — whenever something is sent to an internal destination -/
theorem client_value_kept_iff (h : Header) (secrets : List Bytes) (uuid : Bytes)
    (rip : Res Bytes) (h' : Header) (n : Bytes) (hn : n = hdrRequestID ∨ n = hdrOriginatingIP)
    (hc : h.get n ≠ []) (hr : ensureInternalHeaders h true secrets uuid rip = .ok (.ok h')) :
    h'.get n = h.get n ↔ h.get hdrRoutingSecret ∈ secrets := by
  have := client_values_kept_only_with_valid_secret h secrets uuid rip h' n hn hc hr
  exact ⟨fun _ => this.1.2, fun _ => get_eq_of_values_eq this.2⟩

example : ensureInternalHeaders
    [(canon hdrRoutingSecret, [b!"s1"]), (canon hdrRequestID, [b!"id", b!"id2"]), (canon hdrOriginatingIP, [b!"9.9.9.9"])]
    true [b!"s0", b!"s1"] b!"U" (.ok b!"1.2.3.4") =
    .ok (.ok [(canon hdrRoutingSecret, [b!"s1"]), (canon hdrRequestID, [b!"id", b!"id2"]),
              (canon hdrOriginatingIP, [b!"9.9.9.9"])]) := by rfl

/-- **bad_secret_407** — a request whose secret is not a configured one is answered 407,
    for internal AND external destinations, before anything else is looked at. -/
theorem bad_secret_407 (h : Header) (pass : Bool) (secrets : List Bytes) (uuid : Bytes) (rip : Res Bytes)
    (hS : h.get hdrRoutingSecret ≠ []) (hv : h.get hdrRoutingSecret ∉ secrets) :
    ensureInternalHeaders h pass secrets uuid rip = .ok (.error .badSecret) ∧
      Reject.badSecret.status = 407 :=
  ⟨ensure_bad_secret h secrets uuid rip pass hS hv, rfl⟩

example : ensureInternalHeaders [(canon hdrRoutingSecret, [b!"zz"])] false [b!"s0"] b!"U" (.panic "x")
    = .ok (.error .badSecret) := by rfl

/-- **id_or_ip_without_secret_407_internal** -/
theorem id_or_ip_without_secret_407_internal (h : Header) (secrets : List Bytes) (uuid : Bytes)
    (rip : Res Bytes) (hS : h.get hdrRoutingSecret = [])
    (hx : h.get hdrRequestID ≠ [] ∨ h.get hdrOriginatingIP ≠ []) :
    ensureInternalHeaders h true secrets uuid rip = .ok (.error .idOrIpWithoutSecret) ∧
      Reject.idOrIpWithoutSecret.status = 407 :=
  ⟨ensure_internal_unaccompanied h secrets uuid rip hS hx, rfl⟩

example : ensureInternalHeaders [(canon hdrOriginatingIP, [b!"6.6.6.6"])] true [b!"s0"] b!"U" (.ok b!"1.2.3.4")
    = .ok (.error .idOrIpWithoutSecret) := by rfl

/-- the converse: 407 is answered in exactly these two situations -/
theorem rejects_iff (h : Header) (pass : Bool) (secrets : List Bytes) (uuid : Bytes) (rip : Res Bytes) :
    (∃ rej, ensureInternalHeaders h pass secrets uuid rip = .ok (.error rej)) ↔
      (h.get hdrRoutingSecret ≠ [] ∧ h.get hdrRoutingSecret ∉ secrets) ∨
      (pass = true ∧ h.get hdrRoutingSecret = [] ∧
        (h.get hdrRequestID ≠ [] ∨ h.get hdrOriginatingIP ≠ [])) := by
  constructor
  · rintro ⟨rej, hr⟩
    by_cases hS : h.get hdrRoutingSecret = []
    · right
      cases pass with
      | false => rw [ensure_external h secrets uuid rip (.inl hS)] at hr; cases hr
      | true =>
        refine ⟨rfl, hS, ?_⟩
        by_cases hI : h.get hdrRequestID = []
        · by_cases hP : h.get hdrOriginatingIP = []
          · rw [ensure_internal_mint h secrets uuid rip hS hI hP] at hr
            cases rip <;> cases secrets <;> cases hr
          · exact .inr hP
        · exact .inl hI
    · by_cases hv : h.get hdrRoutingSecret ∈ secrets
      · exfalso
        cases pass with
        | false => rw [ensure_external h secrets uuid rip (.inr hv)] at hr; cases hr
        | true =>
          rw [ensure_internal_valid h secrets uuid rip hS hv] at hr
          by_cases hI : h.get hdrRequestID = [] <;> by_cases hP : h.get hdrOriginatingIP = []
          all_goals simp only [hI, hP, if_true, if_false] at hr
          all_goals first | (cases rip <;> cases hr) | cases hr
      · exact .inl ⟨hS, hv⟩
  · rintro (⟨hS, hv⟩ | ⟨rfl, hS, hx⟩)
    · exact ⟨_, ensure_bad_secret h secrets uuid rip pass hS hv⟩
    · exact ⟨_, ensure_internal_unaccompanied h secrets uuid rip hS hx⟩

/-- **where the run-time panics are**: only on the way to an internal destination; either the
    `readIP()` call (`DropPort` on `[…` without `]`) or `secrets[0]` on an empty list — the
    latter exactly when nothing was supplied by the client and the secret list is empty. -/
theorem panics_iff (h : Header) (pass : Bool) (secrets : List Bytes) (uuid : Bytes) (rip : Res Bytes) (site : String) :
    ensureInternalHeaders h pass secrets uuid rip = .panic site ↔
      pass = true ∧ h.get hdrOriginatingIP = [] ∧
      ((h.get hdrRoutingSecret ≠ [] ∧ h.get hdrRoutingSecret ∈ secrets ∧ rip = .panic site) ∨
       (h.get hdrRoutingSecret = [] ∧ h.get hdrRequestID = [] ∧
          (rip = .panic site ∨ ((∃ ip, rip = .ok ip) ∧ secrets = [] ∧ site = panicSecrets0)))) := by
  by_cases hS : h.get hdrRoutingSecret = []
  · cases pass with
    | false => rw [ensure_external h secrets uuid rip (.inl hS)]; simp
    | true =>
      by_cases hI : h.get hdrRequestID = []
      · by_cases hP : h.get hdrOriginatingIP = []
        · rw [ensure_internal_mint h secrets uuid rip hS hI hP]
          cases rip <;> cases secrets <;> simp [hS, hI, hP, eq_comm]
        · rw [ensure_internal_unaccompanied h secrets uuid rip hS (.inr hP)]; simp [hP]
      · rw [ensure_internal_unaccompanied h secrets uuid rip hS (.inl hI)]; simp [hS, hI]
  · by_cases hv : h.get hdrRoutingSecret ∈ secrets
    · cases pass with
      | false => rw [ensure_external h secrets uuid rip (.inr hv)]; simp
      | true =>
        rw [ensure_internal_valid h secrets uuid rip hS hv]
        by_cases hI : h.get hdrRequestID = [] <;> by_cases hP : h.get hdrOriginatingIP = []
        all_goals cases rip <;> simp [hS, hv, hI, hP]
    · rw [ensure_bad_secret h secrets uuid rip pass hS hv]; simp [hS, hv]

/-- the `secrets[0]` panic: reached exactly by an internal destination with an EMPTY secret
    list (non-nil in `createProxyRequest`, else the destination counts as external) and a
    client that supplied none of the three headers -/
theorem panic_secrets0_iff (h : Header) (pass : Bool) (secrets : List Bytes) (uuid : Bytes) (ip : Bytes) :
    ensureInternalHeaders h pass secrets uuid (.ok ip) = .panic panicSecrets0 ↔
      pass = true ∧ secrets = [] ∧ h.get hdrRoutingSecret = [] ∧ h.get hdrRequestID = [] ∧
        h.get hdrOriginatingIP = [] := by
  rw [panics_iff]
  constructor
  · rintro ⟨hp, hP, (⟨_, _, hrip⟩ | ⟨hS, hI, (hrip | ⟨_, hs, _⟩)⟩)⟩
    · cases hrip
    · cases hrip
    · exact ⟨hp, hs, hS, hI, hP⟩
  · rintro ⟨hp, hs, hS, hI, hP⟩
    exact ⟨hp, hP, .inr ⟨hS, hI, .inr ⟨⟨ip, rfl⟩, hs, rfl⟩⟩⟩

example : ensureInternalHeaders [(b!"Accept", [b!"*/*"])] true [] b!"U" (.ok b!"1.2.3.4") = .panic panicSecrets0 := by rfl

/-- with an empty secret list nothing is ever sent to an internal destination -/
theorem empty_secrets_internal_never_sends (h : Header) (uuid : Bytes) (rip : Res Bytes) (h' : Header) :
    ensureInternalHeaders h true [] uuid rip ≠ .ok (.ok h') := by
  intro hr
  by_cases hS : h.get hdrRoutingSecret = []
  · obtain ⟨s0, rest, _, hs, _⟩ := internal_mints_first h [] uuid rip h' hS hr
    cases hs
  · have := (internal_valid_secret_passed h [] uuid rip h' hS hr).1
    cases this

/-! ### the oracle `Spec.C04.holds` accepts the model -/

theorem tok_secret : tokenName secretName = true := by decide
theorem tok_id : tokenName idName = true := by decide
theorem tok_ip : tokenName ipName = true := by decide

theorem richie_tokens : ∀ n ∈ Spec.richieHeaders, tokenName n = true := by decide

theorem richieFree_of_values {h : Header} (hn : Normal h)
    (hv : ∀ n ∈ Spec.richieHeaders, h.values n = []) : richieFree h = true := by
  unfold richieFree
  rw [List.all_eq_true]
  intro e he
  by_cases hr : Spec.richieHeaders.any (sameName e.1) = true
  · rw [List.any_eq_true] at hr
    obtain ⟨n, hnm, hs⟩ := hr
    have ht : tokenName n = true := richie_tokens n hnm
    have hk : canon e.1 = e.1 := hn.2 e.1 (List.mem_map.2 ⟨e, he, rfl⟩)
    have hc : e.1 = canon n := by
      rw [← hk]; exact (canon_eq_canon_iff_sameName ht e.1).2 hs
    have hvals : vals h e.1 = e.2 := mem_vals_of_nodup hn.1 (k := e.1) (vs := e.2) he
    have := hv n hnm
    unfold Header.values at this
    rw [← hc, hvals] at this
    simp [this]
  · simp [hr]

def obsOfEnsure : Res (Except Reject Header) → Obs
  | .panic _ => .crashed
  | .ok (.error r) => .rejected r.status
  | .ok (.ok h) => .sent h

def peerOf : Res Bytes → Bytes
  | .ok ip => ip
  | .panic _ => []

theorem secretName_eq : secretName = hdrRoutingSecret := rfl
theorem idName_eq : idName = hdrRequestID := rfl
theorem ipName_eq : ipName = hdrOriginatingIP := rfl

/-- induction principle over what `ensureInternalHeaders` does to the map: only `Set`s and
    `Del`s of the three names -/
theorem ensure_induct {P : Header → Prop}
    (hset : ∀ (h : Header) (k v : Bytes), k ∈ Model.internalHeaders → P h → P (h.set k v))
    (hdel : ∀ (h : Header) (k : Bytes), k ∈ Model.internalHeaders → P h → P (h.del k))
    {h : Header} (hP : P h) {pass : Bool} {secrets : List Bytes} {uuid : Bytes}
    {rip : Res Bytes} {h' : Header} (hr : ensureInternalHeaders h pass secrets uuid rip = .ok (.ok h')) :
    P h' := by
  have m1 : hdrRoutingSecret ∈ Model.internalHeaders := by simp [Model.internalHeaders]
  have m2 : hdrRequestID ∈ Model.internalHeaders := by simp [Model.internalHeaders]
  have m3 : hdrOriginatingIP ∈ Model.internalHeaders := by simp [Model.internalHeaders]
  have hok := not_bad_of_ok hr
  cases pass with
  | false =>
    rw [ensure_external h secrets uuid rip hok] at hr
    injection hr with hr; injection hr with hr; subst hr
    exact hdel _ _ m3 (hdel _ _ m2 (hdel _ _ m1 hP))
  | true =>
    by_cases hS : h.get hdrRoutingSecret = []
    · by_cases hI : h.get hdrRequestID = []
      · by_cases hP' : h.get hdrOriginatingIP = []
        · rw [ensure_internal_mint h secrets uuid rip hS hI hP'] at hr
          cases rip with
          | panic s => cases hr
          | ok ip =>
            cases secrets with
            | nil => cases hr
            | cons s0 rest =>
              injection hr with hr; injection hr with hr; subst hr
              exact hset _ _ _ m1 (hset _ _ _ m3 (hset _ _ _ m2 hP))
        · rw [ensure_internal_unaccompanied h secrets uuid rip hS (.inr hP')] at hr; cases hr
      · rw [ensure_internal_unaccompanied h secrets uuid rip hS (.inl hI)] at hr; cases hr
    · have hv := hok.resolve_left hS
      rw [ensure_internal_valid h secrets uuid rip hS hv] at hr
      by_cases hI : h.get hdrRequestID = [] <;> by_cases hP' : h.get hdrOriginatingIP = []
      all_goals simp only [hI, hP', if_true, if_false] at hr
      all_goals
        first
        | (cases rip with
           | panic s => cases hr
           | ok ip =>
             injection hr with hr; injection hr with hr; subst hr
             first | exact hset _ _ _ m3 (hset _ _ _ m2 hP) | exact hset _ _ _ m3 hP)
        | (injection hr with hr; injection hr with hr; subst hr
           first | exact hset _ _ _ m2 hP | exact hP)

theorem normal_of_ensure {h : Header} (hN : Normal h) {pass : Bool} {secrets : List Bytes} {uuid : Bytes}
    {rip : Res Bytes} {h' : Header} (hr : ensureInternalHeaders h pass secrets uuid rip = .ok (.ok h')) :
    Normal h' :=
  ensure_induct (P := Normal) (fun _ k v _ hn => hn.set k v) (fun _ k _ hn => hn.del k) hN hr

/-- whatever the destination class: every header other than the three is left alone -/
theorem ensure_keeps_others {h : Header} {pass : Bool} {secrets : List Bytes} {uuid : Bytes}
    {rip : Res Bytes} {h' : Header} (hr : ensureInternalHeaders h pass secrets uuid rip = .ok (.ok h'))
    (n : Bytes) (hn : ∀ m ∈ Model.internalHeaders, canon m ≠ canon n) : h'.values n = h.values n :=
  ensure_induct (P := fun x => x.values n = h.values n)
    (fun x k v hk hx => by simp [hn k hk, hx])
    (fun x k hk hx => by simp [hn k hk, hx]) rfl hr

def StatementEnsure : Prop :=
  ∀ (h : Header) (pass : Bool) (secrets : List Bytes) (uuid : Bytes) (rip : Res Bytes),
    Normal h → uuid ≠ [] →
    holds { client := h, internal := pass, secrets := some secrets, peerIP := peerOf rip }
      (obsOfEnsure (ensureInternalHeaders h pass secrets uuid rip)) = true

theorem holds_ensure : StatementEnsure := by
  intro h pass secrets uuid rip hN hu
  cases hr : ensureInternalHeaders h pass secrets uuid rip with
  | panic s => rfl
  | ok r =>
    cases r with
    | error rej => cases rej <;> simp [obsOfEnsure, holds, Reject.status]
    | ok h' =>
      have hN' := normal_of_ensure hN hr
      have cS : firstOf h secretName = h.get hdrRoutingSecret := firstOf_eq_get hN tok_secret
      have cI : firstOf h idName = h.get hdrRequestID := firstOf_eq_get hN tok_id
      have cP : firstOf h ipName = h.get hdrOriginatingIP := firstOf_eq_get hN tok_ip
      have hnr : ¬ ∃ rej, ensureInternalHeaders h pass secrets uuid rip = .ok (.error rej) := by
        rintro ⟨rej, he⟩; rw [hr] at he; cases he
      rw [rejects_iff] at hnr
      simp only [not_or, not_and, Classical.not_not] at hnr
      obtain ⟨hnr1, hnr2⟩ := hnr
      have hunk : suppliesUnknownSecret
          { client := h, internal := pass, secrets := some secrets, peerIP := peerOf rip } = false := by
        simp only [suppliesUnknownSecret, suppliesSecret, clientSecret, known, cS, Option.getD_some]
        by_cases hS : h.get hdrRoutingSecret = []
        · simp [hS]
        · simp [hS, hnr1 hS]
      cases pass with
      | false =>
        have hfree : richieFree h' = true := by
          apply richieFree_of_values hN'
          intro n hn
          apply external_strips h secrets uuid rip h' hr
          rw [internalHeaders_spec, spec_names]; exact hn
        simp [obsOfEnsure, holds, mustReject, internalDest, hunk, hfree]
      | true =>
        have vS' : firstOf h' secretName = h'.get hdrRoutingSecret := firstOf_eq_get hN' tok_secret
        have vI' : firstOf h' idName = h'.get hdrRequestID := firstOf_eq_get hN' tok_id
        have vP' : firstOf h' ipName = h'.get hdrOriginatingIP := firstOf_eq_get hN' tok_ip
        have wI' : valuesOf h' idName = h'.values hdrRequestID := valuesOf_eq_values hN' tok_id
        have wP' : valuesOf h' ipName = h'.values hdrOriginatingIP := valuesOf_eq_values hN' tok_ip
        have wI : valuesOf h idName = h.values hdrRequestID := valuesOf_eq_values hN tok_id
        have wP : valuesOf h ipName = h.values hdrOriginatingIP := valuesOf_eq_values hN tok_ip
        obtain ⟨k1, k2, k3, k4⟩ := internal_complete h secrets uuid rip h' hu hr
        have hpeer : peerOf rip = [] ∨ ¬ h'.get hdrOriginatingIP = [] := by
          cases rip with
          | panic s => exact .inl rfl
          | ok ip =>
            by_cases hip : ip = []
            · exact .inl hip
            · exact .inr (k4 ip rfl hip)
        by_cases hS : h.get hdrRoutingSecret = []
        · -- nothing supplied: everything minted
          have hI : h.get hdrRequestID = [] := by
            by_cases hI : h.get hdrRequestID = []
            · exact hI
            · exact absurd (hnr2 rfl hS) (by simp [hI])
          have hP : h.get hdrOriginatingIP = [] := by
            by_cases hP : h.get hdrOriginatingIP = []
            · exact hP
            · have := hnr2 rfl hS
              simp [hI, hP] at this
          obtain ⟨s0, rest, ip, hs, _, m1, _, _⟩ := internal_mints_first h secrets uuid rip h' hS hr
          have hget : h'.get hdrRoutingSecret = s0 := by simp [Header.get, m1]
          subst hs
          simp [obsOfEnsure, holds, mustReject, internalDest, hunk, internalOk, keptOnlyWithValidSecret,
            suppliesValidSecret, suppliesSecret, suppliesIdOrIp, clientSecret, known, cS, cI, cP,
            vS', vI', vP', wI', wP', hS, hI, hP, hget, k2, k3, hpeer]
        · have hv := hnr1 hS
          obtain ⟨_, p2⟩ := internal_valid_secret_passed h secrets uuid rip h' hS hr
          have hget : h'.get hdrRoutingSecret = h.get hdrRoutingSecret := get_eq_of_values_eq p2
          simp [obsOfEnsure, holds, mustReject, internalDest, hunk, internalOk, keptOnlyWithValidSecret,
            suppliesValidSecret, suppliesSecret, suppliesIdOrIp, clientSecret, known, cS, cI, cP,
            vS', vI', vP', wI', wP', hS, hv, hget, k2, k3, hpeer]

/-! ### `createProxyRequest` -/

def obsOf : Res (Except ProxyReqErr OutReq) → Obs
  | .panic _ => .crashed
  | .ok (.error .newRequest) => .rejected 500
  | .ok (.error (.reject r)) => .rejected r.status
  | .ok (.ok o) => .sent o.header

/-- the `ensureInternalHeaders` call `createProxyRequest` makes -/
def ensuredBy (routingSecrets : Option (List Bytes)) (req : ClientReq) (internal : Bool) (uuid : Bytes) :
    Res (Except Reject Header) :=
  match routingSecrets with
  | none => ensureInternalHeaders (filterHeader req.header Facts.nonForwarded) false [] uuid
      (requestIP req.header req.remoteIP)
  | some secrets => ensureInternalHeaders (filterHeader req.header Facts.nonForwarded) internal secrets uuid
      (requestIP req.header req.remoteIP)

theorem createProxyRequest_obs (secrets : Option (List Bytes)) (req : ClientReq) (internal : Bool)
    (b : HostHeaderBehavior) (o : Bytes) (u : Option Bytes) (uuid : Bytes)
    (hne : createProxyRequest secrets req internal b o u uuid ≠ .ok (.error .newRequest)) :
    obsOf (createProxyRequest secrets req internal b o u uuid) = obsOfEnsure (ensuredBy secrets req internal uuid) := by
  unfold createProxyRequest at hne ⊢
  by_cases hm : validMethod (if req.method = [] then b!"GET" else req.method) = false
  · simp [hm] at hne
  · cases u with
    | none => simp [hm] at hne
    | some uh =>
      simp only [hm, if_false]
      cases secrets with
      | none =>
        simp only [ensuredBy]
        cases ensureInternalHeaders (filterHeader req.header Facts.nonForwarded) false [] uuid
          (requestIP req.header req.remoteIP) with
        | panic s => rfl
        | ok r => cases r <;> rfl
      | some ss =>
        simp only [ensuredBy]
        cases ensureInternalHeaders (filterHeader req.header Facts.nonForwarded) internal ss uuid
          (requestIP req.header req.remoteIP) with
        | panic s => rfl
        | ok r => cases r <;> rfl

theorem holds_congr {c1 c2 : Header}
    (h1 : valuesOf c1 secretName = valuesOf c2 secretName) (h2 : valuesOf c1 idName = valuesOf c2 idName)
    (h3 : valuesOf c1 ipName = valuesOf c2 ipName)
    (internal : Bool) (secrets : Option (List Bytes)) (peer : Bytes) (o : Obs) :
    holds { client := c1, internal := internal, secrets := secrets, peerIP := peer } o =
    holds { client := c2, internal := internal, secrets := secrets, peerIP := peer } o := by
  cases o <;>
  simp only [holds, mustReject, suppliesUnknownSecret, suppliesSecret, suppliesIdOrIp, clientSecret, known,
    internalDest, internalOk, keptOnlyWithValidSecret, suppliesValidSecret, firstOf, h1, h2, h3] <;> rfl

theorem holds_none (c : Header) (internal : Bool) (peer : Bytes) (o : Obs) :
    holds { client := c, internal := internal, secrets := none, peerIP := peer } o =
    holds { client := c, internal := false, secrets := some [], peerIP := peer } o := by
  cases o <;> simp [holds, mustReject, suppliesUnknownSecret, suppliesSecret, clientSecret, known, internalDest]

theorem richie_not_filtered : ∀ n ∈ [secretName, idName, ipName], canon n ∉ Facts.nonForwarded.map canon := by
  decide

def Statement : Prop :=
  ∀ (secrets : Option (List Bytes)) (req : ClientReq) (internal : Bool) (b : HostHeaderBehavior)
    (o : Bytes) (u : Option Bytes) (uuid : Bytes),
    uuid ≠ [] →
    createProxyRequest secrets req internal b o u uuid ≠ .ok (.error .newRequest) →
    holds { client := req.header, internal := internal, secrets := secrets,
            peerIP := peerOf (requestIP req.header req.remoteIP) }
      (obsOf (createProxyRequest secrets req internal b o u uuid)) = true

theorem holds_model : Statement := by
  intro secrets req internal b o u uuid hu hne
  rw [createProxyRequest_obs secrets req internal b o u uuid hne]
  have hv : ∀ n ∈ [secretName, idName, ipName],
      valuesOf req.header n = valuesOf (filterHeader req.header Facts.nonForwarded) n := by
    intro n hn
    have ht : tokenName n = true := by
      rw [spec_names] at hn; exact richie_tokens n hn
    rw [valuesOf_filterHeader _ _ ht, if_neg (richie_not_filtered n hn)]
  rw [holds_congr (hv _ (by simp)) (hv _ (by simp)) (hv _ (by simp))]
  cases secrets with
  | none =>
    rw [holds_none]
    exact holds_ensure _ false [] uuid _ (normal_filterHeader _ _) hu
  | some ss =>
    exact holds_ensure _ internal ss uuid _ (normal_filterHeader _ _) hu

/-- **no_secrets_external** — `RoutingSecrets == nil` ⇒ the destination is treated as external
    whatever the rule says: the result does not depend on the rule's `internal` flag and is the
    result for an external destination with no known secret (so a client secret is always
    "unknown": 407). -/
theorem no_secrets_external (req : ClientReq) (internal : Bool) (b : HostHeaderBehavior) (o : Bytes)
    (u : Option Bytes) (uuid : Bytes) :
    createProxyRequest none req internal b o u uuid = createProxyRequest (some []) req false b o u uuid := by
  rfl

/-- the specification's reject class is exactly where the model answers 407 (for a header as
    net/http hands it over) -/
theorem mustReject_iff_rejects {h : Header} (hN : Normal h) (pass : Bool) (secrets : List Bytes)
    (uuid : Bytes) (rip : Res Bytes) (peer : Bytes) :
    mustReject { client := h, internal := pass, secrets := some secrets, peerIP := peer } = true ↔
      ∃ rej, ensureInternalHeaders h pass secrets uuid rip = .ok (.error rej) := by
  have cS : firstOf h secretName = h.get hdrRoutingSecret := firstOf_eq_get hN tok_secret
  have cI : firstOf h idName = h.get hdrRequestID := firstOf_eq_get hN tok_id
  have cP : firstOf h ipName = h.get hdrOriginatingIP := firstOf_eq_get hN tok_ip
  rw [rejects_iff]
  simp only [mustReject, suppliesUnknownSecret, suppliesSecret, suppliesIdOrIp, clientSecret, known,
    internalDest, cS, cI, cP, Option.getD_some, Option.isSome_some, Bool.and_true]
  by_cases hS : h.get hdrRoutingSecret = [] <;> by_cases hv : h.get hdrRoutingSecret ∈ secrets <;>
    by_cases hI : h.get hdrRequestID = [] <;> by_cases hP : h.get hdrOriginatingIP = [] <;>
    cases pass <;> simp [hS, hv, hI, hP]

/-- **external destinations never receive the three headers under any casing** — for every
    request header list (raw keys in any casing, repeated, merged or not), every rule flag and
    configuration: if the destination is external and a request is built, it carries no entry
    whose name equals one of the three names case-insensitively. -/
theorem external_never_receives (secrets : Option (List Bytes)) (req : ClientReq) (internal : Bool)
    (b : HostHeaderBehavior) (o : Bytes) (u : Option Bytes) (uuid : Bytes) (out : OutReq)
    (hext : internal = false ∨ secrets = none)
    (hr : createProxyRequest secrets req internal b o u uuid = .ok (.ok out)) :
    richieFree out.header = true := by
  -- the statement does not need `uuid ≠ []`: nothing is minted for an external destination
  have hne : createProxyRequest secrets req internal b o u uuid ≠ .ok (.error .newRequest) := by
    rw [hr]; intro hc; cases hc
  have hobs := createProxyRequest_obs secrets req internal b o u uuid hne
  rw [hr] at hobs
  simp only [obsOf] at hobs
  have hN := normal_filterHeader req.header Facts.nonForwarded
  have key : ∀ (secs : List Bytes) (rip : Res Bytes),
      obsOfEnsure (ensureInternalHeaders (filterHeader req.header Facts.nonForwarded) false secs uuid rip)
        = Obs.sent out.header → richieFree out.header = true := by
    intro secs rip he
    cases hq : ensureInternalHeaders (filterHeader req.header Facts.nonForwarded) false secs uuid rip with
    | panic s => rw [hq] at he; cases he
    | ok r =>
      cases r with
      | error rej => rw [hq] at he; cases he
      | ok h' =>
        rw [hq] at he
        simp only [obsOfEnsure] at he
        injection he with he
        subst he
        apply richieFree_of_values (normal_of_ensure hN hq)
        intro n hn
        apply external_strips _ secs uuid rip _ hq
        rw [internalHeaders_spec, spec_names]; exact hn
  cases secrets with
  | none => exact key [] _ hobs.symm
  | some ss =>
    rcases hext with rfl | hc
    · exact key ss _ hobs.symm
    · cases hc

/-- `http.NewRequestWithContext` succeeds: valid method (after the "" ⇒ GET default) and a URL
    that re-parses -/
def newRequestOk (req : ClientReq) (u : Option Bytes) : Prop :=
  validMethod (if req.method = [] then b!"GET" else req.method) = true ∧ u.isSome = true

theorem createProxyRequest_panic_iff (secrets : Option (List Bytes)) (req : ClientReq) (internal : Bool)
    (b : HostHeaderBehavior) (o : Bytes) (u : Option Bytes) (uuid : Bytes) (site : String) :
    createProxyRequest secrets req internal b o u uuid = .panic site ↔
      newRequestOk req u ∧ ensuredBy secrets req internal uuid = .panic site := by
  unfold createProxyRequest newRequestOk
  by_cases hm : validMethod (if req.method = [] then b!"GET" else req.method) = false
  · simp [hm]
  · cases u with
    | none => simp [hm]
    | some uh =>
      simp only [hm, if_false]
      have hm' : validMethod (if req.method = [] then b!"GET" else req.method) = true := by
        simpa using hm
      cases secrets with
      | none =>
        simp only [ensuredBy]
        cases ensureInternalHeaders (filterHeader req.header Facts.nonForwarded) false [] uuid
          (requestIP req.header req.remoteIP) with
        | panic s => simp [hm']
        | ok r => cases r <;> simp [hm']
      | some ss =>
        simp only [ensuredBy]
        cases ensureInternalHeaders (filterHeader req.header Facts.nonForwarded) internal ss uuid
          (requestIP req.header req.remoteIP) with
        | panic s => simp [hm']
        | ok r => cases r <;> simp [hm']

/-- **which configurations reach the `secrets[0]` panic**: `RoutingSecrets` non-nil but EMPTY,
    an internal rule, a client that supplied none of the three headers (under any casing),
    and a request that can be built at all. (With `RoutingSecrets == nil` the destination is
    external and nothing is indexed.) -/
theorem panic_secrets0_config (secrets : Option (List Bytes)) (req : ClientReq) (internal : Bool)
    (b : HostHeaderBehavior) (o : Bytes) (u : Option Bytes) (uuid : Bytes) (ip : Bytes)
    (hip : requestIP req.header req.remoteIP = .ok ip) :
    createProxyRequest secrets req internal b o u uuid = .panic panicSecrets0 ↔
      newRequestOk req u ∧ secrets = some [] ∧ internal = true ∧ firstOf req.header secretName = [] ∧
        firstOf req.header idName = [] ∧ firstOf req.header ipName = [] := by
  rw [createProxyRequest_panic_iff]
  have hN := normal_filterHeader req.header Facts.nonForwarded
  have hv : ∀ n ∈ [secretName, idName, ipName],
      (filterHeader req.header Facts.nonForwarded).get n = firstOf req.header n := by
    intro n hn
    have ht : tokenName n = true := by
      rw [spec_names] at hn; exact richie_tokens n hn
    rw [← firstOf_eq_get hN ht]
    unfold firstOf
    rw [valuesOf_filterHeader _ _ ht, if_neg (richie_not_filtered n hn)]
  have e1 := hv secretName (by simp)
  have e2 := hv idName (by simp)
  have e3 := hv ipName (by simp)
  rw [secretName_eq] at e1; rw [idName_eq] at e2; rw [ipName_eq] at e3
  cases secrets with
  | none =>
    simp only [ensuredBy, hip, panic_secrets0_iff]
    simp
  | some ss =>
    simp only [ensuredBy, hip, panic_secrets0_iff, e1, e2, e3]
    constructor
    · rintro ⟨h0, hp, hs, h1, h2, h3⟩
      exact ⟨h0, by rw [hs], hp, h1, h2, h3⟩
    · rintro ⟨h0, hs, hp, h1, h2, h3⟩
      injection hs with hs
      exact ⟨h0, hp, hs, h1, h2, h3⟩

def exReq : ClientReq :=
  { method := b!"GET", host := b!"h.test", remoteIP := some b!"10.0.0.9",
    header := [(b!"richie-routing-SECRET", [b!"s1"]), (b!"Richie-Request-Id", [b!"abc"]),
               (b!"Accept", [b!"*/*"]), (b!"Connection", [b!"close"])] }

example : createProxyRequest (some [b!"s0", b!"s1"]) exReq true .default [] (some b!"d.test") b!"U" =
    .ok (.ok { method := b!"GET", host := b!"d.test", urlHost := b!"d.test",
               header := [(b!"Richie-Originating-Ip", [b!"10.0.0.9"]), (b!"Accept", [b!"*/*"]),
                          (b!"Richie-Request-Id", [b!"abc"]), (b!"Richie-Routing-Secret", [b!"s1"])] }) := by rfl

example : createProxyRequest none exReq true .default [] (some b!"d.test") b!"U" =
    .ok (.error (.reject .badSecret)) := by rfl

example : createProxyRequest (some [b!"s0", b!"s1"]) exReq false .default [] (some b!"d.test") b!"U" =
    .ok (.ok { method := b!"GET", host := b!"d.test", urlHost := b!"d.test",
               header := [(b!"Accept", [b!"*/*"])] }) := by rfl

example : createProxyRequest (some []) { exReq with header := [(b!"Accept", [b!"*/*"])] } true .default []
    (some b!"d.test") b!"U" = .panic panicSecrets0 := by rfl

/-- the oracle is not vacuous: it rejects a secret leaking to an external destination (under
    any casing), a forwarded request that had to be rejected, and an internal request without
    a valid secret -/
example : holds { client := exReq.header, internal := false, secrets := some [b!"s0", b!"s1"] }
    (.sent [(b!"richie-routing-secret", [b!"s1"])]) = false := by decide
example : holds { client := [(b!"Richie-Routing-Secret", [b!"zz"])], internal := false, secrets := some [b!"s0"] }
    (.sent []) = false := by decide
example : holds { client := [], internal := true, secrets := some [b!"s0"] }
    (.sent [(b!"Richie-Request-Id", [b!"U"]), (b!"Richie-Originating-Ip", [b!"1.1.1.1"])]) = false := by decide
example : holds { client := [], internal := true, secrets := some [b!"s0", b!"s1"] }
    (.sent [(b!"Richie-Routing-Secret", [b!"s1"]), (b!"Richie-Request-Id", [b!"U"]),
            (b!"Richie-Originating-Ip", [b!"1.1.1.1"])]) = false := by decide
example : holds { client := [], internal := true, secrets := some [b!"s0", b!"s1"], peerIP := b!"1.1.1.1" }
    (.sent [(b!"Richie-Routing-Secret", [b!"s0"]), (b!"Richie-Request-Id", [b!"U"]),
            (b!"Richie-Originating-Ip", [b!"1.1.1.1"])]) = true := by decide

end Props.C04
