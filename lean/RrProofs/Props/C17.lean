import RrModel.Spec.C17
import RrProofs.Lemmas.Limiter
import RrProofs.Lemmas.LimiterLog
/-
  C17 — Eviction removes least-recently-used entries first, across restarts.
  Only property theorems, their non-vacuity examples, and the lemmas local to them.
-/
namespace Props.C17
open Go Model.Limiter Spec.C17

/-! ### the purge order, for ALL states -/

theorem sortedBy_pairwise (f : Name → Nat) (l : List Name) (h : sortedBy f l = true) :
    l.Pairwise (fun a b => f a ≤ f b) := by
  induction l with
  | nil => exact List.Pairwise.nil
  | cons a t ih =>
    rw [sortedBy_cons] at h
    have iht := ih h.2
    refine List.Pairwise.cons ?_ iht
    intro b hb
    cases t with
    | nil => simp at hb
    | cons x r =>
      have hax : f a ≤ f x := h.1 x rfl
      rcases List.mem_cons.1 hb with e | e
      · rw [e]; exact hax
      · have := (List.pairwise_cons.1 iht).1 b e
        omega

/-- in an ascending enumeration, everything in a prefix is at most everything outside it -/
theorem prefix_le_rest (f : Name → Nat) (l p : List Name) (hs : sortedBy f l = true) (hp : p <+: l)
    (hn : l.Nodup) : ∀ e ∈ p, ∀ s ∈ l, s ∉ p → f e ≤ f s := by
  obtain ⟨r, rfl⟩ := hp
  intro e he s hs' hnot
  have hsr : s ∈ r := by
    rcases List.mem_append.1 hs' with h | h
    · exact absurd h hnot
    · exact h
  exact (List.pairwise_append.1 (sortedBy_pairwise f _ hs)).2.2 e he s hsr

/-- **lru_pass_shape** — for ALL states and every order Go may choose: a purge pass removes
    unknown-atime entries first (known ones only once ALL unknown ones are selected) and then a
    prefix of the known entries in ascending access time: no known entry that stays has a
    smaller access time than one that goes. -/
theorem lru_pass_shape (st : LState) (h : Hints) (hv : validHints st h = true) :
    let sel := passSel st h
    sel.without <+: h.uorder ∧ sel.withA <+: h.korder ∧
    (sel.withA ≠ [] → ∀ n, st.without.get n ≠ none → n ∈ st.without.keys → n ∈ sel.without) ∧
    (∀ e ∈ sel.withA, ∀ s, s ∈ st.withA.dom → s ∉ sel.withA → atimeWithA st e ≤ atimeWithA st s) := by
  intro sel
  obtain ⟨⟨hun, hum⟩, ⟨hkn, hkm⟩, hsorted, _⟩ := validHints_parts hv
  have hshape : (passSel st h).without <+: h.uorder ∧ (passSel st h).withA <+: h.korder ∧
      ((passSel st h).withA ≠ [] → (passSel st h).without = h.uorder) := by
    unfold passSel
    split
    · obtain ⟨h1, h2, _, _, h5⟩ := purgeable_facts st (st.sizeBytes - st.max) h
      exact ⟨h1, h2, h5⟩
    · exact ⟨⟨h.uorder, by simp⟩, ⟨h.korder, by simp⟩, fun hne => absurd rfl hne⟩
  refine ⟨hshape.1, hshape.2.1, ?_, ?_⟩
  · intro hne n hg hk
    rw [hshape.2.2 hne]
    exact (hum n).2 ((mem_dom _ _).2 ⟨hk, hg⟩)
  · intro e he s hs hnot
    exact prefix_le_rest _ _ _ hsorted hshape.2.1 hkn e he s ((hkm s).2 hs) hnot

/-! ### histories and the history's own access log -/

/-- what the history itself knows: last access (fill or hit) of each entry, whether an access
    happened since the last flush, whether every restart so far came directly after a flush -/
structure Obs where
  acc : Name → Option Int := fun _ => none
  dirty : Bool := false
  judged : Bool := true

def updAcc (f : Name → Option Int) (n : Name) (t : Int) : Name → Option Int :=
  fun m => if m = n then some t else f m

/-- bookkeeping of the history for one op (`s` = system before the op) -/
def obsStep (s : Sys) (o : Obs) : Op → Obs
  | .fill n _ now => if s.fs.files.has n then o else { o with acc := updAcc o.acc n now, dirty := true }
  | .hit n now => if s.fs.files.has n then { o with acc := updAcc o.acc n now, dirty := true } else o
  | .flush _ _ => { o with dirty := false }
  | .restart _ => { o with judged := o.judged && !o.dirty, dirty := false }
  | _ => o

/-- what an observer records for the loop tail run on `s1` -/
def obsPass (o : Obs) (s1 : Sys) (r : Sys × PassOut) : Option Pass :=
  if r.2.ran then
    some { removed := (r.2.sel.without ++ r.2.sel.withA).filter fun n => s1.fs.files.has n,
           survivors := r.1.fs.files.dom, access := o.acc, judged := o.judged }
  else none

def runLog : Sys → Obs → List (Op × Sched) → List Pass
  | _, _, [] => []
  | s, o, (op, sc) :: t =>
    match applyOp s op sc with
    | .panic _ => []
    | .ok (s1, none) => runLog s1 (obsStep s o op) t
    | .ok (s1, some now) =>
      (obsPass (obsStep s o op) s1 (passSys s1 now sc)).toList ++ runLog (passSys s1 now sc).1 (obsStep s o op) t

/-- a history: directory (with its log), limit, start time, ops with Go's map-order choices -/
def historyLog (fs0 : FS) (max start : Int) (ops : List (Op × Sched)) : List Pass :=
  match startUp max start fs0 with
  | .panic _ => []
  | .ok st =>
    runLog { st := st, fs := fs0 }
      { acc := match fs0.atimes with
          | none => fun _ => none
          | some c => (parseLog c).foldl (fun f x => updAcc f x.1 x.2) (fun _ => none) } ops

def ValidScheds (ops : List (Op × Sched)) : Prop := ∀ x ∈ ops, Sched.Valid x.2

/-! ### within one process lifetime the order is LRU -/

/-- ops of a single process lifetime, with the clock inside the `uint32` window of the start -/
def inLifetime (start : Int) : Op → Bool
  | .fill _ _ now => decide (start ≤ now) && decide (now - start < 4294967296)
  | .hit _ now => decide (start ≤ now) && decide (now - start < 4294967296)
  | .restart _ => false
  | _ => true

/-- every entry on disk was added (or hit) in this lifetime, and its in-memory access time is
    the history's last access relative to the start -/
structure J (start : Int) (s : Sys) (o : Obs) : Prop where
  noUnknown : ∀ n, s.st.without.get n = none
  known : ∀ n sz, s.fs.files.get n = some sz →
    ∃ a t, s.st.withA.get n = some a ∧ o.acc n = some t ∧ 0 ≤ t - start ∧ a.atime = (t - start).toNat
  wfA : ∀ n, s.st.withA.get n ≠ none → n ∈ s.st.withA.keys
  started : s.st.startedAt = start

theorem atimeOf_inWindow {now start : Int} (h1 : start ≤ now) (h2 : now - start < 4294967296) :
    atimeOf now start = (now - start).toNat := by
  unfold atimeOf u32 two32
  rw [Int.emod_eq_of_lt (by omega) (by simpa using h2)]

theorem applyOp_J {start : Int} {s : Sys} {o : Obs} (hj : J start s o) (op : Op) (sc : Sched)
    (hl : inLifetime start op = true) {s1 : Sys} {w : Option Int} (h : applyOp s op sc = .ok (s1, w)) :
    J start s1 (obsStep s o op) := by
  cases op with
  | fill n size now =>
    simp only [inLifetime, Bool.and_eq_true, decide_eq_true_eq] at hl
    unfold applyOp at h
    by_cases hhas : s.fs.files.has n = true
    · simp only [hhas, ↓reduceIte, Res.ok.injEq, Prod.mk.injEq] at h
      rw [← h.1]; simp only [obsStep, hhas, ↓reduceIte]; exact hj
    · simp only [hhas] at h
      simp only [Bool.false_eq_true, ↓reduceIte, Res.ok.injEq, Prod.mk.injEq] at h
      rw [← h.1]
      simp only [obsStep, hhas, Bool.false_eq_true, ↓reduceIte]
      constructor
      · exact hj.noUnknown
      · intro k sz hk
        have hk' : (s.fs.files.set n size).get k = some sz := hk
        rw [KMap.set_get] at hk'
        show ∃ a t, (s.st.withA.set n _).get k = some a ∧ updAcc o.acc n now k = some t ∧ _
        rw [KMap.set_get]
        by_cases hkn : k = n
        · refine ⟨{ atime := atimeOf now s.st.startedAt, kb := kbOfSize size }, now, by simp [hkn], by simp [updAcc, hkn], by omega, ?_⟩
          simp only []
          rw [hj.started]; exact atimeOf_inWindow hl.1 hl.2
        · simp only [hkn, ↓reduceIte] at hk' ⊢
          simp only [updAcc, hkn, ↓reduceIte]
          exact hj.known k sz hk'
      · exact KMap.set_wf _ _ _ hj.wfA
      · exact hj.started
  | hit n now =>
    simp only [inLifetime, Bool.and_eq_true, decide_eq_true_eq] at hl
    unfold applyOp at h
    cases hg : s.fs.files.get n with
    | none =>
      simp only [hg, Res.ok.injEq, Prod.mk.injEq] at h
      rw [← h.1]
      have : s.fs.files.has n = false := by simp [KMap.has, hg]
      simp only [obsStep, this, Bool.false_eq_true, ↓reduceIte]; exact hj
    | some size =>
      simp only [hg, Res.ok.injEq, Prod.mk.injEq] at h
      rw [← h.1]
      have : s.fs.files.has n = true := by simp [KMap.has, hg]
      simp only [obsStep, this, ↓reduceIte]
      constructor
      · exact hj.noUnknown
      · intro k sz hk
        show ∃ a t, (s.st.withA.set n _).get k = some a ∧ updAcc o.acc n now k = some t ∧ _
        rw [KMap.set_get]
        by_cases hkn : k = n
        · refine ⟨{ atime := atimeOf now s.st.startedAt, kb := kbOfSize size }, now, by simp [hkn], by simp [updAcc, hkn], by omega, ?_⟩
          simp only []
          rw [hj.started]; exact atimeOf_inWindow hl.1 hl.2
        · simp only [hkn, ↓reduceIte]
          simp only [updAcc, hkn, ↓reduceIte]
          exact hj.known k sz hk
      · exact KMap.set_wf _ _ _ hj.wfA
      · exact hj.started
  | flush now ml =>
    unfold applyOp at h
    simp only [Res.ok.injEq, Prod.mk.injEq] at h
    rw [← h.1]
    have hst := flush_st s.st s.fs ml (sc s.st).forder
    simp only [obsStep]
    constructor
    · intro n; simp only [hst]; exact hj.noUnknown n
    · intro k sz hk
      simp only [hst]
      have hk' : (flush s.st s.fs ml (sc s.st).forder).2.files.get k = some sz := hk
      rcases flush_files s.st s.fs ml (sc s.st).forder with hfl | hfl
      · rw [hfl] at hk'; exact hj.known k sz hk'
      · rw [hfl] at hk'
        simp only [KMap.del, upd] at hk'
        split at hk'
        · cases hk'
        · exact hj.known k sz hk'
    · intro n hn; simp only [hst] at hn ⊢; exact hj.wfA n hn
    · simp only [hst]; exact hj.started
  | regrow n size =>
    unfold applyOp at h
    by_cases hhas : s.fs.files.has n = true
    · simp only [hhas, ↓reduceIte, Res.ok.injEq, Prod.mk.injEq] at h
      rw [← h.1]
      simp only [obsStep]
      obtain ⟨old, hold⟩ := Option.isSome_iff_exists.1 (show (s.fs.files.get n).isSome = true from hhas)
      refine ⟨hj.noUnknown, ?_, hj.wfA, hj.started⟩
      intro k sz hk
      have hk' : (s.fs.files.set n size).get k = some sz := hk
      rw [KMap.set_get] at hk'
      by_cases hkn : k = n
      · rw [hkn]; exact hj.known n old hold
      · simp only [hkn, ↓reduceIte] at hk'; exact hj.known k sz hk'
    · simp only [hhas] at h
      simp only [Bool.false_eq_true, ↓reduceIte, Res.ok.injEq, Prod.mk.injEq] at h
      rw [← h.1]; exact hj
  | delete n =>
    unfold applyOp at h
    simp only [Res.ok.injEq, Prod.mk.injEq] at h
    rw [← h.1]
    simp only [obsStep]
    refine ⟨hj.noUnknown, ?_, hj.wfA, hj.started⟩
    intro k sz hk
    have hk' : (s.fs.files.del n).get k = some sz := hk
    simp only [KMap.del, upd] at hk'
    split at hk'
    · cases hk'
    · exact hj.known k sz hk'
  | restart now => simp [inLifetime] at hl

theorem atimeWithA_of {st : LState} {n : Name} {a : Accessed} (h : st.withA.get n = some a) :
    atimeWithA st n = a.atime := by simp [atimeWithA, h]

/-- the loop tail in a single lifetime: the invariant stays, and the pass is LRU for the oracle -/
theorem passSys_J {start : Int} {s : Sys} {o : Obs} (hj : J start s o) (now : Int) (sc : Sched)
    (hv : validHints s.st (sc s.st) = true) :
    J start (passSys s now sc).1 o ∧ ∀ p, obsPass o s (passSys s now sc) = some p → passOk p = true := by
  obtain ⟨hpu, hpk, _, hle⟩ := lru_pass_shape s.st (sc s.st) hv
  obtain ⟨⟨_, hum⟩, _, _, _⟩ := validHints_parts hv
  -- there are no unknown-atime items, so none is selected
  have hU : (passSel s.st (sc s.st)).without = [] := by
    have : (sc s.st).uorder = [] := by
      apply List.eq_nil_iff_forall_not_mem.2
      intro n hn
      exact ((mem_dom _ _).1 ((hum n).1 hn)).2 (hj.noUnknown n)
    rw [this] at hpu
    exact List.prefix_nil.1 hpu
  unfold passSys pass
  by_cases hint : now - s.st.lastRun < (Facts.purgeIntervalSec : Int)
  · simp only [hint, ↓reduceIte]
    exact ⟨hj, fun p hp => by simp [obsPass] at hp⟩
  · simp only [hint, ↓reduceIte]
    by_cases hempty : (passSel s.st (sc s.st)).withA.length = 0 ∧ (passSel s.st (sc s.st)).without.length = 0
    · simp only [hempty, and_self, ↓reduceIte]
      refine ⟨⟨hj.noUnknown, hj.known, hj.wfA, hj.started⟩, ?_⟩
      intro p hp
      simp only [obsPass, ↓reduceIte, Option.some.injEq] at hp
      subst hp
      simp [passOk]
    · simp only [hempty, ↓reduceIte]
      have fr1 := subtractWith_frame s.st (passSel s.st (sc s.st)).withA
      have fr2 := subtractWithout_frame (subtractWith s.st (passSel s.st (sc s.st)).withA) (passSel s.st (sc s.st)).without
      have hfiles : ∀ k, (rmFiles (rmFiles s.fs (passSel s.st (sc s.st)).without) (passSel s.st (sc s.st)).withA).files.get k
          = if k ∈ (passSel s.st (sc s.st)).withA then none else s.fs.files.get k := by
        intro k; rw [rmFiles_get, rmFiles_get, hU]; simp
      refine ⟨?_, ?_⟩
      · constructor
        · intro n
          show (subtractWithout (subtractWith s.st _) _).without.get n = none
          rw [subtractWithout_get, fr1.1, hj.noUnknown n]; simp
        · intro k sz hk
          have hk' := hk
          simp only [] at hk'
          rw [hfiles] at hk'
          by_cases hm : k ∈ (passSel s.st (sc s.st)).withA
          · simp [hm] at hk'
          · simp only [hm, ↓reduceIte] at hk'
            obtain ⟨a, t, h1, h2, h3, h4⟩ := hj.known k sz hk'
            refine ⟨a, t, ?_, h2, h3, h4⟩
            show (subtractWithout (subtractWith s.st _) _).withA.get k = some a
            rw [fr2.1, subtractWith_get]; simp [hm, h1]
        · intro n hn
          have hn' : (subtractWithout (subtractWith s.st (passSel s.st (sc s.st)).withA) (passSel s.st (sc s.st)).without).withA.get n ≠ none := hn
          show n ∈ (subtractWithout (subtractWith s.st _) _).withA.keys
          rw [fr2.1, subtractWith_keys]
          rw [fr2.1, subtractWith_get] at hn'
          by_cases hm : n ∈ (passSel s.st (sc s.st)).withA
          · simp [hm] at hn'
          · simp only [hm, ↓reduceIte] at hn'; exact hj.wfA n hn'
        · show (subtractWithout (subtractWith s.st _) _).startedAt = start
          rw [fr2.2.2.1, fr1.2.2.1]; exact hj.started
      · intro p hp
        simp only [obsPass, ↓reduceIte, Option.some.injEq] at hp
        subst hp
        unfold passOk
        simp only [hU, List.nil_append, Bool.or_eq_true, Bool.not_eq_true', List.all_eq_true,
          List.mem_filter, and_imp]
        right
        intro e he hehas sv hsv
        -- `e` went and was on disk; `sv` is still on disk
        obtain ⟨esz, hesz⟩ := Option.isSome_iff_exists.1 (show (s.fs.files.get e).isSome = true from hehas)
        obtain ⟨ae, te, hae, hacce, hte0, hate⟩ := hj.known e esz hesz
        have hsv' := ((mem_dom _ _).1 hsv).2
        have hfiles2 := hfiles
        rw [hU] at hfiles2
        rw [hfiles2] at hsv'
        by_cases hm : sv ∈ (passSel s.st (sc s.st)).withA
        · simp [hm] at hsv'
        · simp only [hm, ↓reduceIte] at hsv'
          obtain ⟨ssz, hssz⟩ := Option.ne_none_iff_exists'.1 hsv'
          obtain ⟨as, ts, has, haccs, hts0, hats⟩ := hj.known sv ssz hssz
          have hdom : sv ∈ s.st.withA.dom := (mem_dom _ _).2 ⟨hj.wfA sv (by rw [has]; simp), by rw [has]; simp⟩
          have := hle e he sv hdom hm
          rw [atimeWithA_of hae, atimeWithA_of has, hate, hats] at this
          have hts : te ≤ ts := by omega
          simp only [olderOrNever, haccs, hacce, decide_eq_false_iff_not, Int.not_lt]
          exact hts

/-- **lru_within_run**.  In a single process lifetime in which every entry on disk was added by a
    fill of this lifetime (`J`: e.g. a start on an empty directory) and the clock stays inside
    the `uint32` window, every purge pass is accepted by the C17 oracle: no entry survives that
    was last used (filled or hit) earlier than an evicted one — whatever fills, hits, flushes,
    revalidations and deletions behind the limiter's back the history contains, and whatever
    order Go's maps choose.  (Partial form of the property: restarts excluded, see C17-a…c.) -/
theorem lru_within_run {start : Int} {s : Sys} {o : Obs} (hj : J start s o) (ops : List (Op × Sched))
    (hl : ∀ x ∈ ops, inLifetime start x.1 = true) (hv : ValidScheds ops) :
    holds (runLog s o ops) = true := by
  unfold holds
  rw [List.all_eq_true]
  induction ops generalizing s o with
  | nil => simp [runLog]
  | cons x t ih =>
    obtain ⟨op, sc⟩ := x
    have hop := hl (op, sc) (by simp)
    have hsc : Sched.Valid sc := hv (op, sc) (by simp)
    have hlt : ∀ y ∈ t, inLifetime start y.1 = true := fun y hy => hl y (by simp [hy])
    have hvt : ValidScheds t := fun y hy => hv y (by simp [hy])
    simp only [runLog]
    cases ha : applyOp s op sc with
    | panic site => simp
    | ok r =>
      obtain ⟨s1, w⟩ := r
      have hj1 := applyOp_J hj op sc hop ha
      cases w with
      | none => exact ih hj1 hlt hvt
      | some now =>
        simp only []
        obtain ⟨hj2, hok⟩ := passSys_J hj1 now sc (hsc s1.st)
        intro p hp
        rcases List.mem_append.1 hp with h | h
        · exact hok p (by simpa using h)
        · exact ih hj2 hlt hvt p h

/-- a start on an empty directory satisfies the lifetime invariant -/
theorem J_fresh (max start : Int) : J start { st := newState max start, fs := {} } {} where
  noUnknown := fun _ => rfl
  known := fun n sz h => by cases h
  wfA := fun n h => absurd rfl h
  started := rfl

/-! ### the access-time log: what is flushed is what is read -/

/-- a name that cannot be confused with the log's delimiters (`|`, newline) -/
def goodName (n : Name) : Prop := 124 ∉ n ∧ 10 ∉ n

/-- entry names are hex digits and `/` (`prefixWithItemName` of a SHA-1 hex string) -/
def hexName (n : Name) : Bool := n.all fun c => (decide (48 ≤ c) && decide (c ≤ 57)) || (decide (97 ≤ c) && decide (c ≤ 102)) || c == 47

theorem hexName_good {n : Name} (h : hexName n = true) : goodName n := by
  unfold hexName at h
  rw [List.all_eq_true] at h
  constructor
  · intro hm; have := h 124 hm; simp at this
  · intro hm; have := h 10 hm; simp at this

/-- a storable item as Go can hold it: `int64` time, `uint32` size -/
def goodItem (s : Storable) : Prop := minInt64 ≤ s.unix ∧ s.unix ≤ maxInt64 ∧ s.kb < 4294967296

theorem itoa_no (i : Int) (c : Nat) (hc : c = 124 ∨ c = 10) : c ∉ itoa i := by
  intro hm
  rcases itoa_bytes i c hm with h | h <;> omega

theorem parseLine_logLine (start : Int) (n : Name) (s : Storable) (hn : goodName n) (hs : goodItem s) :
    parseLine start (n ++ [124] ++ itoa s.unix ++ [124] ++ itoa (s.kb : Int))
      = some (n, { atime := u32 (start - s.unix), kb := s.kb }) := by
  unfold parseLine
  have e1 : n ++ [124] ++ itoa s.unix ++ [124] ++ itoa (s.kb : Int)
      = n ++ 124 :: (itoa s.unix ++ 124 :: itoa (s.kb : Int)) := by simp
  rw [e1, split1_append_sep 124 n _ hn.1, split1_append_sep 124 _ _ (itoa_no _ 124 (Or.inl rfl)),
    split1_noSep 124 _ (itoa_no _ 124 (Or.inl rfl))]
  simp only []
  rw [parseInt_itoa s.unix hs.1 hs.2.1]
  have hkb : parseInt (itoa (s.kb : Int)) = some (s.kb : Int) := by
    apply parseInt_itoa
    · unfold minInt64; omega
    · unfold maxInt64; have := hs.2.2; omega
  simp only [atoi, hkb]
  have : u32 (s.kb : Int) = s.kb := by
    unfold u32 two32
    have := hs.2.2
    rw [Int.emod_eq_of_lt (by omega) (by omega)]; simp
  rw [this]

theorem logLine_eq (n : Name) (s : Storable) :
    logLine n s = (n ++ [124] ++ itoa s.unix ++ [124] ++ itoa (s.kb : Int)) ++ 10 :: [] := by
  simp [logLine]

theorem line_no_newline (n : Name) (s : Storable) (hn : goodName n) :
    10 ∉ n ++ [124] ++ itoa s.unix ++ [124] ++ itoa (s.kb : Int) := by
  simp only [List.mem_append, List.mem_singleton, not_or]
  exact ⟨⟨⟨⟨hn.2, by decide⟩, itoa_no _ 10 (Or.inr rfl)⟩, by decide⟩, itoa_no _ 10 (Or.inr rfl)⟩

/-- reading text that starts with flushed lines -/
theorem readStorable_logLines (start : Int) (m : KMap Storable) (order : List Name) (rest : Bytes)
    (hgood : ∀ n ∈ order, goodName n ∧ ∀ s, m.get n = some s → goodItem s) :
    readStorable start (logLines m order ++ rest)
      = (order.filterMap fun n => (m.get n).map fun s => (n, ({ atime := u32 (start - s.unix), kb := s.kb } : Accessed)))
        ++ readStorable start rest := by
  induction order with
  | nil => simp [logLines]
  | cons n t ih =>
    have hn := hgood n (by simp)
    have iht := ih (fun k hk => hgood k (by simp [hk]))
    simp only [logLines, List.filterMap_cons]
    cases hg : m.get n with
    | none => simpa using iht
    | some s =>
      simp only [Option.map_some]
      rw [logLine_eq, List.append_assoc, List.append_assoc]
      unfold readStorable at iht ⊢
      simp only [List.cons_append, List.nil_append]
      rw [completeLines_line _ _ (line_no_newline n s hn.1), List.filterMap_cons,
        parseLine_logLine start n s hn.1 (hn.2 s hg)]
      simp only [List.cons_append]
      rw [iht]

/-- **atime_log_roundtrip**: for hex entry names (no `|`, no newline) and items as Go holds them,
    reading a log that consists of a flush returns exactly the flushed `(name, unix, kb)` triples,
    in the order written, with the time re-based as `uint32(startedAt − unix)`. -/
theorem atime_log_roundtrip (start : Int) (m : KMap Storable) (order : List Name)
    (hgood : ∀ n ∈ order, goodName n ∧ ∀ s, m.get n = some s → goodItem s) :
    readStorable start (logLines m order)
      = order.filterMap fun n => (m.get n).map fun s => (n, ({ atime := u32 (start - s.unix), kb := s.kb } : Accessed)) := by
  have := readStorable_logLines start m order [] hgood
  simpa [readStorable, completeLines_nil] using this

/-- appending a flush to a log of complete lines adds exactly the flushed triples at the end -/
theorem atime_log_append (start : Int) (old : Bytes) (m : KMap Storable) (order : List Name)
    (hold : old = [] ∨ old.getLast? = some 10)
    (hgood : ∀ n ∈ order, goodName n ∧ ∀ s, m.get n = some s → goodItem s) :
    ∃ pre, readStorable start (old ++ logLines m order) = pre ++
      order.filterMap fun n => (m.get n).map fun s => (n, ({ atime := u32 (start - s.unix), kb := s.kb } : Accessed)) := by
  -- lines of `old` first: generic statement over the complete lines of a newline-terminated text
  have key : ∀ (o : Bytes), (o = [] ∨ o.getLast? = some 10) → ∀ rest,
      completeLines (o ++ rest) = completeLines o ++ completeLines rest := by
    intro o
    induction hlen : o.length using Nat.strongRecOn generalizing o with
    | _ k ihk =>
      intro ho rest
      rcases ho with rfl | hlast
      · simp [completeLines_nil]
      · -- split off the first line
        cases hidx : indexByte 10 o with
        | none =>
          exfalso
          have : 10 ∈ o := List.mem_of_getLast? hlast
          clear hlast ihk hlen
          induction o with
          | nil => simp at this
          | cons d t iht =>
            simp only [indexByte] at hidx
            split at hidx
            · cases hidx
            · rename_i hd
              rcases List.mem_cons.1 this with e | e
              · exact hd e.symm
              · simp only [Option.map_eq_none_iff] at hidx; exact iht hidx e
        | some i =>
          -- o = line ++ 10 :: o'
          have hsplit : ∃ line o', o = line ++ 10 :: o' ∧ 10 ∉ line := by
            clear hlast ihk hlen
            induction o generalizing i with
            | nil => simp [indexByte] at hidx
            | cons d t iht =>
              simp only [indexByte] at hidx
              split at hidx
              · rename_i hd; exact ⟨[], t, by simp [hd], by simp⟩
              · rename_i hd
                simp only [Option.map_eq_some_iff] at hidx
                obtain ⟨j, hj, _⟩ := hidx
                obtain ⟨line, o', h1, h2⟩ := iht j hj
                refine ⟨d :: line, o', by simp [h1], ?_⟩
                simp only [List.mem_cons, not_or]
                exact ⟨fun e => hd e.symm, h2⟩
          obtain ⟨line, o', rfl, hline⟩ := hsplit
          have ho' : o' = [] ∨ o'.getLast? = some 10 := by
            cases o' with
            | nil => exact Or.inl rfl
            | cons x xs =>
              right
              rw [List.getLast?_append, List.getLast?_cons_cons] at hlast
              simpa using hlast
          have hk : o'.length < k := by rw [← hlen]; simp; omega
          rw [List.append_assoc, List.cons_append, completeLines_line _ _ hline, completeLines_line _ _ hline,
            ihk _ hk o' rfl ho' rest]
          simp
  refine ⟨readStorable start old, ?_⟩
  unfold readStorable
  rw [key old hold, List.filterMap_append]
  congr 1
  exact atime_log_roundtrip start m order hgood

/-- **trimming keeps a suffix of whole lines**: a rewrite drops a prefix that ends right after a
    newline, so what is left starts at a line boundary (and a log of whole lines stays one). -/
theorem trim_keeps_whole_lines (content : Bytes) (length maxLength : Int) (r : Bytes)
    (h : trimLog content length maxLength = some r) :
    ∃ k, r = content.drop (k + 1) ∧ content[k]? = some 10 := by
  unfold trimLog at h
  split at h
  · simp only [] at h
    split at h
    · cases h
    · cases hidx : indexByte 10 (List.take 4096 (List.drop (length - maxLength + maxLength.tdiv 10).toNat content)) with
      | none => rw [hidx] at h; cases h
      | some i =>
        rw [hidx] at h
        simp only [Option.some.injEq] at h
        refine ⟨(length - maxLength + maxLength.tdiv 10).toNat + i, h.symm, ?_⟩
        have := indexByte_spec 10 _ i hidx
        rw [List.getElem?_take] at this
        split at this
        · rw [List.getElem?_drop] at this; exact this
        · cases this
  · cases h

/-! ### across restarts the property is false: witnesses (each replayed on the real limiter as `kf.C17-*`) -/

/-- **C17 as stated** (`lru_across_restart`): for every history — fills and hits in any order,
    restarts directly after an access-time flush (`judged`), whatever was on disk before — the
    oracle accepts every eviction. -/
def Statement : Prop :=
  ∀ (fs0 : FS) (max start : Int) (ops : List (Op × Sched)), ValidScheds ops →
    holds (historyLog fs0 max start ops) = true

section Witnesses
set_option maxRecDepth 100000

def c : Sched := canonicalHints
def withC (ops : List Op) : List (Op × Sched) := ops.map fun o => (o, c)

theorem valid_withC (ops : List Op) : ValidScheds (withC ops) := by
  intro x hx
  obtain ⟨o, _, rfl⟩ := List.mem_map.1 hx
  exact canonical_valid

def emptyFS : FS := {}
def t0 : Int := 1700000000
def ml : Int := 180000000
def n1 : Name := b!"a/b/c/abc1"
def n2 : Name := b!"a/b/d/abd2"
def n3 : Name := b!"0/f/3/0f3e9a"

/-- C17-a: `abc1` is last hit at t0+12, `abd2` at t0+22; flush, restart at t0+33.  Re-basing gives
    `abc1` 21 and `abd2` 11 (older = larger), the new fill `0f3e9a` gets 1: ascending order evicts
    the brand-new entry and the MORE recently used `abd2`, while `abc1` stays. -/
def wA : List (Op × Sched) := withC
  [.fill n1 4096 (t0+1), .fill n2 4096 (t0+2), .hit n1 (t0+12), .hit n2 (t0+22), .flush (t0+23) ml,
   .restart (t0+33), .fill n3 4096 (t0+34), .flush (t0+40) ml]
theorem lru_across_restart_fails_a : holds (historyLog emptyFS 8192 t0 wA) = false := by decide

/-- C17-b: `abc1` is on disk at start (unknown atime) and is hit at t0+11 — the most recent access
    of all.  The hit puts it into `withAccessTime` but leaves it in `withoutAccessTime`, so the
    next pass purges it first as "unknown". -/
def fsB : FS := { files := KMap.empty.set n1 4096 }
def wB : List (Op × Sched) := withC
  [.fill n2 4096 (t0+1), .hit n1 (t0+11), .fill n3 4096 (t0+21), .flush (t0+27) ml]
theorem lru_across_restart_fails_b : holds (historyLog fsB 8192 t0 wB) = false := by decide

/-- C17-c: `abc1` is filled and hit early (logged), `abd2` is filled 100 s later (fills are never
    logged); flush, restart.  `abd2` is now "unknown" and goes before the older `abc1`. -/
def wC : List (Op × Sched) := withC
  [.fill n1 4096 (t0+1), .hit n1 (t0+6), .flush (t0+7) ml, .fill n2 4096 (t0+107), .flush (t0+108) ml,
   .restart (t0+118), .fill n3 4096 (t0+119), .flush (t0+125) ml]
theorem lru_across_restart_fails_c : holds (historyLog emptyFS 8192 t0 wC) = false := by decide

theorem Statement_false : ¬ Statement := by
  intro h
  have := h emptyFS 8192 t0 wA (valid_withC _)
  rw [lru_across_restart_fails_a] at this; cases this

/-! every witness history is inside the property's quantifier (restart directly after a flush) -/
example : (historyLog emptyFS 8192 t0 wA).all (·.judged) = true := by decide
example : (historyLog emptyFS 8192 t0 wC).all (·.judged) = true := by decide

/-! Non-vacuity of `lru_within_run`: a single lifetime on an empty directory with evictions. -/
def wRun : List (Op × Sched) := withC
  [.fill n1 4096 (t0+1), .fill n2 4096 (t0+2), .hit n1 (t0+3), .fill n3 4096 (t0+9), .regrow n3 8192,
   .delete n1, .fill n1 4096 (t0+15), .flush (t0+21) ml]
example : ∀ x ∈ wRun, inLifetime t0 x.1 = true := by decide
example : (runLog { st := newState 8192 t0, fs := {} } {} wRun).map (fun p => (p.removed, p.survivors))
    = [([], [n1]), ([n2], [n1, n3]), ([n3], [n1]), ([], [n1])] := by decide
example : holds (runLog { st := newState 8192 t0, fs := {} } {} wRun) = true :=
  lru_within_run (J_fresh 8192 t0) wRun (by decide) (valid_withC _)

/-! Non-vacuity of `lru_pass_shape` and `atime_log_roundtrip`. -/
def stThree : LState :=
  opAdd (opAdd (opAdd { newState 4096 t0 with without := (KMap.empty.set n3 4) } n1 ⟨7, 4⟩) n2 ⟨2, 4⟩) n3 ⟨5, 4⟩
example : validHints stThree (canonicalHints stThree) = true := canonical_valid stThree
example : passSel stThree (canonicalHints stThree) = { withA := [n2], without := [n3], size := 8192 } := by decide

def mTwo : KMap Storable := (KMap.empty.set n1 ⟨t0 + 5, 4⟩).set n2 ⟨t0 - 7, 1024⟩
example : hexName n1 = true ∧ hexName n2 = true := by decide
example : logLines mTwo [n2, n1] = n2 ++ b!"|1699999993|1024\n" ++ n1 ++ b!"|1700000005|4\n" := by decide
example : readStorable (t0 + 100) (logLines mTwo [n2, n1]) = [(n2, ⟨107, 1024⟩), (n1, ⟨95, 4⟩)] := by decide
example : trimLog (b!"aaaa\nbbbb\ncccc\n") 15 10 = some b!"cccc\n" := by decide

end Witnesses

end Props.C17
