import RrProofs.Lemmas.SysCacheRH
import RrProofs.Props.SysCacheRH
import RrProofs.Props.SysCacheTerm
import RrProofs.Props.C10Sys
import RrProofs.Props.C07Sys
/-
  The system-level theorems of `Model.SysCache`, lifted to `Model.SysCacheRH` (rules that carry `response_headers`) FOR
  ARBITRARY `rh`, through the characterisation `Lemmas.SysCacheRH.stepOnceRH_eq` (one activation of the wrapper is the
  base activation with `ai`, or the base activation with `applyRH rh ai`, or the answer `w:uncacheable-rule`).

  1. TERMINATION (C05), unconditional: `reenter_skip_true_RH`, `skip_activation_answers_RH`, `reenter_then_done_RH`,
     `fuel_two_suffices_RH`, `answered_RH`, `stepRH_answered`, `run_answered_RH`.
  2. C10: `other_methods_bypass_RH`, `authorization_never_stores_RH`, `doNotCache_answer_never_stored_RH`, and, specific to
     this model, `rule_forbids_never_stores` (+ `rule_forbids_only_removes_unless_304`, `rule_forbids_skip_only_removes`,
     `rule_forbids_never_stores_cachingFuncRH`, `rule_forbids_never_stores_stepRH`, `rule_forbids_never_stores_history`,
     `rule_forbids_cache_stays_empty`).
     NOTE on the relation: under a rule that forbids storing, ONE row still writes to the disk: the row `w:304` (the
     origin confirms an entry that is ALREADY stored, e.g. from before the rule was given the header) re-publishes that
     entry: same path, same body, xattr re-encoded (`Revalidated := now`, the 304's headers merged).  So "the disk only
     loses files" (`Props.SysCache.Shrinks`) holds for every activation EXCEPT that re-entry
     (`rule_forbids_only_removes_unless_304`), and the relation that holds for every activation, request and history is
     `NoNewBody`: every cell afterwards is the cell before, or empty, or the file before with the SAME BODY and a
     rewritten xattr.  In particular no path gets a file that had none, and no body byte is ever written
     (`rule_forbids_cache_stays_empty`: from the empty cache the disk stays empty for ever).
  3. C07: `hit_replays_entry_RH`, `hit_replays_entry_fields_RH`, `rule_header_wins`.
-/
namespace Props.SysCacheRHLift
open Go Model Model.SysCache Model.SysCacheRH Props.SysCache Lemmas.SysCacheRH

/-! ## 1. Termination -/

/-- **every re-entry of `cachingFuncRH` carries `skipRevalidate = true`** -/
theorem reenter_skip_true_RH {cfg : Config} {rh : List (Bytes × Bytes)} {origin : Bytes → Option Origin} {now : Int}
    {req : Request} {d : Disk} {client ai : Header} {skip : Bool} {cs : List Contact} {d' : Disk} {c' ai' : Header}
    {skip' : Bool} {cs' : List Contact} {tag : String}
    (h : stepOnceRH cfg rh origin now req d client ai skip cs = .reenter d' c' ai' skip' cs' tag) :
    skip' = true := by
  rcases stepOnceRH_eq cfg rh origin now req d client ai skip cs with ⟨_, _, e⟩ | e | ⟨_, d1, reval, resp, _, _, _, e⟩
  · rw [e] at h; exact Props.SysCacheTerm.reenter_skip_true h
  · rw [e] at h; exact Props.SysCacheTerm.reenter_skip_true h
  · rw [e] at h; cases h

/-- **an activation with `skipRevalidate = true` answers** — every disk, header, origin, clock, rule headers -/
theorem skip_activation_answers_RH (cfg : Config) (rh : List (Bytes × Bytes)) (origin : Bytes → Option Origin) (now : Int)
    (req : Request) (d : Disk) (client ai : Header) (cs : List Contact) :
    ∃ a, stepOnceRH cfg rh origin now req d client ai true cs = .done a := by
  rcases stepOnceRH_eq cfg rh origin now req d client ai true cs with ⟨_, _, e⟩ | e | ⟨_, d1, reval, resp, _, _, _, e⟩
  · rw [e]; exact Props.SysCacheTerm.skip_activation_answers ..
  · rw [e]; exact Props.SysCacheTerm.skip_activation_answers ..
  · rw [e]; exact ⟨_, rfl⟩

/-- **one re-entry is the last** -/
theorem reenter_then_done_RH {cfg : Config} {rh : List (Bytes × Bytes)} {origin : Bytes → Option Origin} {now : Int}
    {req : Request} {d : Disk} {client ai : Header} {skip : Bool} {cs : List Contact} {d' : Disk} {c' ai' : Header}
    {skip' : Bool} {cs' : List Contact} {tag : String}
    (h : stepOnceRH cfg rh origin now req d client ai skip cs = .reenter d' c' ai' skip' cs' tag) :
    ∃ a, stepOnceRH cfg rh origin now req d' c' ai' skip' cs' = .done a := by
  rw [reenter_skip_true_RH h]
  exact skip_activation_answers_RH ..

theorem cachingFuncRH_succ_done {cfg : Config} {rh : List (Bytes × Bytes)} {origin : Bytes → Option Origin} {now : Int}
    {req : Request} {d : Disk} {client ai : Header} {skip : Bool} {cs : List Contact} {a : Ans}
    (h : stepOnceRH cfg rh origin now req d client ai skip cs = .done a) (n : Nat) :
    cachingFuncRH cfg rh origin now req (n + 1) d client ai skip cs = a := by
  rw [cachingFuncRH, h]

theorem cachingFuncRH_succ_reenter {cfg : Config} {rh : List (Bytes × Bytes)} {origin : Bytes → Option Origin} {now : Int}
    {req : Request} {d : Disk} {client ai : Header} {skip : Bool} {cs : List Contact} {d' : Disk} {c' ai' : Header}
    {skip' : Bool} {cs' : List Contact} {tag : String}
    (h : stepOnceRH cfg rh origin now req d client ai skip cs = .reenter d' c' ai' skip' cs' tag) (n : Nat) :
    cachingFuncRH cfg rh origin now req (n + 1) d client ai skip cs =
      { cachingFuncRH cfg rh origin now req n d' c' ai' skip' cs' with
        label := tag ++ (cachingFuncRH cfg rh origin now req n d' c' ai' skip' cs').label } := by
  rw [cachingFuncRH, h]

/-- the arm `Step.reenterLocked` needs no fuel beyond the activation that produces it -/
theorem cachingFuncRH_succ_reenterLocked {cfg : Config} {rh : List (Bytes × Bytes)} {origin : Bytes → Option Origin}
    {now : Int} {req : Request} {d : Disk} {client ai : Header} {skip : Bool} {cs : List Contact} {d' : Disk}
    {c' ai' : Header} {cs' : List Contact} {tag : String}
    (h : stepOnceRH cfg rh origin now req d client ai skip cs = .reenterLocked d' c' ai' cs' tag) (n : Nat) :
    cachingFuncRH cfg rh origin now req (n + 1) d client ai skip cs =
      { lockedReentry cfg origin now req d' c' ai' cs' with
        label := tag ++ (lockedReentry cfg origin now req d' c' ai' cs').label } := by
  rw [cachingFuncRH, h]; rfl

/-- what `cachingFuncRH` returns with fuel for two activations or more -/
theorem cachingFuncRH_two (cfg : Config) (rh : List (Bytes × Bytes)) (origin : Bytes → Option Origin) (now : Int)
    (req : Request) (d : Disk) (client ai : Header) (skip : Bool) (cs : List Contact) (n : Nat) :
    (∃ a, stepOnceRH cfg rh origin now req d client ai skip cs = .done a ∧
        cachingFuncRH cfg rh origin now req (n + 2) d client ai skip cs = a) ∨
    (∃ d' c' ai' cs' tag a, stepOnceRH cfg rh origin now req d client ai skip cs = .reenter d' c' ai' true cs' tag ∧
        stepOnceRH cfg rh origin now req d' c' ai' true cs' = .done a ∧
        cachingFuncRH cfg rh origin now req (n + 2) d client ai skip cs = { a with label := tag ++ a.label }) ∨
    (∃ d' c' ai' cs' tag, stepOnceRH cfg rh origin now req d client ai skip cs = .reenterLocked d' c' ai' cs' tag ∧
        cachingFuncRH cfg rh origin now req (n + 2) d client ai skip cs =
          { lockedReentry cfg origin now req d' c' ai' cs' with
            label := tag ++ (lockedReentry cfg origin now req d' c' ai' cs').label }) := by
  cases hst : stepOnceRH cfg rh origin now req d client ai skip cs with
  | done a => exact Or.inl ⟨a, rfl, cachingFuncRH_succ_done hst _⟩
  | reenter d' c' ai' skip' cs' tag =>
    right; left
    have hs := reenter_skip_true_RH hst
    subst hs
    obtain ⟨a, ha⟩ := reenter_then_done_RH hst
    refine ⟨d', c', ai', cs', tag, a, rfl, ha, ?_⟩
    rw [cachingFuncRH_succ_reenter hst, cachingFuncRH_succ_done ha]
  | reenterLocked d' c' ai' cs' tag =>
    exact Or.inr (Or.inr ⟨d', c', ai', cs', tag, rfl, cachingFuncRH_succ_reenterLocked hst _⟩)

/-- **two activations always suffice**: more fuel changes nothing, for every rule header list -/
theorem fuel_two_suffices_RH (cfg : Config) (rh : List (Bytes × Bytes)) (origin : Bytes → Option Origin) (now : Int)
    (req : Request) (fuel : Nat) (d : Disk) (client ai : Header) (skip : Bool) (cs : List Contact) (h2 : 2 ≤ fuel) :
    cachingFuncRH cfg rh origin now req fuel d client ai skip cs =
      cachingFuncRH cfg rh origin now req 2 d client ai skip cs := by
  obtain ⟨n, rfl⟩ : ∃ n, fuel = n + 2 := ⟨fuel - 2, by omega⟩
  rcases cachingFuncRH_two cfg rh origin now req d client ai skip cs n with
    ⟨a, _, e⟩ | ⟨d', c', ai', cs', tag, a, _, _, e⟩ | ⟨d', c', ai', cs', tag, _, e⟩
  all_goals rw [e]
  all_goals
    rcases cachingFuncRH_two cfg rh origin now req d client ai skip cs 0 with
      ⟨a0, h0, e0⟩ | ⟨d0, c0, ai0, cs0, tag0, a0, h0, h0', e0⟩ | ⟨d0, c0, ai0, cs0, tag0, h0, e0⟩
  all_goals rw [e0]
  all_goals simp_all

/-- the labels an answering activation of the wrapper can carry: the base model's, and the repair's branch -/
def doneLabelsRH : List String := Props.SysCacheTerm.doneLabels ++ ["w:uncacheable-rule"]

def LabelOKRH : Step → Prop
  | .done a => a.label ∈ doneLabelsRH
  | .reenter _ _ _ _ _ tag => tag = "w:304>" ∨ tag = "w:stale>"
  | .reenterLocked _ _ _ _ tag => tag = "w:304>"

theorem labelOKRH_of_base {s : Step} (h : Props.SysCacheTerm.LabelOK s) : LabelOKRH s := by
  cases s with
  | done a => exact List.mem_append_left _ h
  | reenter => exact h
  | reenterLocked => exact h

theorem stepOnceRH_labelOK (cfg : Config) (rh : List (Bytes × Bytes)) (origin : Bytes → Option Origin) (now : Int)
    (req : Request) (d : Disk) (client ai : Header) (skip : Bool) (cs : List Contact) :
    LabelOKRH (stepOnceRH cfg rh origin now req d client ai skip cs) := by
  rcases stepOnceRH_eq cfg rh origin now req d client ai skip cs with ⟨_, _, e⟩ | e | ⟨_, d1, reval, resp, _, _, _, e⟩
  · rw [e]; exact labelOKRH_of_base (Props.SysCacheTerm.stepOnce_labelOK ..)
  · rw [e]; exact labelOKRH_of_base (Props.SysCacheTerm.stepOnce_labelOK ..)
  · rw [e]; exact List.mem_append_right _ (by simp)

theorem doneLabelsRH_not_outOfFuel :
    ∀ l ∈ doneLabelsRH, ¬ Props.SysCacheTerm.OutOfFuel l ∧ 4 ≤ l.toList.length := by
  intro l hl
  rcases List.mem_append.1 hl with h | h
  · exact Props.SysCacheTerm.doneLabels_not_outOfFuel l h
  · have : l = "w:uncacheable-rule" := by simpa using h
    subst this
    decide

/-- **every request is answered**: with fuel for two activations the label never ends in `fuel` -/
theorem answered_RH (cfg : Config) (rh : List (Bytes × Bytes)) (origin : Bytes → Option Origin) (now : Int) (req : Request)
    (fuel : Nat) (d : Disk) (client ai : Header) (skip : Bool) (cs : List Contact) (h2 : 2 ≤ fuel) :
    ¬ Props.SysCacheTerm.OutOfFuel (cachingFuncRH cfg rh origin now req fuel d client ai skip cs).label := by
  obtain ⟨n, rfl⟩ : ∃ n, fuel = n + 2 := ⟨fuel - 2, by omega⟩
  rcases cachingFuncRH_two cfg rh origin now req d client ai skip cs n with
    ⟨a, h1, e⟩ | ⟨d', c', ai', cs', tag, a, h1, h2', e⟩ | ⟨d', c', ai', cs', tag, h1, e⟩
  · rw [e]
    have := stepOnceRH_labelOK cfg rh origin now req d client ai skip cs
    rw [h1] at this
    exact (doneLabelsRH_not_outOfFuel _ this).1
  · rw [e]
    have := stepOnceRH_labelOK cfg rh origin now req d' c' ai' true cs'
    rw [h2'] at this
    exact Props.SysCacheTerm.not_outOfFuel_append (doneLabelsRH_not_outOfFuel _ this).1 (doneLabelsRH_not_outOfFuel _ this).2
  · rw [e]
    have := Props.SysCacheTerm.lockedReentry_label cfg origin now req d' c' ai' cs'
    exact Props.SysCacheTerm.not_outOfFuel_append (Props.SysCacheTerm.doneLabels_not_outOfFuel _ this).1
      (Props.SysCacheTerm.doneLabels_not_outOfFuel _ this).2

/-- the driver's fuel is never used up -/
theorem stepRH_fuel_irrelevant (cfg : Config) (rh : List (Bytes × Bytes)) (s : State) (r : Request) :
    stepRH cfg rh s (.req r) =
      (let a := cachingFuncRH cfg rh s.origin s.now r 2 s.disk r.header [] false []
       ({ s with disk := a.disk }, some (obsOf r a))) := by
  unfold stepRH
  dsimp only
  rw [fuel_two_suffices_RH _ _ _ _ _ _ _ _ _ _ _ (by decide : 2 ≤ defaultFuel)]

theorem stepRH_answered (cfg : Config) (rh : List (Bytes × Bytes)) (s : State) (r : Request) :
    ∀ o, (stepRH cfg rh s (.req r)).2 = some o → ¬ Props.SysCacheTerm.OutOfFuel o.label := by
  intro o ho
  unfold stepRH at ho
  dsimp only at ho
  cases ho
  exact answered_RH _ _ _ _ _ _ _ _ _ _ _ (by decide : 2 ≤ defaultFuel)

/-- **no observation of a history of the RH model has a label ending in `fuel`** -/
theorem run_answered_RH (cfg : Config) (rh : List (Bytes × Bytes)) :
    ∀ (ops : List Op) (s : State), ∀ o ∈ runRH cfg rh s ops, ¬ Props.SysCacheTerm.OutOfFuel o.label
  | [], _, o, h => by simp [runRH] at h
  | op :: ops, s, o, h => by
    unfold runRH at h
    split at h
    · rename_i s' o' heq
      rcases List.mem_cons.1 h with rfl | h
      · cases op with
        | req r => exact stepRH_answered cfg rh s r o (by rw [heq])
        | tick dt => simp [stepRH] at heq
        | setOrigin p oo => simp [stepRH] at heq
      · exact run_answered_RH cfg rh ops s' o h
    · rename_i s' heq
      exact run_answered_RH cfg rh ops s' o h

/-! ## 2. C10 -/

/-- for a method other than GET/HEAD a request of the wrapper IS the base model's request at `applyRH rh ai` -/
theorem cachingFuncRH_other_methods (cfg : Config) (rh : List (Bytes × Bytes)) (origin : Bytes → Option Origin) (now : Int)
    (req : Request) (hm : req.method ≠ b!"GET" ∧ req.method ≠ b!"HEAD")
    (fuel : Nat) (d : Disk) (client ai : Header) (skip : Bool) (cs : List Contact) :
    cachingFuncRH cfg rh origin now req (fuel + 1) d client ai skip cs =
      cachingFunc cfg origin now req (fuel + 1) d client (applyRH rh ai) skip cs := by
  have e := stepOnceRH_other_methods cfg rh origin now req hm d client ai skip cs
  have hb := Props.C10Sys.stepOnce_other_methods cfg origin now req hm d client (applyRH rh ai) skip cs
  cases hask : ask cfg origin req cs client with
  | none =>
    rw [hask] at hb
    rw [cachingFuncRH_succ_done (e.trans hb), Props.C10Sys.cachingFunc_succ_done hb]
  | some resp =>
    rw [hask] at hb
    rw [cachingFuncRH_succ_done (e.trans hb), Props.C10Sys.cachingFunc_succ_done hb]

/-- **C10 (1), RH model** a request with a method other than GET/HEAD never touches the cache: the disk is returned as it
    was, exactly one contact (the client's own header), plain stack; the rule's headers are `Set` on top of the origin's. -/
theorem other_methods_bypass_RH (cfg : Config) (rh : List (Bytes × Bytes)) (origin : Bytes → Option Origin) (now : Int)
    (req : Request) (hm : req.method ≠ b!"GET" ∧ req.method ≠ b!"HEAD")
    (fuel : Nat) (d : Disk) (client ai : Header) (skip : Bool) (cs : List Contact) :
    let a := cachingFuncRH cfg rh origin now req (fuel + 1) d client ai skip cs
    a.disk = d ∧
    a.contacts = logged cfg cs client ∧
    (cs.length < cfg.contactLimit → a.contacts = cs ++ [contactOf client]) ∧
    ((ask cfg origin req cs client = none ∧ a.label = "u:err" ∧
        a.out = errorJSON 502 b!"Destination unreachable") ∨
     (∃ resp, ask cfg origin req cs client = some resp ∧ a.label = "u:pass" ∧
        a.out = plainOut cfg resp ((applyRH rh ai).set kStatus b!"pass") none)) := by
  rw [cachingFuncRH_other_methods cfg rh origin now req hm]
  exact Props.C10Sys.other_methods_bypass cfg origin now req hm fuel d client (applyRH rh ai) skip cs

/-- non-vacuity: a POST under a rule with two response headers -/
example :
    let o : Origin := { status := 200, headers := [(b!"Cache-Control", b!"max-age=60")], body := b!"hello" }
    let req : Request := { method := b!"POST", path := b!"a", header := [] }
    let rh : List (Bytes × Bytes) := [(b!"X-Rule", b!"1"), (b!"Cache-Control", b!"no-store")]
    (req.method ≠ b!"GET" ∧ req.method ≠ b!"HEAD") ∧
    (cachingFuncRH {} rh (fun _ => some o) 0 req 1 Disk.empty req.header [] false []).label = "u:pass" ∧
    (cachingFuncRH {} rh (fun _ => some o) 0 req 1 Disk.empty req.header [] false []).out.header.get b!"x-rule" = b!"1" := by
  decide

/-- one activation for a request with Authorization: files may disappear (`storage.Get`'s clean-up), nothing is written
    or changed; a re-entry carries the same Authorization value -/
theorem stepOnceRH_auth (cfg : Config) (rh : List (Bytes × Bytes)) (origin : Bytes → Option Origin) (now : Int)
    (req : Request) (d : Disk) (client ai : Header) (skip : Bool) (cs : List Contact)
    (ha : (client.get Props.C10Sys.kAuth).length > 0) :
    Props.C10Sys.Step.ShrinksKeeping d (client.get Props.C10Sys.kAuth)
      (stepOnceRH cfg rh origin now req d client ai skip cs) := by
  rcases stepOnceRH_eq cfg rh origin now req d client ai skip cs with ⟨_, _, e⟩ | e | ⟨_, d1, reval, resp, hl, _, _, e⟩
  · rw [e]; exact Props.C10Sys.stepOnce_auth cfg origin now req d client ai skip cs ha
  · rw [e]; exact Props.C10Sys.stepOnce_auth cfg origin now req d client (applyRH rh ai) skip cs ha
  · rw [e]
    have := lookup_shrinks cfg now (keysOf cfg req client) d client skip
    rw [hl] at this
    exact this

/-- **C10 (2), RH model** a request that carries Authorization never writes to the cache -/
theorem authorization_never_stores_RH (cfg : Config) (rh : List (Bytes × Bytes)) (origin : Bytes → Option Origin)
    (now : Int) (req : Request) :
    ∀ (fuel : Nat) (d : Disk) (client ai : Header) (skip : Bool) (cs : List Contact),
      (client.get b!"authorization").length > 0 →
      Shrinks (cachingFuncRH cfg rh origin now req fuel d client ai skip cs).disk d := by
  intro fuel
  induction fuel with
  | zero => intro d client ai skip cs _; exact Shrinks.refl d
  | succ n ih =>
    intro d client ai skip cs ha
    have hs := stepOnceRH_auth cfg rh origin now req d client ai skip cs ha
    cases hst : stepOnceRH cfg rh origin now req d client ai skip cs with
    | done a => rw [cachingFuncRH_succ_done hst]; rw [hst] at hs; exact hs
    | reenter d' c' ai' s' cs' tag =>
      rw [cachingFuncRH_succ_reenter hst]; rw [hst] at hs
      have ha' : (c'.get b!"authorization").length > 0 := by
        have := hs.2; unfold Props.C10Sys.kAuth at this; rw [this]; exact ha
      exact Shrinks.trans (ih d' c' ai' s' cs' ha') hs.1
    | reenterLocked d' c' ai' cs' tag =>
      rw [cachingFuncRH_succ_reenterLocked hst]; rw [hst] at hs
      exact Shrinks.trans (Props.C10Sys.lockedReentry_shrinks cfg origin now req d' c' ai' cs') hs.1

/-- non-vacuity: a GET with Authorization for a cacheable answer under a rule with a response header: nothing is stored -/
example :
    let o : Origin := { status := 200, headers := [(b!"Cache-Control", b!"max-age=60")], body := b!"hello" }
    let req : Request := { method := b!"GET", path := b!"a", header := [(b!"Authorization", [b!"x"])] }
    (req.header.get b!"authorization").length > 0 ∧
    (cachingFuncRH {} [(b!"X-Rule", b!"1")] (fun _ => some o) 0 req 2 Disk.empty req.header [] false []).label = "w:pass" := by
  decide

/-- **C10 (3), RH model** in a writer row, an origin answer whose directives say `DoNotCache` ends the activation with the
    disk exactly as it was: the early `416` or the row `w:uncacheable` (the base model's rows: the rule's branch is not
    even looked at) -/
theorem doNotCache_answer_never_stored_RH (cfg : Config) (rh : List (Bytes × Bytes)) (now : Int) (keys : List Key)
    (rr : Option Range.ReqRange) (d : Disk) (ai : Header) (cs : List Contact) (reval : Option (Key × Stored × Int))
    (w : Writer) (sg : Conditional.Surgery) (resp : Resp)
    (hd : (getCacheControlDirectives resp.header).doNotCache = true) :
    ∃ a, afterAnswerRH cfg rh now keys rr d ai cs reval w sg resp = .done a ∧ a.disk = d ∧ a.contacts = cs ∧
      ((a.label = "w:416" ∧ ∃ s2, (rangeAdjust rr resp ai).1 = some s2 ∧ a.out = { status := s2 }) ∨
       (a.label = "w:uncacheable" ∧ (rangeAdjust rr resp ai).1 = none ∧
          a.out = plainOut cfg resp ((rangeAdjust rr resp ai).2.2.set kStatus b!"uncacheable")
                    (rangeAdjust rr resp ai).2.1)) := by
  rcases afterAnswerRH_eq cfg rh now keys rr d ai cs reval w sg resp with e | ⟨hb, _⟩
  · rw [e]; exact Props.C10Sys.doNotCache_answer_never_stored cfg now keys rr d ai cs reval w sg resp hd
  · rw [hb.2.2.1] at hd; cases hd

/-- non-vacuity: a 200 that says `no-store` under a rule with a harmless response header -/
example :
    let w : Writer := { key := ⟨[], b!"h", b!"/a", false, []⟩, path := b!"h/a", revalidating := false }
    let sg : Conditional.Surgery := Conditional.surgery .notFound false [] []
    let resp : Resp := { status := 200, header := SysCache.addAll [(b!"Cache-Control", b!"no-store")],
                         contentLength := 2, body := b!"hi" }
    (getCacheControlDirectives resp.header).doNotCache = true ∧
    ∃ a, afterAnswerRH {} [(b!"X-Rule", b!"1")] 0 [] none Disk.empty (applyRH [(b!"X-Rule", b!"1")] []) [] none w sg resp
          = .done a ∧ a.label = "w:uncacheable" := by
  intro w sg resp
  exact ⟨by decide, _, rfl, rfl⟩

/-! ### a rule whose response headers forbid storing never stores anything -/

/-- every cell of `d'` is the cell of `d`, or empty, or the file of `d` with the SAME BODY (only the xattr rewritten):
    no path gets a file that had none, no body byte is written -/
def NoNewBody (d' d : Disk) : Prop :=
  ∀ p, d' p = d p ∨ d' p = none ∨ ∃ f f', d p = some f ∧ d' p = some f' ∧ f'.body = f.body

theorem NoNewBody.refl (d : Disk) : NoNewBody d d := fun _ => Or.inl rfl

theorem NoNewBody.of_shrinks {d' d : Disk} (h : Shrinks d' d) : NoNewBody d' d := by
  intro p
  rcases h p with e | e
  · exact Or.inl e
  · exact Or.inr (Or.inl e)

theorem NoNewBody.trans {a b c : Disk} (h1 : NoNewBody a b) (h2 : NoNewBody b c) : NoNewBody a c := by
  intro p
  rcases h1 p with e | e | ⟨f, f', hf, hf', hb⟩
  · rcases h2 p with e2 | e2 | ⟨g, g', hg, hg', hb2⟩
    · left; rw [e, e2]
    · right; left; rw [e, e2]
    · right; right; exact ⟨g, g', hg, by rw [e, hg'], hb2⟩
  · right; left; exact e
  · rcases h2 p with e2 | e2 | ⟨g, g', hg, hg', hb2⟩
    · right; right; exact ⟨f, f', by rw [← e2, hf], hf', hb⟩
    · rw [e2] at hf; cases hf
    · right; right
      rw [hg'] at hf; cases hf
      exact ⟨g, f', hg, hf', by rw [hb, hb2]⟩

/-- on the empty disk `NoNewBody` leaves nothing -/
theorem NoNewBody.of_empty {d' d : Disk} (h : NoNewBody d' d) (he : ∀ p, d p = none) : ∀ p, d' p = none := by
  intro p
  rcases h p with e | e | ⟨f, f', hf, _, _⟩
  · rw [e]; exact he p
  · exact e
  · rw [he p] at hf; cases hf

theorem noNewBody_republish (d : Disk) (w : Writer) (now : Int) (h304 : Option Header) :
    NoNewBody (republish d w now h304).1 d := by
  intro p
  rcases Props.C07Sys.republish_cases d w now h304 p with e | e | ⟨_, f, f', hf, hf', hr⟩
  · exact Or.inl e
  · exact Or.inr (Or.inl e)
  · exact Or.inr (Or.inr ⟨f, f', hf, hf', hr.1⟩)

/-- the row `w:304`: the disk is kept, or loses the writer's file (`Close` failed), or — the re-entry `w:304>` through
    `Step.reenter` — has the confirmed entry re-published -/
theorem row304_disk (d : Disk) (ai : Header) (cs : List Contact) (w : Writer) (sg : Conditional.Surgery) (resp : Resp)
    (now : Int) :
    (Shrinks (Props.C10Sys.Step.disk (row304 d ai cs w sg resp now)) d ∨
      ∃ c' ai', row304 d ai cs w sg resp now =
        .reenter (republish d w now (some (Conditional.dropZeroContentLength resp.header))).1 c' ai' true cs "w:304>") := by
  unfold row304
  dsimp only
  split
  · exact Or.inl (Shrinks.refl d)
  · rcases Props.C10Sys.republish_spec d w now (some (Conditional.dropZeroContentLength resp.header)) with
      ⟨h, _⟩ | h | ⟨f, x, m, _, _, _, _, h⟩
    · rw [h]; exact Or.inl (Shrinks.refl d)
    · rw [h]; exact Or.inl (Shrinks.upd_none d w.path)
    · rw [h]; exact Or.inr ⟨_, _, rfl⟩

/-- a writer row after the origin's answer, under a rule that forbids storing: the disk is untouched — unless the answer
    is the 304 that confirms the stored entry (the base model's row `w:304`) -/
theorem afterAnswerRH_forbids (cfg : Config) (rh : List (Bytes × Bytes)) (hf : ruleForbids rh = true) (now : Int)
    (keys : List Key) (rr : Option Range.ReqRange) (d : Disk) (ai : Header) (cs : List Contact)
    (reval : Option (Key × Stored × Int)) (w : Writer) (sg : Conditional.Surgery) (resp : Resp) :
    Props.C10Sys.Step.disk (afterAnswerRH cfg rh now keys rr d ai cs reval w sg resp) = d ∨
    (sg.used.length > 0 ∧ resp.status = 304 ∧
      afterAnswerRH cfg rh now keys rr d ai cs reval w sg resp = row304 d (rangeAdjust rr resp ai).2.2 cs w sg resp now) := by
  by_cases h304 : sg.used.length > 0 ∧ resp.status = 304 ∧ (getCacheControlDirectives resp.header).doNotCache = false
  · rcases hra : rangeAdjust rr resp ai with ⟨_ | s2, so, ai'⟩
    · right
      refine ⟨h304.1, h304.2.1, ?_⟩
      have hc : sg.used.length > 0 ∧ resp.status = 304 ∧ (!(getCacheControlDirectives resp.header).doNotCache) = true :=
        ⟨h304.1, h304.2.1, by simp [h304.2.2]⟩
      unfold afterAnswerRH
      rw [hra]
      dsimp only
      rw [if_pos hc]
      unfold afterAnswer
      rw [hra]
      dsimp only
      rw [if_pos hc]
    · left
      unfold afterAnswerRH
      rw [hra]
      dsimp only
      unfold afterAnswer
      rw [hra]
      rfl
  · left
    rcases hra : rangeAdjust rr resp ai with ⟨_ | s2, so, ai'⟩
    · obtain ⟨a, e, hd, _⟩ := Props.SysCacheRH.rule_forbids_passes_body cfg rh now keys rr d ai cs reval w sg resp hf h304
        (by rw [hra])
      rw [e]; exact hd
    · unfold afterAnswerRH
      rw [hra]
      dsimp only
      unfold afterAnswer
      rw [hra]
      rfl

theorem surgeryOf_none_used (rr : Option Range.ReqRange) (client : Header) : (surgeryOf rr client none).used = [] := by
  simp [surgeryOf, Conditional.surgery]

/-- a writer row under a rule that forbids storing -/
theorem writerRowRH_forbids (cfg : Config) (rh : List (Bytes × Bytes)) (hf : ruleForbids rh = true)
    (origin : Bytes → Option Origin) (now : Int) (req : Request)
    (keys : List Key) (rr : Option Range.ReqRange) (d : Disk) (client ai : Header) (cs : List Contact)
    (reval : Option (Key × Stored × Int)) :
    Shrinks (Props.C10Sys.Step.disk (writerRowRH cfg rh origin now req keys rr d client ai cs reval)) d ∨
    (reval.isSome = true ∧ ∃ (w : Writer) (resp : Resp) (c' ai' : Header) (cs' : List Contact), writerRowRH cfg rh origin now req keys rr d client ai cs reval =
        .reenter (republish d w now (some (Conditional.dropZeroContentLength resp.header))).1 c' ai' true cs' "w:304>") := by
  unfold writerRowRH
  dsimp only
  split
  · exact Or.inl (Shrinks.refl d)
  · rename_i resp _
    rcases afterAnswerRH_forbids cfg rh hf now keys rr d ai (logged cfg cs (surgeryOf rr client reval).req) reval
        (writerOf keys client reval) (surgeryOf rr client reval) resp with e | ⟨hu, _, e⟩
    · rw [e]; exact Or.inl (Shrinks.refl d)
    · rw [e]
      rcases row304_disk d (rangeAdjust rr resp ai).2.2 (logged cfg cs (surgeryOf rr client reval).req)
          (writerOf keys client reval) (surgeryOf rr client reval) resp now with h | ⟨c', ai', h⟩
      · exact Or.inl h
      · right
        refine ⟨?_, _, resp, c', ai', _, h⟩
        cases reval with
        | none => rw [surgeryOf_none_used] at hu; simp at hu
        | some x => rfl

/-- **under a rule whose response headers forbid storing, an activation only removes files — unless it is the re-entry
    `w:304>`** (the origin confirmed an entry that was already stored: that entry is re-published) -/
theorem rule_forbids_only_removes_unless_304 (cfg : Config) (rh : List (Bytes × Bytes)) (hf : ruleForbids rh = true)
    (origin : Bytes → Option Origin) (now : Int) (req : Request) (d : Disk) (client ai : Header) (skip : Bool)
    (cs : List Contact) :
    Shrinks (Props.C10Sys.Step.disk (stepOnceRH cfg rh origin now req d client ai skip cs)) d ∨
    (∃ (d1 : Disk) (x : Key × Stored × Int) (w : Writer) (resp : Resp) (c' ai' : Header) (cs' : List Contact), lookup cfg now (keysOf cfg req client) d client skip = (d1, .writer (some x)) ∧
      stepOnceRH cfg rh origin now req d client ai skip cs =
        .reenter (republish d1 w now (some (Conditional.dropZeroContentLength resp.header))).1 c' ai' true cs' "w:304>") := by
  by_cases hm : req.method ≠ b!"GET" ∧ req.method ≠ b!"HEAD"
  · left
    rw [stepOnceRH_other_methods cfg rh origin now req hm, Props.C10Sys.stepOnce_other_methods cfg origin now req hm]
    cases ask cfg origin req cs client <;> exact Shrinks.refl d
  · have hl := lookup_shrinks cfg now (keysOf cfg req client) d client skip
    have hb : ∀ ai0, Shrinks (Props.C10Sys.Step.disk (stepOnce cfg origin now req d client ai0 skip cs)) d ∨
        ∃ d1 reval, lookup cfg now (keysOf cfg req client) d client skip = (d1, .writer reval) := by
      intro ai0
      unfold stepOnce
      rw [if_neg hm]
      dsimp only
      split
      all_goals (rename_i heq; rw [heq] at hl)
      · exact Or.inl hl
      · exact Or.inl hl
      · exact Or.inl hl
      · exact Or.inr ⟨_, _, heq⟩
    rw [stepOnceRH_get cfg rh origin now req hm]
    cases hlk : lookup cfg now (keysOf cfg req client) d client skip with
    | mk d1 l =>
      rw [hlk] at hl
      cases l with
      | panic =>
        rcases hb (applyRH rh ai) with h | ⟨_, _, h⟩
        · exact Or.inl h
        · rw [hlk] at h; cases h
      | notModified s =>
        rcases hb ai with h | ⟨_, _, h⟩
        · exact Or.inl h
        · rw [hlk] at h; cases h
      | serve s age stale =>
        rcases hb (applyRH rh ai) with h | ⟨_, _, h⟩
        · exact Or.inl h
        · rw [hlk] at h; cases h
      | writer reval =>
        dsimp only
        rcases writerRowRH_forbids cfg rh hf origin now req (keysOf cfg req client) (Range.getRange client) d1 client
            (applyRH rh ai) cs reval with h | ⟨hr, w, resp, c', ai', cs', h⟩
        · exact Or.inl (Shrinks.trans h hl)
        · right
          cases reval with
          | none => cases hr
          | some x => exact ⟨d1, x, w, resp, c', ai', cs', rfl, h⟩

/-- **C10 (RH-d): a rule whose response headers forbid storing never stores anything** — for every activation, on every
    disk, for every request, origin and clock: every cell of the disk afterwards is the cell before, or empty, or the same
    body with a rewritten xattr (the re-publication of an entry the origin confirmed by 304) -/
theorem rule_forbids_never_stores (cfg : Config) (rh : List (Bytes × Bytes)) (hf : ruleForbids rh = true)
    (origin : Bytes → Option Origin) (now : Int) (req : Request) (d : Disk) (client ai : Header) (skip : Bool)
    (cs : List Contact) :
    NoNewBody (Props.C10Sys.Step.disk (stepOnceRH cfg rh origin now req d client ai skip cs)) d := by
  rcases rule_forbids_only_removes_unless_304 cfg rh hf origin now req d client ai skip cs with
    h | ⟨d1, x, w, resp, c', ai', cs', hl, e⟩
  · exact NoNewBody.of_shrinks h
  · rw [e]
    have hs := lookup_shrinks cfg now (keysOf cfg req client) d client skip
    rw [hl] at hs
    exact NoNewBody.trans (noNewBody_republish d1 w now _) (NoNewBody.of_shrinks hs)

/-- … and an activation with `skipRevalidate = true` (every re-entry is one) only removes files -/
theorem rule_forbids_skip_only_removes (cfg : Config) (rh : List (Bytes × Bytes)) (hf : ruleForbids rh = true)
    (origin : Bytes → Option Origin) (now : Int) (req : Request) (d : Disk) (client ai : Header) (cs : List Contact) :
    Shrinks (Props.C10Sys.Step.disk (stepOnceRH cfg rh origin now req d client ai true cs)) d := by
  rcases rule_forbids_only_removes_unless_304 cfg rh hf origin now req d client ai true cs with
    h | ⟨d1, x, w, resp, c', ai', cs', hl, e⟩
  · exact h
  · exact absurd (by rw [hl]) (Props.SysCacheTerm.lookup_skip_not_revalidating cfg now (keysOf cfg req client) d client x)

/-- the lift to whole requests -/
theorem rule_forbids_never_stores_cachingFuncRH (cfg : Config) (rh : List (Bytes × Bytes)) (hf : ruleForbids rh = true)
    (origin : Bytes → Option Origin) (now : Int) (req : Request) :
    ∀ (fuel : Nat) (d : Disk) (client ai : Header) (skip : Bool) (cs : List Contact),
      NoNewBody (cachingFuncRH cfg rh origin now req fuel d client ai skip cs).disk d := by
  intro fuel
  induction fuel with
  | zero => intro d client ai skip cs; exact NoNewBody.refl d
  | succ n ih =>
    intro d client ai skip cs
    have hs := rule_forbids_never_stores cfg rh hf origin now req d client ai skip cs
    cases hst : stepOnceRH cfg rh origin now req d client ai skip cs with
    | done a => rw [cachingFuncRH_succ_done hst]; rw [hst] at hs; exact hs
    | reenter d' c' ai' s' cs' tag =>
      rw [cachingFuncRH_succ_reenter hst]; rw [hst] at hs
      exact NoNewBody.trans (ih d' c' ai' s' cs') hs
    | reenterLocked d' c' ai' cs' tag =>
      rw [cachingFuncRH_succ_reenterLocked hst]; rw [hst] at hs
      exact NoNewBody.trans (NoNewBody.of_shrinks (Props.C10Sys.lockedReentry_shrinks cfg origin now req d' c' ai' cs')) hs

/-- … to every step of a history -/
theorem rule_forbids_never_stores_stepRH (cfg : Config) (rh : List (Bytes × Bytes)) (hf : ruleForbids rh = true)
    (s : State) (op : Op) : NoNewBody (stepRH cfg rh s op).1.disk s.disk := by
  cases op with
  | tick dt => exact NoNewBody.refl _
  | setOrigin p o => exact NoNewBody.refl _
  | req r => exact rule_forbids_never_stores_cachingFuncRH cfg rh hf s.origin s.now r _ _ _ _ _ _

/-- the states a history of the RH model leads through -/
def stateAfterRH (cfg : Config) (rh : List (Bytes × Bytes)) : State → List Op → State
  | s, [] => s
  | s, op :: ops => stateAfterRH cfg rh (stepRH cfg rh s op).1 ops

/-- `runRH` is the list of the observations along `stateAfterRH` (the two recursions walk the same states) -/
theorem runRH_cons (cfg : Config) (rh : List (Bytes × Bytes)) (s : State) (op : Op) (ops : List Op) :
    runRH cfg rh s (op :: ops) =
      (match (stepRH cfg rh s op).2 with | some o => [o] | none => []) ++ runRH cfg rh (stepRH cfg rh s op).1 ops := by
  rw [runRH]
  generalize stepRH cfg rh s op = r
  obtain ⟨s', o⟩ := r
  cases o <;> rfl

/-- … and to whole histories: whatever the requests, clock ticks and origin changes, the disk of every state reached has
    no new path and no new body relative to the disk the history started on -/
theorem rule_forbids_never_stores_history (cfg : Config) (rh : List (Bytes × Bytes)) (hf : ruleForbids rh = true) :
    ∀ (ops : List Op) (s : State), NoNewBody (stateAfterRH cfg rh s ops).disk s.disk
  | [], _ => NoNewBody.refl _
  | op :: ops, s =>
    NoNewBody.trans (rule_forbids_never_stores_history cfg rh hf ops (stepRH cfg rh s op).1)
      (rule_forbids_never_stores_stepRH cfg rh hf s op)

/-- **from the empty cache, a rule whose response headers forbid storing leaves the cache empty for ever** -/
theorem rule_forbids_cache_stays_empty (cfg : Config) (rh : List (Bytes × Bytes)) (hf : ruleForbids rh = true)
    (now : Int) (ops : List Op) : ∀ p, (stateAfterRH cfg rh (State.init now) ops).disk p = none :=
  NoNewBody.of_empty (rule_forbids_never_stores_history cfg rh hf ops (State.init now)) (fun _ => rfl)

/-- on a disk that only this rule ever wrote to there is no stored entry, so every activation only removes files
    (nothing to remove, in fact): the disk stays literally empty, activation by activation -/
theorem rule_forbids_empty_stays_empty (cfg : Config) (rh : List (Bytes × Bytes)) (hf : ruleForbids rh = true)
    (origin : Bytes → Option Origin) (now : Int) (req : Request) (client ai : Header) (skip : Bool) (cs : List Contact) :
    ∀ p, Props.C10Sys.Step.disk (stepOnceRH cfg rh origin now req Disk.empty client ai skip cs) p = none :=
  NoNewBody.of_empty (rule_forbids_never_stores cfg rh hf origin now req Disk.empty client ai skip cs) (fun _ => rfl)

namespace Ex
/-- non-vacuity: the rule `Cache-Control: no-store`, an origin with a cacheable answer -/
def rh : List (Bytes × Bytes) := [(b!"X-Rule", b!"1"), (b!"Cache-Control", b!"no-store")]
def o : Origin := { status := 200, headers := [(b!"Cache-Control", b!"max-age=60"), (b!"ETag", b!"\"v1\"")], body := b!"hello" }
def req : Request := { method := b!"GET", path := b!"a", header := [] }

example : ruleForbids rh = true := by decide

/-- the miss goes through the repair's branch: the whole body, nothing stored … -/
theorem forbids_miss_stores_nothing :
    (cachingFuncRH {} rh (fun _ => some o) 0 req 2 Disk.empty [] [] false []).label = "w:uncacheable-rule" ∧
    (cachingFuncRH {} rh (fun _ => some o) 0 req 2 Disk.empty [] [] false []).out.writes = [b!"hello"] ∧
    (cachingFuncRH {} rh (fun _ => some o) 0 req 2 Disk.empty [] [] false []).disk (b!"h1.test/a") = none := by
  decide

/-- … while WITHOUT the rule's header the same request stores the file -/
example : ((cachingFuncRH {} [(b!"X-Rule", b!"1")] (fun _ => some o) 0 req 2 Disk.empty [] [] false []).disk (b!"h1.test/a")).isSome = true := by
  decide

/-- the exception is real: an entry stored earlier (by the rule without the header), due for revalidation, a conditional
    origin: under the forbidding rule the activation is the re-entry `w:304>` and the entry's xattr is rewritten
    (`Shrinks` fails, `NoNewBody` holds) -/
def oCond : Origin := { o with cond := true, headers := [(b!"Cache-Control", b!"max-age=1"), (b!"ETag", b!"\"v1\"")] }
def d1 : Disk := (cachingFuncRH {} [] (fun _ => some oCond) 100 req 2 Disk.empty [] [] false []).disk

def isReenter304 : Step → Bool
  | .reenter _ _ _ true _ tag => tag = "w:304>"
  | _ => false

example : isReenter304 (stepOnceRH {} rh (fun _ => some oCond) 200 req d1 [] [] false []) = true := by decide

theorem forbids_304_rewrites_xattr_only :
    isReenter304 (stepOnceRH {} rh (fun _ => some oCond) 200 req d1 [] [] false []) = true ∧
    (Props.C10Sys.Step.disk (stepOnceRH {} rh (fun _ => some oCond) 200 req d1 [] [] false []) (b!"h1.test/a")).map (·.body)
      = some b!"hello" ∧
    Props.C10Sys.Step.disk (stepOnceRH {} rh (fun _ => some oCond) 200 req d1 [] [] false []) (b!"h1.test/a") ≠ d1 (b!"h1.test/a") := by
  decide

/-- hence the plain "only removes" relation is FALSE for that activation: `NoNewBody` is the relation that holds -/
theorem forbids_304_not_shrinks :
    ruleForbids rh = true ∧
    ¬ Shrinks (Props.C10Sys.Step.disk (stepOnceRH {} rh (fun _ => some oCond) 200 req d1 [] [] false [])) d1 := by
  refine ⟨by decide, fun h => ?_⟩
  have hw := forbids_304_rewrites_xattr_only
  rcases h (b!"h1.test/a") with e | e
  · exact hw.2.2 e
  · rw [e] at hw; exact absurd hw.2.1 (by decide)
end Ex

/-! ## 3. C07 / C05: what a hit sends under a rule with response headers -/

/-- **C07, RH model: a hit replays the entry** — the base theorem at `applyRH rh ai`: stored status, the first
    `Metadata.Size` bytes of the file, and the header `suffixETag (copyHeaders stored (applyRH rh ai ⊕ status/age))`;
    no origin contact, the disk as `storage.Get` left it -/
theorem hit_replays_entry_RH {cfg : Config} {rh : List (Bytes × Bytes)} {origin : Bytes → Option Origin} {now : Int}
    {req : Request} {d d' : Disk} {client ai : Header} {skip : Bool} {cs : List Contact} {s : Stored} {age : Int}
    {stale : Bool}
    (hm : req.method = b!"GET" ∨ req.method = b!"HEAD")
    (hr : Range.getRange client = none)
    (hl : lookup cfg now (keysOf cfg req client) d client skip = (d', .serve s age stale)) :
    stepOnceRH cfg rh origin now req d client ai skip cs =
      .done { disk := d', out := Props.C07Sys.hitOut cfg s (applyRH rh ai) age stale, contacts := cs,
              label := if stale then "f:hit:stale" else "f:hit" } := by
  have hm' : ¬ (req.method ≠ b!"GET" ∧ req.method ≠ b!"HEAD") := by
    rcases hm with h | h <;> simp [h]
  rw [stepOnceRH_get cfg rh origin now req hm', hl]
  exact Props.C07Sys.hit_replays_entry hm hr hl

/-- the clauses spelled out -/
theorem hit_replays_entry_fields_RH {cfg : Config} {rh : List (Bytes × Bytes)} {origin : Bytes → Option Origin} {now : Int}
    {req : Request} {d d' : Disk} {client ai : Header} {skip : Bool} {cs : List Contact} {s : Stored} {age : Int}
    {stale : Bool}
    (hm : req.method = b!"GET" ∨ req.method = b!"HEAD")
    (hr : Range.getRange client = none)
    (hl : lookup cfg now (keysOf cfg req client) d client skip = (d', .serve s age stale)) :
    ∃ a, stepOnceRH cfg rh origin now req d client ai skip cs = .done a ∧
      a.disk = d' ∧ a.contacts = cs ∧
      a.out.wrote = true ∧
      a.out.status = s.meta.status.toNat ∧
      a.out.header = Conditional.suffixETag cfg.sfx
        (Conditional.copyHeaders s.meta.respHeader (Props.C07Sys.hitAI (applyRH rh ai) age stale)) ∧
      a.out.writes.flatten = (if s.meta.size ≤ 0 then [] else s.file.body.take s.meta.size.toNat) := by
  refine ⟨_, hit_replays_entry_RH hm hr hl, rfl, rfl, rfl, rfl, rfl, ?_⟩
  exact Props.C07Sys.oneWrite_flatten _

theorem normal_hitAI {ai : Header} (hn : Normal ai) (age : Int) (stale : Bool) :
    Normal (Props.C07Sys.hitAI ai age stale) := by
  unfold Props.C07Sys.hitAI
  dsimp only
  repeat' split
  all_goals first | exact (hn.set _ _).set _ _ | exact hn.set _ _

/-- the cache's own two names aside, `foundHit` leaves alwaysInclude as it is -/
theorem values_hitAI (ai : Header) (age : Int) (stale : Bool) (k : Bytes)
    (h1 : canon kStatus ≠ canon k) (h2 : canon b!"Age" ≠ canon k) :
    (Props.C07Sys.hitAI ai age stale).values k = ai.values k := by
  unfold Props.C07Sys.hitAI
  dsimp only
  rw [Header.values_set, if_neg h2]
  repeat' split
  all_goals first | rfl | rw [Header.values_set, if_neg h1]

/-- **the rule's header wins**: on a hit (GET/HEAD, no Range), under a name `k` that is none of
    `richie-edge-cache` / `Age` / `Etag` (the names the hit row itself sets; `Content-Length` / `Content-Range` are only
    set on Range hits), the client's header carries EXACTLY the value of the LAST pair of the rule with that canonical
    name — whatever the stored entry said under it.  (`Normal ai`: distinct canonical raw keys, the shape of every map
    filled through `Set`; `[]` at the start of every request, preserved by every re-entry.) -/
theorem rule_header_wins {cfg : Config} {rh : List (Bytes × Bytes)} {origin : Bytes → Option Origin} {now : Int}
    {req : Request} {d d' : Disk} {client ai : Header} {skip : Bool} {cs : List Contact} {s : Stored} {age : Int}
    {stale : Bool}
    (hm : req.method = b!"GET" ∨ req.method = b!"HEAD")
    (hr : Range.getRange client = none)
    (hl : lookup cfg now (keysOf cfg req client) d client skip = (d', .serve s age stale))
    (hn : Normal ai)
    {pre post : List (Bytes × Bytes)} {k v : Bytes} (hrh : rh = pre ++ (k, v) :: post)
    (hpost : ∀ kv ∈ post, canon kv.1 ≠ canon k)
    (h1 : canon kStatus ≠ canon k) (h2 : canon b!"Age" ≠ canon k) (h3 : canon Conditional.kEtag ≠ canon k) :
    ∃ a, stepOnceRH cfg rh origin now req d client ai skip cs = .done a ∧
      a.out.header.values k = [v] ∧ a.out.header.get k = v := by
  have hv : (Conditional.suffixETag cfg.sfx (Conditional.copyHeaders s.meta.respHeader
      (Props.C07Sys.hitAI (applyRH rh ai) age stale))).values k = [v] := by
    rw [Conditional.values_suffixETag _ _ _ h3]
    apply values_copyHeaders_ai _ (normal_hitAI (normal_applyRH rh hn) age stale)
    rw [values_hitAI _ _ _ _ h1 h2, hrh]
    exact values_applyRH_last pre post k v ai hpost
  refine ⟨_, hit_replays_entry_RH hm hr hl, hv, ?_⟩
  show Header.get (Conditional.suffixETag cfg.sfx (Conditional.copyHeaders s.meta.respHeader
      (Props.C07Sys.hitAI (applyRH rh ai) age stale))) k = v
  unfold Header.get
  rw [hv]
  rfl

/-- the same under the declared domain "the keys of `rh` have pairwise different canonical forms": every pair of the rule
    shows in the hit's header -/
theorem rule_header_wins_nodup {cfg : Config} {rh : List (Bytes × Bytes)} {origin : Bytes → Option Origin} {now : Int}
    {req : Request} {d d' : Disk} {client ai : Header} {skip : Bool} {cs : List Contact} {s : Stored} {age : Int}
    {stale : Bool}
    (hm : req.method = b!"GET" ∨ req.method = b!"HEAD")
    (hr : Range.getRange client = none)
    (hl : lookup cfg now (keysOf cfg req client) d client skip = (d', .serve s age stale))
    (hn : Normal ai)
    (hnd : (rh.map fun kv => canon kv.1).Nodup)
    {k v : Bytes} (hkv : (k, v) ∈ rh)
    (h1 : canon kStatus ≠ canon k) (h2 : canon b!"Age" ≠ canon k) (h3 : canon Conditional.kEtag ≠ canon k) :
    ∃ a, stepOnceRH cfg rh origin now req d client ai skip cs = .done a ∧
      a.out.header.values k = [v] ∧ a.out.header.get k = v := by
  obtain ⟨pre, post, hrh⟩ := List.append_of_mem hkv
  refine rule_header_wins hm hr hl hn hrh ?_ h1 h2 h3
  intro kv hmem
  rw [hrh, List.map_append, List.map_cons] at hnd
  have := (List.nodup_cons.1 (List.nodup_append.1 hnd).2.1).1
  intro hc
  apply this
  rw [← hc]
  exact List.mem_map.2 ⟨kv, hmem, rfl⟩

namespace Ex
/-- non-vacuity: a fresh stored entry that carries `Cache-Control: max-age=60`; the rule sets `X-Rule` twice (different
    spellings of the name: the last pair wins) and overrides the stored `Cache-Control` -/
def rhHit : List (Bytes × Bytes) := [(b!"X-Rule", b!"1"), (b!"Cache-Control", b!"private"), (b!"x-rule", b!"2")]

theorem last_pair_wins : ∃ a, stepOnceRH {} rhHit (fun _ => none) 1010 Props.C07Sys.exReq Props.C07Sys.exDisk [] [] false [] = .done a ∧
    a.out.header.values b!"x-rule" = [b!"2"] ∧ a.out.header.get b!"x-rule" = b!"2" :=
  rule_header_wins (origin := fun _ => none) (cs := []) (pre := [(b!"X-Rule", b!"1"), (b!"Cache-Control", b!"private")])
    (post := []) (Or.inl rfl) (by decide) Props.C07Sys.exLookup normal_nil rfl (by simp) (by decide) (by decide) (by decide)

theorem rule_overrides_stored : ∃ a, stepOnceRH {} rhHit (fun _ => none) 1010 Props.C07Sys.exReq Props.C07Sys.exDisk [] [] false [] = .done a ∧
    a.out.header.values b!"Cache-Control" = [b!"private"] ∧ a.out.header.get b!"Cache-Control" = b!"private" :=
  rule_header_wins (origin := fun _ => none) (cs := []) (pre := [(b!"X-Rule", b!"1")]) (post := [(b!"x-rule", b!"2")])
    (Or.inl rfl) (by decide) Props.C07Sys.exLookup normal_nil rfl (by decide) (by decide) (by decide) (by decide)

/-- `hit_replays_entry_RH` on the same input: status, bytes, label -/
example : ∃ a, stepOnceRH {} rhHit (fun _ => none) 1010 Props.C07Sys.exReq Props.C07Sys.exDisk [] [] false [] = .done a ∧
    a.out.status = 200 ∧ a.out.writes = [b!"abc"] ∧ a.label = "f:hit" ∧ a.contacts = [] :=
  ⟨_, hit_replays_entry_RH (origin := fun _ => none) (cs := []) (Or.inl rfl) (by decide) Props.C07Sys.exLookup,
    by decide, by decide, rfl, rfl⟩

/-- `rule_header_wins_nodup`: a rule with pairwise different names -/
example : ∃ a, stepOnceRH {} [(b!"X-Rule", b!"1"), (b!"Cache-Control", b!"private")] (fun _ => none) 1010
      Props.C07Sys.exReq Props.C07Sys.exDisk [] [] false [] = .done a ∧
    a.out.header.values b!"Cache-Control" = [b!"private"] ∧ a.out.header.get b!"Cache-Control" = b!"private" :=
  rule_header_wins_nodup (origin := fun _ => none) (cs := []) (Or.inl rfl) (by decide) Props.C07Sys.exLookup normal_nil
    (by decide) (by simp) (by decide) (by decide) (by decide)
end Ex

/-! ## non-vacuity of section 1 (termination) -/
namespace Ex
/-- a rule with a harmless response header; the stored entry `d1` is due at time 200, the origin answers 304 -/
def rhX : List (Bytes × Bytes) := [(b!"X-Rule", b!"1")]

/-- `reenter_skip_true_RH` / `reenter_then_done_RH`: the first activation IS a re-entry (`w:304>`, skipRevalidate = true) … -/
example : isReenter304 (stepOnceRH {} rhX (fun _ => some oCond) 200 req d1 [] [] false []) = true := by decide

/-- … one unit of fuel is not enough, two are (`fuel_two_suffices_RH`: and 400 give the same) -/
theorem one_unit_not_enough_RH :
    (cachingFuncRH {} rhX (fun _ => some oCond) 200 req 1 d1 [] [] false []).label = "w:304>fuel" ∧
    (cachingFuncRH {} rhX (fun _ => some oCond) 200 req 2 d1 [] [] false []).label = "w:304>f:hit" := by decide
example : (cachingFuncRH {} rhX (fun _ => some oCond) 200 req 400 d1 [] [] false []).label = "w:304>f:hit" := by
  rw [fuel_two_suffices_RH _ _ _ _ _ 400 _ _ _ _ _ (by decide)]; decide
/-- the served hit of the re-entry carries the rule's header -/
example : (cachingFuncRH {} rhX (fun _ => some oCond) 200 req 2 d1 [] [] false []).out.header.get b!"x-rule" = b!"1" := by
  decide
/-- under the forbidding rule the same history: one re-entry, then the (re-published) entry is served -/
example : (cachingFuncRH {} rh (fun _ => some oCond) 200 req 2 d1 [] [] false []).label = "w:304>f:hit" := by decide

/-- `skip_activation_answers_RH` on the re-published disk -/
example : ∃ a, stepOnceRH {} rhX (fun _ => some oCond) 200 req d1 [] [] true [] = .done a :=
  skip_activation_answers_RH ..

/-- `run_answered_RH` / `answered_RH`: two histories (fill, revalidation by 304, hit; and the forbidding rule) -/
example : (runRH {} rhX (State.init 100) [.setOrigin b!"a" oCond, .req req, .tick 100, .req req, .req req]).map (·.label)
    = ["w:fill", "w:304>f:hit", "f:hit"] := by decide
example : (runRH {} rh (State.init 0) [.setOrigin b!"a" o, .req req, .tick 5, .req req]).map (·.label)
    = ["w:uncacheable-rule", "w:uncacheable-rule"] := by decide
example : ∀ ob ∈ runRH {} rhX (State.init 100) [.setOrigin b!"a" oCond, .req req, .tick 100, .req req, .req req],
    ¬ Props.SysCacheTerm.OutOfFuel ob.label := run_answered_RH {} rhX _ _
end Ex

end Props.SysCacheRHLift
