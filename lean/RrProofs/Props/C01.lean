import RrModel.Spec.C01
import RrProofs.Lemmas.Strings
/-
  C01 — Requests are routed by the first matching enabled rule, in file order.
  Only property theorems, their non-vacuity examples, and the lemmas local to them.
-/
namespace Props.C01
open Go Model Spec.C01

theorem matchPath_isSome (r : Rule) (uri : Bytes) :
    (matchPath r uri).isSome = pathMatches r uri := by
  unfold matchPath pathMatches
  cases hw : r.wci with
  | none => by_cases hp : r.path = uri <;> simp [hp]
  | some wc =>
    simp only
    by_cases h1 : uri = b!"/" ∧ (r.path = b!"*" ∨ r.path = b!"/*")
    · rw [if_pos h1]
      obtain ⟨ha, hb⟩ := h1
      rcases hb with hb | hb <;> simp [ha, hb]
    · rw [if_neg h1]
      have h1' : (uri == b!"/" && (r.path == b!"*" || r.path == b!"/*")) = false := by
        cases hx : (uri == b!"/" && (r.path == b!"*" || r.path == b!"/*")) with
        | false => rfl
        | true =>
          exfalso; apply h1
          simp only [Bool.and_eq_true, Bool.or_eq_true, beq_iff_eq] at hx
          exact hx
      rw [h1']
      by_cases h2 : uri.length ≤ wc
      · have : ¬ wc < uri.length := by omega
        simp [h2, this]
      · have h2' : wc < uri.length := by omega
        rw [if_neg h2]
        by_cases h3 : (List.take wc r.path).isPrefixOf uri = true
        · have := (index_eq_some_zero_iff _ _).2 h3
          simp [this, h2', h3]
        · have hn : index (List.take wc r.path) uri ≠ some 0 := fun h =>
            h3 ((index_eq_some_zero_iff _ _).1 h)
          simp only [Bool.not_eq_true] at h3
          simp [hn, h3]

/-- `attemptMatch` succeeds exactly when the declarative relation holds. -/
theorem attemptMatch_isSome_iff (r : Rule) (q : Query) :
    (attemptMatch r q.scheme q.host q.uri).isSome = (schemeHostOk r q && pathMatches r q.uri) := by
  unfold attemptMatch schemeHostOk
  rw [← matchPath_isSome]
  by_cases hs : r.scheme = [] <;> by_cases hh : r.host = [] <;>
  by_cases hs2 : r.scheme = q.scheme <;> by_cases hh2 : r.host = q.host <;>
  simp_all [List.length_pos_iff]

end Props.C01

namespace Props.C01
open Go Model Spec.C01

theorem applies_eq (r : Rule) (q : Query) :
    applies r q = (eligible r q.method && (attemptMatch r q.scheme q.host q.uri).isSome) := by
  unfold applies
  rw [attemptMatch_isSome_iff, Bool.and_assoc]

theorem eligible_eq (r : Rule) (m : Bytes) :
    eligible r m = (r.enabled && !methodExcluded r m) := by
  unfold eligible methodExcluded
  cases hm : r.methods with
  | nil => simp
  | cons a b => simp

/-- the three outcomes of one loop iteration, declaratively -/
theorem ruleHit_proxy_iff (q : Query) (r : Rule) :
    (∃ t, ruleHit q r = .proxy t) ↔ appliesProxy q r = true := by
  unfold appliesProxy
  rw [applies_eq, eligible_eq]
  unfold ruleHit
  cases he : r.enabled <;> cases hm : methodExcluded r q.method <;>
    cases hat : attemptMatch r q.scheme q.host q.uri <;> cases hty : r.type <;> simp

theorem ruleHit_copy_iff (q : Query) (r : Rule) :
    (∃ t, ruleHit q r = .copy t) ↔ appliesCopy q r = true := by
  unfold appliesCopy
  rw [applies_eq, eligible_eq]
  unfold ruleHit
  cases he : r.enabled <;> cases hm : methodExcluded r q.method <;>
    cases hat : attemptMatch r q.scheme q.host q.uri <;> cases hty : r.type <;> simp

/-- a hit carries the target computed by `attemptMatch` for that very rule -/
theorem ruleHit_target (q : Query) (r : Rule) (t : Bytes)
    (h : ruleHit q r = .proxy t ∨ ruleHit q r = .copy t) :
    attemptMatch r q.scheme q.host q.uri = some t := by
  unfold ruleHit at h
  cases he : r.enabled <;> cases hm : methodExcluded r q.method <;>
    cases hat : attemptMatch r q.scheme q.host q.uri <;> cases hty : r.type <;>
    simp [he, hm, hat, hty] at h <;> simp [h]

theorem ruleHit_not_proxy {q : Query} {r : Rule} (h : appliesProxy q r = false) :
    ∀ t, ruleHit q r ≠ .proxy t := by
  intro t ht
  have := (ruleHit_proxy_iff q r).1 ⟨t, ht⟩
  simp [h] at this

/-- the loop, for any starting index and any copy slot: the proxy slot is the first
    applicable proxy rule of the remaining list -/
theorem matchLoop_proxy_idx (q : Query) (rs : List Rule) (i : Nat) (copy : Option (Nat × Bytes)) :
    (matchLoop q rs i copy).proxy.map (·.1) = (rs.findIdx? (appliesProxy q)).map (· + i) := by
  induction rs generalizing i copy with
  | nil => simp [matchLoop]
  | cons r rs ih =>
    rw [List.findIdx?_cons]
    unfold matchLoop
    have hshift : ∀ c, Option.map (·.1) (matchLoop q rs (i + 1) c).proxy
        = Option.map (· + i) (Option.map (· + 1) (List.findIdx? (appliesProxy q) rs)) := by
      intro c
      rw [ih (i + 1) c, Option.map_map]
      congr 1; funext x; simp only [Function.comp]; omega
    cases hh : ruleHit q r with
    | proxy t =>
      have : appliesProxy q r = true := (ruleHit_proxy_iff q r).1 ⟨t, hh⟩
      simp [this]
    | skip =>
      have : appliesProxy q r = false := by
        cases hx : appliesProxy q r with
        | false => rfl
        | true => obtain ⟨t, ht⟩ := (ruleHit_proxy_iff q r).2 hx; simp [hh] at ht
      simp only [this, Bool.false_eq_true, ↓reduceIte]
      exact hshift copy
    | copy t =>
      have : appliesProxy q r = false := by
        cases hx : appliesProxy q r with
        | false => rfl
        | true => obtain ⟨t, ht⟩ := (ruleHit_proxy_iff q r).2 hx; simp [hh] at ht
      simp only [this, Bool.false_eq_true, ↓reduceIte]
      exact hshift _

/-- **C01, choice.** The rule whose destination receives the proxied request is the first
    rule in file order that is enabled, allows the method and matches scheme, host and path. -/
theorem match_proxy_first (rs : List Rule) (q : Query) :
    (matchRules rs q).proxy.map (·.1) = firstProxy rs q := by
  unfold matchRules firstProxy
  rw [matchLoop_proxy_idx]
  simp

/-- the target handed on is the one `attemptMatch` computes for the chosen rule -/
theorem matchLoop_proxy_target (q : Query) (rs : List Rule) (i : Nat) (copy : Option (Nat × Bytes))
    (j : Nat) (t : Bytes) (h : (matchLoop q rs i copy).proxy = some (j, t)) :
    i ≤ j ∧ ∃ r, rs[j - i]? = some r ∧ attemptMatch r q.scheme q.host q.uri = some t := by
  induction rs generalizing i copy with
  | nil => simp [matchLoop] at h
  | cons r rs ih =>
    unfold matchLoop at h
    cases hh : ruleHit q r with
    | proxy t' =>
      simp only [hh, Option.some.injEq, Prod.mk.injEq] at h
      obtain ⟨rfl, rfl⟩ := h
      exact ⟨Nat.le_refl _, r, by simp, ruleHit_target q r _ (Or.inl hh)⟩
    | skip =>
      simp only [hh] at h
      obtain ⟨hle, r', hr', hat⟩ := ih (i + 1) copy h
      refine ⟨by omega, r', ?_, hat⟩
      have : j - i = (j - (i + 1)) + 1 := by omega
      rw [this, List.getElem?_cons_succ]; exact hr'
    | copy t' =>
      simp only [hh] at h
      obtain ⟨hle, r', hr', hat⟩ := ih (i + 1) _ h
      refine ⟨by omega, r', ?_, hat⟩
      have : j - i = (j - (i + 1)) + 1 := by omega
      rw [this, List.getElem?_cons_succ]; exact hr'

theorem match_proxy_target (rs : List Rule) (q : Query) (j : Nat) (t : Bytes)
    (h : (matchRules rs q).proxy = some (j, t)) :
    ∃ r, rs[j]? = some r ∧ attemptMatch r q.scheme q.host q.uri = some t := by
  obtain ⟨_, r, hr, hat⟩ := matchLoop_proxy_target q rs 0 none j t h
  exact ⟨r, by simpa using hr, hat⟩

/-- **C01, "rules after it never influence the choice".** Once the loop has selected a proxy
    rule, nothing appended after the inspected prefix changes the result — neither the proxy
    slot nor the copy slot. -/
theorem matchLoop_suffix_irrelevant (q : Query) (rs post : List Rule) (i : Nat)
    (copy : Option (Nat × Bytes)) (h : (matchLoop q rs i copy).proxy.isSome) :
    matchLoop q (rs ++ post) i copy = matchLoop q rs i copy := by
  induction rs generalizing i copy with
  | nil => simp [matchLoop] at h
  | cons r rs ih =>
    rw [List.cons_append]
    unfold matchLoop at h ⊢
    cases hh : ruleHit q r with
    | proxy t => rfl
    | skip => simp only [hh] at h ⊢; exact ih _ _ h
    | copy t => simp only [hh] at h ⊢; exact ih _ _ h

theorem match_suffix_irrelevant (q : Query) (rs post post' : List Rule)
    (h : (matchRules rs q).proxy.isSome) :
    matchRules (rs ++ post) q = matchRules (rs ++ post') q := by
  unfold matchRules at *
  rw [matchLoop_suffix_irrelevant q rs post 0 none h, matchLoop_suffix_irrelevant q rs post' 0 none h]

/-- a rule that is disabled, excludes the method or does not match contributes nothing,
    wherever it stands -/
theorem matchLoop_skip_irrelevant (q : Query) (pre post : List Rule) (r : Rule)
    (hr : applies r q = false) (copy : Option (Nat × Bytes)) (i : Nat) :
    (matchLoop q (pre ++ r :: post) i copy).proxy.map (·.2)
      = (matchLoop q (pre ++ post) i copy).proxy.map (·.2) := by
  have hskip : ruleHit q r = .skip := by
    cases hh : ruleHit q r with
    | skip => rfl
    | proxy t =>
      have := (ruleHit_proxy_iff q r).1 ⟨t, hh⟩
      simp [appliesProxy, hr] at this
    | copy t =>
      have := (ruleHit_copy_iff q r).1 ⟨t, hh⟩
      simp [appliesCopy, hr] at this
  induction pre generalizing i copy with
  | nil =>
    simp only [List.nil_append]
    rw [matchLoop, hskip]
    -- the remaining list is scanned with indices shifted by one; targets are unaffected
    have gen : ∀ (l : List Rule) (a b : Nat) (c : Option (Nat × Bytes)) (c' : Option (Nat × Bytes)),
        (matchLoop q l a c).proxy.map (·.2) = (matchLoop q l b c').proxy.map (·.2) := by
      intro l
      induction l with
      | nil => intros; simp [matchLoop]
      | cons x xs ihx =>
        intro a b c c'
        unfold matchLoop
        cases ruleHit q x with
        | skip => exact ihx _ _ _ _
        | proxy t => rfl
        | copy t => exact ihx _ _ _ _
    exact gen post _ _ _ _
  | cons x xs ih =>
    simp only [List.cons_append]
    unfold matchLoop
    cases ruleHit q x with
    | skip => exact ih _ _
    | proxy t => rfl
    | copy t => exact ih _ _

/-- the model's observable for one request: which rule is contacted as proxy target and,
    when there is none, the 404 of proxy.go:262-265 -/
def modelObs (rs : List Rule) (q : Query) (originStatus : Nat) : Obs :=
  match (matchRules rs q).proxy with
  | some (i, _) => { proxyRule := some i, status := originStatus }
  | none => { proxyRule := none, status := 404 }

/-- **C01 as stated**, on the model: for every rule list, request and origin status the
    oracle accepts what the model does. -/
def Statement : Prop :=
  ∀ (rs : List Rule) (q : Query) (originStatus : Nat), holds rs q (modelObs rs q originStatus) = true

theorem holds_model : Statement := by
  intro rs q st
  have h := match_proxy_first rs q
  unfold holds modelObs
  cases hp : (matchRules rs q).proxy with
  | none =>
    rw [hp] at h
    simp only [Option.map_none] at h
    rw [← h]; simp
  | some x =>
    obtain ⟨i, t⟩ := x
    rw [hp] at h
    simp only [Option.map_some] at h
    rw [← h]; simp

/-! Non-vacuity: a five-rule list with a disabled rule, a method-filtered rule, a copy rule and
    two overlapping wildcard prefixes; requests hitting each. -/
def exRules : List Rule := [
  { path := b!"/a/*", wci := some 3, dest := b!"http://d0/$1", enabled := false },
  { path := b!"/a/*", wci := some 3, dest := b!"http://d1/$1", methods := [b!"POST"] },
  { path := b!"/a/*", wci := some 3, dest := b!"http://c2/$1", type := .copy },
  { path := b!"/a/b/*", wci := some 5, dest := b!"http://d3/$1" },
  { path := b!"/a/*", wci := some 3, dest := b!"http://d4/$1" } ]

example : (matchRules exRules ⟨b!"http", b!"h", b!"/a/b/c", b!"GET"⟩)
    = { proxy := some (3, b!"http://d3/c"), copy := some (2, b!"http://c2/b/c") } := by decide
example : (matchRules exRules ⟨b!"http", b!"h", b!"/a/x", b!"POST"⟩).proxy = some (1, b!"http://d1/x") := by decide
example : (matchRules exRules ⟨b!"http", b!"h", b!"/a/", b!"GET"⟩).proxy = none := by decide
example : firstProxy exRules ⟨b!"http", b!"h", b!"/a/x", b!"GET"⟩ = some 4 := by decide

end Props.C01
