import RrModel.Exec
import RrProofs.Lemmas.Exec
/-
  C20 — the client-invisibility clause, on the executor model (routeRequest / performRequest):
  a copy rule whose destination is not also a destination of the proxied request changes neither
  the routing result nor the proxied contacts — whatever the copy destination does, and whether or
  not the copy request can be built (a copy request that cannot be built is logged and dropped:
  repaired finding C20-a).  Proof: a simulation (`Model.ExecSim.Sim hc`, RrProofs/Lemmas/Exec.lean)
  between the run with the copy and the run without it; the two runs agree up to the copy host's
  connection-failure counter and the copy host's contacts.
-/
namespace Props.C20Exec
open Go Model Model.ExecSim

/-- hypotheses under which the copy rule must be invisible: its destination host `hc` (its target
    parses) is not also a destination of the proxied request (main rule or a retry_rule fallback) —
    otherwise the scripted origin's per-host connection-failure counter is shared, which is an
    artefact of the fault model, not of rrrouter.  Nothing is assumed about whether the copy
    request can be BUILT (no `builds` field any more: a 407 while building it is only logged);
    `noPanic` excludes only the Go run-time panic `secrets[0]` on an empty, non-nil secret list,
    which is no error value and which no accepted configuration produces (config.RoutingSecrets
    is nil or non-empty). -/
structure Separate (cfg : ExecCfg) (q : Query) (m : Bytes) (chain : List Rule)
    (main : Option (Rule × Bytes × Option Nat)) (copy : Rule × Bytes) (hc : Bytes) : Prop where
  parses : destHost copy.2 = some hc
  noPanic : cfg.build copy.1.internal ≠ some .panicNoSecrets
  notMain : ∀ x, main = some x → destHost x.2.1 ≠ some hc
  notFallback : ∀ rr ∈ chain, ∀ x, fallbackMatch q m rr = some x → destHost x.2.1 ≠ some hc

/-- **copy_invisible**: whatever the copy destination does (any status, any number of refused
    connections, any body), the routing result handed to the response stage is exactly what it
    would have been without the copy rule — for every fault script, retry count, retry chain. -/
def CopyInvisible : Prop :=
  ∀ (cfg : ExecCfg) (q : Query) (m b : Bytes) (chain : List Rule)
    (main : Option (Rule × Bytes × Option Nat)) (copy : Rule × Bytes) (hc : Bytes),
    Separate cfg q m chain main copy hc →
    (routeRequest cfg q m chain main (some copy) { remaining := b }).2
      = (routeRequest cfg q m chain main none { remaining := b }).2

/-- … and the proxied contacts are the same: removing the copy destination's contacts from the
    trace with the copy rule gives the trace without it -/
def CopyInvisibleContacts : Prop :=
  ∀ (cfg : ExecCfg) (q : Query) (m b : Bytes) (chain : List Rule)
    (main : Option (Rule × Bytes × Option Nat)) (copy : Rule × Bytes) (hc : Bytes),
    Separate cfg q m chain main copy hc →
    ((routeRequest cfg q m chain main (some copy) { remaining := b }).1.contacts.filter (·.host ≠ hc))
      = (routeRequest cfg q m chain main none { remaining := b }).1.contacts

/-! ### one pass -/

/-- the main stage to a host other than `hc` on `Sim`-related states, from body sources that
    deliver the same bytes: same stage result, `Sim` kept -/
theorem mainStage_sim (cfg : ExecCfg) (m : Bytes) (hasRetry : Bool) (hc : Bytes)
    (mh : Option (Option Bytes)) (hmh : mh ≠ some (some hc)) (idx : Option Nat)
    (src src' : BodySrc) (s s' : ExecState) (hs : Sim hc s s')
    (hb : delivered s src = delivered s' src') :
    (mainStage cfg m hasRetry mh idx src s).2 = (mainStage cfg m hasRetry mh idx src' s').2 ∧
    Sim hc (mainStage cfg m hasRetry mh idx src s).1 (mainStage cfg m hasRetry mh idx src' s').1 := by
  unfold mainStage
  match mh, hmh with
  | some (some h), hmh =>
    have hne : h ≠ hc := fun e => hmh (by rw [e])
    obtain ⟨hr, hs1⟩ := performRequest_sim cfg.script cfg.retries cfg.excluded hc h m hne
      (!hasRetry) s s' src src' hs hb
    simp only
    cases hp : performRequest cfg.script cfg.retries cfg.excluded s h m src (!hasRetry) with
    | mk t r =>
      cases hp' : performRequest cfg.script cfg.retries cfg.excluded s' h m src' (!hasRetry) with
      | mk t' r' =>
        rw [hp, hp'] at hr hs1
        simp only at hr hs1
        subst hr
        cases r <;> exact ⟨rfl, hs1⟩
  | some none, _ => exact ⟨rfl, hs⟩
  | none, _ => exact ⟨rfl, hs⟩

/-- the copy stage to `hc`, on the left side only: `Sim` kept -/
theorem copyStage_left (cfg : ExecCfg) (m : Bytes) (hasRetry : Bool) (hc : Bytes) (src : BodySrc)
    (s s' : ExecState) (hs : Sim hc s s') :
    Sim hc (copyStage cfg m hasRetry (some (some hc)) src s) s' := by
  unfold copyStage
  exact performRequest_left cfg.script cfg.retries cfg.excluded hc m (!hasRetry) s s' src hs

/-- the two performs without a copy request on `Sim`-related states: deterministic up to `hc`'s
    counter and contacts, provided `hc` is not the destination -/
theorem performBoth_sim (cfg : ExecCfg) (m : Bytes) (hasRetry : Bool) (hc : Bytes)
    (main : Option (Rule × Bytes × Option Nat))
    (hnm : ∀ x, main = some x → destHost x.2.1 ≠ some hc)
    (s s' : ExecState) (hs : Sim hc s s') (hr : s.remaining = s'.remaining) :
    (performBoth cfg m hasRetry main none s).2 = (performBoth cfg m hasRetry main none s').2 ∧
    Sim hc (performBoth cfg m hasRetry main none s).1 (performBoth cfg m hasRetry main none s').1 := by
  have hmh : (main.map fun x => destHost x.2.1) ≠ some (some hc) := by
    cases main with
    | none => simp
    | some x => simpa using hnm x rfl
  unfold performBoth
  simp only [Option.map_none, Option.isSome_none, Bool.and_false, Bool.false_or, copyStage]
  split
  · exact mainStage_sim cfg m hasRetry hc _ hmh _ _ _ _ _ hs (by simp [delivered, hr])
  · exact mainStage_sim cfg m hasRetry hc _ hmh _ _ _ _ _ hs (by simp [delivered, hr])

/-- the two performs with a copy request to `hc` against the two performs without it: same stage
    result, and the states still agree up to the copy host -/
theorem performBoth_copy (cfg : ExecCfg) (m : Bytes) (hasRetry : Bool) (hc : Bytes)
    (main : Option (Rule × Bytes × Option Nat)) (copy : Rule × Bytes)
    (hparse : destHost copy.2 = some hc)
    (hnm : ∀ x, main = some x → destHost x.2.1 ≠ some hc)
    (s s' : ExecState) (hs : Sim hc s s') (hr : s.remaining = s'.remaining) :
    (performBoth cfg m hasRetry main (some copy) s).2 = (performBoth cfg m hasRetry main none s').2 ∧
    Sim hc (performBoth cfg m hasRetry main (some copy) s).1 (performBoth cfg m hasRetry main none s').1 := by
  have hmh : (main.map fun x => destHost x.2.1) ≠ some (some hc) := by
    cases main with
    | none => simp
    | some x => simpa using hnm x rfl
  unfold performBoth
  simp only [Option.map_some, Option.map_none, hparse,
    Option.isSome_some, Option.isSome_none, Bool.and_true, Bool.and_false, Bool.false_or]
  simp only [copyStage]
  by_cases hbuf' : (decide (m ≠ cfg.excluded) || hasRetry) = true
  · -- the run without the copy buffers too
    rw [if_pos hbuf']
    have hbuf : (main.isSome || decide (m ≠ cfg.excluded) || hasRetry) = true := by
      rw [Bool.or_assoc, hbuf', Bool.or_true]
    rw [if_pos hbuf]
    exact mainStage_sim cfg m hasRetry hc _ hmh _ _ _ _ _
      (performRequest_left cfg.script cfg.retries cfg.excluded hc m (!hasRetry) _ _ _ hs)
      (by simp [delivered, hr])
  · -- excluded method, no retry rule: without the copy the client body is read directly
    rw [if_neg hbuf']
    cases main with
    | none =>
      -- no proxied request at all: 404 in both runs, the copy reads the client body
      rw [if_neg (by simpa using hbuf')]
      simp only [Option.map_none, mainStage]
      exact ⟨by trivial, performRequest_left cfg.script cfg.retries cfg.excluded hc m (!hasRetry) _ _ _ hs⟩
    | some x =>
      rw [if_pos (by simp)]
      exact mainStage_sim cfg m hasRetry hc _ hmh _ _ _ _ _
        (performRequest_left cfg.script cfg.retries cfg.excluded hc m (!hasRetry) _ _ _ hs)
        (by simp [delivered, hr])

/-- one pass without a copy rule on `Sim`-related states (the fallback passes of both runs):
    deterministic up to `hc`'s counter and contacts, provided `hc` is not the destination -/
theorem routeOnce_sim (cfg : ExecCfg) (m : Bytes) (hasRetry : Bool) (hc : Bytes)
    (main : Option (Rule × Bytes × Option Nat))
    (hnm : ∀ x, main = some x → destHost x.2.1 ≠ some hc)
    (s s' : ExecState) (hs : Sim hc s s') (hr : s.remaining = s'.remaining) :
    (routeOnce cfg m hasRetry main none s).2 = (routeOnce cfg m hasRetry main none s').2 ∧
    Sim hc (routeOnce cfg m hasRetry main none s).1 (routeOnce cfg m hasRetry main none s').1 := by
  unfold routeOnce
  simp only [Option.map_none, Option.bind_none, reduceCtorEq, or_false, ↓reduceIte, builtCopy]
  split
  · exact ⟨rfl, hs⟩
  · split
    · exact ⟨rfl, hs⟩
    · exact performBoth_sim cfg m hasRetry hc main hnm s s' hs hr

/-- one pass with the copy rule against one pass without it, under the `Separate` hypotheses:
    same stage result, and the states still agree up to the copy host.  Whether the copy request
    can be built does not matter: if it cannot, the pass IS the pass without the copy. -/
theorem routeOnce_copy (cfg : ExecCfg) (m : Bytes) (hasRetry : Bool) (hc : Bytes)
    (main : Option (Rule × Bytes × Option Nat)) (copy : Rule × Bytes)
    (hparse : destHost copy.2 = some hc) (hnp : cfg.build copy.1.internal ≠ some .panicNoSecrets)
    (hnm : ∀ x, main = some x → destHost x.2.1 ≠ some hc)
    (s s' : ExecState) (hs : Sim hc s s') (hr : s.remaining = s'.remaining) :
    (routeOnce cfg m hasRetry main (some copy) s).2 = (routeOnce cfg m hasRetry main none s').2 ∧
    Sim hc (routeOnce cfg m hasRetry main (some copy) s).1 (routeOnce cfg m hasRetry main none s').1 := by
  unfold routeOnce
  simp only [Option.map_some, Option.map_none, Option.bind_some, Option.bind_none, hparse, hnp,
    reduceCtorEq, or_false, ↓reduceIte, Option.some.injEq, builtCopy]
  split
  · exact ⟨rfl, hs⟩
  · split
    · exact ⟨rfl, hs⟩
    · by_cases hb : (cfg.build copy.1.internal).isSome = true
      · -- the copy request cannot be built: it is dropped, both runs do the same
        rw [if_pos hb]
        exact performBoth_sim cfg m hasRetry hc main hnm s s' hs hr
      · rw [if_neg hb]
        exact performBoth_copy cfg m hasRetry hc main copy hparse hnm s s' hs hr

/-! ### the retry chain -/

/-- `routeRequest` without a copy rule on `Sim`-related states: same result, `Sim` kept, for
    every retry chain none of whose destinations is `hc` -/
theorem routeRequest_sim (cfg : ExecCfg) (q : Query) (m : Bytes) (hc : Bytes) (chain : List Rule)
    (main : Option (Rule × Bytes × Option Nat))
    (hnm : ∀ x, main = some x → destHost x.2.1 ≠ some hc)
    (hnf : ∀ rr ∈ chain, ∀ x, fallbackMatch q m rr = some x → destHost x.2.1 ≠ some hc)
    (s s' : ExecState) (hs : Sim hc s s') (hr : s.remaining = s'.remaining) :
    (routeRequest cfg q m chain main none s).2 = (routeRequest cfg q m chain main none s').2 ∧
    Sim hc (routeRequest cfg q m chain main none s).1 (routeRequest cfg q m chain main none s').1 := by
  induction chain generalizing main s s' with
  | nil =>
    obtain ⟨h2, h1⟩ := routeOnce_sim cfg m false hc main hnm s s' hs hr
    unfold routeRequest
    cases ho : routeOnce cfg m false main none s with
    | mk t stg =>
      cases ho' : routeOnce cfg m false main none s' with
      | mk t' stg' =>
        rw [ho, ho'] at h1 h2
        simp only at h1 h2
        subst h2
        cases stg with
        | done r => exact ⟨rfl, h1⟩
        | answered e idx => simp only; split <;> exact ⟨rfl, h1⟩
        | unreachable => exact ⟨rfl, h1⟩
  | cons rr rest ih =>
    obtain ⟨h2, h1⟩ := routeOnce_sim cfg m true hc main hnm s s' hs hr
    have hfb := hnf rr (List.mem_cons_self ..)
    have hrest : ∀ rr' ∈ rest, ∀ x, fallbackMatch q m rr' = some x → destHost x.2.1 ≠ some hc :=
      fun rr' h' => hnf rr' (List.mem_cons_of_mem _ h')
    unfold routeRequest
    cases ho : routeOnce cfg m true main none s with
    | mk t stg =>
      cases ho' : routeOnce cfg m true main none s' with
      | mk t' stg' =>
        rw [ho, ho'] at h1 h2
        simp only at h1 h2
        subst h2
        cases stg with
        | done r => exact ⟨rfl, h1⟩
        | answered e idx =>
          simp only
          split
          · exact ⟨rfl, h1⟩
          · split
            · exact ih _ hfb hrest _ _ h1 hr
            · exact ⟨rfl, h1⟩
        | unreachable => exact ih _ hfb hrest _ _ h1 hr

/-- the whole request: the run with the copy rule against the run without it -/
theorem routeRequest_copy (cfg : ExecCfg) (q : Query) (m : Bytes) (hc : Bytes) (chain : List Rule)
    (main : Option (Rule × Bytes × Option Nat)) (copy : Rule × Bytes)
    (sep : Separate cfg q m chain main copy hc)
    (s s' : ExecState) (hs : Sim hc s s') (hr : s.remaining = s'.remaining) :
    (routeRequest cfg q m chain main (some copy) s).2 = (routeRequest cfg q m chain main none s').2 ∧
    Sim hc (routeRequest cfg q m chain main (some copy) s).1 (routeRequest cfg q m chain main none s').1 := by
  cases chain with
  | nil =>
    obtain ⟨h2, h1⟩ := routeOnce_copy cfg m false hc main copy sep.parses sep.noPanic sep.notMain s s' hs hr
    unfold routeRequest
    cases ho : routeOnce cfg m false main (some copy) s with
    | mk t stg =>
      cases ho' : routeOnce cfg m false main none s' with
      | mk t' stg' =>
        rw [ho, ho'] at h1 h2
        simp only at h1 h2
        subst h2
        cases stg with
        | done r => exact ⟨rfl, h1⟩
        | answered e idx => simp only; split <;> exact ⟨rfl, h1⟩
        | unreachable => exact ⟨rfl, h1⟩
  | cons rr rest =>
    obtain ⟨h2, h1⟩ := routeOnce_copy cfg m true hc main copy sep.parses sep.noPanic sep.notMain s s' hs hr
    have hfb := sep.notFallback rr (List.mem_cons_self ..)
    have hrest : ∀ rr' ∈ rest, ∀ x, fallbackMatch q m rr' = some x → destHost x.2.1 ≠ some hc :=
      fun rr' h' => sep.notFallback rr' (List.mem_cons_of_mem _ h')
    unfold routeRequest
    cases ho : routeOnce cfg m true main (some copy) s with
    | mk t stg =>
      cases ho' : routeOnce cfg m true main none s' with
      | mk t' stg' =>
        rw [ho, ho'] at h1 h2
        simp only at h1 h2
        subst h2
        cases stg with
        | done r => exact ⟨rfl, h1⟩
        | answered e idx =>
          simp only
          split
          · exact ⟨rfl, h1⟩
          · split
            · exact routeRequest_sim cfg q m hc rest _ hfb hrest _ _ h1 hr
            · exact ⟨rfl, h1⟩
        | unreachable => exact routeRequest_sim cfg q m hc rest _ hfb hrest _ _ h1 hr

/-! ### the theorems -/

/-- **C20, client invisibility (result).** -/
theorem copy_invisible : CopyInvisible := by
  intro cfg q m b chain main copy hc sep
  exact (routeRequest_copy cfg q m hc chain main copy sep _ _ (Sim.init hc b b) rfl).1

/-- **C20, client invisibility (proxied contacts).** -/
theorem copy_invisible_contacts : CopyInvisibleContacts := by
  intro cfg q m b chain main copy hc sep
  exact (routeRequest_copy cfg q m hc chain main copy sep _ _ (Sim.init hc b b) rfl).2.2

/-! ### regression instance: the former finding C20-a (repaired by a `fix:` commit) -/

/-- a configuration whose `createProxyRequest` refuses internal rules (client sent an
    originating-IP / request-id header without the routing secret) and accepts external ones -/
def vCfg : ExecCfg := {
  script := [ { host := b!"d0.test", status := 200, headers := [], body := b!"ok", chunked := false, connectErrors := 0, readErrAt := none },
              { host := b!"c0.test", status := 200, headers := [], body := [], chunked := false, connectErrors := 0, readErrAt := none } ],
  retries := 0, excluded := b!"POST",
  build := fun internal => if internal then some .idOrIpNoSecret else none,
  is4xx := fun s => 400 ≤ s && s ≤ 499, isRedirect := fun _ => false, locationOk := fun _ => true }
def vMain : Rule := { path := b!"/m/*", wci := some 3, dest := b!"http://d0.test/$1" }
def vCopy : Rule := { path := b!"/m/*", wci := some 3, dest := b!"http://c0.test/$1", internal := true, type := .copy }
def vQ : Query := ⟨b!"http", b!"h1.test", b!"/m/a", b!"GET"⟩

/-- the copy request of this configuration cannot be built — and it is inside `Separate` all the
    same (before the repair it was outside, by the `builds` field) -/
theorem vSeparate : Separate vCfg vQ b!"GET" [] (some (vMain, b!"http://d0.test/a", some 0))
    (vCopy, b!"http://c0.test/a") b!"c0.test" where
  parses := by decide
  noPanic := by decide
  notMain := by intro x hx; cases hx; decide
  notFallback := by intro rr hrr; cases hrr

example : vCfg.build vCopy.internal = some .idOrIpNoSecret := by decide

/-- external main rule, internal copy rule, only the copy request cannot be built: the result
    with the copy rule now equals the result without it (it used to be the copy's 407) … -/
example :
    (routeRequest vCfg vQ b!"GET" [] (some (vMain, b!"http://d0.test/a", some 0)) (some (vCopy, b!"http://c0.test/a")) { remaining := [] }).2
      = (routeRequest vCfg vQ b!"GET" [] (some (vMain, b!"http://d0.test/a", some 0)) none { remaining := [] }).2 :=
  copy_invisible vCfg vQ b!"GET" [] [] _ _ _ vSeparate

/-- … namely the main destination's 200 … -/
example :
    (match (routeRequest vCfg vQ b!"GET" [] (some (vMain, b!"http://d0.test/a", some 0)) (some (vCopy, b!"http://c0.test/a")) { remaining := [] }).2 with
     | .response e idx => e.status == 200 && e.host == b!"d0.test" && idx == some 0
     | _ => false) = true := by decide

/-- … and the copy is skipped: only the main destination is contacted, as without the copy rule -/
example :
    (routeRequest vCfg vQ b!"GET" [] (some (vMain, b!"http://d0.test/a", some 0)) (some (vCopy, b!"http://c0.test/a")) { remaining := [] }).1.contacts
      = [⟨b!"d0.test", b!"GET", false, []⟩] ∧
    (routeRequest vCfg vQ b!"GET" [] (some (vMain, b!"http://d0.test/a", some 0)) none { remaining := [] }).1.contacts
      = [⟨b!"d0.test", b!"GET", false, []⟩] := by decide

/-- what `noPanic` still excludes is real in the model (and is NOT finding C20-a): with an empty,
    non-nil secret list building the internal copy request panics at `secrets[0]` -/
example :
    (routeRequest { vCfg with build := fun internal => if internal then some .panicNoSecrets else none }
        vQ b!"GET" [] (some (vMain, b!"http://d0.test/a", some 0)) (some (vCopy, b!"http://c0.test/a")) { remaining := [] }).2
      matches .panicked := by decide

/-! ### non-vacuity of `Separate` -/

/-- the copy destination refuses two connections and then answers 500; the main destination
    answers 200 -/
def wCfg : ExecCfg := {
  script := [ { host := b!"d0.test", status := 200, headers := [], body := b!"ok", chunked := false, connectErrors := 0, readErrAt := none },
              { host := b!"c0.test", status := 500, headers := [], body := b!"boom", chunked := false, connectErrors := 2, readErrAt := none } ],
  retries := 2, excluded := b!"POST", build := fun _ => none,
  is4xx := fun s => 400 ≤ s && s ≤ 499, isRedirect := fun _ => false, locationOk := fun _ => true }
def wMain : Rule := { path := b!"/m/*", wci := some 3, dest := b!"http://d0.test/$1" }
def wCopy : Rule := { path := b!"/m/*", wci := some 3, dest := b!"http://c0.test/$1", type := .copy }
def wQ : Query := ⟨b!"http", b!"h1.test", b!"/m/a", b!"PUT"⟩

theorem wSeparate : Separate wCfg wQ b!"PUT" [] (some (wMain, b!"http://d0.test/a", some 0))
    (wCopy, b!"http://c0.test/a") b!"c0.test" where
  parses := by decide
  noPanic := by decide
  notMain := by intro x hx; cases hx; decide
  notFallback := by intro rr hrr; cases hrr

/-- with the copy: three contacts of the copy destination (refused, refused, answered with the
    complete body), then the main destination -/
example :
    (routeRequest wCfg wQ b!"PUT" [] (some (wMain, b!"http://d0.test/a", some 0)) (some (wCopy, b!"http://c0.test/a")) { remaining := b!"payload" }).1.contacts
      = [⟨b!"c0.test", b!"PUT", true, []⟩, ⟨b!"c0.test", b!"PUT", true, []⟩, ⟨b!"c0.test", b!"PUT", false, b!"payload"⟩,
         ⟨b!"d0.test", b!"PUT", false, b!"payload"⟩] := by decide

/-- without it: the main destination only — the traces differ exactly by the copy's contacts -/
example :
    (routeRequest wCfg wQ b!"PUT" [] (some (wMain, b!"http://d0.test/a", some 0)) none { remaining := b!"payload" }).1.contacts
      = [⟨b!"d0.test", b!"PUT", false, b!"payload"⟩] := by decide

/-- the results are equal (by the theorem, through the `Separate` instance), and it is the main
    destination's 200 — not the copy's 500 -/
example :
    (routeRequest wCfg wQ b!"PUT" [] (some (wMain, b!"http://d0.test/a", some 0)) (some (wCopy, b!"http://c0.test/a")) { remaining := b!"payload" }).2
      = (routeRequest wCfg wQ b!"PUT" [] (some (wMain, b!"http://d0.test/a", some 0)) none { remaining := b!"payload" }).2 :=
  copy_invisible wCfg wQ b!"PUT" b!"payload" [] _ _ _ wSeparate

example :
    (match (routeRequest wCfg wQ b!"PUT" [] (some (wMain, b!"http://d0.test/a", some 0)) (some (wCopy, b!"http://c0.test/a")) { remaining := b!"payload" }).2 with
     | .response e idx => e.status == 200 && e.host == b!"d0.test" && idx == some 0
     | _ => false) = true := by decide

/-! A retry chain (`notFallback` non-trivial): excluded method POST, the main destination answers
    404, the retry_rule destination 200, the copy destination refuses the connection; with a
    retry_rule the copy gets a single attempt. -/
def xCfg : ExecCfg := {
  script := [ { host := b!"d0.test", status := 404, headers := [], body := b!"nf", chunked := false, connectErrors := 0, readErrAt := none },
              { host := b!"r0.test", status := 200, headers := [], body := b!"fallback", chunked := false, connectErrors := 0, readErrAt := none },
              { host := b!"c0.test", status := 500, headers := [], body := [], chunked := false, connectErrors := 2, readErrAt := none } ],
  retries := 2, excluded := b!"POST", build := fun _ => none,
  is4xx := fun s => 400 ≤ s && s ≤ 499, isRedirect := fun _ => false, locationOk := fun _ => true }
def xRetry : Rule := { path := b!"/m/*", wci := some 3, dest := b!"http://r0.test/fb/$1" }
def xQ : Query := ⟨b!"http", b!"h1.test", b!"/m/a", b!"POST"⟩

theorem xSeparate : Separate xCfg xQ b!"POST" [xRetry] (some (wMain, b!"http://d0.test/a", some 0))
    (wCopy, b!"http://c0.test/a") b!"c0.test" where
  parses := by decide
  noPanic := by decide
  notMain := by intro x hx; cases hx; decide
  notFallback := by
    intro rr hrr x hx
    have hrr' : rr = xRetry := by simpa using hrr
    subst hrr'
    have h : (fallbackMatch xQ b!"POST" xRetry).map (fun x => destHost x.2.1) = some (some b!"r0.test") := by decide
    rw [hx] at h
    simp only [Option.map_some, Option.some.injEq] at h
    rw [h]; decide

example :
    (routeRequest xCfg xQ b!"POST" [xRetry] (some (wMain, b!"http://d0.test/a", some 0)) (some (wCopy, b!"http://c0.test/a")) { remaining := b!"payload" }).1.contacts
      = [⟨b!"c0.test", b!"POST", true, []⟩, ⟨b!"d0.test", b!"POST", false, b!"payload"⟩, ⟨b!"r0.test", b!"POST", false, b!"payload"⟩] := by decide

example :
    (routeRequest xCfg xQ b!"POST" [xRetry] (some (wMain, b!"http://d0.test/a", some 0)) none { remaining := b!"payload" }).1.contacts
      = [⟨b!"d0.test", b!"POST", false, b!"payload"⟩, ⟨b!"r0.test", b!"POST", false, b!"payload"⟩] := by decide

example :
    (routeRequest xCfg xQ b!"POST" [xRetry] (some (wMain, b!"http://d0.test/a", some 0)) (some (wCopy, b!"http://c0.test/a")) { remaining := b!"payload" }).2
      = (routeRequest xCfg xQ b!"POST" [xRetry] (some (wMain, b!"http://d0.test/a", some 0)) none { remaining := b!"payload" }).2 :=
  copy_invisible xCfg xQ b!"POST" b!"payload" [xRetry] _ _ _ xSeparate

end Props.C20Exec
